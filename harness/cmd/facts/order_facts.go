package main

// Facts for C12 (ordering contract): the shape of SortOrderedComponents, of its comparator, of sort2.Slice,
// and of the loops that walk the sorted slices. Syntactic only (go/ast).

import (
	"fmt"
	"go/ast"
	"path/filepath"
	"sort"
	"strings"
)

// rootIdent descends through calls / conversions / assertions / selectors / index expressions to the variable at the bottom.
func rootIdent(e ast.Expr) string {
	for {
		switch x := e.(type) {
		case *ast.Ident:
			return x.Name
		case *ast.ParenExpr:
			e = x.X
		case *ast.TypeAssertExpr:
			e = x.X
		case *ast.SelectorExpr:
			e = x.X
		case *ast.IndexExpr:
			e = x.X
		case *ast.CallExpr:
			if sel, ok := x.Fun.(*ast.SelectorExpr); ok {
				e = sel.X
			} else if len(x.Args) == 1 {
				e = x.Args[0]
			} else {
				return "?"
			}
		default:
			return "?"
		}
	}
}

func paramIndex(ft *ast.FuncType, name string) string {
	i := 0
	for _, f := range ft.Params.List {
		for _, n := range f.Names {
			if n.Name == name {
				return fmt.Sprint(i)
			}
			i++
		}
	}
	return "?" + name
}

func lastSel(e ast.Expr) string {
	if c, ok := e.(*ast.CallExpr); ok {
		if sel, ok := c.Fun.(*ast.SelectorExpr); ok {
			return sel.Sel.Name
		}
	}
	return "?"
}

// the calls that matter for the ordering contract, with the arguments that say what flows where
func orderCallName(c *ast.CallExpr) string {
	n := exprName(c.Fun)
	switch {
	case n == "append" && len(c.Args) == 2:
		return "append " + exprName(c.Args[0]) + " " + exprName(c.Args[1])
	case strings.HasSuffix(n, "sort2.Slice") && len(c.Args) == 2:
		return "Slice " + exprName(c.Args[0]) + " " + exprName(c.Args[1])
	}
	for _, s := range []string{"SortOrderedComponents", "GetComponentByName", "LoadConfig", "SetConfig", "Run",
		"PostProcessBeforeInitialization", "PostProcessAfterInitialization", "PostProcessAfterInstantiation", "PostProcessProperties"} {
		if n == s || strings.HasSuffix(n, "."+s) {
			return s
		}
	}
	return ""
}

func firstRange(stmts []ast.Stmt) string {
	for _, st := range stmts {
		switch x := st.(type) {
		case *ast.RangeStmt:
			return exprName(x.X)
		case *ast.ForStmt:
			return "for"
		}
	}
	return "<no loop>"
}

func orderFacts(repo string) string {
	var b strings.Builder
	p := func(f string, a ...any) { fmt.Fprintf(&b, f, a...) }
	opts := skOpts{name: orderCallName}

	fh := parseDir(filepath.Join(repo, "util/framework_helper"))
	soc := findFunc(fh, "", "SortOrderedComponents")
	var asserts []string
	if soc != nil && soc.Body != nil {
		ast.Inspect(soc.Body, func(n ast.Node) bool {
			if ta, ok := n.(*ast.TypeAssertExpr); ok && ta.Type != nil {
				asserts = append(asserts, lq(exprName(ta.Type)))
			}
			return true
		})
	}
	p("/-- framework_helper.SortOrderedComponents: its type assertions in source order -/\ndef sortOrderedAsserts : List String := [%s]\n\n", strings.Join(asserts, ", "))
	p("/-- framework_helper.SortOrderedComponents: branches, `append dst src`, `Slice slice comparator` -/\ndef sortOrderedSkel : List Sk := %s\n\n", skOf(soc, opts))

	cmp := "(\"?\", \"?\", \"?\")"
	if fd := findFunc(fh, "", "orderedComponentComparator"); fd != nil && fd.Body != nil && len(fd.Body.List) == 1 {
		if rs, ok := fd.Body.List[0].(*ast.ReturnStmt); ok && len(rs.Results) == 1 {
			if be, ok := rs.Results[0].(*ast.BinaryExpr); ok {
				cmp = fmt.Sprintf("(%s, %s, %s)",
					lq(paramIndex(fd.Type, rootIdent(be.X))+"."+lastSel(be.X)), lq(be.Op.String()),
					lq(paramIndex(fd.Type, rootIdent(be.Y))+"."+lastSel(be.Y)))
			}
		}
	}
	p("/-- orderedComponentComparator: `return <param>.<method>() <op> <param>.<method>()` (parameters by position) -/\ndef orderComparator : String × String × String := %s\n\n", cmp)

	sl := "(\"?\", \"?\")"
	if fd := findFunc(parseDir(filepath.Join(repo, "util/sort2")), "", "Slice"); fd != nil && fd.Body != nil {
		ast.Inspect(fd.Body, func(n ast.Node) bool {
			ce, ok := n.(*ast.CallExpr)
			if !ok || len(ce.Args) != 2 {
				return true
			}
			fl, ok := ce.Args[1].(*ast.FuncLit)
			if !ok || len(fl.Body.List) != 1 {
				return true
			}
			inner := "?"
			if rs, ok := fl.Body.List[0].(*ast.ReturnStmt); ok && len(rs.Results) == 1 {
				if lc, ok := rs.Results[0].(*ast.CallExpr); ok {
					inner = exprName(lc.Fun)
					for _, a := range lc.Args {
						if ix, ok := a.(*ast.IndexExpr); ok {
							inner += " " + exprName(ix.X) + "[" + paramIndex(fl.Type, exprName(ix.Index)) + "]"
						} else {
							inner += " ?"
						}
					}
				}
			}
			sl = fmt.Sprintf("(%s, %s)", lq(exprName(ce.Fun)+" "+exprName(ce.Args[0])), lq(inner))
			return false
		})
	}
	p("/-- sort2.Slice: the library call it makes, and what its index comparator returns (closure parameters by position) -/\ndef sort2Slice : String × String := %s\n\n", sl)

	// per call site: (function, variable assigned from SortOrderedComponents, what the next loop of the same block ranges over)
	var flows []string
	for _, dir := range []string{"container/factory", "app", "configure"} {
		for _, f := range parseDir(filepath.Join(repo, dir)) {
			for _, d := range f.Decls {
				fd, ok := d.(*ast.FuncDecl)
				if !ok || fd.Body == nil {
					continue
				}
				ast.Inspect(fd.Body, func(n ast.Node) bool {
					blk, ok := n.(*ast.BlockStmt)
					if !ok {
						return true
					}
					for i, st := range blk.List {
						as, ok := st.(*ast.AssignStmt)
						if !ok || len(as.Rhs) != 1 || len(as.Lhs) != 1 {
							continue
						}
						if ce, ok := as.Rhs[0].(*ast.CallExpr); ok && strings.HasSuffix(exprName(ce.Fun), "SortOrderedComponents") {
							flows = append(flows, fmt.Sprintf("(%s, %s, %s)", lq(dir+"."+fd.Name.Name), lq(exprName(as.Lhs[0])), lq(firstRange(blk.List[i+1:]))))
						}
					}
					return true
				})
			}
		}
	}
	sort.Strings(flows)
	p("/-- per sort call site: (function, variable the sorted slice is assigned to, what the next loop ranges over) -/\ndef sortFlow : List (String × String × String) := [%s]\n\n", strings.Join(flows, ", "))

	fac := parseDir(filepath.Join(repo, "container/factory"))
	p("/-- configure.loadConfigure -/\ndef loadConfigureSkel : List Sk := %s\n\n", skOf(findFunc(parseDir(filepath.Join(repo, "configure")), "configure", "loadConfigure"), opts))
	p("/-- PostProcessorRegistrationDelegate.InvokeBeanFactoryPostProcessors (sort, resolve, append) -/\ndef invokeRegisterSkel : List Sk := %s\n\n",
		skOf(findFunc(fac, "PostProcessorRegistrationDelegate", "InvokeBeanFactoryPostProcessors"), opts))
	p("/-- the processor loops of the delegate: (function, what it ranges over, skeleton) -/\ndef processorLoops : List (String × String × List Sk) := [\n")
	loops := []string{"applyPostProcessBeforeInitialization", "applyPostProcessAfterInitialization", "ResolveAfterInstantiation"}
	for i, name := range loops {
		fd := findFunc(fac, "PostProcessorRegistrationDelegate", name)
		rng := "<function not found>"
		if fd != nil && fd.Body != nil {
			rng = firstRange(fd.Body.List)
		}
		sep := ","
		if i == len(loops)-1 {
			sep = ""
		}
		p("  (%s, %s, %s)%s\n", lq(name), lq(rng), skOf(fd, opts), sep)
	}
	p("]\n\n")

	// (added) the early-reference loop and the Configure entry points that are driven several times
	opts2 := skOpts{name: func(c *ast.CallExpr) string {
		if n := orderCallName(c); n != "" {
			return n
		}
		n := exprName(c.Fun)
		for _, s := range []string{"GetEarlyBeanReference", "loadConfigure"} {
			if n == s || strings.HasSuffix(n, "."+s) {
				return s
			}
		}
		return ""
	}}
	gebr := findFunc(fac, "PostProcessorRegistrationDelegate", "GetEarlyBeanReference")
	p("/-- PostProcessorRegistrationDelegate.GetEarlyBeanReference: (what its loop ranges over, skeleton) -/\ndef earlyRefLoopFact : String × List Sk := (%s, %s)\n\n",
		lq(deepFirstRange(gebr)), skOf(gebr, opts2))
	cfg := parseDir(filepath.Join(repo, "configure"))
	p("/-- configure.Initialize / AddLoaders / SetLoaders: skeletons, and the assignments to the loader slice in each function of the type -/\n")
	p("def confInitializeSkel : List Sk := %s\n\n", skOf(findFunc(cfg, "configure", "Initialize"), opts2))
	p("def confAddLoadersSkel : List Sk := %s\n\n", skOf(findFunc(cfg, "configure", "AddLoaders"), opts2))
	p("def confLoaderWrites : List (String × String) := [%s]\n\n", strings.Join(loaderWrites(cfg), ", "))
	return b.String()
}

// deepFirstRange: what the first `range` loop anywhere in the function ranges over
func deepFirstRange(fd *ast.FuncDecl) string {
	if fd == nil || fd.Body == nil {
		return "<function not found>"
	}
	res := "<no loop>"
	found := false
	ast.Inspect(fd.Body, func(n ast.Node) bool {
		if found {
			return false
		}
		if rs, ok := n.(*ast.RangeStmt); ok {
			res = exprName(rs.X)
			found = true
			return false
		}
		return true
	})
	return res
}

// loaderWrites: every assignment whose left side is `<recv>.loaders`, as (function, right side rendered by its root call / ident)
func loaderWrites(files []*ast.File) []string {
	var out []string
	for _, f := range files {
		for _, d := range f.Decls {
			fd, ok := d.(*ast.FuncDecl)
			if !ok || fd.Body == nil {
				continue
			}
			ast.Inspect(fd.Body, func(n ast.Node) bool {
				as, ok := n.(*ast.AssignStmt)
				if !ok || len(as.Lhs) != 1 || len(as.Rhs) != 1 {
					return true
				}
				if sel, ok := as.Lhs[0].(*ast.SelectorExpr); !ok || sel.Sel.Name != "loaders" {
					return true
				}
				rhs := exprName(as.Rhs[0])
				if ce, ok := as.Rhs[0].(*ast.CallExpr); ok {
					rhs = exprName(ce.Fun)
					for _, a := range ce.Args {
						rhs += " " + exprName(a)
					}
				}
				out = append(out, fmt.Sprintf("(%s, %s)", lq(fd.Name.Name), lq(rhs)))
				return true
			})
		}
	}
	sort.Strings(out)
	return out
}
