package main

import (
	"bytes"
	"go/ast"
	"go/printer"
	"path/filepath"
	"sort"
	"strings"
)

// valueFacts (C17, C19): how the library drives mapstructure — the DecoderConfig literal of newDecodeConfig
// (component_definition/property.go) as (field, source text of its value) pairs in textual order, the decode hooks
// Property.Unmarshall installs (unconditionally / under which argument), and the argument that names the tag.
func valueFacts(repo string) string {
	files := parseDir(filepath.Join(repo, "component_definition"))
	src := func(e ast.Node) string {
		var buf bytes.Buffer
		_ = printer.Fprint(&buf, fset, e)
		return strings.Join(strings.Fields(buf.String()), " ")
	}
	var b strings.Builder
	var opts []string
	if fd := findFunc(files, "", "newDecodeConfig"); fd != nil && fd.Body != nil {
		ast.Inspect(fd.Body, func(n ast.Node) bool {
			cl, ok := n.(*ast.CompositeLit)
			if !ok || !strings.HasSuffix(exprName(cl.Type), "DecoderConfig") {
				return true
			}
			for _, el := range cl.Elts {
				if kv, ok := el.(*ast.KeyValueExpr); ok {
					opts = append(opts, "("+lq(exprName(kv.Key))+", "+lq(src(kv.Value))+")")
				}
			}
			return false
		})
	}
	b.WriteString("/-- component_definition newDecodeConfig: the mapstructure.DecoderConfig literal, field by field (source text) -/\n")
	b.WriteString("def decoderOptions : List (String × String) := [" + strings.Join(opts, ", ") + "]\n\n")
	// every call of a mapstructure.*HookFunc constructor inside Unmarshall, with the source text of its arguments
	var hooks []string
	consts := map[string]string{}
	for _, f := range files {
		for _, d := range f.Decls {
			if gd, ok := d.(*ast.GenDecl); ok {
				for _, sp := range gd.Specs {
					if vs, ok := sp.(*ast.ValueSpec); ok {
						for i, nm := range vs.Names {
							if i < len(vs.Values) {
								if bl, ok := vs.Values[i].(*ast.BasicLit); ok {
									consts[nm.Name] = bl.Value
								}
							}
						}
					}
				}
			}
		}
	}
	if fd := findFunc(files, "Property", "Unmarshall"); fd != nil && fd.Body != nil {
		ast.Inspect(fd.Body, func(n ast.Node) bool {
			c, ok := n.(*ast.CallExpr)
			if !ok {
				return true
			}
			name := exprName(c.Fun)
			if strings.HasPrefix(name, "mapstructure.") && strings.HasSuffix(name, "HookFunc") {
				var as []string
				for _, a := range c.Args {
					as = append(as, src(a))
				}
				hooks = append(hooks, "("+lq(name)+", "+lq(strings.Join(as, ", "))+")")
			}
			return true
		})
	}
	b.WriteString("/-- Property.Unmarshall: the mapstructure hook constructors it calls, in textual order, with their arguments -/\n")
	b.WriteString("def unmarshallHooks : List (String × String) := [" + strings.Join(hooks, ", ") + "]\n\n")
	var cs []string
	for _, k := range []string{"unmarshallArgTagName", "unmarshallArgTimeLayout"} {
		if v, ok := consts[k]; ok {
			cs = append(cs, "("+lq(k)+", "+v+")")
		}
	}
	sort.Strings(cs)
	b.WriteString("def unmarshallArgNames : List (String × String) := [" + strings.Join(cs, ", ") + "]\n\n")
	return b.String()
}
