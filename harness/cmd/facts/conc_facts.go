package main

import (
	"go/ast"
	"strings"
)

// concFacts (C20): the generic twin of ConcurrentSets (util/list/generic_concurrent_set.go, type gcset).
func concFacts(listFiles []*ast.File) string {
	var b strings.Builder
	b.WriteString("/-- util/list gcset (GenericConcurrentSets) -/\ndef genericConcurrentSetMethods : List (String × List Sk) := [\n")
	ms := []string{"Put", "Exists", "Remove"}
	for i, m := range ms {
		sep := ","
		if i == len(ms)-1 {
			sep = ""
		}
		b.WriteString("  (" + lq(m) + ", " + methodSk(listFiles, "gcset", m) + ")" + sep + "\n")
	}
	b.WriteString("]\n\n")
	return b.String()
}
