package main

import (
	"go/ast"
	"go/token"
	"os"
	"path/filepath"
	"strings"
)

// concFacts (C20): the generic twin of ConcurrentSets (util/list/generic_concurrent_set.go, type gcset).
func concFacts(listFiles []*ast.File) string {
	var b strings.Builder
	b.WriteString("/-- util/list gcset (GenericConcurrentSets) -/\ndef genericConcurrentSetMethods : List (String × List Sk) := [\n")
	ms := []string{"Put", "Exists", "Remove"}
	for i, m := range ms {
		sep := ","
		if i == len(ms)-1 {
			sep = ""
		}
		b.WriteString("  (" + lq(m) + ", " + methodSk(listFiles, "gcset", m) + ")" + sep + "\n")
	}
	b.WriteString("]\n\n")
	b.WriteString(prefFacts())
	return b.String()
}

// prefFacts (C20, seventh round): syslog.Pref (syslog/log.go) — what it does with the process-wide prefix cache. Calls through
// the package-level variable `prefCache` as `.call "prefCache.<Method>"`, every assignment that is not to a local variable of
// the function (a field, a dereference, an element, a package-level variable) as `.write "<lhs>"`, with the nesting.
func prefFacts() string {
	var files []*ast.File
	if len(os.Args) > 1 {
		files = parseDir(filepath.Join(os.Args[1], "syslog"))
	}
	fd := findFunc(files, "", "Pref")
	sk := "[.call \"<function not found>\"]"
	if fd != nil && fd.Body != nil {
		locals := map[string]bool{}
		for _, p := range fd.Type.Params.List {
			for _, n := range p.Names {
				locals[n.Name] = true
			}
		}
		sk = "[" + strings.Join(prefSk(fd.Body.List, locals), ", ") + "]"
	}
	return "/-- syslog.Pref: calls on the package-level prefix cache and writes to anything but its own locals -/\ndef syslogPrefSkel : List Sk := " + sk + "\n\n"
}

func prefSk(stmts []ast.Stmt, locals map[string]bool) []string {
	var out []string
	calls := func(e ast.Node) {
		if e == nil {
			return
		}
		ast.Inspect(e, func(m ast.Node) bool {
			switch x := m.(type) {
			case *ast.FuncLit:
				return false // the value function runs inside LoadOrStoreFn
			case *ast.CallExpr:
				if n := exprName(x.Fun); strings.HasPrefix(n, "prefCache.") {
					out = append(out, ".call "+lq(n))
				}
			}
			return true
		})
	}
	for _, st := range stmts {
		switch x := st.(type) {
		case *ast.AssignStmt:
			for _, r := range x.Rhs {
				calls(r)
			}
			for _, l := range x.Lhs {
				if id, ok := l.(*ast.Ident); ok {
					if x.Tok == token.DEFINE {
						locals[id.Name] = true
					} else if id.Name != "_" && !locals[id.Name] {
						out = append(out, ".write "+lq(id.Name))
					}
					continue
				}
				out = append(out, ".write "+lq(exprName(l)))
			}
		case *ast.IncDecStmt:
			if id, ok := x.X.(*ast.Ident); !ok || !locals[id.Name] {
				out = append(out, ".write "+lq(exprName(x.X)))
			}
		case *ast.DeclStmt:
			if gd, ok := x.Decl.(*ast.GenDecl); ok {
				for _, sp := range gd.Specs {
					if vs, ok := sp.(*ast.ValueSpec); ok {
						for _, n := range vs.Names {
							locals[n.Name] = true
						}
						for _, v := range vs.Values {
							calls(v)
						}
					}
				}
			}
		case *ast.ExprStmt:
			calls(x.X)
		case *ast.ReturnStmt:
			for _, r := range x.Results {
				calls(r)
			}
			out = append(out, ".call \"return\"")
		case *ast.IfStmt:
			if x.Init != nil {
				out = append(out, prefSk([]ast.Stmt{x.Init}, locals)...)
			}
			calls(x.Cond)
			out = append(out, ".branch ["+strings.Join(prefSk(x.Body.List, locals), ", ")+"]")
			if x.Else != nil {
				out = append(out, ".branch ["+strings.Join(prefSk([]ast.Stmt{x.Else}, locals), ", ")+"]")
			}
		case *ast.BlockStmt:
			out = append(out, prefSk(x.List, locals)...)
		case *ast.ForStmt:
			out = append(out, ".loop ["+strings.Join(prefSk(x.Body.List, locals), ", ")+"]")
		case *ast.RangeStmt:
			calls(x.X)
			out = append(out, ".loop ["+strings.Join(prefSk(x.Body.List, locals), ", ")+"]")
		case *ast.GoStmt:
			out = append(out, ".spawn [.call "+lq(exprName(x.Call.Fun))+"]")
		case *ast.DeferStmt:
			out = append(out, ".deferCall "+lq(exprName(x.Call.Fun)))
		default:
			out = append(out, ".call \"<statement not understood>\"")
		}
	}
	return out
}
