// facts: a small go/ast translator. It re-extracts from /repo's current source the facts that
// differential testing sees badly or not at all, and prints them as Lean definitions
// (lean/Ioc/Generated/Facts.lean). Theorems in lean/IocProofs are stated about these terms,
// so they are re-checked against what the code says now. Syntactic only: it does not type-check.
//
//	facts <repo-dir>   > Facts.lean
package main

import (
	"fmt"
	"go/ast"
	"go/constant"
	"go/parser"
	"go/token"
	"os"
	"path/filepath"
	"sort"
	"strconv"
	"strings"
)

var fset = token.NewFileSet()

func parseDir(dir string) []*ast.File {
	pkgs, err := parser.ParseDir(fset, dir, func(fi os.FileInfo) bool {
		return !strings.HasSuffix(fi.Name(), "_test.go") && fi.Name() != "verif_hook.go"
	}, 0)
	if err != nil {
		fmt.Fprintln(os.Stderr, "facts:", err)
		os.Exit(1)
	}
	var names []string
	byName := map[string]*ast.File{}
	for _, p := range pkgs {
		for n, f := range p.Files {
			names = append(names, n)
			byName[n] = f
		}
	}
	sort.Strings(names)
	var fs []*ast.File
	for _, n := range names {
		fs = append(fs, byName[n])
	}
	return fs
}

// ---- constants with iota

func evalConsts(files []*ast.File) map[string]int64 {
	out := map[string]int64{}
	for _, f := range files {
		for _, d := range f.Decls {
			gd, ok := d.(*ast.GenDecl)
			if !ok || gd.Tok != token.CONST {
				continue
			}
			var last []ast.Expr
			for iota, sp := range gd.Specs {
				vs := sp.(*ast.ValueSpec)
				vals := vs.Values
				if len(vals) == 0 {
					vals = last
				} else {
					last = vals
				}
				for i, n := range vs.Names {
					if i < len(vals) {
						if v, ok := eval(vals[i], int64(iota), out); ok {
							out[n.Name] = v
						}
					}
				}
			}
		}
	}
	return out
}

func eval(e ast.Expr, iota int64, env map[string]int64) (int64, bool) {
	switch x := e.(type) {
	case *ast.BasicLit:
		if x.Kind != token.INT {
			return 0, false
		}
		v := constant.MakeFromLiteral(x.Value, x.Kind, 0)
		if i, ok := constant.Int64Val(v); ok {
			return i, true
		}
	case *ast.Ident:
		if x.Name == "iota" {
			return iota, true
		}
		v, ok := env[x.Name]
		return v, ok
	case *ast.ParenExpr:
		return eval(x.X, iota, env)
	case *ast.UnaryExpr:
		a, ok := eval(x.X, iota, env)
		if ok && x.Op == token.SUB {
			return -a, true
		}
		return a, ok && x.Op == token.ADD
	case *ast.BinaryExpr:
		a, ok1 := eval(x.X, iota, env)
		b, ok2 := eval(x.Y, iota, env)
		if !ok1 || !ok2 {
			return 0, false
		}
		switch x.Op {
		case token.ADD:
			return a + b, true
		case token.SUB:
			return a - b, true
		case token.MUL:
			return a * b, true
		case token.SHL:
			return a << uint(b), true
		}
	}
	return 0, false
}

func exprName(e ast.Expr) string {
	switch x := e.(type) {
	case *ast.Ident:
		return x.Name
	case *ast.SelectorExpr:
		return exprName(x.X) + "." + x.Sel.Name
	case *ast.StarExpr:
		return "*" + exprName(x.X)
	case *ast.IndexExpr:
		return exprName(x.X)
	case *ast.IndexListExpr:
		return exprName(x.X)
	case *ast.CallExpr:
		return exprName(x.Fun) + "()"
	case *ast.ParenExpr:
		return exprName(x.X)
	case *ast.MapType:
		return "map[" + exprName(x.Key) + "]" + exprName(x.Value)
	case *ast.ArrayType:
		if x.Len == nil {
			return "[]" + exprName(x.Elt)
		}
	}
	return "?"
}

// ---- built-in processors: embedding closure and Order() constant

type procFact struct {
	name       string
	prio, lazy bool
	order      int64
	orderName  string
}

func processors(files []*ast.File, consts map[string]int64) []procFact {
	embeds := map[string][]string{}
	order := map[string]string{}
	for _, f := range files {
		for _, d := range f.Decls {
			switch x := d.(type) {
			case *ast.GenDecl:
				for _, sp := range x.Specs {
					ts, ok := sp.(*ast.TypeSpec)
					if !ok {
						continue
					}
					st, ok := ts.Type.(*ast.StructType)
					if !ok {
						continue
					}
					for _, fl := range st.Fields.List {
						if len(fl.Names) == 0 {
							embeds[ts.Name.Name] = append(embeds[ts.Name.Name], strings.TrimPrefix(exprName(fl.Type), "*"))
						}
					}
				}
			case *ast.FuncDecl:
				if x.Name.Name == "Order" && x.Recv != nil && x.Body != nil && len(x.Body.List) == 1 {
					if rs, ok := x.Body.List[0].(*ast.ReturnStmt); ok && len(rs.Results) == 1 {
						order[strings.TrimPrefix(exprName(x.Recv.List[0].Type), "*")] = exprName(rs.Results[0])
					}
				}
			}
		}
	}
	var closure func(t string, seen map[string]bool) []string
	closure = func(t string, seen map[string]bool) []string {
		var r []string
		for _, e := range embeds[t] {
			if seen[e] {
				continue
			}
			seen[e] = true
			r = append(r, e)
			r = append(r, closure(e, seen)...)
		}
		return r
	}
	var out []procFact
	for t, o := range order {
		es := closure(t, map[string]bool{})
		pf := procFact{name: t, orderName: o}
		for _, e := range es {
			if e == "definition.PriorityComponent" {
				pf.prio = true
			}
			if e == "definition.LazyInitComponent" {
				pf.lazy = true
			}
		}
		if v, ok := consts[o]; ok {
			pf.order = v
		} else if v, err := strconv.ParseInt(o, 10, 64); err == nil {
			pf.order = v
		} else {
			pf.order = -999999 // unknown expression: the obligations about the table will not check
		}
		out = append(out, pf)
	}
	sort.Slice(out, func(i, j int) bool { return out[i].name < out[j].name })
	return out
}

// ---- skeletons

type skOpts struct {
	name    func(c *ast.CallExpr) string // "" = not interesting
	compact bool                         // drop `return`s and empty branches/loops (log-only ifs, guard clauses) from the skeleton
}

func wrapSk(kind string, body []string, o skOpts) []string {
	if o.compact && len(body) == 0 {
		return nil
	}
	return []string{kind + " [" + strings.Join(body, ", ") + "]"}
}

func lq(s string) string { return strconv.Quote(s) }

// skeleton renders statements as a Lean `List Sk` literal.
func skeleton(stmts []ast.Stmt, o skOpts, inGo bool, locals map[string]bool) []string {
	var out []string
	var exprCalls func(e ast.Node)
	exprCalls = func(e ast.Node) {
		if e == nil {
			return
		}
		ast.Inspect(e, func(m ast.Node) bool {
			switch x := m.(type) {
			case *ast.FuncLit:
				return false
			case *ast.CallExpr:
				// arguments first (evaluation order), then the call itself
				for _, a := range x.Args {
					exprCalls(a)
				}
				if sel, ok := x.Fun.(*ast.SelectorExpr); ok {
					exprCalls(sel.X)
				}
				if n := o.name(x); n != "" {
					out = append(out, ".call "+lq(n))
				}
				return false
			}
			return true
		})
	}
	for _, st := range stmts {
		switch x := st.(type) {
		case *ast.GoStmt:
			if fl, ok := x.Call.Fun.(*ast.FuncLit); ok {
				loc := map[string]bool{}
				for _, p := range fl.Type.Params.List {
					for _, n := range p.Names {
						loc[n.Name] = true
					}
				}
				out = append(out, ".spawn ["+strings.Join(skeleton(fl.Body.List, o, true, loc), ", ")+"]")
			} else {
				out = append(out, ".spawn [.call "+lq(exprName(x.Call.Fun))+"]")
			}
		case *ast.ForStmt:
			out = append(out, wrapSk(".loop", skeleton(x.Body.List, o, inGo, locals), o)...)
		case *ast.RangeStmt:
			exprCalls(x.X)
			out = append(out, wrapSk(".loop", skeleton(x.Body.List, o, inGo, locals), o)...)
		case *ast.DeferStmt:
			if n := o.name(x.Call); n != "" {
				out = append(out, ".deferCall "+lq(n))
			}
		case *ast.IfStmt:
			if x.Init != nil {
				out = append(out, skeleton([]ast.Stmt{x.Init}, o, inGo, locals)...)
			}
			exprCalls(x.Cond)
			out = append(out, wrapSk(".branch", skeleton(x.Body.List, o, inGo, locals), o)...)
			if x.Else != nil {
				switch e := x.Else.(type) {
				case *ast.BlockStmt:
					out = append(out, wrapSk(".branch", skeleton(e.List, o, inGo, locals), o)...)
				case *ast.IfStmt:
					out = append(out, skeleton([]ast.Stmt{e}, o, inGo, locals)...)
				}
			}
		case *ast.BlockStmt:
			out = append(out, skeleton(x.List, o, inGo, locals)...)
		case *ast.AssignStmt:
			for _, r := range x.Rhs {
				exprCalls(r)
			}
			if inGo {
				for _, l := range x.Lhs {
					if id, ok := l.(*ast.Ident); ok && id.Name != "_" {
						if x.Tok == token.DEFINE {
							locals[id.Name] = true
						} else if !locals[id.Name] {
							out = append(out, ".write "+lq(id.Name))
						}
					}
				}
			}
		case *ast.DeclStmt:
			if gd, ok := x.Decl.(*ast.GenDecl); ok {
				for _, sp := range gd.Specs {
					if vs, ok := sp.(*ast.ValueSpec); ok {
						for _, n := range vs.Names {
							if inGo {
								locals[n.Name] = true
							}
						}
						for _, v := range vs.Values {
							exprCalls(v)
						}
					}
				}
			}
		case *ast.ExprStmt:
			exprCalls(x.X)
		case *ast.ReturnStmt:
			for _, r := range x.Results {
				exprCalls(r)
			}
			if !o.compact {
				out = append(out, ".call \"return\"")
			}
		case *ast.SwitchStmt, *ast.TypeSwitchStmt, *ast.SelectStmt:
			ast.Inspect(x, func(m ast.Node) bool {
				if cc, ok := m.(*ast.CaseClause); ok {
					out = append(out, ".branch ["+strings.Join(skeleton(cc.Body, o, inGo, locals), ", ")+"]")
					return false
				}
				return true
			})
		}
	}
	return out
}

func findFunc(files []*ast.File, recv, name string) *ast.FuncDecl {
	for _, f := range files {
		for _, d := range f.Decls {
			if fd, ok := d.(*ast.FuncDecl); ok && fd.Name.Name == name {
				if recv == "" && fd.Recv == nil {
					return fd
				}
				if fd.Recv != nil && strings.Contains(exprName(fd.Recv.List[0].Type), recv) {
					return fd
				}
			}
		}
	}
	return nil
}

func skOf(fd *ast.FuncDecl, o skOpts) string {
	if fd == nil || fd.Body == nil {
		return "[.call \"<function not found>\"]"
	}
	return "[" + strings.Join(skeleton(fd.Body.List, o, false, map[string]bool{}), ", ") + "]"
}

// sync vocabulary: method name only, so that renaming a variable does not change the term
func syncName(c *ast.CallExpr) string {
	sel, ok := c.Fun.(*ast.SelectorExpr)
	if !ok {
		return ""
	}
	switch sel.Sel.Name {
	case "Add":
		if len(c.Args) == 1 {
			if ce, ok := c.Args[0].(*ast.CallExpr); ok && exprName(ce.Fun) == "len" {
				return "Add(len)"
			}
			if bl, ok := c.Args[0].(*ast.BasicLit); ok {
				return "Add(" + bl.Value + ")"
			}
		}
		return "Add(?)"
	case "Done", "Wait", "Lock", "Unlock", "RLock", "RUnlock", "Close", "PostProcessDefinitionRegistry":
		return sel.Sel.Name
	}
	return ""
}

// calls through the receiver: r.field.Method → "field.Method", r.Method → "self.Method"; parameters f() → "param.f"
func recvName(recv string, params map[string]bool) func(c *ast.CallExpr) string {
	return func(c *ast.CallExpr) string {
		n := exprName(c.Fun)
		if strings.Contains(n, "logger") || strings.Contains(n, "syslog") {
			return ""
		}
		if strings.HasPrefix(n, recv+".") {
			rest := strings.TrimPrefix(n, recv+".")
			if !strings.Contains(rest, ".") {
				return "self." + rest
			}
			return rest
		}
		if i := strings.Index(n, "."); i > 0 && params[n[:i]] {
			return "param." + n
		}
		if params[n] {
			return "param." + n
		}
		return ""
	}
}

func methodSk(files []*ast.File, recvType, name string) string {
	fd := findFunc(files, recvType, name)
	if fd == nil {
		return "[.call \"<function not found>\"]"
	}
	recv := ""
	if len(fd.Recv.List[0].Names) > 0 {
		recv = fd.Recv.List[0].Names[0].Name
	}
	params := map[string]bool{}
	for _, p := range fd.Type.Params.List {
		for _, n := range p.Names {
			params[n.Name] = true
		}
	}
	return skOf(fd, skOpts{name: recvName(recv, params)})
}

// ---- single facts

// bound of ReplaceAllContent: the loop contains `if <counter> >= <const> { return … }`
func replaceBound(files []*ast.File, consts map[string]int64) string {
	fd := findFunc(files, "elHelper", "ReplaceAllContent")
	if fd == nil {
		return "none"
	}
	res := "none"
	ast.Inspect(fd.Body, func(n ast.Node) bool {
		fs, ok := n.(*ast.ForStmt)
		if !ok {
			return true
		}
		// the counter must be incremented by the loop's post statement
		counter := ""
		if inc, ok := fs.Post.(*ast.IncDecStmt); ok && inc.Tok == token.INC {
			counter = exprName(inc.X)
		}
		for _, st := range fs.Body.List {
			is, ok := st.(*ast.IfStmt)
			if !ok {
				continue
			}
			be, ok := is.Cond.(*ast.BinaryExpr)
			if !ok || be.Op != token.GEQ || exprName(be.X) != counter || counter == "" {
				continue
			}
			hasReturn := false
			for _, b := range is.Body.List {
				if _, ok := b.(*ast.ReturnStmt); ok {
					hasReturn = true
				}
			}
			if !hasReturn {
				continue
			}
			if v, ok := eval(be.Y, 0, consts); ok && v >= 0 {
				res = fmt.Sprintf("some %d", v)
			}
		}
		return false
	})
	return res
}

func regexSource(files []*ast.File, fn string) string {
	fd := findFunc(files, "", fn)
	src := ""
	if fd != nil {
		ast.Inspect(fd.Body, func(n ast.Node) bool {
			if c, ok := n.(*ast.CallExpr); ok && exprName(c.Fun) == "regexp.MustCompile" && len(c.Args) == 1 {
				if bl, ok := c.Args[0].(*ast.BasicLit); ok {
					if s, err := strconv.Unquote(bl.Value); err == nil {
						src = s
					}
				}
			}
			return true
		})
	}
	return src
}

// order of the stage calls in App.run, each of which must be wrapped in `if err := …; err != nil { return … }`
func runStages(files []*ast.File) []string {
	fd := findFunc(files, "App", "run")
	var out []string
	if fd == nil {
		return out
	}
	for _, st := range fd.Body.List {
		is, ok := st.(*ast.IfStmt)
		if !ok || is.Init == nil {
			continue
		}
		as, ok := is.Init.(*ast.AssignStmt)
		if !ok || len(as.Rhs) != 1 {
			continue
		}
		ce, ok := as.Rhs[0].(*ast.CallExpr)
		if !ok {
			continue
		}
		ret := false
		for _, b := range is.Body.List {
			if _, ok := b.(*ast.ReturnStmt); ok {
				ret = true
			}
		}
		n := exprName(ce.Fun)
		if i := strings.LastIndex(n, "."); i >= 0 {
			n = n[i+1:]
		}
		if ret {
			out = append(out, n)
		} else {
			out = append(out, n+"(unchecked)")
		}
	}
	return out
}

// does the function call a sorting routine before its last loop?
func sortsBeforeLastLoop(fd *ast.FuncDecl) bool {
	if fd == nil {
		return false
	}
	sorted := false
	res := false
	for _, st := range fd.Body.List {
		switch x := st.(type) {
		case *ast.ExprStmt:
			if ce, ok := x.X.(*ast.CallExpr); ok {
				n := exprName(ce.Fun)
				if strings.HasPrefix(n, "sort2.") || strings.HasPrefix(n, "sort.") {
					sorted = true
				}
			}
		case *ast.RangeStmt, *ast.ForStmt:
			res = sorted
		}
	}
	return res
}

// refreshSortCall: what Refresh sorts and how: "<sorted expr> | <params of the less function> | <its return expression>"
// (e.g. "names | i j | i < j"); "" when the first sort call of the function has another shape
func refreshSortCall(fd *ast.FuncDecl) string {
	if fd == nil {
		return ""
	}
	for _, st := range fd.Body.List {
		x, ok := st.(*ast.ExprStmt)
		if !ok {
			continue
		}
		ce, ok := x.X.(*ast.CallExpr)
		if !ok {
			continue
		}
		n := exprName(ce.Fun)
		if !(strings.HasPrefix(n, "sort2.") || strings.HasPrefix(n, "sort.")) || len(ce.Args) != 2 {
			continue
		}
		fl, ok := ce.Args[1].(*ast.FuncLit)
		if !ok || len(fl.Body.List) != 1 {
			return exprName(ce.Args[0]) + " | ? | ?"
		}
		rs, ok := fl.Body.List[0].(*ast.ReturnStmt)
		if !ok || len(rs.Results) != 1 {
			return exprName(ce.Args[0]) + " | ? | ?"
		}
		var ps []string
		for _, f := range fl.Type.Params.List {
			for _, nm := range f.Names {
				ps = append(ps, nm.Name)
			}
		}
		ret := "?"
		if be, ok := rs.Results[0].(*ast.BinaryExpr); ok {
			ret = exprName(be.X) + " " + be.Op.String() + " " + exprName(be.Y)
		}
		return exprName(ce.Args[0]) + " | " + strings.Join(ps, " ") + " | " + ret
	}
	return ""
}

func containsSortCall(fd *ast.FuncDecl) bool {
	if fd == nil {
		return false
	}
	found := false
	ast.Inspect(fd.Body, func(n ast.Node) bool {
		if ce, ok := n.(*ast.CallExpr); ok {
			nm := exprName(ce.Fun)
			if strings.HasPrefix(nm, "sort2.") || strings.HasPrefix(nm, "sort.") || strings.HasPrefix(nm, "slices.Sort") {
				found = true
			}
		}
		return true
	})
	return found
}

// every function that calls framework_helper.SortOrderedComponents
func sortCallSites(repo string) []string {
	var out []string
	for _, dir := range []string{"container/factory", "app", "configure"} {
		for _, f := range parseDir(filepath.Join(repo, dir)) {
			for _, d := range f.Decls {
				fd, ok := d.(*ast.FuncDecl)
				if !ok || fd.Body == nil {
					continue
				}
				ast.Inspect(fd.Body, func(n ast.Node) bool {
					if ce, ok := n.(*ast.CallExpr); ok && strings.HasSuffix(exprName(ce.Fun), "SortOrderedComponents") {
						arg := ""
						if len(ce.Args) == 1 {
							arg = exprName(ce.Args[0])
						}
						out = append(out, fmt.Sprintf("(%s, %s)", lq(dir+"."+fd.Name.Name), lq(arg)))
					}
					return true
				})
			}
		}
	}
	sort.Strings(out)
	return out
}

func allowCircular(files []*ast.File) string {
	fd := findFunc(files, "", "Default")
	res := "false"
	if fd != nil {
		ast.Inspect(fd.Body, func(n ast.Node) bool {
			if kv, ok := n.(*ast.KeyValueExpr); ok && exprName(kv.Key) == "allowCircularReferences" {
				res = exprName(kv.Value)
			}
			return true
		})
	}
	// and nothing else assigns it
	for _, f := range files {
		ast.Inspect(f, func(n ast.Node) bool {
			if as, ok := n.(*ast.AssignStmt); ok {
				for _, l := range as.Lhs {
					if strings.HasSuffix(exprName(l), ".allowCircularReferences") {
						res = "false"
					}
				}
			}
			return true
		})
	}
	return res
}

func main() {
	if len(os.Args) == 3 && os.Args[1] == "-progs" {
		fmt.Print(progsFile(os.Args[2]))
		return
	}
	if len(os.Args) != 2 {
		fmt.Fprintln(os.Stderr, "usage: facts [-progs] <repo>")
		os.Exit(2)
	}
	repo := os.Args[1]
	procs := parseDir(filepath.Join(repo, "container/processors"))
	consts := evalConsts(procs)
	elFiles := parseDir(filepath.Join(repo, "util/el"))
	elConsts := evalConsts(elFiles)
	appFiles := parseDir(filepath.Join(repo, "app"))
	facFiles := parseDir(filepath.Join(repo, "container/factory"))
	supFiles := parseDir(filepath.Join(repo, "container/support"))
	syncFiles := parseDir(filepath.Join(repo, "util/sync2"))
	listFiles := parseDir(filepath.Join(repo, "util/list"))

	var b strings.Builder
	p := func(f string, a ...any) { fmt.Fprintf(&b, f, a...) }
	p("/- GENERATED by harness/cmd/facts from /repo's current source — do not edit, never committed as a fixed truth. -/\n")
	p("import Ioc.FactTypes\nnamespace Ioc.Facts\n\n")

	var names []string
	for k := range consts {
		names = append(names, k)
	}
	sort.Strings(names)
	p("/-- container/processors/orders.go (iota expressions evaluated) -/\ndef orderConsts : List (String × Int) := [\n")
	for i, k := range names {
		sep := ","
		if i == len(names)-1 {
			sep = ""
		}
		p("  (%s, %d)%s\n", lq(k), consts[k], sep)
	}
	p("]\n\n/-- every type in container/processors with an Order() method: (name, priority, lazy, order) -/\ndef builtinProcessors : List ProcFact := [\n")
	pfs := processors(procs, consts)
	for i, pf := range pfs {
		sep := ","
		if i == len(pfs)-1 {
			sep = ""
		}
		p("  ⟨%s, %v, %v, %d⟩%s  -- %s\n", lq(pf.name), pf.prio, pf.lazy, pf.order, sep, pf.orderName)
	}
	p("]\n\n")
	p("/-- util/el ReplaceAllContent: `some b` when the loop returns an error once its counter reaches the constant b -/\n")
	p("def replaceBound : Option Nat := %s\n\n", replaceBound(elFiles, elConsts))
	p("def quoteRegex : String := %s\ndef exprRegex : String := %s\n\n", lq(regexSource(elFiles, "NewQuote")), lq(regexSource(elFiles, "NewExpr")))
	st := runStages(appFiles)
	var qs []string
	for _, s := range st {
		qs = append(qs, lq(s))
	}
	p("/-- app.App.run: the stage calls in order; each is followed by `return` on error -/\ndef runStages : List String := [%s]\n\n", strings.Join(qs, ", "))
	p("def refreshSortsNames : Bool := %v\n", sortsBeforeLastLoop(findFunc(facFiles, "defaultFactory", "Refresh")))
	p("def refreshSortCall : String := %s\n", lq(refreshSortCall(findFunc(facFiles, "defaultFactory", "Refresh"))))
	p("def getMetasSorts : Bool := %v\n", containsSortCall(findFunc(supFiles, "defaultDefinitionRegistry", "GetMetas")))
	p("def getSingletonNamesSorts : Bool := %v\n", containsSortCall(findFunc(supFiles, "registry", "GetSingletonNames")))
	p("def allowCircularReferences : Bool := %s\n\n", allowCircular(facFiles))
	p("def sortCallSites : List (String × String) := [%s]\n\n", strings.Join(sortCallSites(repo), ", "))

	sync := skOpts{name: syncName}
	p("/-- app.App.Close -/\ndef closeSkel : List Sk := %s\n\n", skOf(findFunc(appFiles, "App", "Close"), sync))
	p("/-- PostProcessorRegistrationDelegate.applyDefinitionRegistryPostProcessors -/\ndef scanSkel : List Sk := %s\n\n",
		skOf(findFunc(facFiles, "PostProcessorRegistrationDelegate", "applyDefinitionRegistryPostProcessors"), sync))
	p("/-- App.callRunners (calls on the receiver and Run) -/\ndef callRunnersSkel : List Sk := %s\n\n",
		skOf(findFunc(appFiles, "App", "callRunners"), skOpts{name: func(c *ast.CallExpr) string {
			n := exprName(c.Fun)
			if strings.HasSuffix(n, ".Run") || strings.HasSuffix(n, "SortOrderedComponents") {
				return n[strings.LastIndex(n, ".")+1:]
			}
			return ""
		}}))

	p("/-- container/support defaultSingletonComponentRegistry: calls through the receiver, per method -/\ndef registryOps : List (String × List Sk) := [\n")
	regMethods := []string{"AddSingletonFactory", "RemoveSingleton", "AddSingleton", "GetSingleton", "GetSingletonOrCreateByFactory", "IsSingletonCurrentlyInCreation"}
	for i, m := range regMethods {
		sep := ","
		if i == len(regMethods)-1 {
			sep = ""
		}
		p("  (%s, %s)%s\n", lq(m), methodSk(supFiles, "defaultSingletonComponentRegistry", m), sep)
	}
	p("]\n\n/-- util/sync2.Map: calls through the receiver (m.m.X = a sync.Map primitive, m.X = own method), per method -/\ndef sync2Methods : List (String × List Sk) := [\n")
	sm := []string{"Load", "Store", "LoadOrStore", "LoadOrStoreFn", "Delete", "Range"}
	for i, m := range sm {
		sep := ","
		if i == len(sm)-1 {
			sep = ""
		}
		p("  (%s, %s)%s\n", lq(m), methodSk(syncFiles, "Map", m), sep)
	}
	p("]\n\n/-- util/list.ConcurrentSets -/\ndef concurrentSetMethods : List (String × List Sk) := [\n")
	cm := []string{"Put", "Exists", "Remove"}
	for i, m := range cm {
		sep := ","
		if i == len(cm)-1 {
			sep = ""
		}
		p("  (%s, %s)%s\n", lq(m), methodSk(listFiles, "ConcurrentSets", m), sep)
	}
	p("]\n\n")
	p("%s", orderFacts(repo)) // C12 (order_facts.go)
	p("%s", concFacts(listFiles)) // C20 (conc_facts.go)
	p("%s", valueFacts(repo))     // C17 C19 (value_facts.go)
	factoryFacts(repo, func(f string, a ...any) { p(f, a...) }) // C01 C03 C05 (factory_facts.go)
	p("end Ioc.Facts\n")
	fmt.Print(b.String())
}
