package main

// skeletons of the functions the factory machine (Ioc.M2) abstracts: the order of the calls that matter in
// doGetComponent / doCreateComponent / populateComponent (container/factory/factory.go) and in Property.Inject
// (component_definition/property.go). Method names only, so renaming a variable does not change the term.

import (
	"go/ast"
	"path/filepath"
	"strings"
)

var factoryCalls = map[string]bool{
	"GetSingleton": true, "GetSingletonOrCreateByFactory": true, "IsSingletonCurrentlyInCreation": true,
	"AddSingletonFactory": true, "AddSingleton": true, "RemoveSingleton": true,
	"createComponent": true, "doCreateComponent": true, "doGetComponent": true, "populateComponent": true,
	"getEarlyBeanReference": true, "genProxyComponent": true, "GetMetaByName": true,
	"ResolveBeforeInstantiation": true, "ResolveAfterInstantiation": true, "InitializeComponent": true,
	"GetEarlyBeanReference": true, "GetDependents": true, "CreateProxy": true, "Inject": true,
	"IsSelf": true, "dependOn": true, "Set": true, "MakeSlice": true, "IsRequired": true, "AssignableTo": true, "filter": true,
}

func methodOnly(c *ast.CallExpr) string {
	n := exprName(c.Fun)
	if i := strings.LastIndex(n, "."); i >= 0 {
		n = n[i+1:]
	}
	if factoryCalls[n] {
		return n
	}
	return ""
}

func factoryFacts(repo string, p func(string, ...any)) {
	fac := parseDir(filepath.Join(repo, "container/factory"))
	cd := parseDir(filepath.Join(repo, "component_definition"))
	o := skOpts{name: methodOnly, compact: true}
	p("\n/-- container/factory/factory.go: the calls of the creation path, in order, with nesting (method names only) -/\n")
	p("def factorySkel : List (String × List Sk) := [\n")
	fns := []string{"doGetComponent", "createComponent", "doCreateComponent", "populateComponent", "getEarlyBeanReference"}
	for i, fn := range fns {
		sep := ","
		if i == len(fns)-1 {
			sep = ""
		}
		p("  (%s, %s)%s\n", lq(fn), skOf(findFunc(fac, "defaultFactory", fn), o), sep)
	}
	p("]\n\n/-- component_definition/property.go Property.Inject and meta.go Meta.IsSelf -/\n")
	p("def injectSkel : List Sk := %s\n", skOf(findFunc(cd, "Property", "Inject"), o))
	p("def isSelfSkel : List Sk := %s\n", skOf(findFunc(cd, "Meta", "IsSelf"), skOpts{name: func(c *ast.CallExpr) string { return "" }, compact: false}))
}
