package main

// prog: translates selected Go function bodies of /repo into terms of the MiniGo deep embedding
// (lean/Ioc/GoSem.lean, `Ioc.Go.Func`) — lean/Ioc/Generated/Progs.lean, regenerated on every run.
// The translation is an almost 1:1 image of go/ast:
//   - selector chains rooted at the receiver become `self.a.b`, rooted at an imported package `pkg.F`,
//   - a call on anything else is a method call on a value (`mcall recv "M" args`),
//   - logging statements (syslog.*, x.logger().*) are dropped,
//   - whatever the fragment does not cover becomes `.unsupported "<what>"`, which evaluates to `none` (stuck), so a
//     semantic theorem about the function fails instead of silently ignoring code.
// Syntactic only: it does not type-check.

import (
	"fmt"
	"go/ast"
	"go/token"
	"path/filepath"
	"strconv"
	"strings"
)

type progSpec struct {
	dir, recv, fn, lean string
	lit string // when set: the function LITERAL that is the value of the field `lit:` in a composite literal inside fn's body
}

var progSpecs = []progSpec{
	{"container/support", "defaultSingletonComponentRegistry", "AddSingletonFactory", "reg_AddSingletonFactory", ""},
	{"container/support", "defaultSingletonComponentRegistry", "RemoveSingleton", "reg_RemoveSingleton", ""},
	{"container/support", "defaultSingletonComponentRegistry", "AddSingleton", "reg_AddSingleton", ""},
	{"container/support", "defaultSingletonComponentRegistry", "GetSingleton", "reg_GetSingleton", ""},
	{"container/support", "defaultSingletonComponentRegistry", "GetSingletonOrCreateByFactory", "reg_GetSingletonOrCreateByFactory", ""},
	{"container/support", "defaultSingletonComponentRegistry", "IsSingletonCurrentlyInCreation", "reg_IsSingletonCurrentlyInCreation", ""},
	{"container/processors", "", "filterDependencies", "filterDependencies", ""},
	{"container/processors", "dependencyFurtherMatchingPostProcessors", "PostProcessProperties", "furtherMatching_PostProcessProperties", ""},
	{"container/factory", "defaultFactory", "doGetComponent", "fac_doGetComponent", ""},
	{"container/factory", "defaultFactory", "createComponent", "fac_createComponent", ""},
	{"container/factory", "defaultFactory", "doCreateComponent", "fac_doCreateComponent", ""},
	{"container/factory", "defaultFactory", "populateComponent", "fac_populateComponent", ""},
	{"container/factory", "defaultFactory", "getEarlyBeanReference", "fac_getEarlyBeanReference", ""},
	{"container/factory", "defaultFactory", "GetComponentByName", "fac_GetComponentByName", ""},
	{"container/factory", "defaultFactory", "Refresh", "fac_Refresh", ""},
	{"component_definition", "Property", "Inject", "prop_Inject", ""},
	{"component_definition", "Meta", "IsSelf", "meta_IsSelf", ""},
	{"util/framework_helper", "", "SortOrderedComponents", "sortOrderedComponents", ""},
	{"util/framework_helper", "", "orderedComponentComparator", "orderedComponentComparator", ""},
	{"app", "App", "run", "app_run", ""},
	{"app", "App", "callRunners", "app_callRunners", ""},
	{"app", "App", "initConfiguration", "app_initConfiguration", ""},
	{"app", "App", "initFactory", "app_initFactory", ""},
	{"app", "App", "refresh", "app_refresh", ""},
	{"configure", "configure", "loadConfigure", "cfg_loadConfigure", ""},
	{"configure", "configure", "Initialize", "cfg_Initialize", ""},
	{"util/sync2", "Map", "LoadOrStoreFn", "sync2_LoadOrStoreFn", ""},
	{"util/sync2", "Map", "Load", "sync2_Load", ""},
	{"util/fas", "", "Filter", "fas_Filter", ""},
	{"container/factory", "PostProcessorRegistrationDelegate", "InitializeComponent", "del_InitializeComponent", ""},
	{"container/factory", "PostProcessorRegistrationDelegate", "invokeInitMethods", "del_invokeInitMethods", ""},
	{"container/factory", "PostProcessorRegistrationDelegate", "applyPostProcessBeforeInitialization", "del_applyBefore", ""},
	{"container/factory", "PostProcessorRegistrationDelegate", "applyPostProcessAfterInitialization", "del_applyAfter", ""},
	{"container/factory", "PostProcessorRegistrationDelegate", "ResolveAfterInstantiation", "del_ResolveAfterInstantiation", ""},
	{"container/factory", "PostProcessorRegistrationDelegate", "GetEarlyBeanReference", "del_GetEarlyBeanReference", ""},
	{"container/factory", "PostProcessorRegistrationDelegate", "ResolveBeforeInstantiation", "del_ResolveBeforeInstantiation", ""},
	{"container/factory", "PostProcessorRegistrationDelegate", "applyPostProcessBeforeInstantiation", "del_applyBeforeInstantiation", ""},
	{"container/factory", "PostProcessorRegistrationDelegate", "InvokeBeanFactoryPostProcessors", "del_InvokeBeanFactoryPostProcessors", ""},
	{"container/processors", "dependencyAwarePostProcessors", "PostProcessProperties", "depAware_PostProcessProperties", ""},
	{"container/processors", "dependencyFunctionAwarePostProcessors", "PostProcessProperties", "depFunc_PostProcessProperties", ""},
	{"container/processors", "", "isActualKind", "isActualKind", ""},
	{"util/el", "elHelper", "ReplaceAllContent", "el_ReplaceAllContent", ""},
	{"container/processors", "configQuoteAwarePostProcessors", "PostProcessProperties", "quote_PostProcessProperties", ""},
	{"container/processors", "propertiesAwarePostProcessors", "PostProcessProperties", "props_PostProcessProperties", ""},
	{"container/processors", "valueAwarePostProcessors", "PostProcessProperties", "value_PostProcessProperties", ""},
	{"container/processors", "expressionTagAwarePostProcessors", "PostProcessProperties", "expr_PostProcessProperties", ""},
	{"container/processors", "validateAwarePostProcessors", "PostProcessProperties", "validate_PostProcessProperties", ""},
	{"component_definition", "Meta", "scanFields", "meta_scanFields", ""},
	{"util/reflectx", "", "ForEachFieldV2", "reflectx_ForEachFieldV2", ""},
	{"container", "", "Or", "opt_Or", ""},
	{"container", "", "And", "opt_And", ""},
	{"container", "", "Type", "opt_Type", ""},
	{"container", "", "InterfaceType", "opt_InterfaceType", ""},
	{"container", "", "FuncName", "opt_FuncName", ""},
	{"container", "", "FuncNameAndResult", "opt_FuncNameAndResult", ""},
	{"container/support", "defaultDefinitionRegistry", "RegisterMeta", "dreg_RegisterMeta", ""},
	{"container/support", "defaultDefinitionRegistry", "GetMetas", "dreg_GetMetas", ""},
	{"container/support", "defaultDefinitionRegistry", "GetMetaByName", "dreg_GetMetaByName", ""},
	{"container/support", "defaultDefinitionRegistry", "GetMetaOrRegister", "dreg_GetMetaOrRegister", ""},
	{".", "", "Run", "ioc_Run", ""},
	{".", "", "Register", "ioc_Register", ""},
	{"app", "", "Options", "aopt_Options", ""},
	{"app", "", "SetRegistry", "aopt_SetRegistry", ""},
	{"app", "", "SetComponents", "aopt_SetComponents", ""},
	{"app", "", "SetConfigure", "aopt_SetConfigure", ""},
	{"app", "", "SetConfig", "aopt_SetConfig", ""},
	{"app", "", "SetFactory", "aopt_SetFactory", ""},
	{"app", "", "SetConfigLoader", "aopt_SetConfigLoader", ""},
	{"app", "", "AddConfigLoader", "aopt_AddConfigLoader", ""},
	{"app", "", "SetConfigBinder", "aopt_SetConfigBinder", ""},
	{"util/framework_helper", "", "GetComponentNameWithAlias", "name_GetComponentNameWithAlias", ""},
	{"util/framework_helper", "", "GetComponentName", "name_GetComponentName", ""},
	{"component_definition", "Meta", "Name", "meta_Name", ""},
	{"component_definition", "Meta", "SetName", "meta_SetName", ""},
	{"component_definition", "Meta", "IsAlias", "meta_IsAlias", ""},
	{"component_definition", "Meta", "dependOn", "meta_dependOn", ""},
	{"component_definition", "Meta", "GetDependents", "meta_GetDependents", ""},
	{"component_definition", "Meta", "SetProperties", "meta_SetProperties", ""},
	{"component_definition", "Meta", "GetComponentProperties", "meta_GetComponentProperties", ""},
	{"component_definition", "TagArg", "Parse", "arg_Parse", ""},
	{"component_definition", "TagArg", "Set", "arg_Set", ""},
	{"component_definition", "TagArg", "Add", "arg_Add", ""},
	{"component_definition", "", "formatArgType", "arg_formatArgType", ""},
	{"component_definition", "TagArg", "Find", "arg_Find", ""},
	{"component_definition", "TagArg", "Has", "arg_Has", ""},
	{"component_definition", "", "isIntersect", "arg_isIntersect", ""},
	{"container/processors", "DefaultTagScanDefinitionRegistryPostProcessor", "PostProcessDefinitionRegistry", "scan_PostProcessDefinitionRegistry", ""},
	{"component_definition", "", "NewProperty", "prop_NewProperty", ""},
	{"container/processors", "", "NewValueAwarePostProcessors", "scan_valueExtract", "ExtractHandler"},
	{"container/processors", "", "NewPropertiesAwarePostProcessors", "scan_markerExtract", "ExtractHandler"},
	{"component_definition", "Property", "IsRequired", "prop_IsRequired", ""},
	{"component_definition", "Property", "SetConfiguration", "prop_SetConfiguration", ""},
	{"component_definition", "Property", "Unmarshall", "prop_Unmarshall", ""},
	{"component_definition", "", "newDecodeConfig", "prop_newDecodeConfig", ""},
	{"component_definition", "Property", "Args", "prop_Args", ""},
	{"component_definition", "Property", "SetArg", "prop_SetArg", ""},
	{"component_definition", "Property", "AddArg", "prop_AddArg", ""},
	{"util/reflectx", "", "SetValue", "reflectx_SetValue", ""},
	{"configure/binder", "ViperBinder", "Get", "binder_Get", ""},
	{"configure/binder", "", "cloneValue", "binder_cloneValue", ""},
	{"configure/binder", "ViperBinder", "Set", "binder_Set", ""},
	{"configure/binder", "ViperBinder", "SetConfig", "binder_SetConfig", ""},
	{"app", "App", "initiate", "app_initiate", ""},
	{"app", "App", "Run", "app_Run", ""},
	{"container/support", "registry", "RegisterSingleton", "sreg_RegisterSingleton", ""},
	{"component_definition", "", "NewMeta", "meta_NewMeta", ""},
	{"component_definition", "", "CreateProxy", "meta_CreateProxy", ""},
	{"container/factory", "defaultFactory", "genProxyComponent", "factory_genProxyComponent", ""},
	{"container/factory", "defaultFactory", "GetComponents", "factory_GetComponents", ""},
	{"container/factory", "defaultFactory", "PrepareComponents", "factory_PrepareComponents", ""},
	{"container/factory", "PostProcessorRegistrationDelegate", "RegisterComponentPostProcessors", "delegate_RegisterComponentPostProcessors", ""},
	{"configure/loader", "ArgsLoader", "LoadConfig", "loader_Args", ""},
	{"configure/loader", "FileLoader", "LoadConfig", "loader_File", ""},
	{"configure/loader", "RawLoader", "LoadConfig", "loader_Raw", ""},
	{"container/support", "registry", "GetSingleton", "sreg_GetSingleton", ""},
	{"container/support", "registry", "ContainsSingleton", "sreg_ContainsSingleton", ""},
	{"container/support", "registry", "GetSingletonNames", "sreg_GetSingletonNames", ""},
	{"container/support", "registry", "GetSingletonCount", "sreg_GetSingletonCount", ""},
	{"component_definition", "", "NewHolder", "holder_NewHolder", ""},
	{"component_definition", "", "NewEmbedHolder", "holder_NewEmbedHolder", ""},
	{"component_definition", "Meta", "GetAllProperties", "meta_GetAllProperties", ""},
	{"container/factory", "", "Default", "fac_Default", ""},
	{"container/factory", "defaultFactory", "registerBeanPostProcessors", "fac_registerBeanPostProcessors", ""},
	{"container/factory", "defaultFactory", "GetRegisteredComponents", "fac_GetRegisteredComponents", ""},
	{"container/factory", "defaultFactory", "GetDefinitionRegistryPostProcessors", "fac_GetDefinitionRegistryPostProcessors", ""},
	{"container/factory", "defaultFactory", "SetRegistry", "fac_SetRegistry", ""},
	{"container/factory", "defaultFactory", "SetConfigure", "fac_SetConfigure", ""},
	{"container/factory", "defaultFactory", "GetConfigure", "fac_GetConfigure", ""},
	{"container/factory", "defaultFactory", "GetDefinitionRegistry", "fac_GetDefinitionRegistry", ""},
	{"component_definition", "Field", "ID", "field_ID", ""},
	{"component_definition", "Holder", "ID", "holder_ID", ""},
	{"component_definition", "Property", "ID", "prop_ID", ""},
	{"component_definition", "Property", "info", "prop_info", ""},
	{"util/reflectx", "", "Id", "reflectx_Id", ""},
	{"util/reflectx", "", "TypeId", "reflectx_TypeId", ""},
	{"configure/loader", "FileLoader", "Order", "loader_File_Order", ""},
	{"configure", "", "NewConfigure", "cfg_NewConfigure", ""},
	{"configure", "", "Default", "cfg_Default", ""},
	{"configure", "configure", "AddLoaders", "cfg_AddLoaders", ""},
	{"configure", "configure", "SetLoaders", "cfg_SetLoaders", ""},
	{"configure", "configure", "SetBinder", "cfg_SetBinder", ""},
	{"container/processors", "configQuoteAwarePostProcessors", "Order", "pp_quote_Order", ""},
	{"container/processors", "configQuoteAwarePostProcessors", "PostProcessAfterInstantiation", "pp_quote_AfterInstantiation", ""},
	{"container/processors", "configQuoteAwarePostProcessors", "PostProcessComponentFactory", "pp_quote_ComponentFactory", ""},
	{"container/processors", "dependencyAwarePostProcessors", "Order", "pp_dep_Order", ""},
	{"container/processors", "dependencyAwarePostProcessors", "PostProcessAfterInstantiation", "pp_dep_AfterInstantiation", ""},
	{"container/processors", "dependencyAwarePostProcessors", "PostProcessComponentFactory", "pp_dep_ComponentFactory", ""},
	{"container/processors", "dependencyFunctionAwarePostProcessors", "Order", "pp_depfn_Order", ""},
	{"container/processors", "dependencyFunctionAwarePostProcessors", "PostProcessAfterInstantiation", "pp_depfn_AfterInstantiation", ""},
	{"container/processors", "dependencyFunctionAwarePostProcessors", "PostProcessComponentFactory", "pp_depfn_ComponentFactory", ""},
	{"container/processors", "dependencyFurtherMatchingPostProcessors", "Order", "pp_further_Order", ""},
	{"container/processors", "dependencyFurtherMatchingPostProcessors", "PostProcessAfterInstantiation", "pp_further_AfterInstantiation", ""},
	{"container/processors", "expressionTagAwarePostProcessors", "Order", "pp_expr_Order", ""},
	{"container/processors", "expressionTagAwarePostProcessors", "PostProcessAfterInstantiation", "pp_expr_AfterInstantiation", ""},
	{"container/processors", "loggerAwarePostProcessors", "Order", "pp_logger_Order", ""},
	{"container/processors", "loggerAwarePostProcessors", "PostProcessAfterInstantiation", "pp_logger_AfterInstantiation", ""},
	{"container/processors", "propertiesAwarePostProcessors", "Order", "pp_props_Order", ""},
	{"container/processors", "propertiesAwarePostProcessors", "PostProcessAfterInstantiation", "pp_props_AfterInstantiation", ""},
	{"container/processors", "propertiesAwarePostProcessors", "PostProcessComponentFactory", "pp_props_ComponentFactory", ""},
	{"container/processors", "validateAwarePostProcessors", "Order", "pp_validate_Order", ""},
	{"container/processors", "validateAwarePostProcessors", "PostProcessAfterInstantiation", "pp_validate_AfterInstantiation", ""},
	{"container/processors", "valueAwarePostProcessors", "Order", "pp_value_Order", ""},
	{"container/processors", "valueAwarePostProcessors", "PostProcessAfterInstantiation", "pp_value_AfterInstantiation", ""},
	{"container/processors", "DefaultComponentPostProcessor", "PostProcessBeforeInitialization", "pp_default_BeforeInitialization", ""},
	{"container/processors", "DefaultComponentPostProcessor", "PostProcessAfterInitialization", "pp_default_AfterInitialization", ""},
	{"container/processors", "DefaultInstantiationAwareComponentPostProcessor", "PostProcessBeforeInstantiation", "pp_default_BeforeInstantiation", ""},
	{"container/processors", "DefaultInstantiationAwareComponentPostProcessor", "PostProcessAfterInstantiation", "pp_default_AfterInstantiation", ""},
	{"container/processors", "DefaultInstantiationAwareComponentPostProcessor", "PostProcessProperties", "pp_default_Properties", ""},
	{"container/processors", "loggerAwarePostProcessors", "PostProcessProperties", "pp_logger_Properties", ""},
}

// conversions whose single argument is passed through unchanged
var passThrough = map[string]bool{"any": true, "container.FuncSingletonFactory": true}

// primitives that sort their first argument in place: `f(x, less)` becomes `x = f(x, less)`
var inPlace = map[string]bool{"sort2.Slice": true, "sort.Slice": true, "sort.SliceStable": true}

type tr struct {
	named   []string        // named results: a bare `return` returns them
	recv    string          // receiver variable name ("" for plain functions)
	pkgs    map[string]bool // imported package names of the file
	tparams map[string]bool // type parameters (generic functions)
	valueUse map[string]bool // identifiers that occur as an ARGUMENT of some call in the function
}

func (t *tr) unsupported(what string, n ast.Node) string {
	return fmt.Sprintf("(.unsupported %s)", lq(fmt.Sprintf("%s@%d", what, fset.Position(n.Pos()).Line)))
}

func isLogging(e ast.Expr) bool {
	c, ok := e.(*ast.CallExpr)
	if !ok {
		return false
	}
	n := exprName(c.Fun)
	for _, suf := range []string{".Fatal", ".Fatalf", ".Panic", ".Panicf"} {
		if strings.HasSuffix(n, suf) {
			return false // not "just logging": these do not return to the caller — kept as calls, the interpretation decides
		}
	}
	return strings.Contains(n, "logger()") || strings.HasPrefix(n, "syslog.") || strings.HasPrefix(n, "log.") || strings.HasPrefix(n, "logger.")
}

// dotted returns the dotted path of a pure identifier/selector chain and its root identifier
func dotted(e ast.Expr) (path string, root string, ok bool) {
	switch x := e.(type) {
	case *ast.Ident:
		return x.Name, x.Name, true
	case *ast.SelectorExpr:
		p, r, ok := dotted(x.X)
		if !ok {
			return "", "", false
		}
		return p + "." + x.Sel.Name, r, true
	case *ast.ParenExpr:
		return dotted(x.X)
	case *ast.IndexExpr: // generic instantiation f[T]
		return dotted(x.X)
	}
	return "", "", false
}

func (t *tr) list(es []ast.Expr) string {
	var out []string
	for _, e := range es {
		out = append(out, t.expr(e))
	}
	return "[" + strings.Join(out, ", ") + "]"
}

func (t *tr) names(fl *ast.FieldList) []string {
	var out []string
	if fl == nil {
		return out
	}
	for _, f := range fl.List {
		for _, n := range f.Names {
			out = append(out, n.Name)
		}
	}
	return out
}

func qlist(ss []string) string {
	var out []string
	for _, s := range ss {
		out = append(out, lq(s))
	}
	return "[" + strings.Join(out, ", ") + "]"
}

func (t *tr) expr(e ast.Expr) string {
	switch x := e.(type) {
	case *ast.ParenExpr:
		return t.expr(x.X)
	case *ast.Ident:
		switch x.Name {
		case "nil":
			return ".nil"
		case "true":
			return "(.bool true)"
		case "false":
			return "(.bool false)"
		}
		if x.Name == t.recv && t.recv != "" {
			return "(.glob \"self\")"
		}
		if x.Obj == nil && !t.tparams[x.Name] { // unresolved in file scope: another file's package-level name
			return fmt.Sprintf("(.glob %s)", lq(x.Name))
		}
		if x.Obj != nil && (x.Obj.Kind == ast.Fun || isPackageLevel(x)) {
			return fmt.Sprintf("(.glob %s)", lq(x.Name))
		}
		return fmt.Sprintf("(.var %s)", lq(x.Name))
	case *ast.BasicLit:
		switch x.Kind {
		case token.INT:
			return fmt.Sprintf("(.int %s)", x.Value)
		case token.STRING:
			s, err := strconv.Unquote(x.Value)
			if err == nil {
				return fmt.Sprintf("(.str %s)", lq(s))
			}
		}
		return t.unsupported("literal", x)
	case *ast.UnaryExpr:
		if x.Op == token.NOT {
			return fmt.Sprintf("(.not %s)", t.expr(x.X))
		}
		if x.Op == token.SUB {
			if bl, ok := x.X.(*ast.BasicLit); ok && bl.Kind == token.INT {
				return fmt.Sprintf("(.int (-%s))", bl.Value)
			}
		}
		if cl, ok := x.X.(*ast.CompositeLit); ok && x.Op == token.AND {
			// &T{k1: v1, k2: v2}: a fresh object, the primitive "&T{k1,k2}" applied to the field values in textual order
			var keys []string
			var vals []ast.Expr
			keyed := true
			for _, el := range cl.Elts {
				kv, isKV := el.(*ast.KeyValueExpr)
				if !isKV {
					keyed = false
					break
				}
				keys = append(keys, exprName(kv.Key))
				vals = append(vals, kv.Value)
			}
			if keyed {
				return fmt.Sprintf("(.call %s %s)", lq("&"+exprName(cl.Type)+"{"+strings.Join(keys, ",")+"}"), t.list(vals))
			}
		}
		return t.unsupported("unary "+x.Op.String(), x)
	case *ast.BinaryExpr:
		return fmt.Sprintf("(.bin %s %s %s)", lq(x.Op.String()), t.expr(x.X), t.expr(x.Y))
	case *ast.IndexExpr:
		if p, _, ok := dotted(x); ok { // generic instantiation used as a value
			if id, isId := x.X.(*ast.Ident); isId && (id.Obj == nil || id.Obj.Kind == ast.Fun) {
				return fmt.Sprintf("(.glob %s)", lq(p))
			}
		}
		if _, root, ok := dotted(x.X); ok && root == t.recv && t.recv != "" {
			// an element of the receiver or of one of its fields (a map or slice kept in the object): the primitive ".getidx"
			return fmt.Sprintf("(.call \".getidx\" [%s, %s])", t.expr(x.X), t.expr(x.Index))
		}
		return fmt.Sprintf("(.idx %s %s)", t.expr(x.X), t.expr(x.Index))
	case *ast.SelectorExpr:
		if p, root, ok := dotted(x); ok {
			if root == t.recv && t.recv != "" {
				return fmt.Sprintf("(.glob %s)", lq("self"+p[len(root):]))
			}
			if t.pkgs[root] {
				return fmt.Sprintf("(.glob %s)", lq(p))
			}
		}
		return fmt.Sprintf("(.sel %s %s)", t.expr(x.X), lq(x.Sel.Name))
	case *ast.TypeAssertExpr:
		if x.Type == nil {
			return t.unsupported("type switch guard", x)
		}
		return fmt.Sprintf("(.assert1 %s %s)", t.expr(x.X), lq(exprName(x.Type)))
	case *ast.CompositeLit:
		if _, ok := x.Type.(*ast.ArrayType); ok {
			return fmt.Sprintf("(.sliceLit %s)", t.list(x.Elts))
		}
		if st, ok := x.Type.(*ast.StructType); ok && len(x.Elts) == 0 && (st.Fields == nil || len(st.Fields.List) == 0) {
			return "(.call \"struct{}{}\" [])" // the empty struct value: a primitive
		}
		return t.unsupported("composite literal", x)
	case *ast.CallExpr:
		return t.call(x)
	case *ast.SliceExpr:
		if x.Slice3 {
			return t.unsupported("three-index slice", x)
		}
		lo, hi := ".nil", ".nil"
		if x.Low != nil {
			lo = t.expr(x.Low)
		}
		if x.High != nil {
			hi = t.expr(x.High)
		}
		return fmt.Sprintf("(.call \"slice\" [%s, %s, %s])", t.expr(x.X), lo, hi) // x[lo:hi]; a missing bound is nil
	}
	return t.unsupported(fmt.Sprintf("%T", e), e)
}

func isPackageLevel(id *ast.Ident) bool {
	if id.Obj == nil {
		return false
	}
	switch d := id.Obj.Decl.(type) {
	case *ast.ValueSpec:
		_ = d
		// a ValueSpec is package level iff it is not inside a function; go/parser gives no parent links, so
		// use the convention that local `var` declarations are translated by declStmt and registered there
		return !localDecl[d]
	}
	return false
}

var localDecl = map[*ast.ValueSpec]bool{}

func (t *tr) call(c *ast.CallExpr) string {
	// explicit instantiation of a generic function — f[T1, T2](args): the type arguments do not exist at run time
	if il, ok := c.Fun.(*ast.IndexListExpr); ok {
		if _, _, isName := dotted(il.X); isName {
			c2 := *c
			c2.Fun = il.X
			return t.call(&c2)
		}
	}
	// conversions / wrappers with one argument
	if p, _, ok := dotted(c.Fun); ok && passThrough[p] && len(c.Args) == 1 {
		if fl, isFn := c.Args[0].(*ast.FuncLit); isFn {
			_ = fl
			return t.unsupported("function literal outside a call", c)
		}
		return t.expr(c.Args[0])
	}
	// a conversion T(x) to a type declared in this file, or to a basic type: the value passes through
	if id, ok := c.Fun.(*ast.Ident); ok && len(c.Args) == 1 && c.Ellipsis == token.NoPos {
		if (id.Obj != nil && id.Obj.Kind == ast.Typ) || (id.Obj == nil && id.Name == "ArgType") {
			return t.expr(c.Args[0])
		}
	}
	// builtins
	if id, ok := c.Fun.(*ast.Ident); ok && id.Obj == nil {
		switch id.Name {
		case "len":
			return fmt.Sprintf("(.call \"len\" %s)", t.list(c.Args))
		case "append":
			if c.Ellipsis != token.NoPos {
				return fmt.Sprintf("(.call \"append...\" %s)", t.list(c.Args))
			}
			return fmt.Sprintf("(.call \"append\" %s)", t.list(c.Args))
		case "make":
			if len(c.Args) >= 1 {
				if _, isArr := c.Args[0].(*ast.ArrayType); isArr {
					if len(c.Args) == 1 {
						return "(.sliceLit [])"
					}
					if bl, isLit := c.Args[1].(*ast.BasicLit); isLit && bl.Value == "0" {
						return "(.sliceLit [])"
					}
				}
			}
			if len(c.Args) == 1 {
				return fmt.Sprintf("(.call %s [])", lq("make:"+exprName(c.Args[0]))) // make(T) of a map / channel type: a fresh empty value
			}
			if len(c.Args) == 2 {
				// make(T, n): a map with a capacity hint, or a slice of n zero values — the primitive "make:T" decides
				return fmt.Sprintf("(.call %s [%s])", lq("make:"+exprName(c.Args[0])), t.expr(c.Args[1]))
			}
			return t.unsupported("make", c)
		case "new":
			if len(c.Args) == 1 {
				return fmt.Sprintf("(.call %s [])", lq("new:"+exprName(c.Args[0]))) // new(T): a pointer to a fresh zero value
			}
			return t.unsupported("builtin new", c)
		case "panic", "recover", "copy", "delete", "cap":
			return t.unsupported("builtin "+id.Name, c)
		}
	}
	// a trailing function literal (possibly inside a pass-through conversion) makes it an hcall / filter
	args := c.Args
	var lit *ast.FuncLit
	if n := len(args); n > 0 {
		last := args[n-1]
		if ce, ok := last.(*ast.CallExpr); ok {
			if p, _, ok := dotted(ce.Fun); ok && passThrough[p] && len(ce.Args) == 1 {
				last = ce.Args[0]
			}
		}
		if fl, ok := last.(*ast.FuncLit); ok {
			lit = fl
			args = args[:n-1]
		}
	}
	for _, a := range args {
		if _, ok := a.(*ast.FuncLit); ok {
			return t.unsupported("function literal not in last position", c)
		}
	}
	name, recvExpr := "", ""
	if p, root, ok := dotted(c.Fun); ok {
		switch {
		case root == t.recv && t.recv != "":
			name = "self" + p[len(root):]
		case t.pkgs[root] && strings.Contains(p, "."):
			name = p
		case !strings.Contains(p, "."):
			if id, isId := c.Fun.(*ast.Ident); isId && id.Obj != nil && id.Obj.Kind == ast.Var {
				// calling a function-typed variable / parameter
				name = "call:" + p
			} else if ix, isIx := c.Fun.(*ast.IndexExpr); isIx {
				_ = ix
				name = p
			} else {
				name = p // package-level function of the same package
			}
		}
	}
	if name == "" {
		if inner, isCall := c.Fun.(*ast.CallExpr); isCall && lit == nil {
			// F(a…)(b…): applying the function value a constructor returns — the primitive "F()" (or "F...()" when the
			// constructor is called with a spread slice) on a… followed by b…
			if p, root, ok := dotted(inner.Fun); ok && (t.pkgs[root] || !strings.Contains(p, ".")) {
				n := p
				if inner.Ellipsis != token.NoPos {
					n += "..."
				}
				all := append(append([]ast.Expr{}, inner.Args...), args...)
				return fmt.Sprintf("(.call %s %s)", lq(n+"()"), t.list(all))
			}
		}
		sel, ok := c.Fun.(*ast.SelectorExpr)
		if !ok {
			return t.unsupported("call of "+fmt.Sprintf("%T", c.Fun), c)
		}
		recvExpr = t.expr(sel.X)
		name = sel.Sel.Name
	}
	if lit != nil {
		params := t.names(lit.Type.Params)
		body := t.block(lit.Body.List)
		if name == "fas.Filter" && len(args) == 1 && len(params) == 1 && recvExpr == "" {
			return fmt.Sprintf("(.filter %s %s %s)", t.expr(args[0]), lq(params[0]), body)
		}
		if recvExpr != "" {
			return t.unsupported("method call with a function literal", c)
		}
		return fmt.Sprintf("(.hcall %s %s %s %s)", lq(name), t.list(args), qlist(params), body)
	}
	if recvExpr != "" {
		return fmt.Sprintf("(.mcall %s %s %s)", recvExpr, lq(name), t.list(args))
	}
	if strings.HasPrefix(name, "call:") {
		return fmt.Sprintf("(.mcall (.var %s) \"call\" %s)", lq(name[5:]), t.list(args))
	}
	return fmt.Sprintf("(.call %s %s)", lq(name), t.list(args))
}

// trailingLit: the function literal in last argument position, if any
func trailingLit(c *ast.CallExpr) *ast.FuncLit {
	if n := len(c.Args); n > 0 {
		if fl, ok := c.Args[n-1].(*ast.FuncLit); ok {
			return fl
		}
	}
	return nil
}

// assignsCaptured: does the literal assign (`=`, not `:=`) to an identifier declared outside of it?
func assignsCaptured(lit *ast.FuncLit) bool {
	found := false
	ast.Inspect(lit.Body, func(n ast.Node) bool {
		as, ok := n.(*ast.AssignStmt)
		if !ok || as.Tok != token.ASSIGN {
			return true
		}
		for _, l := range as.Lhs {
			if id, ok := l.(*ast.Ident); ok && id.Obj != nil && id.Name != "_" {
				if pos := id.Obj.Pos(); pos < lit.Pos() || pos > lit.End() {
					found = true
				}
			}
		}
		return true
	})
	return found
}

func identNames(es []ast.Expr) ([]string, bool) {
	var out []string
	for _, e := range es {
		id, ok := e.(*ast.Ident)
		if !ok {
			return nil, false
		}
		out = append(out, id.Name)
	}
	return out, true
}

func zeroOf(ty ast.Expr) string {
	switch x := ty.(type) {
	case *ast.Ident:
		switch x.Name {
		case "int", "int8", "int16", "int32", "int64", "uint", "uint8", "uint16", "uint32", "uint64":
			return "(.int 0)"
		case "string":
			return "(.str \"\")"
		case "bool":
			return "(.bool false)"
		case "error", "any":
			return ".nil"
		}
		return ".nil" // named type: treated as a reference (pointer / interface / slice alias)
	case *ast.ArrayType, *ast.StarExpr, *ast.MapType, *ast.InterfaceType, *ast.FuncType, *ast.SelectorExpr, *ast.IndexExpr:
		return ".nil"
	}
	return ".nil"
}

func (t *tr) block(stmts []ast.Stmt) string {
	var out []string
	for _, s := range stmts {
		out = append(out, t.stmt(s)...)
	}
	return "[" + strings.Join(out, ",\n  ") + "]"
}

func (t *tr) stmt(s ast.Stmt) []string {
	switch x := s.(type) {
	case *ast.EmptyStmt:
		return nil
	case *ast.ExprStmt:
		if isLogging(x.X) {
			return nil
		}
		if c, ok := x.X.(*ast.CallExpr); ok {
			if p, _, ok := dotted(c.Fun); ok && inPlace[p] && len(c.Args) >= 1 {
				if id, isId := c.Args[0].(*ast.Ident); isId {
					return []string{fmt.Sprintf(".assign [%s] %s", lq(id.Name), t.expr(x.X))}
				}
				return []string{t.unsupported("in-place sort of a non-variable", x)}
			}
		}
		if c, ok := x.X.(*ast.CallExpr); ok {
			if lit := trailingLit(c); lit != nil && assignsCaptured(lit) {
				// the literal assigns to a variable of the enclosing function: statement form, capture by reference
				if recv, isSel := c.Fun.(*ast.SelectorExpr); isSel {
					if p, root, ok := dotted(recv); ok && (root == t.recv && t.recv != "" || t.pkgs[root]) {
						name := p
						if root == t.recv {
							name = "self" + p[len(root):]
						}
						return []string{fmt.Sprintf(".hcallS [] %s %s %s %s", lq(name), t.list(c.Args[:len(c.Args)-1]),
							qlist(t.names(lit.Type.Params)), t.block(lit.Body.List))}
					}
				}
				return []string{t.unsupported("capturing literal in a call that is not through the receiver or a package", x)}
			}
		}
		return []string{fmt.Sprintf(".expr %s", t.expr(x.X))}
	case *ast.AssignStmt:
		switch x.Tok {
		case token.DEFINE, token.ASSIGN:
			kind := ".define"
			if x.Tok == token.ASSIGN {
				kind = ".assign"
			}
			if len(x.Rhs) == 1 && len(x.Lhs) == 1 && x.Tok == token.DEFINE && isLogging(x.Rhs[0]) {
				if id, ok := x.Lhs[0].(*ast.Ident); !ok || !t.valueUse[id.Name] {
					return nil // `logger := syslog.Pref(…)`: every use of it is a dropped logging call
				}
				// … unless the logger is used as a VALUE (handed to a call): then the definition is an ordinary call
				return []string{fmt.Sprintf(".define [%s] %s", lq(x.Lhs[0].(*ast.Ident).Name), t.call(x.Rhs[0].(*ast.CallExpr)))}
			}
			if len(x.Rhs) == 1 && len(x.Lhs) == 1 && x.Tok == token.ASSIGN {
				if id, ok := x.Lhs[0].(*ast.Ident); ok && id.Name != "_" && (id.Obj == nil || isPackageLevel(id)) {
					// a package-level variable: the store is a primitive (".setglob:<name>"), the read is `.glob`
					return []string{fmt.Sprintf(".expr (.call %s [%s])", lq(".setglob:"+id.Name), t.expr(x.Rhs[0]))}
				}
			}
			if len(x.Rhs) == 1 {
				if lhs, ok := identNames(x.Lhs); ok {
					rhs := t.expr(x.Rhs[0])
					if ix, isIx := x.Rhs[0].(*ast.IndexExpr); isIx && len(lhs) == 2 {
						rhs = fmt.Sprintf("(.call \".getidx2\" [%s, %s])", t.expr(ix.X), t.expr(ix.Index)) // v, ok := m[k]
					}
					if ta, isTA := x.Rhs[0].(*ast.TypeAssertExpr); isTA && len(lhs) == 2 && ta.Type != nil {
						rhs = fmt.Sprintf("(.assert2 %s %s)", t.expr(ta.X), lq(exprName(ta.Type))) // comma-ok form
					}
					return []string{fmt.Sprintf("%s %s %s", kind, qlist(lhs), rhs)}
				}
				if len(x.Lhs) == 1 && x.Tok == token.ASSIGN {
					if sel, ok := x.Lhs[0].(*ast.SelectorExpr); ok {
						if p, root, ok := dotted(sel); ok && root == t.recv && t.recv != "" {
							return []string{fmt.Sprintf(".store (.glob \"self\") %s %s", lq(p[len(root)+1:]), t.expr(x.Rhs[0]))}
						}
						return []string{fmt.Sprintf(".store %s %s %s", t.expr(sel.X), lq(sel.Sel.Name), t.expr(x.Rhs[0]))}
					}
					if ix, ok := x.Lhs[0].(*ast.IndexExpr); ok {
						// x[k] = v (a map or slice element): the primitive ".setidx" on the container, the key and the value
						return []string{fmt.Sprintf(".expr (.call \".setidx\" [%s, %s, %s])", t.expr(ix.X), t.expr(ix.Index), t.expr(x.Rhs[0]))}
					}
				}
			}
			if lhs, ok := identNames(x.Lhs); ok && len(x.Rhs) == len(x.Lhs) && len(x.Lhs) > 1 {
				// a, b = x, y: every right-hand side is evaluated before any assignment; the temporaries live in a block of their own
				var pre, post []string
				for i := range x.Rhs {
					tmp := fmt.Sprintf("$rhs%d", i)
					pre = append(pre, fmt.Sprintf(".define [%s] %s", lq(tmp), t.expr(x.Rhs[i])))
					post = append(post, fmt.Sprintf("%s [%s] (.var %s)", kind, lq(lhs[i]), lq(tmp)))
				}
				if x.Tok == token.ASSIGN {
					return []string{fmt.Sprintf(".ifs [] (.bool true) [%s] []", strings.Join(append(pre, post...), ", "))}
				}
				return append(pre, post...)
			}
			return []string{t.unsupported("assignment form", x)}
		case token.ADD_ASSIGN, token.SUB_ASSIGN:
			if lhs, ok := identNames(x.Lhs); ok && len(lhs) == 1 && len(x.Rhs) == 1 {
				op := "+"
				if x.Tok == token.SUB_ASSIGN {
					op = "-"
				}
				return []string{fmt.Sprintf(".assign [%s] (.bin %s (.var %s) %s)", lq(lhs[0]), lq(op), lq(lhs[0]), t.expr(x.Rhs[0]))}
			}
		}
		return []string{t.unsupported("assignment "+x.Tok.String(), x)}
	case *ast.IncDecStmt:
		if id, ok := x.X.(*ast.Ident); ok {
			op := "+"
			if x.Tok == token.DEC {
				op = "-"
			}
			return []string{fmt.Sprintf(".assign [%s] (.bin %s (.var %s) (.int 1))", lq(id.Name), lq(op), lq(id.Name))}
		}
		return []string{t.unsupported("inc/dec", x)}
	case *ast.DeclStmt:
		gd, ok := x.Decl.(*ast.GenDecl)
		if !ok || gd.Tok != token.VAR {
			return []string{t.unsupported("declaration", x)}
		}
		var out []string
		for _, sp := range gd.Specs {
			vs := sp.(*ast.ValueSpec)
			localDecl[vs] = true
			switch {
			case len(vs.Values) == 0:
				for _, n := range vs.Names {
					out = append(out, fmt.Sprintf(".define [%s] %s", lq(n.Name), zeroOf(vs.Type)))
				}
			case len(vs.Values) == len(vs.Names):
				for i, n := range vs.Names {
					out = append(out, fmt.Sprintf(".define [%s] %s", lq(n.Name), t.expr(vs.Values[i])))
				}
			case len(vs.Values) == 1:
				var ns []string
				for _, n := range vs.Names {
					ns = append(ns, n.Name)
				}
				out = append(out, fmt.Sprintf(".define %s %s", qlist(ns), t.expr(vs.Values[0])))
			default:
				out = append(out, t.unsupported("var form", x))
			}
		}
		return out
	case *ast.IfStmt:
		init := "[]"
		if x.Init != nil {
			init = "[" + strings.Join(t.stmt(x.Init), ", ") + "]"
		}
		els := "[]"
		switch e := x.Else.(type) {
		case *ast.BlockStmt:
			els = t.block(e.List)
		case *ast.IfStmt:
			els = "[" + strings.Join(t.stmt(e), ", ") + "]"
		}
		return []string{fmt.Sprintf(".ifs %s %s %s %s", init, t.expr(x.Cond), t.block(x.Body.List), els)}
	case *ast.RangeStmt:
		if x.Tok != token.DEFINE && x.Tok != token.ILLEGAL {
			return []string{t.unsupported("range with =", x)}
		}
		k, v := "_", "_"
		if x.Key != nil {
			id, ok := x.Key.(*ast.Ident)
			if !ok {
				return []string{t.unsupported("range key", x)}
			}
			k = id.Name
		}
		if x.Value != nil {
			id, ok := x.Value.(*ast.Ident)
			if !ok {
				return []string{t.unsupported("range value", x)}
			}
			v = id.Name
		}
		return []string{fmt.Sprintf(".range %s %s %s %s", lq(k), lq(v), t.expr(x.X), t.block(x.Body.List))}
	case *ast.ReturnStmt:
		if len(x.Results) == 0 && len(t.named) > 0 {
			var vs []string
			for _, n := range t.named {
				vs = append(vs, fmt.Sprintf("(.var %s)", lq(n)))
			}
			return []string{fmt.Sprintf(".ret [%s]", strings.Join(vs, ", "))}
		}
		return []string{fmt.Sprintf(".ret %s", t.list(x.Results))}
	case *ast.BranchStmt:
		if x.Label == nil {
			switch x.Tok {
			case token.BREAK:
				return []string{".brk"}
			case token.CONTINUE:
				return []string{".cont"}
			}
		}
		return []string{t.unsupported("branch "+x.Tok.String(), x)}
	case *ast.BlockStmt:
		return []string{fmt.Sprintf(".ifs [] (.bool true) %s []", t.block(x.List))}
	case *ast.SwitchStmt:
		return t.switchStmt(x)
	case *ast.TypeSwitchStmt:
		return t.typeSwitchStmt(x)
	case *ast.ForStmt:
		// for init; cond; post { body } — `.forc`; a bare `for {}` / `for cond {}` has empty init/post
		init, post := "[]", "[]"
		if x.Init != nil {
			init = "[" + strings.Join(t.stmt(x.Init), ", ") + "]"
		}
		if x.Post != nil {
			post = "[" + strings.Join(t.stmt(x.Post), ", ") + "]"
		}
		cond := "(.bool true)"
		if x.Cond != nil {
			cond = t.expr(x.Cond)
		}
		return []string{fmt.Sprintf(".forc %s %s %s %s", init, cond, post, t.block(x.Body.List))}
	}
	return []string{t.unsupported(fmt.Sprintf("%T", s), s)}
}

func progOf(repo string, sp progSpec) string {
	files := parseDir(filepath.Join(repo, sp.dir))
	fd := findFunc(files, sp.recv, sp.fn)
	if fd == nil || fd.Body == nil {
		return fmt.Sprintf("def %s : Func := { name := %s, params := [], body := [.unsupported \"function not found\"] }\n", sp.lean, lq(sp.fn))
	}
	if sp.lit != "" {
		var lit *ast.FuncLit
		ast.Inspect(fd.Body, func(n ast.Node) bool {
			if kv, ok := n.(*ast.KeyValueExpr); ok && lit == nil {
				if id, ok := kv.Key.(*ast.Ident); ok && id.Name == sp.lit {
					if fl, ok := kv.Value.(*ast.FuncLit); ok {
						lit = fl
					}
				}
			}
			return lit == nil
		})
		if lit == nil {
			return fmt.Sprintf("def %s : Func := { name := %s, params := [], body := [.unsupported \"function literal not found\"] }\n", sp.lean, lq(sp.fn+"."+sp.lit))
		}
		fd = &ast.FuncDecl{Name: fd.Name, Type: lit.Type, Body: lit.Body}
	}
	t := &tr{pkgs: map[string]bool{}, tparams: map[string]bool{}}
	// the file that holds the function: its imports
	for _, f := range files {
		if f.Pos() <= fd.Pos() && fd.End() <= f.End() {
			for _, im := range f.Imports {
				p, _ := strconv.Unquote(im.Path.Value)
				n := p[strings.LastIndex(p, "/")+1:]
				if i := strings.LastIndex(n, ".v"); i > 0 && len(n) > i+2 && strings.Trim(n[i+2:], "0123456789") == "" {
					n = n[:i] // gopkg.in/yaml.v3 is package yaml
				}
				if im.Name != nil {
					n = im.Name.Name
				}
				t.pkgs[n] = true
			}
		}
	}
	if fd.Recv != nil && len(fd.Recv.List) == 1 && len(fd.Recv.List[0].Names) == 1 {
		t.recv = fd.Recv.List[0].Names[0].Name
	}
	if fd.Type.TypeParams != nil {
		for _, n := range t.names(fd.Type.TypeParams) {
			t.tparams[n] = true
		}
	}
	t.valueUse = map[string]bool{}
	ast.Inspect(fd.Body, func(n ast.Node) bool {
		if c, ok := n.(*ast.CallExpr); ok {
			for _, a := range c.Args {
				if id, ok := a.(*ast.Ident); ok {
					t.valueUse[id.Name] = true
				}
			}
		}
		return true
	})
	params := t.names(fd.Type.Params)
	body := t.block(fd.Body.List)
	// a constructor of a function value — `func F(a…) T { return func(m…) R { body } }` — is translated as the CURRIED
	// function: parameters a… then m…, body = the literal's body (F(a…)(m…) evaluates exactly that, the outer call does nothing else)
	if len(fd.Body.List) == 1 {
		if rs, ok := fd.Body.List[0].(*ast.ReturnStmt); ok && len(rs.Results) == 1 {
			if fl, ok := rs.Results[0].(*ast.FuncLit); ok {
				params = append(params, t.names(fl.Type.Params)...)
				body = t.block(fl.Body.List)
			}
		}
	}
	// named results are variables initialised to their zero values
	if fd.Type.Results != nil {
		var pre []string
		for _, f := range fd.Type.Results.List {
			for _, n := range f.Names {
				z := zeroOf(f.Type)
				if id, ok := f.Type.(*ast.Ident); ok && t.tparams[id.Name] {
					z = ".nil" // zero value of a type parameter: modelled as nil
				}
				t.named = append(t.named, n.Name)
				pre = append(pre, fmt.Sprintf(".define [%s] %s", lq(n.Name), z))
			}
		}
		if len(pre) > 0 {
			body = t.block(fd.Body.List) // re-translate: bare returns now know the named results
			inner := strings.TrimSuffix(strings.TrimPrefix(body, "["), "]")
			if inner == "" {
				body = "[" + strings.Join(pre, ",\n  ") + "]"
			} else {
				body = "[" + strings.Join(pre, ",\n  ") + ",\n  " + inner + "]"
			}
		}
	}
	return fmt.Sprintf("/-- %s %s%s (%s:%d) -/\ndef %s : Func := { name := %s, params := %s, body := %s }\n",
		sp.dir, map[bool]string{true: sp.recv + ".", false: ""}[sp.recv != ""], sp.fn,
		filepath.Base(fset.Position(fd.Pos()).Filename), fset.Position(fd.Pos()).Line,
		sp.lean, lq(sp.fn), qlist(params), body)
}

func progsFile(repo string) string {
	var b strings.Builder
	b.WriteString("/- GENERATED by harness/cmd/facts (prog.go) from /repo's current source — do not edit. -/\n")
	b.WriteString("import Ioc.GoSem\nnamespace Ioc.Progs\nopen Ioc.Go Ioc.Go.Expr Ioc.Go.Stmt\n\n")
	for _, sp := range progSpecs {
		b.WriteString(progOf(repo, sp))
		b.WriteString("\n")
	}
	b.WriteString("end Ioc.Progs\n")
	return b.String()
}


// hasBareBreak: an unlabelled `break` that would leave the switch (not one inside a nested loop)
func hasBareBreak(stmts []ast.Stmt) bool {
	found := false
	for _, s := range stmts {
		ast.Inspect(s, func(n ast.Node) bool {
			switch y := n.(type) {
			case *ast.ForStmt, *ast.RangeStmt, *ast.SwitchStmt, *ast.TypeSwitchStmt, *ast.SelectStmt, *ast.FuncLit:
				return false
			case *ast.BranchStmt:
				if y.Tok == token.BREAK || y.Tok == token.FALLTHROUGH {
					found = true
				}
			}
			return true
		})
	}
	return found
}

// typeSwitchStmt: `switch [init;] [v :=] x.(type) { case T, U: … case nil: … default: … }` becomes `$ts := x` and an if/else
// chain of comma-ok assertions (first matching clause, `default` last). In a single-type clause `v` is the asserted value,
// otherwise `x` itself. Refused with break/fallthrough, like the expression switch.
func (t *tr) typeSwitchStmt(x *ast.TypeSwitchStmt) []string {
	var clauses []*ast.CaseClause
	var deflt *ast.CaseClause
	for _, c := range x.Body.List {
		cc := c.(*ast.CaseClause)
		if hasBareBreak(cc.Body) {
			return []string{t.unsupported("type switch with break/fallthrough", x)}
		}
		if cc.List == nil {
			deflt = cc
		} else {
			clauses = append(clauses, cc)
		}
	}
	var pre []string
	if x.Init != nil {
		pre = append(pre, t.stmt(x.Init)...)
	}
	bound := ""
	var guard *ast.TypeAssertExpr
	switch a := x.Assign.(type) {
	case *ast.ExprStmt:
		guard, _ = a.X.(*ast.TypeAssertExpr)
	case *ast.AssignStmt:
		if len(a.Lhs) == 1 && len(a.Rhs) == 1 {
			if id, ok := a.Lhs[0].(*ast.Ident); ok {
				bound = id.Name
			}
			guard, _ = a.Rhs[0].(*ast.TypeAssertExpr)
		}
	}
	if guard == nil {
		return []string{t.unsupported("type switch guard", x)}
	}
	pre = append(pre, fmt.Sprintf(".define [\"$ts\"] %s", t.expr(guard.X)))
	withBound := func(body string, val string) string {
		if bound == "" {
			return body
		}
		inner := strings.TrimSuffix(strings.TrimPrefix(body, "["), "]")
		def := fmt.Sprintf(".define [%s] %s", lq(bound), val)
		if inner == "" {
			return "[" + def + "]"
		}
		return "[" + def + ",\n  " + inner + "]"
	}
	chain := "[]"
	if deflt != nil {
		chain = withBound(t.block(deflt.Body), "(.var \"$ts\")")
	}
	for i := len(clauses) - 1; i >= 0; i-- {
		cc := clauses[i]
		var inits []string
		cond := ""
		for j, e := range cc.List {
			one := ""
			if id, ok := e.(*ast.Ident); ok && id.Name == "nil" {
				one = "(.bin \"==\" (.var \"$ts\") .nil)"
			} else {
				v := fmt.Sprintf("$v%d", j)
				inits = append(inits, fmt.Sprintf(".define [%s, %s] (.assert2 (.var \"$ts\") %s)", lq(v), lq(fmt.Sprintf("$ok%d", j)), lq(exprName(e))))
				one = fmt.Sprintf("(.var %s)", lq(fmt.Sprintf("$ok%d", j)))
			}
			if j == 0 {
				cond = one
			} else {
				cond = fmt.Sprintf("(.bin \"||\" %s %s)", cond, one)
			}
		}
		val := "(.var \"$ts\")"
		if len(cc.List) == 1 {
			if id, ok := cc.List[0].(*ast.Ident); !ok || id.Name != "nil" {
				val = "(.var \"$v0\")"
			}
		}
		chain = fmt.Sprintf("[.ifs [%s] %s %s %s]", strings.Join(inits, ", "), cond, withBound(t.block(cc.Body), val), chain)
	}
	inner := strings.TrimSuffix(strings.TrimPrefix(chain, "["), "]")
	all := append(pre, inner)
	if inner == "" {
		all = pre
	}
	return []string{fmt.Sprintf(".ifs [] (.bool true) [%s] []", strings.Join(all, ",\n  "))}
}

// switchStmt: `switch init; tag { case a, b: … default: … }` becomes `$tag := tag` and an if/else chain (first matching
// clause, `default` last wherever it is written). Refused when a clause contains `break`/`fallthrough` (their meaning
// inside a switch differs from the one MiniGo gives them).
func (t *tr) switchStmt(x *ast.SwitchStmt) []string {
	var clauses []*ast.CaseClause
	var deflt *ast.CaseClause
	for _, c := range x.Body.List {
		cc := c.(*ast.CaseClause)
		if hasBareBreak(cc.Body) {
			return []string{t.unsupported("switch with break/fallthrough", x)}
		}
		if cc.List == nil {
			deflt = cc
		} else {
			clauses = append(clauses, cc)
		}
	}
	var pre []string
	if x.Init != nil {
		pre = append(pre, t.stmt(x.Init)...)
	}
	tagVar := "(.bool true)"
	if x.Tag != nil {
		pre = append(pre, fmt.Sprintf(".define [\"$tag\"] %s", t.expr(x.Tag)))
		tagVar = "(.var \"$tag\")"
	}
	chain := "[]"
	if deflt != nil {
		chain = t.block(deflt.Body)
	}
	for i := len(clauses) - 1; i >= 0; i-- {
		cc := clauses[i]
		cond := ""
		for j, e := range cc.List {
			one := fmt.Sprintf("(.bin \"==\" %s %s)", tagVar, t.expr(e))
			if x.Tag == nil {
				one = t.expr(e)
			}
			if j == 0 {
				cond = one
			} else {
				cond = fmt.Sprintf("(.bin \"||\" %s %s)", cond, one)
			}
		}
		chain = fmt.Sprintf("[.ifs [] %s %s %s]", cond, t.block(cc.Body), chain)
	}
	// the whole switch is one block, so that `$tag` and the init variables go out of scope after it
	inner := strings.TrimSuffix(strings.TrimPrefix(chain, "["), "]")
	all := append(pre, inner)
	if inner == "" {
		all = pre
	}
	return []string{fmt.Sprintf(".ifs [] (.bool true) [%s] []", strings.Join(all, ",\n  "))}
}
