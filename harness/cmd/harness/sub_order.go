package main

// sub-harnesses `order` and `orderstart` (C12): the ordering contract.
//
//	order       `D tok*`                   → framework_helper.SortOrderedComponents called directly
//	orderstart  `S L tok* P tok* R tok*`   → a real app start with logging loaders / post-processors / runners
//
// participant token:  [i] (p<k> | o<k> | n | q) markers*      (see lean/Driver/Order.lean)
//
//	p = Priority()+Order(), o = Order() only, n = neither, q = Priority() without Order() (must land in the plain block)
//
// Observations never show the order inside a (class,key) tie group (sort.Slice is unstable).
//
// Oracles (on the real output only, independent of the model): the contract itself — every participant exactly
// once, class blocks in order, keys non-decreasing inside the first two blocks, plain block in registration order
// (only where a registration order exists: direct calls and loaders); for starts with an injected stop (error / nil
// answer) the log must be a downward-closed prefix ending in the stopping participant, and later stages must not run.

import (
	"errors"
	"fmt"
	"math"
	"strconv"
	"strings"
	"time"

	"github.com/go-kid/ioc/app"
	"github.com/go-kid/ioc/configure"
	"github.com/go-kid/ioc/configure/binder"
	"github.com/go-kid/ioc/container/processors"
	"github.com/go-kid/ioc/definition"
	"github.com/go-kid/ioc/syslog"
	"github.com/go-kid/ioc/util/framework_helper"

	"verifharness/internal/hx"
)

func init() {
	register(&Sub{Name: "order", Gen: orderGen, Replay: orderReplay, Corpus: orderCorpus})
	register(&Sub{Name: "orderstart", Gen: orderStartGen, Replay: orderReplay, Corpus: orderStartCorpus})
}

// ---------------------------------------------------------------- tokens

type ordTok struct {
	cls   byte // 'p' 'o' 'n' 'q'
	key   int
	inst  bool
	marks string
	id    int
}

func (t ordTok) rank() int {
	switch t.cls {
	case 'p':
		return 0
	case 'o':
		return 1
	}
	return 2
}

func (t ordTok) has(m byte) bool { return strings.IndexByte(t.marks, m) >= 0 }

func (t ordTok) String() string {
	s := ""
	if t.inst {
		s = "i"
	}
	s += string(t.cls)
	if t.cls == 'p' || t.cls == 'o' {
		s += strconv.Itoa(t.key)
	}
	return s + t.marks
}

// show is the canonical observation of one participant: class and key; identity only for plain ones when withID
func (t ordTok) show(withID bool) string {
	switch t.cls {
	case 'p', 'o':
		return string(t.cls) + strconv.Itoa(t.key)
	}
	if withID {
		return "n" + strconv.Itoa(t.id)
	}
	return "n"
}

func parseOrdTok(s string, id int) (ordTok, bool) {
	t := ordTok{id: id}
	if strings.HasPrefix(s, "i") {
		t.inst = true
		s = s[1:]
	}
	if s == "" {
		return t, false
	}
	t.cls = s[0]
	s = s[1:]
	i := 0
	for i < len(s) && (s[i] == '-' || (s[i] >= '0' && s[i] <= '9')) {
		i++
	}
	num := s[:i]
	t.marks = s[i:]
	switch t.cls {
	case 'p', 'o':
		k, err := strconv.ParseInt(num, 10, 64)
		if err != nil {
			return t, false
		}
		t.key = int(k)
	case 'n', 'q':
		if num != "" {
			return t, false
		}
	default:
		return t, false
	}
	return t, true
}

func parseOrdToks(ws []string) ([]ordTok, bool) {
	out := make([]ordTok, 0, len(ws))
	for i, w := range ws {
		t, ok := parseOrdTok(w, i)
		if !ok {
			return nil, false
		}
		out = append(out, t)
	}
	return out, true
}

func joinToks(ts []ordTok) string {
	ss := make([]string, len(ts))
	for i, t := range ts {
		ss[i] = t.String()
	}
	return strings.Join(ss, " ")
}

// ---------------------------------------------------------------- (i) direct calls

type dItem interface{ ident() int }

type dP struct{ id, k int }
type dO struct{ id, k int }
type dN struct{ id int }
type dQ struct{ id int }

func (d dP) ident() int { return d.id }
func (d dP) Order() int { return d.k }
func (d dP) Priority()  {}
func (d dO) ident() int { return d.id }
func (d dO) Order() int { return d.k }
func (d dN) ident() int { return d.id }
func (d dQ) ident() int { return d.id }
func (d dQ) Priority()  {}

func mkItem(t ordTok) dItem {
	switch t.cls {
	case 'p':
		return dP{t.id, t.key}
	case 'o':
		return dO{t.id, t.key}
	case 'q':
		return dQ{t.id}
	}
	return dN{t.id}
}

// contractOracle evaluates the ordering contract on `out` (ids into `in`). complete=false allows a prefix.
// plainStable: the plain block must be in registration (id) order.
func contractOracle(sig string, in []ordTok, out []int, plainStable bool) string {
	seen := make([]bool, len(in))
	for _, id := range out {
		if id < 0 || id >= len(in) {
			return fmt.Sprintf("FAIL %s-perm foreign participant %d", sig, id)
		}
		if seen[id] {
			return fmt.Sprintf("FAIL %s-perm participant %d (%s) appears twice", sig, id, in[id])
		}
		seen[id] = true
	}
	for i := 1; i < len(out); i++ {
		a, b := in[out[i-1]], in[out[i]]
		if a.rank() > b.rank() {
			return fmt.Sprintf("FAIL %s-classes %s before %s at %d", sig, a, b, i)
		}
		if a.rank() == b.rank() && a.rank() < 2 && a.key > b.key {
			return fmt.Sprintf("FAIL %s-monotone %s before %s at %d", sig, a, b, i)
		}
		if plainStable && a.rank() == 2 && b.rank() == 2 && a.id > b.id {
			return fmt.Sprintf("FAIL %s-plain-stable %s#%d before %s#%d at %d", sig, a, a.id, b, b.id, i)
		}
	}
	return ""
}

func allOnce(sig string, in []ordTok, out []int) string {
	if len(out) != len(in) {
		return fmt.Sprintf("FAIL %s-perm %d participants in, %d out", sig, len(in), len(out))
	}
	return ""
}

func runOrderDirect(toks []ordTok, tags []string, w *hx.Writer) {
	c := hx.Case{Scn: strings.TrimSpace("D " + joinToks(toks)), Tags: tags}
	in := make([]dItem, len(toks))
	for i, t := range toks {
		in[i] = mkItem(t)
	}
	var out []dItem
	if pan := hx.Guard(func() { out = framework_helper.SortOrderedComponents(in) }); pan != nil {
		c.Obs = "panic"
		c.Oracle = "FAIL order-panic " + fmt.Sprint(pan)
		w.Put(c)
		return
	}
	ids := make([]int, len(out))
	var sb []string
	for i, it := range out {
		ids[i] = it.ident()
		if ids[i] >= 0 && ids[i] < len(toks) {
			sb = append(sb, toks[ids[i]].show(true))
		} else {
			sb = append(sb, "?")
		}
	}
	c.Obs = strings.Join(sb, " ")
	if len(sb) == 0 {
		c.Obs = "-"
	}
	c.Oracle = contractOracle("order", toks, ids, true)
	if c.Oracle == "" {
		c.Oracle = allOnce("order", toks, ids)
	}
	w.Put(c)
}

var ordKeys = []int{math.MinInt64, -3, -2, -1, 0, 1, 2, 3, math.MaxInt64}

func genKey(r *hx.Rng, mode int) int {
	switch mode {
	case 0: // everything
		return ordKeys[r.Intn(len(ordKeys))]
	case 1: // many ties
		return []int{-1, 0, 1}[r.Intn(3)]
	case 2: // extremes
		return []int{math.MinInt64, math.MaxInt64, 0, -1}[r.Intn(4)]
	default:
		return r.Intn(7) - 3
	}
}

func genClass(r *hx.Rng, w [4]int) byte {
	tot := w[0] + w[1] + w[2] + w[3]
	x := r.Intn(tot)
	for i, c := range []byte{'p', 'o', 'n', 'q'} {
		if x < w[i] {
			return c
		}
		x -= w[i]
	}
	return 'n'
}

func genWeights(r *hx.Rng) [4]int {
	switch r.Intn(6) {
	case 0:
		return [4]int{1, 0, 0, 0} // one block only: long runs through pdqsort
	case 1:
		return [4]int{0, 1, 0, 0}
	case 2:
		return [4]int{3, 3, 1, 1}
	case 3:
		return [4]int{1, 1, 3, 2}
	default:
		return [4]int{2, 2, 1, 1}
	}
}

func genLen(r *hx.Rng) int {
	switch k := r.Intn(8); {
	case k < 2:
		return r.Intn(6)
	case k < 5:
		return r.Intn(13)
	default:
		return 13 + r.Intn(28)
	}
}

func orderGen(rng *hx.Rng, n int, tier string, w *hx.Writer) {
	for i := 0; i < n; i++ {
		r := rng.Fork()
		ln := genLen(r)
		wts := genWeights(r)
		mode := r.Intn(4)
		toks := make([]ordTok, ln)
		classes := map[byte]bool{}
		for j := range toks {
			toks[j] = ordTok{cls: genClass(r, wts), id: j}
			if toks[j].cls == 'p' || toks[j].cls == 'o' {
				toks[j].key = genKey(r, mode)
			}
			classes[toks[j].cls] = true
		}
		tags := []string{fmt.Sprintf("classes%d", len(classes))}
		switch {
		case ln <= 1:
			tags = append(tags, "trivial")
		case ln <= 12:
			tags = append(tags, "len2-12")
		default:
			tags = append(tags, "len13-40")
		}
		if classes['q'] {
			tags = append(tags, "priority-without-order")
		}
		runOrderDirect(toks, tags, w)
	}
}

func orderCorpus(w *hx.Writer) {
	for _, s := range []string{
		"", "n", "q", "p0", "o0",
		"n p1 o99 p98 o0", // the repo's own test vector
		"q p1 o1 n", "o1 p1", "n o0 p0", "p3 p2 p1 p0 p-1 p-2 p-3",
		"o-9223372036854775808 o9223372036854775807 o0 p9223372036854775807 p-9223372036854775808",
		"p1 p1 p1 o1 o1 n n q q n",
		"o0 o0 o0 o0 o0 o0 o0 o0 o0 o0 o0 o0 o0 o-1 o0 o0 o0 o0 o0 o0",
		"p3 p-3 p2 p-2 p1 p-1 p0 p3 p-3 p2 p-2 p1 p-1 p0 p3 p-3 p2 p-2 p1 p-1 p0 n q o1 o0",
	} {
		toks, ok := parseOrdToks(strings.Fields(s))
		if ok {
			runOrderDirect(toks, []string{"corpus"}, w)
		}
	}
}

// ---------------------------------------------------------------- (ii) real starts

const ordProbeName = "ordprobe"

type ordProbe struct{}

func (p *ordProbe) Naming() string { return ordProbeName }

type startLog struct {
	L, B, I, P, A, R []int
	cur               int // loader whose LoadConfig ran last
}

// sBase: what every logging participant carries. NO injection points (no tagged fields).
type sBase struct {
	tok  ordTok
	name string
	log  *startLog
}

func (b *sBase) Naming() string { return b.name }

type kOrder struct{ k int }

func (k kOrder) Order() int { return k.k }

var errInjected = errors.New("injected")

// loaders
type ldBase struct{ sBase }

func (l *ldBase) LoadConfig() ([]byte, error) {
	l.log.L = append(l.log.L, l.tok.id)
	l.log.cur = l.tok.id
	switch {
	case l.tok.has('!'):
		return nil, errInjected
	case l.tok.has('*'):
		return []byte("a: [1, 2"), nil // not YAML: the real binder rejects it
	case l.tok.has('+'):
		return []byte(fmt.Sprintf("k%d: %d", l.tok.id, l.tok.id)), nil
	}
	return nil, nil
}

type ldP struct {
	ldBase
	kOrder
	definition.PriorityComponent
}
type ldO struct {
	ldBase
	kOrder
}
type ldN struct{ ldBase }
type ldQ struct {
	ldBase
	definition.PriorityComponent
}

func mkLoader(b sBase) configure.Loader {
	switch b.tok.cls {
	case 'p':
		return &ldP{ldBase: ldBase{b}, kOrder: kOrder{b.tok.key}}
	case 'o':
		return &ldO{ldBase: ldBase{b}, kOrder: kOrder{b.tok.key}}
	case 'q':
		return &ldQ{ldBase: ldBase{b}}
	}
	return &ldN{ldBase{b}}
}

// the real viper binder, with SetConfig calls logged
type logBinder struct {
	configure.Binder
	log *startLog
}

func (b *logBinder) SetConfig(c []byte) error {
	b.log.B = append(b.log.B, b.log.cur)
	return b.Binder.SetConfig(c)
}

// post-processors
func ppBefore(b *sBase, c any, name string) (any, error) {
	if name != ordProbeName {
		return c, nil
	}
	b.log.P = append(b.log.P, b.tok.id)
	if b.tok.has('!') {
		return nil, errInjected
	}
	if b.tok.has('?') {
		return nil, nil
	}
	return c, nil
}

func ppAfter(b *sBase, c any, name string) (any, error) {
	if name != ordProbeName {
		return c, nil
	}
	b.log.A = append(b.log.A, b.tok.id)
	if b.tok.has('^') {
		return nil, errInjected
	}
	if b.tok.has('~') {
		return nil, nil
	}
	return c, nil
}

type ppBase struct {
	processors.DefaultComponentPostProcessor
	sBase
}

func (p *ppBase) PostProcessBeforeInitialization(c any, n string) (any, error) {
	return ppBefore(&p.sBase, c, n)
}
func (p *ppBase) PostProcessAfterInitialization(c any, n string) (any, error) {
	return ppAfter(&p.sBase, c, n)
}

type ipBase struct {
	processors.DefaultInstantiationAwareComponentPostProcessor
	sBase
}

func (p *ipBase) PostProcessBeforeInitialization(c any, n string) (any, error) {
	return ppBefore(&p.sBase, c, n)
}
func (p *ipBase) PostProcessAfterInitialization(c any, n string) (any, error) {
	return ppAfter(&p.sBase, c, n)
}
func (p *ipBase) PostProcessAfterInstantiation(c any, n string) (bool, error) {
	if n == ordProbeName {
		p.log.I = append(p.log.I, p.tok.id)
	}
	return false, nil
}

type ppP struct {
	ppBase
	kOrder
	definition.PriorityComponent
}
type ppO struct {
	ppBase
	kOrder
}
type ppN struct{ ppBase }
type ppQ struct {
	ppBase
	definition.PriorityComponent
}
type ipP struct {
	ipBase
	kOrder
	definition.PriorityComponent
}
type ipO struct {
	ipBase
	kOrder
}
type ipN struct{ ipBase }
type ipQ struct {
	ipBase
	definition.PriorityComponent
}

func mkProc(b sBase) any {
	k := kOrder{b.tok.key}
	if b.tok.inst {
		switch b.tok.cls {
		case 'p':
			return &ipP{ipBase: ipBase{sBase: b}, kOrder: k}
		case 'o':
			return &ipO{ipBase: ipBase{sBase: b}, kOrder: k}
		case 'q':
			return &ipQ{ipBase: ipBase{sBase: b}}
		}
		return &ipN{ipBase{sBase: b}}
	}
	switch b.tok.cls {
	case 'p':
		return &ppP{ppBase: ppBase{sBase: b}, kOrder: k}
	case 'o':
		return &ppO{ppBase: ppBase{sBase: b}, kOrder: k}
	case 'q':
		return &ppQ{ppBase: ppBase{sBase: b}}
	}
	return &ppN{ppBase{sBase: b}}
}

// runners
type rnBase struct{ sBase }

func (r *rnBase) Run() error {
	r.log.R = append(r.log.R, r.tok.id)
	if r.tok.has('!') {
		return errInjected
	}
	return nil
}

type rnP struct {
	rnBase
	kOrder
	definition.PriorityComponent
}
type rnO struct {
	rnBase
	kOrder
}
type rnN struct{ rnBase }
type rnQ struct {
	rnBase
	definition.PriorityComponent
}

func mkRunner(b sBase) any {
	switch b.tok.cls {
	case 'p':
		return &rnP{rnBase: rnBase{b}, kOrder: kOrder{b.tok.key}}
	case 'o':
		return &rnO{rnBase: rnBase{b}, kOrder: kOrder{b.tok.key}}
	case 'q':
		return &rnQ{rnBase: rnBase{b}}
	}
	return &rnN{rnBase{b}}
}

func showIDs(in []ordTok, ids []int, withID bool) string {
	if len(ids) == 0 {
		return "-"
	}
	ss := make([]string, len(ids))
	for i, id := range ids {
		ss[i] = in[id].show(withID)
	}
	return strings.Join(ss, ",")
}

func anyMark(ts []ordTok, marks string) bool {
	for _, t := range ts {
		if strings.ContainsAny(t.marks, marks) {
			return true
		}
	}
	return false
}

// seqOracle: `log` must be the invocation sequence of `in` under the contract, walked front to back and stopped by
// the first participant carrying one of `stops`. reached=false: the stage must not have run at all.
func seqOracle(sig string, in []ordTok, log []int, stops string, reached, plainStable bool) string {
	if !reached {
		if len(log) != 0 {
			return fmt.Sprintf("FAIL %s-stage ran although an earlier stage failed (%d calls)", sig, len(log))
		}
		return ""
	}
	if f := contractOracle(sig, in, log, plainStable); f != "" {
		return f
	}
	for i, id := range log {
		if strings.ContainsAny(in[id].marks, stops) && i != len(log)-1 {
			return fmt.Sprintf("FAIL %s-stop the loop went on after %s", sig, in[id])
		}
	}
	inLog := make([]bool, len(in))
	for _, id := range log {
		inLog[id] = true
	}
	if !anyMark(in, stops) || stops == "" {
		return allOnce(sig, in, log)
	}
	if len(log) == 0 || !strings.ContainsAny(in[log[len(log)-1]].marks, stops) {
		return fmt.Sprintf("FAIL %s-perm the loop ended early without a stopping participant (%d of %d)", sig, len(log), len(in))
	}
	// downward closed: nobody who must come strictly earlier was skipped
	for y := range in {
		if inLog[y] {
			continue
		}
		for _, x := range log {
			a, b := in[y], in[x]
			if a.rank() < b.rank() || (a.rank() == b.rank() && a.rank() < 2 && a.key < b.key) ||
				(plainStable && a.rank() == 2 && b.rank() == 2 && a.id < b.id) {
				return fmt.Sprintf("FAIL %s-perm %s#%d was skipped although %s#%d was invoked", sig, a, a.id, b, b.id)
			}
		}
	}
	return ""
}

func runOrderStart(ls, ps, rs []ordTok, tags []string, w *hx.Writer) {
	c := hx.Case{Scn: strings.Join(strings.Fields("S L "+joinToks(ls)+" P "+joinToks(ps)+" R "+joinToks(rs)), " "), Tags: tags}
	lg := &startLog{cur: -1}
	var loaders []configure.Loader
	for _, t := range ls {
		loaders = append(loaders, mkLoader(sBase{tok: t, name: fmt.Sprintf("ordL%d", t.id), log: lg}))
	}
	comps := []any{&ordProbe{}}
	for _, t := range ps {
		comps = append(comps, mkProc(sBase{tok: t, name: fmt.Sprintf("ordP%d", t.id), log: lg}))
	}
	for _, t := range rs {
		comps = append(comps, mkRunner(sBase{tok: t, name: fmt.Sprintf("ordR%d", t.id), log: lg}))
	}
	type result struct {
		err error
		pan any
	}
	done := make(chan result, 1)
	go func() {
		var res result
		res.pan = hx.Guard(func() {
			res.err = app.NewApp().Run(app.LogLevel(syslog.LvPanic),
				app.SetConfigBinder(&logBinder{Binder: binder.NewViperBinder("yaml"), log: lg}),
				app.SetConfigLoader(loaders...),
				app.SetComponents(comps...))
		})
		done <- res
	}()
	var res result
	select {
	case res = <-done:
	case <-time.After(30 * time.Second):
		c.Obs = "hang"
		c.Oracle = "FAIL start-hang no result after 30s"
		w.Put(c)
		return
	}
	if res.pan != nil {
		c.Obs = "panic"
		c.Oracle = "FAIL start-panic " + fmt.Sprint(res.pan)
		w.Put(c)
		return
	}
	e := "ok"
	if res.err != nil {
		e = "err"
	}
	c.Obs = "L:" + showIDs(ls, lg.L, true) + " B:" + showIDs(ls, lg.B, true) + " I:" + showIDs(ps, lg.I, false) +
		" P:" + showIDs(ps, lg.P, false) + " A:" + showIDs(ps, lg.A, false) + " R:" + showIDs(rs, lg.R, false) + " E:" + e

	// ---- oracles
	// which stop was hit is read off the real log (the log itself is checked by seqOracle)
	lastHas := func(in []ordTok, log []int, m byte) bool { return len(log) > 0 && in[log[len(log)-1]].has(m) }
	loadStop := anyMark(ls, "!*")
	beforeErr := lastHas(ps, lg.P, '!')
	beforeStop := beforeErr || lastHas(ps, lg.P, '?')
	procErr := beforeErr || (!beforeStop && lastHas(ps, lg.A, '^'))
	var insts []ordTok // the InstantiationAware processors, re-indexed
	instIdx := map[int]int{}
	for _, t := range ps {
		if t.inst {
			instIdx[t.id] = len(insts)
			t2 := t
			t2.id = len(insts)
			insts = append(insts, t2)
		}
	}
	ilog := make([]int, 0, len(lg.I))
	for _, id := range lg.I {
		ilog = append(ilog, instIdx[id])
	}
	var wantB []int
	for _, id := range lg.L {
		if ls[id].has('!') {
			break
		}
		if ls[id].has('*') || ls[id].has('+') {
			wantB = append(wantB, id)
		}
		if ls[id].has('*') {
			break
		}
	}
	checks := []string{
		seqOracle("start-loaders", ls, lg.L, "!*", true, true),
		seqOracle("start-inst", insts, ilog, "", !loadStop, false),
		seqOracle("start-processors", ps, lg.P, "!?", !loadStop, false),
		seqOracle("start-after", ps, lg.A, "^~", !loadStop && !beforeStop, false),
		seqOracle("start-runners", rs, lg.R, "!", !loadStop && !procErr, false),
	}
	if fmt.Sprint(wantB) != fmt.Sprint(lg.B) {
		checks = append(checks, fmt.Sprintf("FAIL start-binder SetConfig sequence %v, LoadConfig sequence with data %v", lg.B, wantB))
	}
	wantErr := loadStop || procErr || anyMark(rs, "!")
	if wantErr != (res.err != nil) {
		checks = append(checks, fmt.Sprintf("FAIL start-result Run error=%v, injected failure=%v", res.err != nil, wantErr))
	}
	for _, f := range checks {
		if f != "" {
			c.Oracle = f
			break
		}
	}
	w.Put(c)
}

// uniqueCK: no other participant of the list has the same class and key (so a stop there is not inside a tie group)
func uniqueCK(ts []ordTok, i int) bool {
	for j, t := range ts {
		if j != i && t.rank() == ts[i].rank() && (t.rank() == 2 || t.key == ts[i].key) {
			return false
		}
	}
	return true
}

func genStartList(r *hx.Rng, maxLen int, role byte, stopProb int) []ordTok {
	ln := r.Intn(maxLen + 1)
	wts := genWeights(r)
	if r.P(1, 2) {
		wts = [4]int{2, 2, 1, 1}
	}
	mode := r.Intn(4)
	ts := make([]ordTok, ln)
	for j := range ts {
		ts[j] = ordTok{cls: genClass(r, wts), id: j}
		if ts[j].cls == 'p' || ts[j].cls == 'o' {
			ts[j].key = genKey(r, mode)
		}
		if role == 'P' {
			ts[j].inst = r.P(1, 3)
		}
		if role == 'L' && r.P(1, 3) {
			ts[j].marks = "+"
		}
	}
	// stopping markers: only where the stopped prefix does not depend on tie order
	// (a unique (class,key); plain loaders are ordered by registration)
	if ln > 0 && r.P(stopProb, 100) {
		for tries := 0; tries < 3; tries++ {
			i := r.Intn(ln)
			plainOK := role == 'L' && ts[i].rank() == 2
			if !(plainOK || (ts[i].rank() < 2 && uniqueCK(ts, i))) {
				continue
			}
			switch role {
			case 'L':
				ts[i].marks = []string{"!", "*", "+!"}[r.Intn(3)]
			case 'R':
				ts[i].marks = "!"
			case 'P':
				ts[i].marks += []string{"!", "?", "^", "~"}[r.Intn(4)]
			}
			if !r.P(1, 4) {
				break
			}
		}
	}
	return ts
}

func startTags(ls, ps, rs []ordTok) []string {
	tags := []string{}
	if len(ls)+len(ps)+len(rs) <= 1 {
		tags = append(tags, "trivial")
	}
	if anyMark(ls, "!*") {
		tags = append(tags, "loader-stop")
	}
	if anyMark(ps, "!?^~") {
		tags = append(tags, "processor-stop")
	}
	if anyMark(rs, "!") {
		tags = append(tags, "runner-stop")
	}
	if !anyMark(ls, "!*") && !anyMark(ps, "!?^~") && !anyMark(rs, "!") {
		tags = append(tags, "no-stop")
	}
	if len(ls) > 12 || len(ps) > 12 || len(rs) > 12 {
		tags = append(tags, "some-list>12")
	}
	return tags
}

func orderStartGen(rng *hx.Rng, n int, tier string, w *hx.Writer) {
	for i := 0; i < n; i++ {
		r := rng.Fork()
		max := 8
		if r.P(1, 5) {
			max = 20
		}
		ls := genStartList(r, max, 'L', 12)
		ps := genStartList(r, max, 'P', 25)
		rs := genStartList(r, max, 'R', 25)
		runOrderStart(ls, ps, rs, startTags(ls, ps, rs), w)
	}
}

func orderStartCorpus(w *hx.Writer) {
	for _, s := range []string{
		"L P R",
		"L n p1 o99 p98 o0 P n p1 o99 p98 o0 R n p1 o99 p98 o0",
		"L q+ p1+ o1+ n+ P iq ip1 io1 in R q p1 o1 n",
		"L o2+ p1 n! n P ip3 o1 n R o1 p5 n",
		"L o2+ p1* n P ip3 o1 n R o1 p5 n",
		"L o2 p1 P ip3 o1? o2 n R o1 p5",
		"L o2 p1 P ip3! o1 o2 n R o1 p5",
		"L P p3 o1^ o2 n R o1 p5",
		"L P p3 o1~ io2 n R o1 p5! n",
		"L P R p-9223372036854775808 p9223372036854775807 o-1! o-2 n",
	} {
		orderReplay(s, w)
	}
}

func splitSections(ws []string) (l, p, r []string, ok bool) {
	if len(ws) == 0 || ws[0] != "L" {
		return
	}
	stage := 0
	for _, x := range ws[1:] {
		switch {
		case x == "P" && stage == 0:
			stage = 1
		case x == "R" && stage == 1:
			stage = 2
		case stage == 0:
			l = append(l, x)
		case stage == 1:
			p = append(p, x)
		default:
			r = append(r, x)
		}
	}
	return l, p, r, stage == 2
}

func orderReplay(scn string, w *hx.Writer) {
	f := strings.Fields(scn)
	if len(f) == 0 {
		return
	}
	if f[0] == "L" { // corpus shorthand
		f = append([]string{"S"}, f...)
	}
	switch f[0] {
	case "D":
		if toks, ok := parseOrdToks(f[1:]); ok {
			runOrderDirect(toks, []string{"replay"}, w)
		}
	case "S":
		l, p, r, ok := splitSections(f[1:])
		if !ok {
			return
		}
		ls, ok1 := parseOrdToks(l)
		ps, ok2 := parseOrdToks(p)
		rs, ok3 := parseOrdToks(r)
		if ok1 && ok2 && ok3 {
			runOrderStart(ls, ps, rs, append(startTags(ls, ps, rs), "replay"), w)
		}
	}
}
