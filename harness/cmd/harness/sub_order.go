package main

// sub-harnesses `order` and `orderstart` (C12): the ordering contract.
//
//	order       `D tok*`                   → framework_helper.SortOrderedComponents called directly
//	orderstart  `S L tok* P tok* R tok*`   → a real app start with logging loaders / post-processors / runners
//	            `SC L tok* P tok* R tok*`  → the same start with the probe component in a circular reference with a second
//	                                         singleton (so the container requests an early reference) and the post-processors
//	                                         REGISTERED in the order of the P section (imposed on GetSingletonNames); the
//	                                         GetEarlyBeanReference callbacks of the smart (`s`) processors are logged (G:)
//	            `SB L tok* P tok* R tok*`  → a start with TWO watched components (ordprobe, ordtwin; created in that order) and
//	                                         InstantiationAware processors that SUPPLY an instance from PostProcessBeforeInstantiation
//	                                         (marker b: for ordprobe, d: for ordtwin); every callback for either component is logged
//	            `Q op (/ op)*`             → one configure.Configure driven through a sequence of  S tok* (SetLoaders),
//	                                         A tok* (AddLoaders), I (Initialize); one `L:… B:… E:…` group per Initialize
//
// participant token:  [i|s] (p<k> | o<k> | n | q) markers*      (see lean/Driver/Order.lean)
//
//	i = InstantiationAware processor, s = SmartInstantiationAware processor (implements GetEarlyBeanReference)
//
//	marker z (processors only) = the processor is LazyInit (embeds definition.LazyInitComponent): the registration loop of
//	InvokeBeanFactoryPostProcessors appends it AS REGISTERED, at its sorted position, instead of asking the factory for it
//
//	marker w (processors only) = a DECORATING processor: its PostProcessAfterInitialization answers every post-processor
//	component the factory creates after it (the eager processors later in the sorted registration loop) with a decorator
//	that embeds nothing but the widest container post-processor interface the processor implements — so the instance that
//	lands in componentPostProcessors (delegate:56-58 `processor = icp`) has neither Order() nor Priority() nor LazyInit().
//	The decorator forwards every callback, so the logs still name the REGISTERED processor; the contract is judged by the
//	registered processor's declared class and Order.  On the unchanged library a decorated processor stays at the position
//	its registration earned (the registration loop appends inside the one walk over the sorted raw slice).
//
//	markers of `SB` starts (processors): b / d = PostProcessBeforeInstantiation hands out a ready-made instance for ordprobe /
//	ordtwin (InstantiationAware processors only) — the factory then takes the short-circuit of createComponent
//	(factory.go:170-181): that component gets the after-initialization chain and nothing else;  % = PostProcessBeforeInstantiation
//	fails for the watched components;  r = PostProcessAfterInitialization answers the watched components with a REPLACEMENT
//	(a wrapper around what it was given).
//
//	marker e (runners only) = the runner is a ZERO-SIZE Go type (a field-less struct; all of them share one address): it
//	cannot carry its token, so its callbacks look the token up in / report to the package-level record of the current start
//	(`curOrd`); at most three per class and start (twelve Go types zrP0 … zrQ2).  The driver ignores the marker.
//
//	markers t / u (processors and runners; ninth round) = the SAME instance reaches the singleton registry through two
//	routes: t = it is listed twice in the application's own app.SetComponents(...) call (app.SetComponents(x, x));
//	u = it is listed once more in a SECOND app.SetComponents option applied after the first one (a module's option bundle
//	next to the application's own list).  The registry tolerates this (singleton_registry.go:54-59: the same object under a
//	taken name is ignored), so the instance is still ONE participant: once in the sorted sequence, each callback once per
//	component.  The driver registers the instances as often as the line says and applies the registry's rule.
//
//	marker c (runners of class p / o only; ninth round) = the runner's Order() answers a field bound from CONFIGURATION
//	(`value:"${ordrc.<class><slot>}"`; eight Go types rcP0 … rcO3, at most four per class and start; the configuration
//	holds the token's key under that path before the start).  Such a runner answers 0 until the container has populated it.
//	The runners are called `ordR<id>`, which sorts after github.com/go-kid/ioc/app/App: Refresh creates (and populates) them
//	AFTER the App component.  In a start with such runners the definition registry enumerates them LAST and in DESCENDING
//	configured Order (imposed on GetMetas through factory.NewWithRegistries, like the graph harness does): whoever fixes
//	the runner sequence before the runners are wired sees them tie and keeps exactly the wrong order.  The contract is
//	judged — and the observation printed — with the Order() each runner answered when its Run was called.
//
//	p = Priority()+Order(), o = Order() only, n = neither, q = Priority() without Order() (must land in the plain block)
//
// Observations never show the order inside a (class,key) tie group (sort.Slice is unstable).
//
// Oracles (on the real output only, independent of the model): the contract itself — every participant exactly
// once, class blocks in order, keys non-decreasing inside the first two blocks, plain block in registration order
// (only where a registration order exists: direct calls and loaders); for starts with an injected stop (error / nil
// answer) the log must be a downward-closed prefix ending in the stopping participant, and later stages must not run.

import (
	"errors"
	"fmt"
	"math"
	"sort"
	"strconv"
	"strings"
	"time"

	"github.com/go-kid/ioc/app"
	"github.com/go-kid/ioc/component_definition"
	"github.com/go-kid/ioc/configure"
	"github.com/go-kid/ioc/configure/binder"
	"github.com/go-kid/ioc/container"
	"github.com/go-kid/ioc/container/factory"
	"github.com/go-kid/ioc/container/processors"
	"github.com/go-kid/ioc/container/support"
	"github.com/go-kid/ioc/definition"
	"github.com/go-kid/ioc/syslog"
	"github.com/go-kid/ioc/util/framework_helper"

	"verifharness/internal/hx"
)

func init() {
	register(&Sub{Name: "order", Gen: orderGen, Replay: orderReplay, Corpus: orderCorpus})
	register(&Sub{Name: "orderstart", Gen: orderStartGen, Replay: orderReplay, Corpus: orderStartCorpus})
}

// ---------------------------------------------------------------- tokens

type ordTok struct {
	cls   byte // 'p' 'o' 'n' 'q'
	key   int
	inst  bool
	smart bool // SmartInstantiationAware (implies inst)
	marks string
	id    int
}

func (t ordTok) rank() int {
	switch t.cls {
	case 'p':
		return 0
	case 'o':
		return 1
	}
	return 2
}

func (t ordTok) has(m byte) bool { return strings.IndexByte(t.marks, m) >= 0 }

// lazy: a LazyInit post-processor (marker z)
func (t ordTok) lazy() bool { return t.has('z') }

func (t ordTok) String() string {
	s := ""
	if t.smart {
		s = "s"
	} else if t.inst {
		s = "i"
	}
	s += string(t.cls)
	if t.cls == 'p' || t.cls == 'o' {
		s += strconv.Itoa(t.key)
	}
	return s + t.marks
}

// show is the canonical observation of one participant: class and key; identity only for plain ones when withID
func (t ordTok) show(withID bool) string {
	switch t.cls {
	case 'p', 'o':
		return string(t.cls) + strconv.Itoa(t.key)
	}
	if withID {
		return "n" + strconv.Itoa(t.id)
	}
	return "n"
}

func parseOrdTok(s string, id int) (ordTok, bool) {
	t := ordTok{id: id}
	if strings.HasPrefix(s, "i") {
		t.inst = true
		s = s[1:]
	} else if strings.HasPrefix(s, "s") {
		t.inst, t.smart = true, true
		s = s[1:]
	}
	if s == "" {
		return t, false
	}
	t.cls = s[0]
	s = s[1:]
	i := 0
	for i < len(s) && (s[i] == '-' || (s[i] >= '0' && s[i] <= '9')) {
		i++
	}
	num := s[:i]
	t.marks = s[i:]
	switch t.cls {
	case 'p', 'o':
		k, err := strconv.ParseInt(num, 10, 64)
		if err != nil {
			return t, false
		}
		t.key = int(k)
	case 'n', 'q':
		if num != "" {
			return t, false
		}
	default:
		return t, false
	}
	return t, true
}

func parseOrdToks(ws []string) ([]ordTok, bool) {
	out := make([]ordTok, 0, len(ws))
	for i, w := range ws {
		t, ok := parseOrdTok(w, i)
		if !ok {
			return nil, false
		}
		out = append(out, t)
	}
	return out, true
}

func joinToks(ts []ordTok) string {
	ss := make([]string, len(ts))
	for i, t := range ts {
		ss[i] = t.String()
	}
	return strings.Join(ss, " ")
}

// ---------------------------------------------------------------- (i) direct calls

type dItem interface{ ident() int }

type dP struct{ id, k int }
type dO struct{ id, k int }
type dN struct{ id int }
type dQ struct{ id int }

func (d dP) ident() int { return d.id }
func (d dP) Order() int { return d.k }
func (d dP) Priority()  {}
func (d dO) ident() int { return d.id }
func (d dO) Order() int { return d.k }
func (d dN) ident() int { return d.id }
func (d dQ) ident() int { return d.id }
func (d dQ) Priority()  {}

func mkItem(t ordTok) dItem {
	switch t.cls {
	case 'p':
		return dP{t.id, t.key}
	case 'o':
		return dO{t.id, t.key}
	case 'q':
		return dQ{t.id}
	}
	return dN{t.id}
}

// contractOracle evaluates the ordering contract on `out` (ids into `in`). complete=false allows a prefix.
// plainStable: the plain block must be in registration (id) order.
func contractOracle(sig string, in []ordTok, out []int, plainStable bool) string {
	seen := make([]bool, len(in))
	for _, id := range out {
		if id < 0 || id >= len(in) {
			return fmt.Sprintf("FAIL %s-perm foreign participant %d", sig, id)
		}
		if seen[id] {
			return fmt.Sprintf("FAIL %s-perm participant %d (%s) appears twice", sig, id, in[id])
		}
		seen[id] = true
	}
	for i := 1; i < len(out); i++ {
		a, b := in[out[i-1]], in[out[i]]
		if a.rank() > b.rank() {
			return fmt.Sprintf("FAIL %s-classes %s before %s at %d", sig, a, b, i)
		}
		if a.rank() == b.rank() && a.rank() < 2 && a.key > b.key {
			return fmt.Sprintf("FAIL %s-monotone %s before %s at %d", sig, a, b, i)
		}
		if plainStable && a.rank() == 2 && b.rank() == 2 && a.id > b.id {
			return fmt.Sprintf("FAIL %s-plain-stable %s#%d before %s#%d at %d", sig, a, a.id, b, b.id, i)
		}
	}
	return ""
}

func allOnce(sig string, in []ordTok, out []int) string {
	if len(out) != len(in) {
		return fmt.Sprintf("FAIL %s-perm %d participants in, %d out", sig, len(in), len(out))
	}
	return ""
}

func runOrderDirect(toks []ordTok, tags []string, w *hx.Writer) {
	c := hx.Case{Scn: strings.TrimSpace("D " + joinToks(toks)), Tags: tags}
	in := make([]dItem, len(toks))
	for i, t := range toks {
		in[i] = mkItem(t)
	}
	var out []dItem
	if pan := hx.Guard(func() { out = framework_helper.SortOrderedComponents(in) }); pan != nil {
		c.Obs = "panic"
		c.Oracle = "FAIL order-panic " + fmt.Sprint(pan)
		w.Put(c)
		return
	}
	ids := make([]int, len(out))
	var sb []string
	for i, it := range out {
		ids[i] = it.ident()
		if ids[i] >= 0 && ids[i] < len(toks) {
			sb = append(sb, toks[ids[i]].show(true))
		} else {
			sb = append(sb, "?")
		}
	}
	c.Obs = strings.Join(sb, " ")
	if len(sb) == 0 {
		c.Obs = "-"
	}
	c.Oracle = contractOracle("order", toks, ids, true)
	if c.Oracle == "" {
		c.Oracle = allOnce("order", toks, ids)
	}
	w.Put(c)
}

var ordKeys = []int{math.MinInt64, -3, -2, -1, 0, 1, 2, 3, math.MaxInt64}

func genKey(r *hx.Rng, mode int) int {
	switch mode {
	case 0: // everything
		return ordKeys[r.Intn(len(ordKeys))]
	case 1: // many ties
		return []int{-1, 0, 1}[r.Intn(3)]
	case 2: // extremes
		return []int{math.MinInt64, math.MaxInt64, 0, -1}[r.Intn(4)]
	default:
		return r.Intn(7) - 3
	}
}

func genClass(r *hx.Rng, w [4]int) byte {
	tot := w[0] + w[1] + w[2] + w[3]
	x := r.Intn(tot)
	for i, c := range []byte{'p', 'o', 'n', 'q'} {
		if x < w[i] {
			return c
		}
		x -= w[i]
	}
	return 'n'
}

func genWeights(r *hx.Rng) [4]int {
	switch r.Intn(6) {
	case 0:
		return [4]int{1, 0, 0, 0} // one block only: long runs through pdqsort
	case 1:
		return [4]int{0, 1, 0, 0}
	case 2:
		return [4]int{3, 3, 1, 1}
	case 3:
		return [4]int{1, 1, 3, 2}
	default:
		return [4]int{2, 2, 1, 1}
	}
}

func genLen(r *hx.Rng) int {
	switch k := r.Intn(8); {
	case k < 2:
		return r.Intn(6)
	case k < 5:
		return r.Intn(13)
	default:
		return 13 + r.Intn(28)
	}
}

func orderGen(rng *hx.Rng, n int, tier string, w *hx.Writer) {
	for i := 0; i < n; i++ {
		r := rng.Fork()
		ln := genLen(r)
		wts := genWeights(r)
		mode := r.Intn(4)
		toks := make([]ordTok, ln)
		classes := map[byte]bool{}
		for j := range toks {
			toks[j] = ordTok{cls: genClass(r, wts), id: j}
			if toks[j].cls == 'p' || toks[j].cls == 'o' {
				toks[j].key = genKey(r, mode)
			}
			classes[toks[j].cls] = true
		}
		tags := []string{fmt.Sprintf("classes%d", len(classes))}
		switch {
		case ln <= 1:
			tags = append(tags, "trivial")
		case ln <= 12:
			tags = append(tags, "len2-12")
		default:
			tags = append(tags, "len13-40")
		}
		if classes['q'] {
			tags = append(tags, "priority-without-order")
		}
		runOrderDirect(toks, tags, w)
	}
}

func orderCorpus(w *hx.Writer) {
	for _, s := range []string{
		"", "n", "q", "p0", "o0",
		"n p1 o99 p98 o0", // the repo's own test vector
		"q p1 o1 n", "o1 p1", "n o0 p0", "p3 p2 p1 p0 p-1 p-2 p-3",
		"o-9223372036854775808 o9223372036854775807 o0 p9223372036854775807 p-9223372036854775808",
		"p1 p1 p1 o1 o1 n n q q n",
		"o0 o0 o0 o0 o0 o0 o0 o0 o0 o0 o0 o0 o0 o-1 o0 o0 o0 o0 o0 o0",
		"p3 p-3 p2 p-2 p1 p-1 p0 p3 p-3 p2 p-2 p1 p-1 p0 p3 p-3 p2 p-2 p1 p-1 p0 n q o1 o0",
	} {
		toks, ok := parseOrdToks(strings.Fields(s))
		if ok {
			runOrderDirect(toks, []string{"corpus"}, w)
		}
	}
}

// ---------------------------------------------------------------- (ii) real starts

const ordProbeName = "ordprobe"

type ordProbe struct{}

func (p *ordProbe) Naming() string { return ordProbeName }

type startLog struct {
	L, B, I, P, A, R []int
	G                []gCall // GetEarlyBeanReference callbacks: (component the early reference is for, processor)
	cur              int     // loader whose LoadConfig ran last
	// `SB` starts: PostProcessBeforeInstantiation calls for the probe (N) and the callbacks for the second watched component
	N, N2, I2, P2, A2 []int
	// runners with a configuration-driven Order (marker c): id → the Order() the runner answered when its Run was called
	RK map[int]int
}

// the second watched component of `SB` starts; Refresh creates the components in name order: ordprobe, then ordtwin
const ordTwinName = "ordtwin"

type ordTwin struct{}

func (p *ordTwin) Naming() string { return ordTwinName }

// ordStandIn: the ready-made instance a supplying processor (marker b / d) hands out from PostProcessBeforeInstantiation
type ordStandIn struct{ by ordTok }

// ordWrap: the replacement a processor with marker r answers from PostProcessAfterInitialization
type ordWrap struct {
	inner any
	by    ordTok
}

// ordDescribe: what a watched component finally is: raw / sup.<supplier>, then the wrappers from the inside out
func ordDescribe(c any) string {
	wraps := ""
	for {
		w, ok := c.(*ordWrap)
		if !ok {
			break
		}
		wraps = "+" + w.by.show(false) + wraps
		c = w.inner
	}
	switch x := c.(type) {
	case *ordProbe, *ordTwin:
		return "raw" + wraps
	case *ordStandIn:
		return "sup." + x.by.show(false) + wraps
	}
	return "?" + wraps
}

type gCall struct {
	name string
	id   int
}

// the probe of `SC` starts: a circular reference between two singletons, so that whichever is created first is handed to
// the other one as an EARLY reference (factory.go:194-201, 283-296) — the only place GetEarlyBeanReference is called from
type ordProbeC struct {
	Mate *ordMate `wire:""`
}

func (p *ordProbeC) Naming() string { return ordProbeName }

type ordMate struct {
	Probe *ordProbeC `wire:""`
}

func (m *ordMate) Naming() string { return "ordmate" }

// sBase: what every logging participant carries. NO injection points (no tagged fields).
type sBase struct {
	tok  ordTok
	name string
	log  *startLog
}

func (b *sBase) Naming() string { return b.name }

type kOrder struct{ k int }

func (k kOrder) Order() int { return k.k }

var errInjected = errors.New("injected")

// loaders
type ldBase struct{ sBase }

func (l *ldBase) LoadConfig() ([]byte, error) {
	l.log.L = append(l.log.L, l.tok.id)
	l.log.cur = l.tok.id
	switch {
	case l.tok.has('!'):
		return nil, errInjected
	case l.tok.has('*'):
		return []byte("a: [1, 2"), nil // not YAML: the real binder rejects it
	case l.tok.has('+'):
		return []byte(fmt.Sprintf("k%d: %d", l.tok.id, l.tok.id)), nil
	}
	return nil, nil
}

type ldP struct {
	ldBase
	kOrder
	definition.PriorityComponent
}
type ldO struct {
	ldBase
	kOrder
}
type ldN struct{ ldBase }
type ldQ struct {
	ldBase
	definition.PriorityComponent
}

func mkLoader(b sBase) configure.Loader {
	switch b.tok.cls {
	case 'p':
		return &ldP{ldBase: ldBase{b}, kOrder: kOrder{b.tok.key}}
	case 'o':
		return &ldO{ldBase: ldBase{b}, kOrder: kOrder{b.tok.key}}
	case 'q':
		return &ldQ{ldBase: ldBase{b}}
	}
	return &ldN{ldBase{b}}
}

// the real viper binder, with SetConfig calls logged
type logBinder struct {
	configure.Binder
	log *startLog
}

func (b *logBinder) SetConfig(c []byte) error {
	b.log.B = append(b.log.B, b.log.cur)
	return b.Binder.SetConfig(c)
}

// post-processors
func ppBefore(b *sBase, c any, name string) (any, error) {
	switch name {
	case ordProbeName:
		b.log.P = append(b.log.P, b.tok.id)
	case ordTwinName:
		b.log.P2 = append(b.log.P2, b.tok.id)
	default:
		return c, nil
	}
	if b.tok.has('!') {
		return nil, errInjected
	}
	if b.tok.has('?') {
		return nil, nil
	}
	return c, nil
}

// decorators a `w` processor puts around the post-processors created after it: only the container interface is embedded
// (like the library's own AOP example, unittest/component/post/t.go), so Order / Priority / LazyInit / Naming are NOT promoted
type decoCPP struct {
	container.ComponentPostProcessor
}
type decoInst struct {
	container.InstantiationAwareComponentPostProcessor
}
type decoSmart struct {
	container.SmartInstantiationAwareBeanPostProcessor
}

func decorate(c any) any {
	switch p := c.(type) {
	case container.SmartInstantiationAwareBeanPostProcessor:
		return &decoSmart{p}
	case container.InstantiationAwareComponentPostProcessor:
		return &decoInst{p}
	case container.ComponentPostProcessor:
		return &decoCPP{p}
	}
	return c
}

func ppAfter(b *sBase, c any, name string) (any, error) {
	if name != ordProbeName && name != ordTwinName {
		if b.tok.has('w') && strings.HasPrefix(name, "ordP") {
			return decorate(c), nil
		}
		return c, nil
	}
	if name == ordTwinName {
		b.log.A2 = append(b.log.A2, b.tok.id)
	} else {
		b.log.A = append(b.log.A, b.tok.id)
	}
	if b.tok.has('^') {
		return nil, errInjected
	}
	if b.tok.has('~') {
		return nil, nil
	}
	if b.tok.has('r') {
		return &ordWrap{inner: c, by: b.tok}, nil
	}
	return c, nil
}

type ppBase struct {
	processors.DefaultComponentPostProcessor
	sBase
}

func (p *ppBase) PostProcessBeforeInitialization(c any, n string) (any, error) {
	return ppBefore(&p.sBase, c, n)
}
func (p *ppBase) PostProcessAfterInitialization(c any, n string) (any, error) {
	return ppAfter(&p.sBase, c, n)
}

type ipBase struct {
	processors.DefaultInstantiationAwareComponentPostProcessor
	sBase
}

func (p *ipBase) PostProcessBeforeInitialization(c any, n string) (any, error) {
	return ppBefore(&p.sBase, c, n)
}
func (p *ipBase) PostProcessAfterInitialization(c any, n string) (any, error) {
	return ppAfter(&p.sBase, c, n)
}
func (p *ipBase) PostProcessAfterInstantiation(c any, n string) (bool, error) {
	if n == ordProbeName {
		p.log.I = append(p.log.I, p.tok.id)
	}
	if n == ordTwinName {
		p.log.I2 = append(p.log.I2, p.tok.id)
	}
	return false, nil
}

// PostProcessBeforeInstantiation (delegate:193-211 asks the InstantiationAware processors in chain order until one fails or
// hands out a component): logged for the watched components; marker % fails, marker b (ordprobe) / d (ordtwin) supplies
func (p *ipBase) PostProcessBeforeInstantiation(m *component_definition.Meta, n string) (any, error) {
	var supply byte
	switch n {
	case ordProbeName:
		p.log.N = append(p.log.N, p.tok.id)
		supply = 'b'
	case ordTwinName:
		p.log.N2 = append(p.log.N2, p.tok.id)
		supply = 'd'
	default:
		return nil, nil
	}
	if p.tok.has('%') {
		return nil, errInjected
	}
	if p.tok.has(supply) {
		return &ordStandIn{by: p.tok}, nil
	}
	return nil, nil
}

// smart processors: InstantiationAware + GetEarlyBeanReference (container/def.go:75-78)
type spBase struct{ ipBase }

func (p *spBase) GetEarlyBeanReference(c any, n string) (any, error) {
	p.log.G = append(p.log.G, gCall{n, p.tok.id})
	return c, nil
}

type spP struct {
	spBase
	kOrder
	definition.PriorityComponent
}
type spO struct {
	spBase
	kOrder
}
type spN struct{ spBase }
type spQ struct {
	spBase
	definition.PriorityComponent
}

type ppP struct {
	ppBase
	kOrder
	definition.PriorityComponent
}
type ppO struct {
	ppBase
	kOrder
}
type ppN struct{ ppBase }
type ppQ struct {
	ppBase
	definition.PriorityComponent
}
type ipP struct {
	ipBase
	kOrder
	definition.PriorityComponent
}
type ipO struct {
	ipBase
	kOrder
}
type ipN struct{ ipBase }
type ipQ struct {
	ipBase
	definition.PriorityComponent
}

// LazyInit variants of the twelve processor types (definition.LazyInitComponent embedded next to the eager type: the
// post-processor interfaces, Naming, Order and Priority are promoted, LazyInit() is added)
type lzppP struct {
	ppP
	definition.LazyInitComponent
}
type lzppO struct {
	ppO
	definition.LazyInitComponent
}
type lzppN struct {
	ppN
	definition.LazyInitComponent
}
type lzppQ struct {
	ppQ
	definition.LazyInitComponent
}
type lzipP struct {
	ipP
	definition.LazyInitComponent
}
type lzipO struct {
	ipO
	definition.LazyInitComponent
}
type lzipN struct {
	ipN
	definition.LazyInitComponent
}
type lzipQ struct {
	ipQ
	definition.LazyInitComponent
}
type lzspP struct {
	spP
	definition.LazyInitComponent
}
type lzspO struct {
	spO
	definition.LazyInitComponent
}
type lzspN struct {
	spN
	definition.LazyInitComponent
}
type lzspQ struct {
	spQ
	definition.LazyInitComponent
}

// mkProc: the processor object of a token; with marker z its LazyInit variant
func mkProc(b sBase) any {
	p := mkEagerProc(b)
	if !b.tok.lazy() {
		return p
	}
	switch x := p.(type) {
	case *ppP:
		return &lzppP{ppP: *x}
	case *ppO:
		return &lzppO{ppO: *x}
	case *ppN:
		return &lzppN{ppN: *x}
	case *ppQ:
		return &lzppQ{ppQ: *x}
	case *ipP:
		return &lzipP{ipP: *x}
	case *ipO:
		return &lzipO{ipO: *x}
	case *ipN:
		return &lzipN{ipN: *x}
	case *ipQ:
		return &lzipQ{ipQ: *x}
	case *spP:
		return &lzspP{spP: *x}
	case *spO:
		return &lzspO{spO: *x}
	case *spN:
		return &lzspN{spN: *x}
	case *spQ:
		return &lzspQ{spQ: *x}
	}
	return p
}

func mkEagerProc(b sBase) any {
	k := kOrder{b.tok.key}
	if b.tok.smart {
		sb := spBase{ipBase{sBase: b}}
		switch b.tok.cls {
		case 'p':
			return &spP{spBase: sb, kOrder: k}
		case 'o':
			return &spO{spBase: sb, kOrder: k}
		case 'q':
			return &spQ{spBase: sb}
		}
		return &spN{sb}
	}
	if b.tok.inst {
		switch b.tok.cls {
		case 'p':
			return &ipP{ipBase: ipBase{sBase: b}, kOrder: k}
		case 'o':
			return &ipO{ipBase: ipBase{sBase: b}, kOrder: k}
		case 'q':
			return &ipQ{ipBase: ipBase{sBase: b}}
		}
		return &ipN{ipBase{sBase: b}}
	}
	switch b.tok.cls {
	case 'p':
		return &ppP{ppBase: ppBase{sBase: b}, kOrder: k}
	case 'o':
		return &ppO{ppBase: ppBase{sBase: b}, kOrder: k}
	case 'q':
		return &ppQ{ppBase: ppBase{sBase: b}}
	}
	return &ppN{ppBase{sBase: b}}
}

// runners
type rnBase struct{ sBase }

func (r *rnBase) Run() error {
	r.log.R = append(r.log.R, r.tok.id)
	if r.tok.has('!') {
		return errInjected
	}
	return nil
}

type rnP struct {
	rnBase
	kOrder
	definition.PriorityComponent
}
type rnO struct {
	rnBase
	kOrder
}
type rnN struct{ rnBase }
type rnQ struct {
	rnBase
	definition.PriorityComponent
}

// runners whose Order() comes from configuration (marker c): the field K is bound by the container from `${ordrc.<slot>}`
// when the runner is populated; until then Order() answers 0.  The tag is fixed per Go type, so there are four types per
// ordered class; a start puts the token's key under the type's path (ordRcDoc).  Run records the Order() answered then.
func (r *rnBase) runC(k int) error {
	if r.log.RK == nil {
		r.log.RK = map[int]int{}
	}
	r.log.RK[r.tok.id] = k
	return r.Run()
}

type rcP0 struct {
	rnBase
	definition.PriorityComponent
	K int `value:"${ordrc.p0}"`
}
type rcP1 struct {
	rnBase
	definition.PriorityComponent
	K int `value:"${ordrc.p1}"`
}
type rcP2 struct {
	rnBase
	definition.PriorityComponent
	K int `value:"${ordrc.p2}"`
}
type rcP3 struct {
	rnBase
	definition.PriorityComponent
	K int `value:"${ordrc.p3}"`
}
type rcO0 struct {
	rnBase
	K int `value:"${ordrc.o0}"`
}
type rcO1 struct {
	rnBase
	K int `value:"${ordrc.o1}"`
}
type rcO2 struct {
	rnBase
	K int `value:"${ordrc.o2}"`
}
type rcO3 struct {
	rnBase
	K int `value:"${ordrc.o3}"`
}

func (r *rcP0) Order() int { return r.K }
func (r *rcP0) Run() error { return r.runC(r.Order()) }
func (r *rcP1) Order() int { return r.K }
func (r *rcP1) Run() error { return r.runC(r.Order()) }
func (r *rcP2) Order() int { return r.K }
func (r *rcP2) Run() error { return r.runC(r.Order()) }
func (r *rcP3) Order() int { return r.K }
func (r *rcP3) Run() error { return r.runC(r.Order()) }
func (r *rcO0) Order() int { return r.K }
func (r *rcO0) Run() error { return r.runC(r.Order()) }
func (r *rcO1) Order() int { return r.K }
func (r *rcO1) Run() error { return r.runC(r.Order()) }
func (r *rcO2) Order() int { return r.K }
func (r *rcO2) Run() error { return r.runC(r.Order()) }
func (r *rcO3) Order() int { return r.K }
func (r *rcO3) Run() error { return r.runC(r.Order()) }

const rcPerClass = 4

var rcPaths = [2 * rcPerClass]string{"p0", "p1", "p2", "p3", "o0", "o1", "o2", "o3"}

func mkConfRunner(slot int, b sBase) any {
	rb := rnBase{b}
	switch slot {
	case 0:
		return &rcP0{rnBase: rb}
	case 1:
		return &rcP1{rnBase: rb}
	case 2:
		return &rcP2{rnBase: rb}
	case 3:
		return &rcP3{rnBase: rb}
	case 4:
		return &rcO0{rnBase: rb}
	case 5:
		return &rcO1{rnBase: rb}
	case 6:
		return &rcO2{rnBase: rb}
	}
	return &rcO3{rnBase: rb}
}

// confSlots: runner id → slot of its Go type (class p: 0-3, class o: 4-7), in list order
func confSlots(rs []ordTok) map[int]int {
	out := map[int]int{}
	var used [2]int
	for _, t := range rs {
		if t.has('c') {
			k := strings.IndexByte("po", t.cls)
			out[t.id] = rcPerClass*k + used[k]
			used[k]++
		}
	}
	return out
}

// ordRcDoc: the configuration document that holds every configuration-driven runner's Order under its type's path
func ordRcDoc(rs []ordTok) []byte {
	slots := confSlots(rs)
	if len(slots) == 0 {
		return nil
	}
	var sb strings.Builder
	sb.WriteString("ordrc:\n")
	for _, t := range rs {
		if s, ok := slots[t.id]; ok {
			fmt.Fprintf(&sb, "  %s: %d\n", rcPaths[s], t.key)
		}
	}
	return []byte(sb.String())
}

// confRunnerRank: the enumeration order imposed on the definition registry in a start with configuration-driven runners:
// everything else first (rank 0, Go's own order), then those runners by DESCENDING configured Order
func confRunnerRank(rs []ordTok) map[string]int {
	var cs []ordTok
	for _, t := range rs {
		if t.has('c') {
			cs = append(cs, t)
		}
	}
	sort.SliceStable(cs, func(i, j int) bool { return cs[i].key > cs[j].key })
	rank := map[string]int{}
	for i, t := range cs {
		rank[fmt.Sprintf("ordR%d", t.id)] = i + 1
	}
	return rank
}

// zero-size runners (marker e): field-less Go types, so every instance of every one of them has the same address. A zero-size
// value cannot hold its token or a pointer to the log: Run / Order look both up in the record of the current start, by the
// slot number that is fixed per Go type (one start at a time per process).
type ordCur struct {
	log *startLog
	z   [12]ordTok // slot = 3*class + k, class in p o n q
}

var curOrd *ordCur

func zrRun(slot int) error {
	cur := curOrd
	if cur == nil {
		return nil
	}
	t := cur.z[slot]
	cur.log.R = append(cur.log.R, t.id)
	if t.has('!') {
		return errInjected
	}
	return nil
}

func zrKey(slot int) int {
	if cur := curOrd; cur != nil {
		return cur.z[slot].key
	}
	return 0
}

type zrP0 struct{}
type zrP1 struct{}
type zrP2 struct{}
type zrO0 struct{}
type zrO1 struct{}
type zrO2 struct{}
type zrN0 struct{}
type zrN1 struct{}
type zrN2 struct{}
type zrQ0 struct{}
type zrQ1 struct{}
type zrQ2 struct{}

func (*zrP0) Naming() string { return "ordRzP0" }
func (*zrP0) Run() error     { return zrRun(0) }
func (*zrP0) Order() int     { return zrKey(0) }
func (*zrP0) Priority()      {}
func (*zrP1) Naming() string { return "ordRzP1" }
func (*zrP1) Run() error     { return zrRun(1) }
func (*zrP1) Order() int     { return zrKey(1) }
func (*zrP1) Priority()      {}
func (*zrP2) Naming() string { return "ordRzP2" }
func (*zrP2) Run() error     { return zrRun(2) }
func (*zrP2) Order() int     { return zrKey(2) }
func (*zrP2) Priority()      {}
func (*zrO0) Naming() string { return "ordRzO0" }
func (*zrO0) Run() error     { return zrRun(3) }
func (*zrO0) Order() int     { return zrKey(3) }
func (*zrO1) Naming() string { return "ordRzO1" }
func (*zrO1) Run() error     { return zrRun(4) }
func (*zrO1) Order() int     { return zrKey(4) }
func (*zrO2) Naming() string { return "ordRzO2" }
func (*zrO2) Run() error     { return zrRun(5) }
func (*zrO2) Order() int     { return zrKey(5) }
func (*zrN0) Naming() string { return "ordRzN0" }
func (*zrN0) Run() error     { return zrRun(6) }
func (*zrN1) Naming() string { return "ordRzN1" }
func (*zrN1) Run() error     { return zrRun(7) }
func (*zrN2) Naming() string { return "ordRzN2" }
func (*zrN2) Run() error     { return zrRun(8) }
func (*zrQ0) Naming() string { return "ordRzQ0" }
func (*zrQ0) Run() error     { return zrRun(9) }
func (*zrQ0) Priority()      {}
func (*zrQ1) Naming() string { return "ordRzQ1" }
func (*zrQ1) Run() error     { return zrRun(10) }
func (*zrQ1) Priority()      {}
func (*zrQ2) Naming() string { return "ordRzQ2" }
func (*zrQ2) Run() error     { return zrRun(11) }
func (*zrQ2) Priority()      {}

var zrCtors = [12]func() any{
	func() any { return &zrP0{} }, func() any { return &zrP1{} }, func() any { return &zrP2{} },
	func() any { return &zrO0{} }, func() any { return &zrO1{} }, func() any { return &zrO2{} },
	func() any { return &zrN0{} }, func() any { return &zrN1{} }, func() any { return &zrN2{} },
	func() any { return &zrQ0{} }, func() any { return &zrQ1{} }, func() any { return &zrQ2{} },
}

// zeroSizeFits: at most three zero-size runners per class (there are three Go types per class)
func zeroSizeFits(rs []ordTok) bool {
	var n [4]int
	var nc [2]int
	for _, t := range rs {
		if t.has('c') { // configuration-driven Order: ordered classes only, four Go types per class, never zero-size
			k := strings.IndexByte("po", t.cls)
			if k < 0 || nc[k] == rcPerClass || t.has('e') {
				return false
			}
			nc[k]++
		}
		if t.has('e') {
			k := strings.IndexByte("ponq", t.cls)
			if k < 0 || n[k] == 3 {
				return false
			}
			n[k]++
		}
	}
	return true
}

// mkRunners: the runner objects of a start; the zero-size ones take the next free Go type of their class and leave their
// token in the record of the current start
func mkRunners(rs []ordTok, lg *startLog, cur *ordCur) []any {
	var used [4]int
	var out []any
	slots := confSlots(rs)
	for _, t := range rs {
		if s, ok := slots[t.id]; ok {
			out = append(out, mkConfRunner(s, sBase{tok: t, name: fmt.Sprintf("ordR%d", t.id), log: lg}))
			continue
		}
		if t.has('e') {
			k := strings.IndexByte("ponq", t.cls)
			slot := 3*k + used[k]
			used[k]++
			cur.z[slot] = t
			out = append(out, zrCtors[slot]())
			continue
		}
		out = append(out, mkRunner(sBase{tok: t, name: fmt.Sprintf("ordR%d", t.id), log: lg}))
	}
	return out
}

func mkRunner(b sBase) any {
	switch b.tok.cls {
	case 'p':
		return &rnP{rnBase: rnBase{b}, kOrder: kOrder{b.tok.key}}
	case 'o':
		return &rnO{rnBase: rnBase{b}, kOrder: kOrder{b.tok.key}}
	case 'q':
		return &rnQ{rnBase: rnBase{b}}
	}
	return &rnN{rnBase{b}}
}

// rsAtRun: the runner list with, for every configuration-driven runner that ran, the Order() it answered when its Run was
// called in place of the token's key (on the unchanged library that IS the configured key) — what the contract is about
func rsAtRun(rs []ordTok, lg *startLog) []ordTok {
	if len(lg.RK) == 0 {
		return rs
	}
	out := append([]ordTok(nil), rs...)
	for i := range out {
		if k, ok := lg.RK[out[i].id]; ok {
			out[i].key = k
		}
	}
	return out
}

func showIDs(in []ordTok, ids []int, withID bool) string {
	if len(ids) == 0 {
		return "-"
	}
	ss := make([]string, len(ids))
	for i, id := range ids {
		ss[i] = in[id].show(withID)
	}
	return strings.Join(ss, ",")
}

func anyMark(ts []ordTok, marks string) bool {
	for _, t := range ts {
		if strings.ContainsAny(t.marks, marks) {
			return true
		}
	}
	return false
}

// seqOracle: `log` must be the invocation sequence of `in` under the contract, walked front to back and stopped by
// the first participant carrying one of `stops`. reached=false: the stage must not have run at all.
func seqOracle(sig string, in []ordTok, log []int, stops string, reached, plainStable bool) string {
	if !reached {
		if len(log) != 0 {
			return fmt.Sprintf("FAIL %s-stage ran although an earlier stage failed (%d calls)", sig, len(log))
		}
		return ""
	}
	if f := contractOracle(sig, in, log, plainStable); f != "" {
		return f
	}
	for i, id := range log {
		if strings.ContainsAny(in[id].marks, stops) && i != len(log)-1 {
			return fmt.Sprintf("FAIL %s-stop the loop went on after %s", sig, in[id])
		}
	}
	inLog := make([]bool, len(in))
	for _, id := range log {
		inLog[id] = true
	}
	if !anyMark(in, stops) || stops == "" {
		return allOnce(sig, in, log)
	}
	if len(log) == 0 || !strings.ContainsAny(in[log[len(log)-1]].marks, stops) {
		return fmt.Sprintf("FAIL %s-perm the loop ended early without a stopping participant (%d of %d)", sig, len(log), len(in))
	}
	// downward closed: nobody who must come strictly earlier was skipped
	for y := range in {
		if inLog[y] {
			continue
		}
		for _, x := range log {
			a, b := in[y], in[x]
			if a.rank() < b.rank() || (a.rank() == b.rank() && a.rank() < 2 && a.key < b.key) ||
				(plainStable && a.rank() == 2 && b.rank() == 2 && a.id < b.id) {
				return fmt.Sprintf("FAIL %s-perm %s#%d was skipped although %s#%d was invoked", sig, a, a.id, b, b.id)
			}
		}
	}
	return ""
}

// groupEarly splits the GetEarlyBeanReference log into one call sequence per component an early reference was built for
// (in order of first appearance)
func groupEarly(g []gCall) [][]int {
	var names []string
	by := map[string][]int{}
	for _, c := range g {
		if _, ok := by[c.name]; !ok {
			names = append(names, c.name)
		}
		by[c.name] = append(by[c.name], c.id)
	}
	out := make([][]int, 0, len(names))
	for _, n := range names {
		out = append(out, by[n])
	}
	return out
}

func runOrderStart(ls, ps, rs []ordTok, cyc bool, tags []string, w *hx.Writer) {
	head := "S"
	if cyc {
		head = "SC"
	}
	runOrderStartK(head, ls, ps, rs, tags, w)
}

// runOrderStartK: head = S | SC | SB
func runOrderStartK(head string, ls, ps, rs []ordTok, tags []string, w *hx.Writer) {
	cyc, sb := head == "SC", head == "SB"
	if !zeroSizeFits(rs) {
		return
	}
	c := hx.Case{Scn: strings.Join(strings.Fields(head+" L "+joinToks(ls)+" P "+joinToks(ps)+" R "+joinToks(rs)), " "), Tags: tags}
	lg := &startLog{cur: -1}
	var loaders []configure.Loader
	for _, t := range ls {
		loaders = append(loaders, mkLoader(sBase{tok: t, name: fmt.Sprintf("ordL%d", t.id), log: lg}))
	}
	comps := []any{&ordProbe{}}
	if sb {
		comps = append(comps, &ordTwin{})
	}
	opts := []app.SettingOption{app.LogLevel(syslog.LvPanic)}
	if cyc {
		comps = []any{&ordProbeC{}, &ordMate{}}
		// registration order of the post-processors = order of the P section (GetSingletonNames is a sync.Map range otherwise);
		// everything else (built-in components, probe, runners) keeps rank 0 and comes first
		rank := map[string]int{}
		for _, t := range ps {
			rank[fmt.Sprintf("ordP%d", t.id)] = t.id + 1
		}
		opts = append(opts, app.SetRegistry(&permSR{SingletonRegistry: support.NewRegistry(), rank: rank}))
	}
	// markers t / u: the same instance is registered a second time — in the same SetComponents call (t), in a second
	// SetComponents option (u)
	var again []any
	list := func(t ordTok, x any) {
		comps = append(comps, x)
		if t.has('t') {
			comps = append(comps, x)
		}
		if t.has('u') {
			again = append(again, x)
		}
	}
	for _, t := range ps {
		list(t, mkProc(sBase{tok: t, name: fmt.Sprintf("ordP%d", t.id), log: lg}))
	}
	cur := &ordCur{log: lg}
	curOrd = cur
	for i, x := range mkRunners(rs, lg, cur) {
		list(rs[i], x)
	}
	inner := binder.NewViperBinder("yaml")
	if doc := ordRcDoc(rs); doc != nil {
		// the Orders of the configuration-driven runners (marker c) are in the configuration before the start (not through the
		// logging binder: the SetConfig log holds the loaders' documents only); the definition registry enumerates those runners
		// last, in descending configured Order
		if err := inner.SetConfig(doc); err != nil {
			c.Obs = "bad-config"
			c.Oracle = "FAIL start-harness the runner Orders could not be put into the configuration: " + err.Error()
			w.Put(c)
			return
		}
		dr := &permDR{DefinitionRegistry: support.DefaultDefinitionRegistry(), rank: confRunnerRank(rs)}
		opts = append(opts, app.SetFactory(factory.NewWithRegistries(dr, nil)))
	}
	opts = append(opts,
		app.SetConfigBinder(&logBinder{Binder: inner, log: lg}),
		app.SetConfigLoader(loaders...),
		app.SetComponents(comps...))
	if len(again) > 0 {
		opts = append(opts, app.SetComponents(again...))
	}
	type result struct {
		err error
		pan any
		fin []string
	}
	done := make(chan result, 1)
	go func() {
		var res result
		res.pan = hx.Guard(func() {
			a := app.NewApp()
			res.err = a.Run(opts...)
			if sb && res.err == nil { // what the two watched components finally are (the cached singletons)
				for _, n := range []string{ordProbeName, ordTwinName} {
					d := "?"
					if x, err := a.Factory.GetComponentByName(n); err == nil {
						d = ordDescribe(x)
					}
					res.fin = append(res.fin, d)
				}
			}
		})
		done <- res
	}()
	var res result
	select {
	case res = <-done:
	case <-time.After(30 * time.Second):
		c.Obs = "hang"
		c.Oracle = "FAIL start-hang no result after 30s"
		w.Put(c)
		return
	}
	if res.pan != nil {
		c.Obs = "panic"
		c.Oracle = "FAIL start-panic " + fmt.Sprint(res.pan)
		w.Put(c)
		return
	}
	e := "ok"
	if res.err != nil {
		e = "err"
	}
	if sb {
		orderStartBFinish(c, ls, ps, rs, lg, res.err != nil, res.fin, w)
		return
	}
	c.Obs = "L:" + showIDs(ls, lg.L, true) + " B:" + showIDs(ls, lg.B, true) + " I:" + showIDs(ps, lg.I, false) +
		" P:" + showIDs(ps, lg.P, false) + " A:" + showIDs(ps, lg.A, false) + " R:" + showIDs(rsAtRun(rs, lg), lg.R, false)
	early := groupEarly(lg.G)
	if cyc {
		gs := make([]string, len(early))
		for i, g := range early {
			gs[i] = showIDs(ps, g, false)
		}
		if len(gs) == 0 {
			gs = []string{"-"}
		}
		c.Obs += " G:" + strings.Join(gs, "/")
	}
	c.Obs += " E:" + e

	// ---- oracles
	// which stop was hit is read off the real log (the log itself is checked by seqOracle)
	lastHas := func(in []ordTok, log []int, m byte) bool { return len(log) > 0 && in[log[len(log)-1]].has(m) }
	loadStop := anyMark(ls, "!*")
	beforeErr := lastHas(ps, lg.P, '!')
	beforeStop := beforeErr || lastHas(ps, lg.P, '?')
	procErr := beforeErr || (!beforeStop && lastHas(ps, lg.A, '^'))
	var insts []ordTok // the InstantiationAware processors, re-indexed
	instIdx := map[int]int{}
	for _, t := range ps {
		if t.inst {
			instIdx[t.id] = len(insts)
			t2 := t
			t2.id = len(insts)
			insts = append(insts, t2)
		}
	}
	ilog := make([]int, 0, len(lg.I))
	for _, id := range lg.I {
		ilog = append(ilog, instIdx[id])
	}
	var smarts []ordTok // the SmartInstantiationAware processors, re-indexed
	smartIdx := map[int]int{}
	for _, t := range ps {
		if t.smart {
			smartIdx[t.id] = len(smarts)
			t2 := t
			t2.id = len(smarts)
			smarts = append(smarts, t2)
		}
	}
	var wantB []int
	for _, id := range lg.L {
		if ls[id].has('!') {
			break
		}
		if ls[id].has('*') || ls[id].has('+') {
			wantB = append(wantB, id)
		}
		if ls[id].has('*') {
			break
		}
	}
	checks := []string{
		seqOracle("start-loaders", ls, lg.L, "!*", true, true),
		seqOracle("start-inst", insts, ilog, "", !loadStop, false),
		seqOracle("start-processors", ps, lg.P, "!?", !loadStop, false),
		seqOracle("start-after", ps, lg.A, "^~", !loadStop && !beforeStop, false),
		seqOracle("start-runners", rsAtRun(rs, lg), lg.R, "!", !loadStop && !procErr, false),
	}
	// every early-reference request walks the smart processors under the contract, each exactly once
	// (no request at all when the configuration stage failed: the factory is never built)
	if loadStop && len(early) != 0 {
		checks = append(checks, fmt.Sprintf("FAIL start-early-stage ran although an earlier stage failed (%d calls)", len(lg.G)))
	}
	for _, g := range early {
		glog := make([]int, 0, len(g))
		for _, id := range g {
			glog = append(glog, smartIdx[id])
		}
		checks = append(checks, seqOracle("start-early", smarts, glog, "", true, false))
	}
	if fmt.Sprint(wantB) != fmt.Sprint(lg.B) {
		checks = append(checks, fmt.Sprintf("FAIL start-binder SetConfig sequence %v, LoadConfig sequence with data %v", lg.B, wantB))
	}
	wantErr := loadStop || procErr || anyMark(rs, "!")
	if wantErr != (res.err != nil) {
		checks = append(checks, fmt.Sprintf("FAIL start-result Run error=%v, injected failure=%v", res.err != nil, wantErr))
	}
	for _, f := range checks {
		if f != "" {
			c.Oracle = f
			break
		}
	}
	w.Put(c)
}

// orderStartBFinish: observation and oracles of an `SB` start.
//
// Oracles (the contract on the real logs, per watched component, in creation order ordprobe, ordtwin):
//   - PostProcessBeforeInstantiation: the InstantiationAware processors are asked under the contract, each at most once,
//     front to back up to the first one that fails (%) or supplies an instance for that component (b / d)        start-binst-*
//   - a supplied component passes the after-initialization chain — every processor exactly once, in contract order, up to a
//     failing (^) or nil-answering (~) one — and nothing else (no after-instantiation, no before-initialization round: the
//     short-circuit of createComponent, factory.go:170-181)                                     start-after-*, start-shortcut
//   - a component nobody supplies: the three rounds of an ordinary creation, as in `S` starts   start-inst-* start-processors-* start-after-*
//   - a failing callback ends the start: no later component, no runner                           …-stage, start-result
func orderStartBFinish(c hx.Case, ls, ps, rs []ordTok, lg *startLog, runErr bool, fin []string, w *hx.Writer) {
	e := "ok"
	if runErr {
		e = "err"
	}
	for len(fin) < 2 {
		fin = append(fin, "-")
	}
	c.Obs = "L:" + showIDs(ls, lg.L, true) + " B:" + showIDs(ls, lg.B, true) +
		" C1 N:" + showIDs(ps, lg.N, false) + " I:" + showIDs(ps, lg.I, false) + " P:" + showIDs(ps, lg.P, false) +
		" A:" + showIDs(ps, lg.A, false) + " F:" + fin[0] +
		" C2 N:" + showIDs(ps, lg.N2, false) + " I:" + showIDs(ps, lg.I2, false) + " P:" + showIDs(ps, lg.P2, false) +
		" A:" + showIDs(ps, lg.A2, false) + " F:" + fin[1] +
		" R:" + showIDs(rsAtRun(rs, lg), lg.R, false) + " E:" + e

	lastHas := func(in []ordTok, log []int, m byte) bool { return len(log) > 0 && in[log[len(log)-1]].has(m) }
	loadStop := anyMark(ls, "!*")
	var insts []ordTok // the InstantiationAware processors, re-indexed
	instIdx := map[int]int{}
	for _, t := range ps {
		if t.inst {
			instIdx[t.id] = len(insts)
			t2 := t
			t2.id = len(insts)
			insts = append(insts, t2)
		}
	}
	reindex := func(log []int) []int {
		out := make([]int, 0, len(log))
		for _, id := range log {
			if k, ok := instIdx[id]; ok {
				out = append(out, k)
			} else {
				out = append(out, -1) // a processor that is not InstantiationAware: seqOracle reports the foreign participant
			}
		}
		return out
	}
	var checks []string
	add := func(comp, f string) {
		if f != "" {
			checks = append(checks, f+" (component "+comp+")")
		}
	}
	// one watched component; returns whether its creation failed (read off the real logs, which are checked themselves)
	component := func(comp string, supply byte, reached bool, N, I, P, A []int) bool {
		nlog, ilog := reindex(N), reindex(I)
		add(comp, seqOracle("start-binst", insts, nlog, string(supply)+"%", reached, false))
		if !reached {
			add(comp, seqOracle("start-inst", insts, ilog, "", false, false))
			add(comp, seqOracle("start-processors", ps, P, "!?", false, false))
			add(comp, seqOracle("start-after", ps, A, "^~", false, false))
			return false
		}
		binstErr := len(nlog) > 0 && nlog[len(nlog)-1] >= 0 && lastHas(insts, nlog, '%')
		supplied := !binstErr && len(nlog) > 0 && nlog[len(nlog)-1] >= 0 && lastHas(insts, nlog, supply)
		switch {
		case binstErr:
			add(comp, seqOracle("start-inst", insts, ilog, "", false, false))
			add(comp, seqOracle("start-processors", ps, P, "!?", false, false))
			add(comp, seqOracle("start-after", ps, A, "^~", false, false))
			return true
		case supplied:
			add(comp, seqOracle("start-after", ps, A, "^~", true, false))
			if len(I) != 0 || len(P) != 0 {
				add(comp, fmt.Sprintf("FAIL start-shortcut an instance was supplied before instantiation, yet the regular creation ran too (%d after-instantiation, %d before-initialization callbacks)", len(I), len(P)))
			}
			return lastHas(ps, A, '^')
		}
		beforeErr := lastHas(ps, P, '!')
		beforeStop := beforeErr || lastHas(ps, P, '?')
		add(comp, seqOracle("start-inst", insts, ilog, "", true, false))
		add(comp, seqOracle("start-processors", ps, P, "!?", true, false))
		add(comp, seqOracle("start-after", ps, A, "^~", !beforeStop, false))
		return beforeErr || (!beforeStop && lastHas(ps, A, '^'))
	}
	checks = append(checks, seqOracle("start-loaders", ls, lg.L, "!*", true, true))
	if checks[0] == "" {
		checks = checks[:0]
	}
	fail1 := component(ordProbeName, 'b', !loadStop, lg.N, lg.I, lg.P, lg.A)
	fail2 := component(ordTwinName, 'd', !loadStop && !fail1, lg.N2, lg.I2, lg.P2, lg.A2)
	procErr := fail1 || fail2
	if f := seqOracle("start-runners", rsAtRun(rs, lg), lg.R, "!", !loadStop && !procErr, false); f != "" {
		checks = append(checks, f)
	}
	var wantB []int
	for _, id := range lg.L {
		if ls[id].has('!') {
			break
		}
		if ls[id].has('*') || ls[id].has('+') {
			wantB = append(wantB, id)
		}
		if ls[id].has('*') {
			break
		}
	}
	if fmt.Sprint(wantB) != fmt.Sprint(lg.B) {
		checks = append(checks, fmt.Sprintf("FAIL start-binder SetConfig sequence %v, LoadConfig sequence with data %v", lg.B, wantB))
	}
	wantErr := loadStop || procErr || anyMark(rs, "!")
	if wantErr != runErr {
		checks = append(checks, fmt.Sprintf("FAIL start-result Run error=%v, injected failure=%v", runErr, wantErr))
	}
	if len(checks) > 0 {
		c.Oracle = checks[0]
	}
	w.Put(c)
}

// ---------------------------------------------------------------- (iii) one Configure, several Initialize calls

// confOp: one step on a configure.Configure.  kind 'S' SetLoaders(toks) / 'A' AddLoaders(toks) / 'I' Initialize()
type confOp struct {
	kind byte
	toks []ordTok
}

func joinConfOps(ops []confOp) string {
	ss := make([]string, len(ops))
	for i, o := range ops {
		ss[i] = strings.TrimSpace(string(o.kind) + " " + joinToks(o.toks))
	}
	return strings.Join(ss, " / ")
}

// parseConfOps: loader ids run over the whole line (every token is its own loader object)
func parseConfOps(ws []string) ([]confOp, bool) {
	var ops []confOp
	id := 0
	seg := []string{}
	flush := func() bool {
		if len(seg) == 0 {
			return false
		}
		o := confOp{}
		switch seg[0] {
		case "S", "A", "I":
			o.kind = seg[0][0]
		default:
			return false
		}
		if o.kind == 'I' && len(seg) > 1 {
			return false
		}
		for _, x := range seg[1:] {
			t, ok := parseOrdTok(x, id)
			if !ok || t.inst {
				return false
			}
			id++
			o.toks = append(o.toks, t)
		}
		ops = append(ops, o)
		seg = seg[:0]
		return true
	}
	for _, x := range ws {
		if x == "/" {
			if !flush() {
				return nil, false
			}
			continue
		}
		seg = append(seg, x)
	}
	if !flush() {
		return nil, false
	}
	return ops, true
}

// runOrderConf drives ONE real configure.Configure (configure.NewConfigure + the real viper binder, SetConfig calls logged)
// through the steps and evaluates the contract on the LoadConfig callbacks of EVERY Initialize: the participants are the
// loaders registered at that moment (SetLoaders replaces, AddLoaders appends — tracked here, not read from the model).
func runOrderConf(ops []confOp, tags []string, w *hx.Writer) {
	c := hx.Case{Scn: "Q " + joinConfOps(ops), Tags: tags}
	lg := &startLog{cur: -1}
	var all []ordTok // by id
	for _, o := range ops {
		all = append(all, o.toks...)
	}
	var groups, fails []string
	pan := hx.Guard(func() {
		conf := configure.NewConfigure()
		conf.SetBinder(&logBinder{Binder: binder.NewViperBinder("yaml"), log: lg})
		var cur []ordTok // registered right now, in registration order
		for _, o := range ops {
			var lds []configure.Loader
			for _, t := range o.toks {
				lds = append(lds, mkLoader(sBase{tok: t, name: fmt.Sprintf("ordL%d", t.id), log: lg}))
			}
			switch o.kind {
			case 'S':
				conf.SetLoaders(lds...)
				cur = append([]ordTok(nil), o.toks...)
			case 'A':
				conf.AddLoaders(lds...)
				cur = append(cur, o.toks...)
			case 'I':
				lg.L, lg.B, lg.cur = nil, nil, -1
				err := conf.Initialize()
				e := "ok"
				if err != nil {
					e = "err"
				}
				groups = append(groups, "L:"+showIDs(all, lg.L, true)+" B:"+showIDs(all, lg.B, true)+" E:"+e)
				// ---- oracle for this Initialize: participants re-indexed by registration position
				pos := map[int]int{}
				in := make([]ordTok, len(cur))
				for i, t := range cur {
					pos[t.id] = i
					in[i] = t
					in[i].id = i
				}
				llog := make([]int, 0, len(lg.L))
				foreign := false
				for _, id := range lg.L {
					p, ok := pos[id]
					if !ok {
						foreign = true
						fails = append(fails, fmt.Sprintf("FAIL conf-loaders-perm Initialize %d called loader %s#%d which is not registered", len(groups), all[id], id))
						break
					}
					llog = append(llog, p)
				}
				if foreign {
					continue
				}
				if f := seqOracle("conf-loaders", in, llog, "!*", true, true); f != "" {
					fails = append(fails, fmt.Sprintf("%s (Initialize %d)", f, len(groups)))
				}
				var wantB []int
				for _, id := range lg.L {
					if all[id].has('!') {
						break
					}
					if all[id].has('*') || all[id].has('+') {
						wantB = append(wantB, id)
					}
					if all[id].has('*') {
						break
					}
				}
				if fmt.Sprint(wantB) != fmt.Sprint(lg.B) {
					fails = append(fails, fmt.Sprintf("FAIL conf-binder SetConfig sequence %v, LoadConfig sequence with data %v (Initialize %d)", lg.B, wantB, len(groups)))
				}
				if anyMark(cur, "!*") != (err != nil) {
					fails = append(fails, fmt.Sprintf("FAIL conf-result Initialize %d error=%v, injected failure=%v", len(groups), err != nil, anyMark(cur, "!*")))
				}
			}
		}
	})
	if pan != nil {
		c.Obs = "panic"
		c.Oracle = "FAIL conf-panic " + fmt.Sprint(pan)
		w.Put(c)
		return
	}
	c.Obs = strings.Join(groups, " | ")
	if len(groups) == 0 {
		c.Obs = "-"
	}
	if len(fails) > 0 {
		c.Oracle = fails[0]
	}
	w.Put(c)
}

// uniqueCK: no other participant of the list has the same class and key (so a stop there is not inside a tie group)
func uniqueCK(ts []ordTok, i int) bool {
	for j, t := range ts {
		if j != i && t.rank() == ts[i].rank() && (t.rank() == 2 || t.key == ts[i].key) {
			return false
		}
	}
	return true
}

func genStartList(r *hx.Rng, maxLen int, role byte, stopProb int) []ordTok {
	ln := r.Intn(maxLen + 1)
	wts := genWeights(r)
	if r.P(1, 2) {
		wts = [4]int{2, 2, 1, 1}
	}
	mode := r.Intn(4)
	lazyNum := 0 // processors: LazyInit ones in 2/3 of the lists (each processor with probability 1/3 or 1/2)
	if role == 'P' {
		lazyNum = []int{0, 2, 3}[r.Intn(3)]
	}
	ts := make([]ordTok, ln)
	for j := range ts {
		ts[j] = ordTok{cls: genClass(r, wts), id: j}
		if ts[j].cls == 'p' || ts[j].cls == 'o' {
			ts[j].key = genKey(r, mode)
		}
		if role == 'P' {
			ts[j].inst = r.P(1, 3)
			if lazyNum > 0 && r.P(lazyNum, 6) {
				ts[j].marks = "z"
			}
		}
		if role == 'L' && r.P(1, 3) {
			ts[j].marks = "+"
		}
	}
	// stopping markers: only where the stopped prefix does not depend on tie order
	// (a unique (class,key); plain loaders are ordered by registration)
	if ln > 0 && r.P(stopProb, 100) {
		for tries := 0; tries < 3; tries++ {
			i := r.Intn(ln)
			plainOK := role == 'L' && ts[i].rank() == 2
			if !(plainOK || (ts[i].rank() < 2 && uniqueCK(ts, i))) {
				continue
			}
			switch role {
			case 'L':
				ts[i].marks = []string{"!", "*", "+!"}[r.Intn(3)]
			case 'R':
				ts[i].marks = "!"
			case 'P':
				ts[i].marks += []string{"!", "?", "^", "~"}[r.Intn(4)]
			}
			if !r.P(1, 4) {
				break
			}
		}
	}
	return ts
}

func startTags(ls, ps, rs []ordTok) []string {
	tags := []string{}
	if len(ls)+len(ps)+len(rs) <= 1 {
		tags = append(tags, "trivial")
	}
	if anyMark(ls, "!*") {
		tags = append(tags, "loader-stop")
	}
	if anyMark(ps, "!?^~") {
		tags = append(tags, "processor-stop")
	}
	if anyMark(rs, "!") {
		tags = append(tags, "runner-stop")
	}
	if !anyMark(ls, "!*") && !anyMark(ps, "!?^~") && !anyMark(rs, "!") {
		tags = append(tags, "no-stop")
	}
	if len(ls) > 12 || len(ps) > 12 || len(rs) > 12 {
		tags = append(tags, "some-list>12")
	}
	if anyMark(ps, "z") {
		tags = append(tags, "lazy-processor")
		if lazyAheadOfEager(ps) {
			tags = append(tags, "lazy-ahead-of-eager")
		}
	}
	if anyMark(ps, "w") {
		tags = append(tags, "decorating-processor")
		if decoratedAhead(ps) {
			tags = append(tags, "decorated-ahead-of-undecorated")
		}
	}
	return tags
}

// lazyAheadOfEager: some LazyInit processor must, by the contract, be invoked strictly before some eager one
func lazyAheadOfEager(ps []ordTok) bool {
	for _, a := range ps {
		if !a.lazy() {
			continue
		}
		for _, b := range ps {
			if !b.lazy() && (a.rank() < b.rank() || (a.rank() == b.rank() && a.rank() < 2 && a.key < b.key)) {
				return true
			}
		}
	}
	return false
}

// strictlyBefore: the contract puts a strictly ahead of b (an earlier class block, or the same sorted block and a smaller Order)
func strictlyBefore(a, b ordTok) bool {
	return a.rank() < b.rank() || (a.rank() == b.rank() && a.rank() < 2 && a.key < b.key)
}

// decoratedAhead: some decorating processor (w) is strictly ahead of an eager ordered processor X — which the factory
// therefore hands back decorated, without Order()/Priority() — and X is strictly ahead of an ordered LazyInit processor,
// which is never decorated: the chain position of X must come from its REGISTERED class and Order
func decoratedAhead(ps []ordTok) bool {
	for _, d := range ps {
		if !d.has('w') {
			continue
		}
		for _, x := range ps {
			if x.lazy() || x.rank() == 2 || !strictlyBefore(d, x) {
				continue
			}
			for _, y := range ps {
				if y.lazy() && strictlyBefore(x, y) {
					return true
				}
			}
		}
	}
	return false
}

// addDecorator: in 1/3 of the processor lists with at least two processors one processor becomes a DECORATING one (marker w).
// Half of those lists are then arranged so that the decoration matters for the chain order: the decorator is priority-ordered
// with the smallest Order, one other processor is eager and ordered / priority-ordered, a third one is LazyInit, ordered and
// strictly behind it.  Stop markers survive only where the stopped prefix still does not depend on tie order.
// Called after all three lists have been drawn, so the lists themselves are the same as without it.
func addDecorator(r *hx.Rng, ps []ordTok) {
	if len(ps) < 2 || !r.P(1, 3) {
		return
	}
	i := r.Intn(len(ps))
	ps[i].marks += "w"
	if len(ps) >= 3 && r.P(1, 2) {
		ps[i].cls, ps[i].key = 'p', math.MinInt64
		j := r.Intn(len(ps) - 1)
		if j >= i {
			j++
		}
		k := r.Intn(len(ps) - 2) // the k-th index that is neither i nor j
		for x := 0; x <= k; x++ {
			if x == i || x == j {
				k++
			}
		}
		ps[j].marks = strings.ReplaceAll(ps[j].marks, "z", "")
		ps[j].cls = []byte{'p', 'o'}[r.Intn(2)]
		ps[j].key = r.Intn(7) - 3
		if !ps[k].lazy() {
			ps[k].marks = "z" + ps[k].marks
		}
		ps[k].cls = 'o'
		ps[k].key = ps[j].key + 1 + r.Intn(3)
		if ps[j].cls == 'p' && r.P(1, 2) {
			ps[k].key = genKey(r, 0)
		}
	}
	for x := range ps {
		if strings.ContainsAny(ps[x].marks, "!?^~") && !(ps[x].rank() < 2 && uniqueCK(ps, x)) {
			for _, m := range []string{"!", "?", "^", "~"} {
				ps[x].marks = strings.ReplaceAll(ps[x].marks, m, "")
			}
		}
	}
}

// contractSorted: does the sequence already satisfy the contract (classes in order, keys non-decreasing in the first two)?
func contractSorted(ts []ordTok) bool {
	for i := 1; i < len(ts); i++ {
		a, b := ts[i-1], ts[i]
		if a.rank() > b.rank() || (a.rank() == b.rank() && a.rank() < 2 && a.key > b.key) {
			return false
		}
	}
	return true
}

func smartOf(ps []ordTok) []ordTok {
	var out []ordTok
	for _, t := range ps {
		if t.smart {
			out = append(out, t)
		}
	}
	return out
}

func cycTags(ps []ordTok) []string {
	tags := []string{"cycle"}
	sm := smartOf(ps)
	switch {
	case len(sm) >= 2 && !contractSorted(sm):
		tags = append(tags, "smart-registered-out-of-order")
	case len(sm) >= 2:
		tags = append(tags, "smart>=2")
	default:
		tags = append(tags, "smart<2")
	}
	return tags
}

// genConfOps: a step sequence for one Configure. Half of the cases follow the template
// SetLoaders(l1) / Initialize / SetLoaders(l2), len l2 = len l1 / Initialize [/ AddLoaders / Initialize]; the rest are free sequences.
func genConfOps(r *hx.Rng) []confOp {
	mode := r.Intn(4)
	wts := [4]int{2, 2, 1, 1}
	if r.P(1, 3) {
		wts = genWeights(r)
	}
	id := 0
	list := func(ln int) []ordTok {
		ts := make([]ordTok, ln)
		for j := range ts {
			ts[j] = ordTok{cls: genClass(r, wts), id: id}
			id++
			if ts[j].cls == 'p' || ts[j].cls == 'o' {
				ts[j].key = genKey(r, mode)
			}
			if r.P(1, 3) {
				ts[j].marks = "+"
			}
		}
		return ts
	}
	var ops []confOp
	if r.P(1, 2) {
		ln := 2 + r.Intn(5)
		if r.P(1, 6) {
			ln = 13 + r.Intn(8)
		}
		ops = append(ops, confOp{'S', list(ln)}, confOp{kind: 'I'}, confOp{'S', list(ln)}, confOp{kind: 'I'})
		if r.P(1, 3) {
			ops = append(ops, confOp{'A', list(1 + r.Intn(3))}, confOp{kind: 'I'})
		}
		if r.P(1, 4) {
			ops = append(ops, confOp{'S', list(ln)}, confOp{kind: 'I'})
		}
	} else {
		k := 2 + r.Intn(6)
		for j := 0; j < k; j++ {
			switch x := r.Intn(5); {
			case x < 2:
				ops = append(ops, confOp{kind: 'I'})
			case x < 4:
				ops = append(ops, confOp{'S', list(r.Intn(6))})
			default:
				ops = append(ops, confOp{'A', list(r.Intn(4))})
			}
		}
		ops = append(ops, confOp{kind: 'I'})
	}
	// one injected stop, only where the stopped prefix does not depend on tie order: a plain loader (registration order)
	// or a (class,key) that no other loader of the line has
	if r.P(15, 100) && id > 0 {
		var all []*ordTok
		for i := range ops {
			for j := range ops[i].toks {
				all = append(all, &ops[i].toks[j])
			}
		}
		for tries := 0; tries < 3; tries++ {
			t := all[r.Intn(len(all))]
			uniq := true
			for _, u := range all {
				if u != t && u.rank() == t.rank() && u.key == t.key {
					uniq = false
				}
			}
			if t.rank() == 2 || uniq {
				t.marks = []string{"!", "*", "+!"}[r.Intn(3)]
				break
			}
		}
	}
	return ops
}

func confTags(ops []confOp) []string {
	tags := []string{"conf-seq"}
	inits, toks := 0, 0
	lastLen, curLen, sameSize, stop := -1, 0, false, false
	for _, o := range ops {
		toks += len(o.toks)
		if anyMark(o.toks, "!*") {
			stop = true
		}
		switch o.kind {
		case 'S':
			curLen = len(o.toks)
			if lastLen == curLen && curLen >= 2 {
				sameSize = true
			}
		case 'A':
			curLen += len(o.toks)
		case 'I':
			inits++
			lastLen = curLen
		}
	}
	if inits == 0 || toks <= 1 {
		tags = append(tags, "trivial")
	}
	if inits >= 2 {
		tags = append(tags, "re-initialize")
	}
	if sameSize {
		tags = append(tags, "setloaders-same-size-after-initialize")
	}
	if stop {
		tags = append(tags, "loader-stop")
	}
	return tags
}

// uniqueAmongInst: no other InstantiationAware processor has the same class and key — so which InstantiationAware processors
// are asked before this one does not depend on tie order (plain ones: it is the only plain InstantiationAware processor)
func uniqueAmongInst(ps []ordTok, i int) bool {
	for j, t := range ps {
		if j != i && t.inst && t.rank() == ps[i].rank() && (t.rank() == 2 || t.key == ps[i].key) {
			return false
		}
	}
	return true
}

// genSB: an `SB` start. Processors as in the other starts (half of them InstantiationAware, LazyInit ones, injected stops
// at tie-free positions); then in 7/8 of the cases one or two InstantiationAware processors SUPPLY an instance from
// PostProcessBeforeInstantiation — for ordprobe (b), for ordtwin (d), or for both (one processor or two) —, in 1/10 one
// fails there (%), and in 1/2 a third of the processors replace the watched components after initialization (r).
// Suppliers and failing ones sit where the asked prefix does not depend on tie order (uniqueAmongInst); a plain
// InstantiationAware processor is appended when there is no such place (the commonest shape: one unordered supplier).
func genSB(r *hx.Rng) (ls, ps, rs []ordTok) {
	max := 8
	if r.P(1, 5) {
		max = 14
	}
	ls = genStartList(r, 3, 'L', 8)
	ps = genStartList(r, max, 'P', 20)
	rs = genStartList(r, 5, 'R', 15)
	for j := range ps {
		if r.P(1, 2) {
			ps[j].inst = true
		}
	}
	cands := func() []int {
		var out []int
		for i, t := range ps {
			if t.inst && uniqueAmongInst(ps, i) {
				out = append(out, i)
			}
		}
		return out
	}
	plainInst := false
	for _, t := range ps {
		if t.inst && t.rank() == 2 {
			plainInst = true
		}
	}
	if !plainInst && (len(cands()) == 0 || r.P(1, 2)) {
		ps = append(ps, ordTok{cls: 'n', inst: true, id: len(ps)})
	}
	cs := cands()
	if len(cs) == 0 { // several plain InstantiationAware processors and ties everywhere else: give one processor an Order of its own
		i := r.Intn(len(ps))
		ps[i].inst = true
		ps[i].cls = []byte{'p', 'o'}[r.Intn(2)]
		ps[i].key = 50 + r.Intn(5)
		cs = []int{i}
	}
	pick := func() int { return cs[r.Intn(len(cs))] }
	switch k := r.Intn(8); {
	case k == 0:
	case k <= 3:
		ps[pick()].marks += "b"
	case k == 4:
		ps[pick()].marks += "d"
	case k == 5:
		ps[pick()].marks += "bd"
	default:
		i, j := pick(), pick()
		ps[i].marks += "b"
		if j == i {
			ps[i].marks += "d"
		} else {
			ps[j].marks += "d"
		}
	}
	if r.P(1, 10) {
		ps[pick()].marks += "%"
	}
	if r.P(1, 2) {
		for j := range ps {
			if r.P(1, 3) {
				ps[j].marks += "r"
			}
		}
	}
	if r.P(1, 3) {
		addZeroSize(r, rs)
	}
	return
}

// addZeroSize: some runners become zero-size Go types (marker e): each with probability 2/3 while its class has a free Go
// type, at least two of them when there are two runners, and one runner stays ordinary when there are three or more
func addZeroSize(r *hx.Rng, rs []ordTok) {
	var used [4]int
	marked := 0
	mark := func(i int) bool {
		k := strings.IndexByte("ponq", rs[i].cls)
		if rs[i].has('e') || used[k] == 3 {
			return false
		}
		used[k]++
		rs[i].marks += "e"
		marked++
		return true
	}
	order := r.Perm(len(rs))
	for _, i := range order {
		if r.P(2, 3) {
			mark(i)
		}
	}
	for _, i := range order {
		if marked >= 2 {
			break
		}
		mark(i)
	}
	if len(rs) >= 3 && marked == len(rs) {
		i := order[0]
		rs[i].marks = strings.ReplaceAll(rs[i].marks, "e", "")
	}
}

// genZeroSizeStart: a start whose runner list has at least three runners, two or more of them zero-size
func genZeroSizeStart(r *hx.Rng) (ls, ps, rs []ordTok) {
	max := 8
	if r.P(1, 5) {
		max = 16
	}
	ls = genStartList(r, 3, 'L', 8)
	ps = genStartList(r, 4, 'P', 15)
	rs = genStartList(r, max, 'R', 25)
	for tries := 0; len(rs) < 3 && tries < 4; tries++ {
		rs = genStartList(r, max, 'R', 25)
	}
	for len(rs) < 3 {
		t := ordTok{cls: genClass(r, [4]int{2, 2, 1, 1}), id: len(rs)}
		if t.cls == 'p' || t.cls == 'o' {
			t.key = 10 + len(rs) // an Order no other runner of the list has (stop markers stay tie-free)
		}
		rs = append(rs, t)
	}
	addZeroSize(r, rs)
	return
}

func sbTags(ps, rs []ordTok) []string {
	tags := []string{"before-instantiation"}
	b, d := anyMark(ps, "b"), anyMark(ps, "d")
	switch {
	case b && d:
		tags = append(tags, "supplied-both")
	case b || d:
		tags = append(tags, "supplied-one-of-two")
	default:
		tags = append(tags, "supplied-none")
	}
	if anyMark(ps, "r") {
		tags = append(tags, "replacing-processor")
	}
	if anyMark(ps, "%") {
		tags = append(tags, "before-instantiation-fails")
	}
	return tags
}

func zeroTags(rs []ordTok) []string {
	n := 0
	for _, t := range rs {
		if t.has('e') {
			n++
		}
	}
	if n >= 2 {
		return []string{"zero-size-runners>=2"}
	}
	if n == 1 {
		return []string{"zero-size-runner"}
	}
	return nil
}

func orderStartGen(rng *hx.Rng, n int, tier string, w *hx.Writer) {
	orderStartGenOld(rng, n, tier, w)
	// after the n cases above (their streams are untouched): one start in five with two watched components and processors
	// that supply instances before instantiation (`SB`) …
	for i := 0; i < n/5; i++ {
		ls, ps, rs := genSB(rng.Fork())
		runOrderStartK("SB", ls, ps, rs, append(append(startTags(ls, ps, rs), sbTags(ps, rs)...), zeroTags(rs)...), w)
	}
	// … and one in five with zero-size runners next to ordinary ones (a quarter of them with the probe in a circular reference)
	for i := 0; i < n/5; i++ {
		r := rng.Fork()
		ls, ps, rs := genZeroSizeStart(r)
		if r.P(1, 4) {
			runOrderStart(ls, ps, rs, true, append(append(startTags(ls, ps, rs), cycTags(ps)...), zeroTags(rs)...), w)
		} else {
			runOrderStart(ls, ps, rs, false, append(startTags(ls, ps, rs), zeroTags(rs)...), w)
		}
	}
	// … ninth round: one start in ten with participants that reach the registry through two routes, one in ten with runners
	// whose Order comes from configuration
	for i := 0; i < n/10; i++ {
		head, ls, ps, rs := genTwice(rng.Fork())
		runOrderStartK(head, ls, ps, rs, headTags(head, ls, ps, rs), w)
	}
	for i := 0; i < n/10; i++ {
		head, ls, ps, rs := genConfOrder(rng.Fork())
		runOrderStartK(head, ls, ps, rs, headTags(head, ls, ps, rs), w)
	}
}

// ---- ninth round: one instance registered through two routes (t / u), runners with a configuration-driven Order (c)

// addTwice: one to three processors (when there are any) and every runner with probability 1/3 reach the registry twice:
// listed twice in the one SetComponents call (t), listed again in a second SetComponents option (u), or both
func addTwice(r *hx.Rng, ps, rs []ordTok) {
	how := func() string { return []string{"t", "u", "t", "u", "tu"}[r.Intn(5)] }
	if len(ps) > 0 {
		for k := 1 + r.Intn(3); k > 0; k-- {
			i := r.Intn(len(ps))
			if !strings.ContainsAny(ps[i].marks, "tu") {
				ps[i].marks += how()
			}
		}
	}
	for i := range rs {
		if r.P(1, 3) {
			rs[i].marks += how()
		}
	}
}

// genTwice: a start (S 1/2, SC 1/4, SB 1/4) in which some participants are registered twice; at least two processors
func genTwice(r *hx.Rng) (head string, ls, ps, rs []ordTok) {
	switch r.Intn(4) {
	case 2:
		head = "SC"
	case 3:
		head = "SB"
	default:
		head = "S"
	}
	if head == "SB" {
		ls, ps, rs = genSB(r)
	} else {
		max := 8
		if r.P(1, 6) {
			max = 16
		}
		ls = genStartList(r, 3, 'L', 8)
		ps = genStartList(r, max, 'P', 20)
		for tries := 0; len(ps) < 2 && tries < 4; tries++ {
			ps = genStartList(r, max, 'P', 20)
		}
		rs = genStartList(r, 5, 'R', 15)
		if head == "SC" {
			for j := range ps {
				if r.P(3, 5) {
					ps[j].inst, ps[j].smart = true, true
				}
			}
		}
		addDecorator(r, ps)
	}
	addTwice(r, ps, rs)
	return
}

// confKeyOK: Orders that are put into the configuration stay inside a range that every conversion on the way (YAML, viper,
// the text the placeholder is replaced by, the decoder) keeps exact
func confKeyOK(k int) bool { return k >= -1000000 && k <= 1000000 }

// addConfOrder: runners of the two ordered classes get their Order from configuration (marker c): each eligible runner
// with probability 2/3 while its class has a free Go type; then one class is filled up to at least two such runners (new
// runners with Orders no other runner of the list has, so injected stops stay tie-free).  Zero-size runners are left alone.
func addConfOrder(r *hx.Rng, rs []ordTok) []ordTok {
	var used [2]int
	for i := range rs {
		k := strings.IndexByte("po", rs[i].cls)
		if k >= 0 && !rs[i].has('e') && confKeyOK(rs[i].key) && used[k] < rcPerClass && r.P(2, 3) {
			rs[i].marks += "c"
			used[k]++
		}
	}
	k := r.Intn(2)
	want := 2 + r.Intn(2)
	for used[k] < want {
		rs = append(rs, ordTok{cls: "po"[k], key: 10 + len(rs) + r.Intn(3)*20, id: len(rs), marks: "c"})
		used[k]++
	}
	return rs
}

// genConfOrder: a start (S 5/8, SC 1/4, SB 1/8) with at least two configuration-driven runners in one class
func genConfOrder(r *hx.Rng) (head string, ls, ps, rs []ordTok) {
	switch k := r.Intn(8); {
	case k < 5:
		head = "S"
	case k < 7:
		head = "SC"
	default:
		head = "SB"
	}
	if head == "SB" {
		ls, ps, rs = genSB(r)
	} else {
		ls = genStartList(r, 3, 'L', 8)
		ps = genStartList(r, 4, 'P', 15)
		rs = genStartList(r, 8, 'R', 20)
		if head == "SC" {
			for j := range ps {
				if r.P(3, 5) {
					ps[j].inst, ps[j].smart = true, true
				}
			}
		}
	}
	rs = addConfOrder(r, rs)
	if r.P(1, 4) {
		addTwice(r, ps, rs)
	}
	return
}

// ninthTags: who is registered twice; how many configuration-driven runners, and whether the contract orders two of them (same class, different Order)
func ninthTags(ps, rs []ordTok) []string {
	var tags []string
	if anyMark(ps, "tu") {
		tags = append(tags, "processor-registered-twice")
	}
	if anyMark(rs, "tu") {
		tags = append(tags, "runner-registered-twice")
	}
	n, ordered := 0, false
	for i, a := range rs {
		if !a.has('c') {
			continue
		}
		n++
		for _, b := range rs[:i] {
			if b.has('c') && b.cls == a.cls && b.key != a.key {
				ordered = true
			}
		}
	}
	switch {
	case ordered:
		tags = append(tags, "config-order-runners-distinct")
	case n > 0:
		tags = append(tags, "config-order-runner")
	}
	return tags
}

func headTags(head string, ls, ps, rs []ordTok) []string {
	tags := startTags(ls, ps, rs)
	if head == "SC" {
		tags = append(tags, cycTags(ps)...)
	}
	if head == "SB" {
		tags = append(tags, sbTags(ps, rs)...)
	}
	return append(append(tags, zeroTags(rs)...), ninthTags(ps, rs)...)
}

func orderStartGenOld(rng *hx.Rng, n int, tier string, w *hx.Writer) {
	for i := 0; i < n; i++ {
		r := rng.Fork()
		kind := r.Intn(10) // 0-4 plain start, 5-7 start with a circular probe (early reference), 8-9 Configure step sequence
		if kind >= 8 {
			ops := genConfOps(r)
			runOrderConf(ops, confTags(ops), w)
			continue
		}
		max := 8
		if r.P(1, 5) {
			max = 20
		}
		ls := genStartList(r, max, 'L', 12)
		ps := genStartList(r, max, 'P', 25)
		rs := genStartList(r, max, 'R', 25)
		if kind >= 5 {
			if len(ps) < 2 {
				ps = genStartList(r, max, 'P', 25)
			}
			for j := range ps {
				if r.P(3, 5) {
					ps[j].inst, ps[j].smart = true, true
				}
			}
			addDecorator(r, ps)
			runOrderStart(ls, ps, rs, true, append(startTags(ls, ps, rs), cycTags(ps)...), w)
			continue
		}
		addDecorator(r, ps)
		runOrderStart(ls, ps, rs, false, startTags(ls, ps, rs), w)
	}
}

func orderStartCorpus(w *hx.Writer) {
	for _, s := range []string{
		"L P R",
		"L n p1 o99 p98 o0 P n p1 o99 p98 o0 R n p1 o99 p98 o0",
		"L q+ p1+ o1+ n+ P iq ip1 io1 in R q p1 o1 n",
		"L o2+ p1 n! n P ip3 o1 n R o1 p5 n",
		"L o2+ p1* n P ip3 o1 n R o1 p5 n",
		"L o2 p1 P ip3 o1? o2 n R o1 p5",
		"L o2 p1 P ip3! o1 o2 n R o1 p5",
		"L P p3 o1^ o2 n R o1 p5",
		"L P p3 o1~ io2 n R o1 p5! n",
		"L P R p-9223372036854775808 p9223372036854775807 o-1! o-2 n",
		// LazyInit processors (z) of all three classes among eager ones: the chain is the sorted sequence all the same
		"L P p1000 o300 n p500z o-7z nz R",
		"L P nz n o5z o9 R",
		"L P n qz o3 ip2z io1z o2 p7 sp-1z in iqz R n",
		"L o2+ P o1z o2 o3z^ o4 R p1",
		"L P p3z p3 p4 p2z o0z? o1 n R n",
		// a decorating processor (w): the eager processors created after it come back from the factory inside a decorator
		// without Order()/Priority(); they keep the chain position their registration earned (C12G re-sorted the resolved chain)
		"L P p-100w p5 o1 o50z n R",
		"L P o1w o5 o9z R",
		"L P p-100w ip5 so1 io50z n R",
		"L P p-100wz ip5 o1^ io50z n qz R n",
		"L o1+ P p-100w p-50w p5 o1? o50z n R p1",
		"L P nw n o3 o2z R",
		"SC L P p-100w sp5 so1 so50z sn R",
		"SC L P so9z sp-9223372036854775808w so2 sp3 so1z sn R o1",
		// early references: smart processors registered against the contract order (classes, Orders, extremes, ties)
		"SC L P R",
		"SC L P sn so5 sp70 R",
		"SC L P sp70 sp-3 so5 so-40 so1 sn R",
		"SC L o2+ p1 P sn io3 so9223372036854775807 p4 so-9223372036854775808 sq sp0 so-1 R n o1",
		"SC L P so1 so1 sp1 o2? sn sp1 so0 R p1!",
		"SC L n! P sn so5 sp70 R n",
		"SC L P so2 sp1^ sn R n",
		"SC L P in so5 n R",
		"SC L P sn so5 sp70z so1z sp80 snz R",
		"SC L P snz so9z sp3z R n",
		// one Configure, several Initialize calls
		"Q I",
		"Q S n o5 p9 / I / S n o7 p3 / I",
		"Q S n+ o5+ p9 / I / I / A p1+ n / I / S q o-1 / I",
		"Q S o2+ p1 n! n / I / S n n o1 p1 / I",
		"Q A o3 / A p2* n / I / S n o-9223372036854775808 o9223372036854775807 / I / S / I",
		// zero-size runners (e) of different Go types next to ordinary ones: every registered runner runs once, in contract order
		"S L P R ne ne",
		"S L P R o0e p5e",
		"S L P o1 R p3e o-1e n p-2 qe ne o-1 ne o7e! n",
		"S L P R p1e p1e p1e o1e o1e o1e ne ne ne qe qe qe p1 o1 n q",
		"SC L P so1 sn R o2e p1e n",
		// instances supplied before instantiation (b: ordprobe, d: ordtwin): the short-circuit runs the after-initialization chain only
		"SB L P R",
		"SB L P o50 n p1048576 o-7 p-1 o-7 inb R",
		"SB L P o50 n p1048576 o-7 p-1 o-7 ind R n",
		"SB L P o50 n ip1 io-7bd p-1 o-7 in R",
		"SB L P o50r n ip1 io-7b p-1 o-7r ind R p1e ne",
		"SB L o1+ P ip3 io1b io2d n R o1 p5",
		"SB L P ip3 io1% io2b n R o1",
		"SB L P ip3b o1^ io2d n R o1",
		"SB L P ip3b o1~ o2r n inz R o1",
		"SB L P p3 io1? io2bd n R o1",
		"SB L P iqb ip1z o5z o9 R",
		"SB L P so1 sp-9223372036854775808b sn R o1",
		// ninth round: the same instance registered twice (t: twice in one SetComponents, u: again in a second SetComponents
		// option) is one participant — once in the sequence, each callback once per component (C12Q registered it per route)
		"S L P p-5 p20 o1 o70tu n R n",
		"S L P o5t p1 n R o1",
		"S L P o5u p1tu nz R o1t p3u nu",
		"S L P ip3t io1uz in R",
		"S L P p-100w o5t o9zu R ntu",
		"SC L P so5t sp1u sn R o1",
		"SB L P o50t n ip1u io-7bdt p-1 R n",
		"SB L P o50rt n ip1 io-7b p-1u o-7r ind R p1e neu",
		// ninth round: runners whose Order() answers a field bound from configuration (c), created after the App component and
		// enumerated by the definition registry in descending Order: started in ascending Order all the same (C12R fixed the
		// sequence when the App was populated, where they all still answer 0)
		"S L P R o30c o10c o20c",
		"S L P R p50c o10c o20c o30c n",
		"S L P R p7c p-2c p3c p0c o1c o-1c o5 p4 n q",
		"S L o1+ P o1 R o3c! o1c o2 n",
		"S L P o1t R o30cu o10ct o20c o15 p2c p1c",
		"SC L P so1 sn R o3c o1c o2c p7c p4c",
		"SB L P inb R o3c o1c n",
	} {
		orderReplay(s, w)
	}
}

func splitSections(ws []string) (l, p, r []string, ok bool) {
	if len(ws) == 0 || ws[0] != "L" {
		return
	}
	stage := 0
	for _, x := range ws[1:] {
		switch {
		case x == "P" && stage == 0:
			stage = 1
		case x == "R" && stage == 1:
			stage = 2
		case stage == 0:
			l = append(l, x)
		case stage == 1:
			p = append(p, x)
		default:
			r = append(r, x)
		}
	}
	return l, p, r, stage == 2
}

func orderReplay(scn string, w *hx.Writer) {
	f := strings.Fields(scn)
	if len(f) == 0 {
		return
	}
	if f[0] == "L" { // corpus shorthand
		f = append([]string{"S"}, f...)
	}
	switch f[0] {
	case "D":
		if toks, ok := parseOrdToks(f[1:]); ok {
			runOrderDirect(toks, []string{"replay"}, w)
		}
	case "Q":
		if ops, ok := parseConfOps(f[1:]); ok {
			runOrderConf(ops, append(confTags(ops), "replay"), w)
		}
	case "S", "SC", "SB":
		l, p, r, ok := splitSections(f[1:])
		if !ok {
			return
		}
		ls, ok1 := parseOrdToks(l)
		ps, ok2 := parseOrdToks(p)
		rs, ok3 := parseOrdToks(r)
		if ok1 && ok2 && ok3 {
			runOrderStartK(f[0], ls, ps, rs, append(headTags(f[0], ls, ps, rs), "replay"), w)
		}
	}
}
