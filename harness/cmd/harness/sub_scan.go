package main

// sub-harness `scan` (C11): tag scanning through embedded structs, frame condition.
//
// A scenario is one component TYPE, written in prefix notation (see scanEncode):
//
//	G <n> node*                      type built at run time with reflect.StructOf
//	X<k> <n> node*                   the k-th hand-written static type of scanStatics (encoding derived by reflection)
//	node = L <name> <ty> <marker> <ntags> (<key> <valhex>)*
//	     | S <name> <ty> <marker> <av|ap|nv|np> <ntags> (<key> <valhex>)* <nkids> node*
//
//	G+<pos><ret> <n> node*           the same, started together with an EXTRA user InstantiationAware post-processor that sits
//	                                 ahead of the recording processor in the chain (pos f = priority-ordered, smallest Order:
//	                                 ahead of every built-in processor; l = ordered, largest Order: behind the built-in ones,
//	                                 ahead of the unordered recorder) and whose PostProcessProperties RETURNS, for this
//	                                 component, ret n = nil | s = the slice it was handed | r = a reversed copy | e = an empty
//	                                 non-nil slice | b = only the properties of built-in tags | m = only the custom-tag
//	                                 properties | p = a content-chosen part (hash of path and tag).  The delegate drops that
//	                                 result (ResolveAfterInstantiation: every processor is handed meta.GetAllProperties(),
//	                                 collected afresh for it), so the definition, the values and what the recorder is handed are
//	                                 the same as without the extra processor — all oracles below apply unchanged, and the
//	                                 flattened twin (run WITHOUT the extra processor) must end with the same values.
//
//	X<k>@<cls>[<order>] <n> node*    (ninth round) the k-th static type is ITSELF a non-lazy user post-processor (it implements
//	                                 container.ComponentPostProcessor): cls u = not Ordered, o = Ordered with Order() = <order>,
//	                                 p = Ordered and Priority.  The token is read off the type by the harness (Go's method sets),
//	                                 like the encoding.  Such a holder is created and populated INSIDE the registration loop of
//	                                 InvokeBeanFactoryPostProcessors, by the processors registered so far: those sorted ahead of it.
//	                                 In these runs (and in the run of the plain twin) the recording processor is Ordered with
//	                                 Order() = scanRecorderOrder: it sorts behind every built-in processor and ahead of the holder.
//	                                 The observation gets the suffix ` pp rec=<c>`: c = how often the recorder was handed the
//	                                 holder's properties (the recorder sorted ahead of the holder was in the chain it was populated by).
//
// Part A (model comparison).  After the REAL app.Run the component's definition is read from the real
// definition registry: meta.Fields in scan order (path recovered from the Holder chain by address) and
// meta.GetAllProperties() (path, tag, property type, parsed value part, arguments), sorted by path+tag:
//
//	fields <n> <path>… props <m> <path>/<tag>/<ptype>/<valhex>/<args>…
//
// Part B (oracles on the real code only, independent of the model):
//   (i)   the shape and its flattening (all embedded levels inlined) end with identical values, unit by unit,
//         and the same Run outcome;
//   (ii)  every unit that is unexported, or carries no built-in tag (the recorder never writes) and is no ConfigurationProperties marker,
//         and everything inside structs that are not embedded (named / pointer / tagged), holds its pre-Run value;
//   (iv)  a settable unit carrying one built-in tag in a plain form (value:"lit", wire:"", prop:"i.k", …) holds the obvious value;
//   (iii) the recording processor (custom tag `mytag`) was handed exactly the settable units carrying its tag,
//         with the value part and arguments that the real NewProperty parses from the tag text;
//   (v)   for custom tags written in the STRUCTURED form the generator builds from a value and an argument list
//         (`val,name=item item…,flag`, an item a word or a bracketed group that may contain blanks / commas, see scanStructTag)
//         the recorded value and arguments equal that structure, read off the tag text by the harness itself
//         (scanParseStruct) — not by the library's parser (signature scan-custom-args).
//   (vi)  the VALUE the recorder was handed is the tag's value AS WRITTEN: the text before the first comma, byte for byte,
//         leading and trailing blanks / tabs included (a separator `" | "`, a value of blanks only), read off the tag text
//         by the harness (scanValueAsWritten; texts whose value part holds a bracket are left to (v)) — signature
//         scan-custom-value.  About two generated shapes in five carry such values (scanBlankPass), as do the static
//         types ScanStatic21/22 and three corpus shapes; `value:" lit"`-style literals are among the plain forms of (iv).
//   (viii) processor holders (X<k>@…): the holder and its PLAIN TWIN — a Go-declared type with the same fields in the same
//         nesting that is no post-processor, started in the same environment — end Run with the same outcome and, unit by
//         unit, the same values: a recognised tagged exported field, declared directly or inside embedded structs, is
//         processed the same way whatever else its holder is (signature scan-holder-kind).  The units of the processor
//         plumbing (an embedded *processors.Default…PostProcessor) exist on the holder only and are left to the frame oracle (ii).
//         All other oracles apply to the holder unchanged; every failing one is reported (" ;; ").
// "unit" = a leaf field, or a struct field the scanner does not descend into.
//
// Field NAMES may repeat across different holders (sibling mix-ins declaring the same name, diamonds `Left{Base}`
// `Right{Base}`, shadowing): only the PATH (holder chain + name) of a unit is unique.  About a quarter of the
// generated shapes contain such repetitions (labels name-ambig / name-shadow / type-diamond); the flattened form
// suffixes repeated names and corresponds to the nested form by position.

import (
	"fmt"
	"hash/fnv"
	"math"
	"os"
	"reflect"
	"sort"
	"strconv"
	"strings"
	"unsafe"

	"github.com/go-kid/ioc/app"
	"github.com/go-kid/ioc/component_definition"
	"github.com/go-kid/ioc/configure/loader"
	"github.com/go-kid/ioc/container"
	"github.com/go-kid/ioc/container/processors"
	"github.com/go-kid/ioc/definition"
	"github.com/go-kid/ioc/syslog"
	"github.com/go-kid/ioc/util/framework_helper"

	"verifharness/internal/hx"
)

func init() {
	register(&Sub{Name: "scan", Gen: scanGen, Replay: scanReplay, Corpus: scanCorpus})
}

/* ---------- fixed universe ---------- */

type ScanProvA struct{ N string }

func (*ScanProvA) Ping() {}

type ScanProvB struct{ N string }

func (*ScanProvB) Naming() string { return "provB" }

type ScanIface interface{ Ping() }
type ScanNoImpl interface{ Nope() }

// implemented by the self-candidate holder types (ScanHub… / ScanSolo…) only: the holder is the ONLY candidate
type ScanSolo interface{ Solo() }

// a ConfigurationProperties marker (bound without a tag)
type ScanMark struct{ V string }

func (ScanMark) Prefix() string { return "mark" }

// ConfigurationProperties through a POINTER receiver (the usual way to write it): *ScanPMark implements the interface,
// ScanPMark does not.  Prefix "grp" is in scanYaml ({A: ga, B: 5}).  Prefix() must work on a nil receiver: the library
// asks a nil pointer field for its prefix.
type ScanPMark struct {
	A string
	B int
}

func (*ScanPMark) Prefix() string { return "grp" }

// the same; a POINTER field of this type is pre-set by the harness (non-nil, sentinel content) before Run
type ScanPSet struct {
	A string
	B int
}

func (*ScanPSet) Prefix() string { return "grp" }

// pointer receiver, and a prefix the configuration does not hold: binding it is Required, so a recognised field of this
// type refuses the start — an unrecognised one (by value) must not
type ScanPNone struct{ A string }

func (*ScanPNone) Prefix() string { return "nokey" }

// a plain named struct type (no methods)
type ScanGrp struct {
	A string
	B int
}

const scanYaml = `
s: {k1: alpha, k2: beta}
i: {k: 7, j: 8}
b: {k: false}
grp: {A: ga, B: 5}
mark: {V: mv}
`

const scanCustomTag = "mytag"

var scanRecognised = []string{"wire", "func", "value", "prop", "prefix", "logger", scanCustomTag}

var scanLeafTypes = map[string]reflect.Type{
	"s":  reflect.TypeOf(""),
	"i":  reflect.TypeOf(0),
	"b":  reflect.TypeOf(false),
	"lg": reflect.TypeOf((*syslog.Logger)(nil)).Elem(),
	"pa": reflect.TypeOf((*ScanProvA)(nil)),
	"pb": reflect.TypeOf((*ScanProvB)(nil)),
	"if": reflect.TypeOf((*ScanIface)(nil)).Elem(),
	"in": reflect.TypeOf((*ScanNoImpl)(nil)).Elem(),
	// static types only (self-candidates, see ScanHub…): slices of an interface, an interface only the holder implements
	"is": reflect.TypeOf([]ScanIface(nil)),
	"so": reflect.TypeOf((*ScanSolo)(nil)).Elem(),
	"ss": reflect.TypeOf([]ScanSolo(nil)),
}
var (
	scanGrpT  = reflect.TypeOf(ScanGrp{})
	scanMarkT = reflect.TypeOf(ScanMark{})
	// the marker family (seventh round): struct type codes pm / ps / pn
	scanMarkFamilyT = map[string]reflect.Type{"pm": reflect.TypeOf(ScanPMark{}), "ps": reflect.TypeOf(ScanPSet{}), "pn": reflect.TypeOf(ScanPNone{})}
	scanCfgPropsT   = reflect.TypeOf((*definition.ConfigurationProperties)(nil)).Elem()
)

// scanPreset: a POINTER field the harness sets to a fresh struct with sentinel content before Run.  A nil pointer to a
// type whose Prefix() has a VALUE receiver cannot be asked for its prefix (Go panics in the method wrapper, inside a
// goroutine of the container: the process dies), so `*ScanMark` fields are always pre-set.
func scanPreset(n *scanNode) bool {
	// (ninth round) a pointer to processor plumbing that holds a struct of its own: a method promoted from that inner struct
	// needs a non-nil pointer (see ScanPPInstPtr)
	return n.isStruct && !n.byVal && (n.ty == "ps" || n.ty == "mk" || (n.ty == "dp" && len(n.kids) > 0))
}

// scanMarkFamily: the shape holds a field of the marker family (never true for a shape of the first six rounds)
func scanMarkFamily(kids []*scanNode) bool {
	for _, k := range kids {
		if k.isStruct {
			if _, ok := scanMarkFamilyT[k.ty]; ok || (k.ty == "mk" && !k.byVal) || scanMarkFamily(k.kids) {
				return true
			}
		}
	}
	return false
}

/* ---------- the recording processor: a user-supplied tag processor ---------- */

type scanSeen struct {
	path, tagStr string
	args         map[string][]string
}

type scanRecorder struct {
	processors.DefaultTagScanDefinitionRegistryPostProcessor
	processors.DefaultInstantiationAwareComponentPostProcessor
	target string
	root   reflect.Value
	calls  int
	seen   []scanSeen
}

func newScanRecorder(target string, root reflect.Value) *scanRecorder {
	return &scanRecorder{
		DefaultTagScanDefinitionRegistryPostProcessor: processors.DefaultTagScanDefinitionRegistryPostProcessor{
			NodeType: component_definition.PropertyTypeConfiguration,
			Tag:      scanCustomTag,
		},
		target: target, root: root,
	}
}

func (r *scanRecorder) PostProcessAfterInstantiation(component any, componentName string) (bool, error) {
	return true, nil
}

func (r *scanRecorder) PostProcessProperties(properties []*component_definition.Property, component any, componentName string) ([]*component_definition.Property, error) {
	if componentName != r.target {
		return nil, nil
	}
	r.calls++
	for _, p := range properties {
		if p.Tag != scanCustomTag { // the filter every tag processor of the library applies
			continue
		}
		r.seen = append(r.seen, scanSeen{path: scanRealPath(p.Field), tagStr: p.TagStr, args: propArgs(p)})
	}
	return nil, nil
}

// the ORDERED recorder of processor-holder runs (ninth round): behind every built-in processor (their Orders are 2..16),
// ahead of a holder that is not Ordered or whose Order() is larger.  Lazy like the plain recorder (the embedded
// DefaultTagScanDefinitionRegistryPostProcessor is a LazyInitComponent): registered as it is, never created as a component.
const scanRecorderOrder = 50

type scanRecorderOrd struct{ scanRecorder }

func (r *scanRecorderOrd) Order() int { return scanRecorderOrder }

/* ---------- the extra processor: user code ahead of the recorder whose PostProcessProperties returns a list ---------- */

type scanExtra struct {
	processors.DefaultInstantiationAwareComponentPostProcessor
	definition.LazyInitComponent
	target string
	ret    byte
	order  int
	calls  int
	handed int // properties handed to it in its last call for the target
}

func (x *scanExtra) Order() int { return x.order }

func (x *scanExtra) PostProcessAfterInstantiation(component any, componentName string) (bool, error) {
	return componentName == x.target, nil
}

func (x *scanExtra) PostProcessProperties(properties []*component_definition.Property, component any, componentName string) ([]*component_definition.Property, error) {
	if componentName != x.target {
		return nil, nil
	}
	x.calls++
	x.handed = len(properties)
	keep := func(f func(p *component_definition.Property) bool) []*component_definition.Property {
		out := []*component_definition.Property{}
		for _, p := range properties {
			if f(p) {
				out = append(out, p)
			}
		}
		return out
	}
	switch x.ret {
	case 's':
		return properties, nil
	case 'r':
		out := keep(func(*component_definition.Property) bool { return true })
		for i, j := 0, len(out)-1; i < j; i, j = i+1, j-1 {
			out[i], out[j] = out[j], out[i]
		}
		return out, nil
	case 'e':
		return []*component_definition.Property{}, nil
	case 'b':
		return keep(func(p *component_definition.Property) bool { return p.Tag != scanCustomTag }), nil
	case 'm':
		return keep(func(p *component_definition.Property) bool { return p.Tag == scanCustomTag }), nil
	case 'p':
		return keep(func(p *component_definition.Property) bool {
			h := fnv.New32a()
			h.Write([]byte(scanRealPath(p.Field) + "/" + p.Tag))
			return h.Sum32()%2 == 0
		}), nil
	}
	return nil, nil
}

// the priority-ordered variant (pos f)
type scanExtraPrio struct {
	scanExtra
	definition.PriorityComponent
}

const (
	scanExtraPos = "fl"
	scanExtraRet = "nsrebmp"
)

// scanExtraOK: a well-formed <pos><ret> pair ("" = no extra processor)
func scanExtraOK(extra string) bool {
	return extra == "" || (len(extra) == 2 && strings.IndexByte(scanExtraPos, extra[0]) >= 0 && strings.IndexByte(scanExtraRet, extra[1]) >= 0)
}

func newScanExtra(extra, target string) (any, *scanExtra) {
	if extra[0] == 'f' {
		x := &scanExtraPrio{scanExtra: scanExtra{target: target, ret: extra[1], order: math.MinInt}}
		return x, &x.scanExtra
	}
	x := &scanExtra{target: target, ret: extra[1], order: math.MaxInt}
	return x, x
}

/* ---------- shapes ---------- */

type scanKV struct{ k, v string }

type scanNode struct {
	name     string
	ty       string // leaf: s i b lg pa pb if in o ; struct: st gr mk o, marker family pm ps pn
	marker   string // "" = value does not implement ConfigurationProperties, else "=" + Prefix()
	tags     []scanKV
	isStruct bool
	anon     bool
	byVal    bool
	kids     []*scanNode
}

func scanExported(name string) bool { return name != "" && name[0] >= 'A' && name[0] <= 'Z' }

func (n *scanNode) descended() bool { return n.isStruct && n.anon && len(n.tags) == 0 && n.byVal }

func (n *scanNode) tagText() string {
	var parts []string
	for _, kv := range n.tags {
		if kv.k == "!raw" {
			parts = append(parts, kv.v)
		} else {
			parts = append(parts, kv.k+":"+strconv.Quote(kv.v))
		}
	}
	return strings.Join(parts, " ")
}

func scanEncodeNode(sb *strings.Builder, n *scanNode) {
	mk := "."
	if n.marker != "" {
		mk = hx.Hex(n.marker[1:])
	}
	if n.isStruct {
		fl := "n"
		if n.anon {
			fl = "a"
		}
		if n.byVal {
			fl += "v"
		} else {
			fl += "p"
		}
		fmt.Fprintf(sb, " S %s %s %s %s %d", n.name, n.ty, mk, fl, len(n.tags))
	} else {
		fmt.Fprintf(sb, " L %s %s %s %d", n.name, n.ty, mk, len(n.tags))
	}
	for _, kv := range n.tags {
		sb.WriteString(" " + kv.k + " " + hx.Hex(kv.v))
	}
	if n.isStruct {
		fmt.Fprintf(sb, " %d", len(n.kids))
		for _, k := range n.kids {
			scanEncodeNode(sb, k)
		}
	}
}

func scanEncode(mode string, kids []*scanNode) string {
	var sb strings.Builder
	fmt.Fprintf(&sb, "%s %d", mode, len(kids))
	for _, k := range kids {
		scanEncodeNode(&sb, k)
	}
	return sb.String()
}

type scanDec struct {
	t   []string
	pos int
	bad bool
}

func (d *scanDec) next() string {
	if d.pos >= len(d.t) {
		d.bad = true
		return ""
	}
	d.pos++
	return d.t[d.pos-1]
}
func (d *scanDec) num() int {
	k, err := strconv.Atoi(d.next())
	if err != nil || k < 0 || k > 10000 {
		d.bad = true
		return 0
	}
	return k
}
func (d *scanDec) node() *scanNode {
	kind := d.next()
	n := &scanNode{name: d.next(), ty: d.next()}
	if mk := d.next(); mk != "." {
		s, err := hx.UnHex(mk)
		if err != nil {
			d.bad = true
		}
		n.marker = "=" + s
	}
	switch kind {
	case "L":
	case "S":
		n.isStruct = true
		fl := d.next()
		if len(fl) != 2 {
			d.bad = true
			return n
		}
		n.anon, n.byVal = fl[0] == 'a', fl[1] == 'v'
	default:
		d.bad = true
		return n
	}
	nt := d.num()
	for i := 0; i < nt && !d.bad; i++ {
		k := d.next()
		v, err := hx.UnHex(d.next())
		if err != nil {
			d.bad = true
		}
		n.tags = append(n.tags, scanKV{k, v})
	}
	if n.isStruct {
		n.kids = d.kids()
	}
	return n
}
func (d *scanDec) kids() []*scanNode {
	nk := d.num()
	var out []*scanNode
	for i := 0; i < nk && !d.bad; i++ {
		out = append(out, d.node())
	}
	return out
}

/* ---------- Go types and values of a shape ---------- */

const scanPkg = "verifharness/scan"

func scanFieldType(n *scanNode) reflect.Type {
	if !n.isStruct {
		return scanLeafTypes[n.ty]
	}
	var t reflect.Type
	switch n.ty {
	case "gr":
		t = scanGrpT
	case "mk":
		t = scanMarkT
	case "pm", "ps", "pn":
		t = scanMarkFamilyT[n.ty]
	default:
		t = scanStructOf(n.kids)
	}
	if !n.byVal {
		t = reflect.PointerTo(t)
	}
	return t
}

func scanStructOf(kids []*scanNode) reflect.Type {
	fs := make([]reflect.StructField, len(kids))
	for i, k := range kids {
		fs[i] = reflect.StructField{Name: k.name, Type: scanFieldType(k), Tag: reflect.StructTag(k.tagText()), Anonymous: k.isStruct && k.anon}
		if !scanExported(k.name) {
			fs[i].PkgPath = scanPkg
		}
	}
	return reflect.StructOf(fs)
}

// writable alias of a (possibly read-only) addressable value
func scanAlias(v reflect.Value) reflect.Value {
	return reflect.NewAt(v.Type(), unsafe.Pointer(v.UnsafeAddr())).Elem()
}

func scanFill(v reflect.Value, n *scanNode) {
	v = scanAlias(v)
	if n.isStruct {
		if n.byVal {
			for i, k := range n.kids {
				scanFill(v.Field(i), k)
			}
		} else if scanPreset(n) {
			p := reflect.New(v.Type().Elem())
			for i, k := range n.kids {
				scanFill(p.Elem().Field(i), k)
			}
			v.Set(p)
		}
		return
	}
	switch v.Kind() {
	case reflect.String:
		v.SetString("SENTINEL")
	case reflect.Int:
		v.SetInt(424242)
	case reflect.Bool:
		v.SetBool(true)
	}
}

type scanProviders struct {
	a    *ScanProvA
	b    *ScanProvB
	self uintptr // the component under test itself (a holder may be a candidate for its own fields)
}

func (p *scanProviders) who(ptr uintptr) string {
	switch ptr {
	case p.self:
		return "SELF"
	case uintptr(unsafe.Pointer(p.a)):
		return "A"
	case uintptr(unsafe.Pointer(p.b)):
		return "B"
	}
	return "?"
}

func scanRender(v reflect.Value, n *scanNode, pv *scanProviders) string {
	v = scanAlias(v)
	if n.isStruct {
		pre := ""
		if !n.byVal {
			if v.IsNil() {
				return "nil"
			}
			v = v.Elem()
			pre = "&"
		}
		var parts []string
		for i, k := range n.kids {
			parts = append(parts, scanRender(v.Field(i), k, pv))
		}
		return pre + "{" + strings.Join(parts, ",") + "}"
	}
	switch v.Kind() {
	case reflect.String:
		return "s:" + hx.Hex(v.String())
	case reflect.Int:
		return "i:" + strconv.FormatInt(v.Int(), 10)
	case reflect.Bool:
		return "b:" + strconv.FormatBool(v.Bool())
	case reflect.Ptr:
		if v.IsNil() {
			return "nil"
		}
		return pv.who(v.Pointer())
	case reflect.Interface:
		if v.IsNil() {
			return "nil"
		}
		if n.ty == "lg" {
			return "set"
		}
		if e := v.Elem(); e.Kind() == reflect.Ptr {
			return pv.who(e.Pointer())
		}
		return "?"
	case reflect.Slice:
		// a wire slice: WHICH components it holds (their order is the registry's enumeration order, a Go map order)
		if v.IsNil() {
			return "nil"
		}
		var parts []string
		for i := 0; i < v.Len(); i++ {
			e := v.Index(i)
			for e.Kind() == reflect.Interface && !e.IsNil() {
				e = e.Elem()
			}
			if e.Kind() == reflect.Ptr && !e.IsNil() {
				parts = append(parts, pv.who(e.Pointer()))
			} else {
				parts = append(parts, "?")
			}
		}
		sort.Strings(parts)
		return "[" + strings.Join(parts, ",") + "]"
	}
	return fmt.Sprintf("%v", v.Interface())
}

/* ---------- units: what the property talks about ---------- */

type scanUnit struct {
	n    *scanNode
	path string
	idx  []int
}

func scanUnits(kids []*scanNode, path string, idx []int, out *[]scanUnit) {
	for i, k := range kids {
		ix := append(append([]int{}, idx...), i)
		if k.descended() {
			scanUnits(k.kids, path+k.name+".", ix, out)
		} else {
			*out = append(*out, scanUnit{n: k, path: path + k.name, idx: ix})
		}
	}
}

func scanDepth(kids []*scanNode) int {
	d := 0
	for _, k := range kids {
		if k.descended() {
			if x := 1 + scanDepth(k.kids); x > d {
				d = x
			}
		}
	}
	return d
}

// the flattened arrangement: all units as direct fields, in scan order.  Unit NAMES may repeat in a nested shape
// (different holders); a repeated name gets the suffix d<k> in the flat form (same case of the first letter, so
// the same settability), and units correspond by position.
func scanFlatten(kids []*scanNode) []*scanNode {
	var us []scanUnit
	scanUnits(kids, "", nil, &us)
	used := map[string]bool{}
	for _, u := range us {
		used[u.n.name] = true
	}
	seen := map[string]int{}
	out := make([]*scanNode, len(us))
	for i, u := range us {
		n := u.n
		if k := seen[n.name]; k > 0 {
			c := *n
			for {
				c.name = n.name + "d" + strconv.Itoa(k)
				if !used[c.name] {
					break
				}
				k++
			}
			used[c.name] = true
			n = &c
		}
		seen[u.n.name]++
		out[i] = n
	}
	return out
}

// how field names repeat among the fields the scanner reaches (labels only).  A name is an ambiguous selector on the
// component when it occurs more than once at its shallowest depth (holders count, as for Go's selector rule).
func scanNameStats(kids []*scanNode) (ambig, ambigTagged, shadow, diamond bool) {
	type occ struct {
		depth int
		u     *scanNode // nil for a descended holder
	}
	names := map[string][]occ{}
	types := map[string]int{}
	var walk func(kids []*scanNode, depth int)
	walk = func(kids []*scanNode, depth int) {
		for _, k := range kids {
			if k.descended() {
				names[k.name] = append(names[k.name], occ{depth, nil})
				if len(k.kids) > 0 {
					var sb strings.Builder
					scanEncodeNode(&sb, k)
					types[sb.String()]++
				}
				walk(k.kids, depth+1)
			} else {
				names[k.name] = append(names[k.name], occ{depth, k})
			}
		}
	}
	walk(kids, 0)
	for _, c := range types {
		if c > 1 {
			diamond = true
		}
	}
	for _, os := range names {
		if len(os) < 2 {
			continue
		}
		min, atMin := os[0].depth, 0
		for _, o := range os {
			if o.depth < min {
				min = o.depth
			}
		}
		for _, o := range os {
			if o.depth == min {
				atMin++
			}
		}
		for _, o := range os {
			if o.u == nil {
				continue
			}
			if o.depth > min {
				shadow = true
			}
			if atMin > 1 {
				ambig = true
				if _, ok := (scanUnit{n: o.u}).recognised(); ok && scanExported(o.u.name) {
					ambigTagged = true
				}
			}
		}
	}
	return
}

func (u scanUnit) recognised() (string, bool) {
	st := reflect.StructTag(u.n.tagText())
	for _, t := range scanRecognised {
		if _, ok := st.Lookup(t); ok {
			return t, true
		}
	}
	return "", false
}

// the plain forms: type | tag | text  ->  value after a successful Run (configuration scanYaml, providers A and B)
var scanPlain = map[string]string{
	"s|value|lit": "s:" + hx.Hex("lit"), "s|value|${s.k1}": "s:" + hx.Hex("alpha"), "s|prop|s.k1": "s:" + hx.Hex("alpha"),
	"s|prefix|s.k2": "s:" + hx.Hex("beta"), "s|value|${s.zz:dflt}": "s:" + hx.Hex("dflt"),
	"i|value|42": "i:42", "i|value|${i.k}": "i:7", "i|prop|i.k": "i:7", "i|prop|i.j": "i:8", "i|prefix|i.j": "i:8", "i|value|#{1+2}": "i:3",
	"b|value|false": "b:false", "b|value|${b.k}": "b:false", "b|prop|b.k": "b:false", "b|prefix|b.k": "b:false",
	"lg|logger|": "set", "lg|logger|nm": "set", "lg|logger|,embed": "set",
	"pa|wire|": "A", "pa|func|Ping": "A", "pa|wire|main/ScanProvA": "A", "pb|wire|": "B", "pb|wire|provB": "B", "if|wire|": "A", "if|func|Ping": "A",
	"is|wire|": "[A]", "is|func|Ping": "[A]",
}

func (u scanUnit) builtinCount() int {
	st := reflect.StructTag(u.n.tagText())
	k := 0
	for _, t := range scanRecognised {
		if _, ok := st.Lookup(t); ok && t != scanCustomTag {
			k++
		}
	}
	return k
}

func (u scanUnit) builtinTagged() bool {
	st := reflect.StructTag(u.n.tagText())
	for _, t := range scanRecognised {
		if _, ok := st.Lookup(t); ok && t != scanCustomTag {
			return true
		}
	}
	return false
}

/* ---------- running the real container ---------- */

// field path of a scanned Field, recovered from the real Holder chain by address
func scanRealPath(f *component_definition.Field) string {
	var chain []*component_definition.Holder
	for h := f.Holder; h != nil; h = h.Holder {
		chain = append(chain, h)
	}
	for i, j := 0, len(chain)-1; i < j; i, j = i+1, j-1 {
		chain[i], chain[j] = chain[j], chain[i]
	}
	deref := func(v reflect.Value) reflect.Value {
		if v.Kind() == reflect.Ptr {
			return v.Elem()
		}
		return v
	}
	var names []string
	if len(chain) == 0 || chain[0].IsEmbed {
		names = append(names, "?root")
	}
	for k := 1; k < len(chain); k++ {
		pvv, h := deref(chain[k-1].Value), chain[k]
		found := "?"
		if !h.IsEmbed {
			found = "?notembed"
		}
		for i := 0; i < pvv.NumField(); i++ {
			sf := pvv.Type().Field(i)
			if sf.Anonymous && sf.Type == h.Type && pvv.Field(i).UnsafeAddr() == h.Value.UnsafeAddr() {
				found = sf.Name
				break
			}
		}
		names = append(names, found)
	}
	leaf := f.StructField.Name
	if len(chain) > 0 {
		hv := deref(chain[len(chain)-1].Value)
		ix := f.StructField.Index
		if len(ix) != 1 || ix[0] >= hv.NumField() || hv.Field(ix[0]).UnsafeAddr() != f.Value.UnsafeAddr() || hv.Type().Field(ix[0]).Name != leaf {
			leaf = "?" + leaf
		}
	}
	return strings.Join(append(names, leaf), ".")
}

type scanResult struct {
	nprops  map[string]int // per field path: properties of writing processors (all but the recorder's)
	valProp map[string][]scanSeen // per field path: the properties with tag `value` (what a `prop` shorthand becomes)
	obs     string
	outcome string // ok | err | panic
	pre     map[string]string
	post    map[string]string
	units   []scanUnit
	rec     *scanRecorder
	extra   *scanExtra // nil without an extra processor
	detail  string
}

func scanRun(kids []*scanNode, static any) *scanResult { return scanRunX(kids, static, "") }

// scanRunX: extra = "" or <pos><ret> (see the header): the extra processor registered next to the recorder
func scanRunX(kids []*scanNode, static any, extra string) *scanResult {
	return scanRunY(kids, static, extra, scanHolderKind(static) != "")
}

// scanRunY: ordRec = the recorder is the Ordered one (processor-holder runs and the runs of their plain twins)
func scanRunY(kids []*scanNode, static any, extra string, ordRec bool) *scanResult {
	res := &scanResult{pre: map[string]string{}, post: map[string]string{}, nprops: map[string]int{}, valProp: map[string][]scanSeen{}}
	var root reflect.Value
	if pan := hx.Guard(func() {
		if static != nil {
			root = reflect.New(reflect.TypeOf(static))
		} else {
			root = reflect.New(scanStructOf(kids))
		}
	}); pan != nil {
		res.obs, res.outcome, res.detail = "structof-panic", "panic", fmt.Sprint(pan)
		return res
	}
	for i, k := range kids {
		scanFill(root.Elem().Field(i), k)
	}
	scanUnits(kids, "", nil, &res.units)
	pv := &scanProviders{a: &ScanProvA{N: "a"}, b: &ScanProvB{N: "b"}, self: root.Pointer()}
	at := func(ix []int) reflect.Value {
		v := root.Elem()
		for _, i := range ix {
			v = v.Field(i)
		}
		return v
	}
	for _, u := range res.units {
		res.pre[u.path] = scanRender(at(u.idx), u.n, pv)
	}
	comp := root.Interface()
	name := framework_helper.GetComponentName(comp)
	res.rec = newScanRecorder(name, root)
	var recComp any = res.rec
	if ordRec {
		ro := &scanRecorderOrd{scanRecorder: *res.rec}
		res.rec, recComp = &ro.scanRecorder, ro
	}
	a := app.NewApp()
	comps := []any{comp, pv.a, pv.b, recComp}
	if extra != "" {
		var xc any
		xc, res.extra = newScanExtra(extra, name)
		comps = append(comps, xc)
	}
	var err error
	pan := hx.Guard(func() {
		err = a.Run(app.LogLevel(syslog.LvPanic),
			app.SetConfigLoader(loader.NewRawLoader([]byte(scanYaml))),
			app.SetComponents(comps...))
	})
	switch {
	case pan != nil:
		res.outcome, res.detail = "panic", fmt.Sprint(pan)
	case err != nil:
		res.outcome, res.detail = "err", err.Error()
	default:
		res.outcome = "ok"
	}
	for _, u := range res.units {
		res.post[u.path] = scanRender(at(u.idx), u.n, pv)
	}
	// Part A: the real definition
	var meta *component_definition.Meta
	if p2 := hx.Guard(func() { meta = a.GetDefinitionRegistry().GetMetaByName(name) }); p2 != nil || meta == nil {
		res.obs = "nometa"
		return res
	}
	var sb strings.Builder
	fmt.Fprintf(&sb, "fields %d", len(meta.Fields))
	for _, f := range meta.Fields {
		sb.WriteString(" " + scanRealPath(f))
	}
	props := meta.GetAllProperties()
	lines := make([]string, 0, len(props))
	for _, p := range props {
		if p.Tag != scanCustomTag {
			res.nprops[scanRealPath(p.Field)]++
		}
		if p.Tag == "value" {
			res.valProp[scanRealPath(p.Field)] = append(res.valProp[scanRealPath(p.Field)], scanSeen{path: scanRealPath(p.Field), tagStr: p.TagStr, args: propArgs(p)})
		}
		lines = append(lines, scanRealPath(p.Field)+"/"+p.Tag+"/"+string(p.PropertyType)+"/"+hx.Hex(p.TagStr)+"/"+showArgsMap(propArgs(p)))
	}
	sort.Strings(lines)
	fmt.Fprintf(&sb, " props %d", len(lines))
	for _, l := range lines {
		sb.WriteString(" " + l)
	}
	if scanHolderKind(static) != "" {
		fmt.Fprintf(&sb, " pp rec=%d", res.rec.calls)
	}
	res.obs = sb.String()
	return res
}

// scanHolderKind: "" for a plain holder; for a static type that is itself a post-processor the mode suffix @<cls>[<order>],
// read off the type's method set (the interfaces SortOrderedComponents and the registration loop ask for)
func scanHolderKind(static any) string {
	if static == nil {
		return ""
	}
	var p any
	if pan := hx.Guard(func() { p = reflect.New(reflect.TypeOf(static)).Interface() }); pan != nil {
		return ""
	}
	if _, ok := p.(container.ComponentPostProcessor); !ok {
		return ""
	}
	if o, ok := p.(definition.Ordered); ok {
		cls := "o"
		if _, ok := p.(definition.Priority); ok {
			cls = "p"
		}
		return "@" + cls + strconv.Itoa(o.Order())
	}
	return "@u"
}

// "=" + Prefix() when a zero value of the field type implements ConfigurationProperties (the real interface check)
func scanMarkerOf(ft reflect.Type) string {
	if ft != nil && ft.Kind() == reflect.Ptr && ft.Elem().Kind() == reflect.Struct && ft.Implements(scanCfgPropsT) {
		// a pointer field: the method set of *T (value and pointer receivers); asked of a fresh, non-nil *T
		return "=" + reflect.New(ft.Elem()).Interface().(definition.ConfigurationProperties).Prefix()
	}
	if ft == nil || ft.Kind() == reflect.Ptr || ft.Kind() == reflect.Interface {
		return ""
	}
	if cp, ok := reflect.Zero(ft).Interface().(definition.ConfigurationProperties); ok {
		return "=" + cp.Prefix()
	}
	return ""
}

// oracles (ii) and (iii) on one run
func scanOracleSingle(r *scanResult) string {
	if r.outcome == "panic" {
		return "FAIL scan-panic " + r.detail
	}
	// (ii) frame
	for _, u := range r.units {
		// the recorder never writes, so its tag alone licenses no write: only a built-in scanner's tag (or the marker) does
		mayWrite := scanExported(u.n.name) && (u.builtinTagged() || u.n.marker != "")
		if !mayWrite && r.pre[u.path] != r.post[u.path] {
			return fmt.Sprintf("FAIL scan-frame %s tag=%q %s -> %s", u.path, u.n.tagText(), r.pre[u.path], r.post[u.path])
		}
	}
	// (iv) processed at all: a settable unit whose only built-in tag is one of the plain forms below holds the obvious value
	if r.outcome == "ok" {
		for _, u := range r.units {
			if !scanExported(u.n.name) || r.nprops[u.path] > 1 {
				continue
			}
			for _, kv := range u.n.tags {
				if want, ok := scanPlain[u.n.ty+"|"+kv.k+"|"+kv.v]; ok && u.builtinCount() == 1 {
					if r.post[u.path] != want {
						return fmt.Sprintf("FAIL scan-missed %s tag=%q holds %s, want %s", u.path, u.n.tagText(), r.post[u.path], want)
					}
				}
				break // only the first pair: Lookup takes the first occurrence of a key
			}
		}
	}
	// (iii) the recorder saw exactly the custom-tagged settable units
	if r.rec.calls == 0 {
		if r.outcome == "ok" {
			return "FAIL scan-custom recorder never called"
		}
		return ""
	}
	want := map[string]scanSeen{}
	for _, u := range r.units {
		if !scanExported(u.n.name) {
			continue
		}
		if tv, ok := reflect.StructTag(u.n.tagText()).Lookup(scanCustomTag); ok {
			p := component_definition.NewProperty(nil, component_definition.PropertyTypeConfiguration, scanCustomTag, tv)
			want[u.path] = scanSeen{path: u.path, tagStr: p.TagVal, args: propArgs(p)}
		}
	}
	if len(r.rec.seen) != len(want)*r.rec.calls {
		return fmt.Sprintf("FAIL scan-custom saw %d properties in %d calls, want %d per call", len(r.rec.seen), r.rec.calls, len(want))
	}
	for _, s := range r.rec.seen {
		w, ok := want[s.path]
		if !ok {
			return fmt.Sprintf("FAIL scan-custom unexpected %s", s.path)
		}
		if w.tagStr != s.tagStr || showArgsMap(w.args) != showArgsMap(s.args) {
			return fmt.Sprintf("FAIL scan-custom %s got %q %s want %q %s", s.path, s.tagStr, showArgsMap(s.args), w.tagStr, showArgsMap(w.args))
		}
	}
	// (vi) the value as written (blanks and tabs around it included)
	written := map[string]string{}
	for _, u := range r.units {
		if tv, ok := reflect.StructTag(u.n.tagText()).Lookup(scanCustomTag); ok && scanExported(u.n.name) {
			written[u.path] = tv
		}
	}
	for _, s := range r.rec.seen {
		if tv, ok := written[s.path]; ok {
			if val, ok := scanValueAsWritten(tv); ok && s.tagStr != val {
				return fmt.Sprintf("FAIL scan-custom-value %s tag %s:%q: processor got value %q, the tag says value %q", s.path, scanCustomTag, tv, s.tagStr, val)
			}
		}
	}
	// (vii, tenth round) the `prop` shorthand in the structured form `key,name=item…,flag`: the value scanner turns it into a
	// `value` property whose text is `${key}` and whose arguments are ALL the arguments written (plus the scanner's default
	// `Required` flag when the tag does not say) — read off the tag text by the harness itself
	for _, u := range r.units {
		st := reflect.StructTag(u.n.tagText())
		tv, ok := st.Lookup("prop")
		if _, hasValue := st.Lookup("value"); !ok || hasValue || !scanExported(u.n.name) || len(r.valProp[u.path]) != 1 {
			continue
		}
		ps, ok := scanParseStruct(tv)
		if !ok || strings.ContainsAny(ps.val, " \t") {
			continue
		}
		want := ps.argMap()
		if _, said := want["Required"]; !said {
			want["Required"] = nil
		}
		got := r.valProp[u.path][0]
		if g, w := showArgsMap(scanNormArgs(got.args)), showArgsMap(want); got.tagStr != "${"+ps.val+"}" || g != w {
			return fmt.Sprintf("FAIL scan-prop-args %s tag prop:%q became value %q args %s, the tag says ${%s} args %s", u.path, tv, got.tagStr, g, ps.val, w)
		}
	}
	// (v) structured custom tags: the processor was handed the value and the arguments the tag text says
	structured := map[string]scanStructTag{}
	for _, u := range r.units {
		if tv, ok := reflect.StructTag(u.n.tagText()).Lookup(scanCustomTag); ok && scanExported(u.n.name) {
			if st, ok := scanParseStruct(tv); ok {
				structured[u.path] = st
			}
		}
	}
	for _, s := range r.rec.seen {
		st, ok := structured[s.path]
		if !ok {
			continue
		}
		if got, want := showArgsMap(scanNormArgs(s.args)), showArgsMap(st.argMap()); s.tagStr != st.val || got != want {
			return fmt.Sprintf("FAIL scan-custom-args %s tag %q: processor got value %q args %s, the tag says value %q args %s",
				s.path, st.text(), s.tagStr, scanShowArgsPlain(scanNormArgs(s.args)), st.val, scanShowArgsPlain(st.argMap()))
		}
	}
	return ""
}

/* ---------- the value of a tag as written ---------- */

// scanValueAsWritten: the value part of a tag text = everything before the first comma (the whole text when there is
// none), byte for byte.  ok=false when that part holds a bracket (the grammar keeps bracketed groups together, so the
// first comma may then be inside the value): such texts are left to the structured reader.
func scanValueAsWritten(text string) (string, bool) {
	val := text
	if i := strings.IndexByte(text, ','); i >= 0 {
		val = text[:i]
	}
	if strings.ContainsAny(val, "{[()]}") {
		return "", false
	}
	return val, true
}

func scanBlankEdge(v string) bool {
	return v != "" && (strings.IndexByte(" \t", v[0]) >= 0 || strings.IndexByte(" \t", v[len(v)-1]) >= 0)
}

var scanPads = [][2]string{{" ", ""}, {"", " "}, {" ", " "}, {"\t", ""}, {"", "\t"}, {"  ", "  "}, {"\t", " "}}

// literals of `value` on a string field whose padded forms are among the plain forms of oracle (iv)
var scanPadBases = map[string]string{"lit": "lit", "${s.k1}": "alpha", "${s.zz:dflt}": "dflt"}

func init() {
	for base, res := range scanPadBases {
		for _, p := range scanPads {
			scanPlain["s|value|"+p[0]+base+p[1]] = "s:" + hx.Hex(p[0]+res+p[1])
		}
	}
	for _, lit := range []string{" ", "  ", "\t", " \t ", "-> ", " <-", " a b "} {
		scanPlain["s|value|"+lit] = "s:" + hx.Hex(lit)
	}
}

// scanBlankPass (sixth round): white space at the edges of tag VALUES.  Drawn from a PRNG seeded by the shape itself
// (the shapes the generator draws are the same as without this pass): two custom tags in five get a value that begins
// and / or ends with blanks / tabs, consists of blanks only, or is a separator like " | " (arguments untouched); one
// string `value` literal in three is padded the same way.  Applies to every node of the shape, so the padded tags sit
// directly on the component and inside embedded structs of every depth, in every re-nesting.
func scanBlankPass(kids []*scanNode) {
	h := fnv.New64a()
	h.Write([]byte(scanEncode("G", kids)))
	r := hx.NewRng(h.Sum64())
	var walk func(kids []*scanNode)
	walk = func(kids []*scanNode) {
		for _, n := range kids {
			for i, kv := range n.tags {
				val, rest := kv.v, ""
				if j := strings.IndexByte(kv.v, ','); j >= 0 {
					val, rest = kv.v[:j], kv.v[j:]
				}
				if strings.ContainsAny(val, "{[()]}") {
					continue
				}
				switch {
				case kv.k == scanCustomTag && r.P(2, 5):
					switch {
					case val == "" || r.P(1, 6):
						val = []string{" ", "  ", "\t", " \t", " | ", " - ", " . "}[r.Intn(7)]
					default:
						p := scanPads[r.Intn(len(scanPads))]
						val = p[0] + val + p[1]
					}
					n.tags[i].v = val + rest
				case kv.k == "value" && n.ty == "s" && !n.isStruct && r.P(1, 2):
					if _, ok := scanPadBases[val]; ok {
						p := scanPads[r.Intn(len(scanPads))]
						n.tags[i].v = p[0] + val + p[1] + rest
					} else if val == "lit" || r.P(1, 8) {
						n.tags[i].v = []string{" ", "  ", "-> ", " <-", " a b "}[r.Intn(5)] + rest
					}
				}
			}
			if n.isStruct {
				walk(n.kids)
			}
		}
	}
	walk(kids)
}

/* ---------- structured custom tags ---------- */

// A custom tag as its author means it: a value and named arguments, each argument a flag or a list of blank-separated
// items; an item is a word or a bracketed group `( … )` `[ … ]` `{ … }` whose inside may contain blanks, commas and
// further groups (the tag grammar keeps a bracketed group together).
type scanArg struct {
	name  string
	flag  bool // `name` without `=`
	items []string
}
type scanStructTag struct {
	val  string
	args []scanArg
}

func (t scanStructTag) text() string {
	s := t.val
	for _, a := range t.args {
		s += "," + a.name
		if !a.flag {
			s += "=" + strings.Join(a.items, " ")
		}
	}
	return s
}

// argument name (first letter upper-cased, as every processor of the library looks arguments up) -> items; a flag has none
func (t scanStructTag) argMap() map[string][]string {
	m := map[string][]string{}
	for _, a := range t.args {
		m[upFirst(a.name)] = append([]string{}, a.items...)
	}
	return m
}

// what the processor was handed, in the same normal form (a flag is stored with one empty item)
func scanNormArgs(m map[string][]string) map[string][]string {
	out := map[string][]string{}
	for k, v := range m {
		if len(v) == 1 && v[0] == "" {
			v = nil
		}
		out[upFirst(k)] = append([]string{}, v...)
	}
	return out
}

func scanShowArgsPlain(m map[string][]string) string {
	keys := make([]string, 0, len(m))
	for k := range m {
		keys = append(keys, k)
	}
	sort.Strings(keys)
	var parts []string
	for _, k := range keys {
		parts = append(parts, fmt.Sprintf("%s=%q", k, m[k]))
	}
	return "{" + strings.Join(parts, " ") + "}"
}

func scanWordByte(c byte, eq bool) bool {
	return c >= 'a' && c <= 'z' || c >= 'A' && c <= 'Z' || c >= '0' && c <= '9' || strings.IndexByte("._*/-", c) >= 0 || (eq && c == '=')
}

// scanSplitTop splits s at every sep outside brackets; ok=false when the brackets do not balance
func scanSplitTop(s string, sep byte) ([]string, bool) {
	var out []string
	var stack []byte
	start := 0
	for i := 0; i < len(s); i++ {
		c := s[i]
		switch c {
		case '(', '[', '{':
			stack = append(stack, c)
		case ')', ']', '}':
			if len(stack) == 0 || stack[len(stack)-1] != map[byte]byte{')': '(', ']': '[', '}': '{'}[c] {
				return nil, false
			}
			stack = stack[:len(stack)-1]
		default:
			if c == sep && len(stack) == 0 {
				out = append(out, s[start:i])
				start = i + 1
			}
		}
	}
	return append(out, s[start:]), len(stack) == 0
}

// scanItemOK: a word, or ONE bracketed group (closed by its last byte) of words, blanks, commas and groups
func scanItemOK(it string) bool {
	if it == "" {
		return false
	}
	if strings.IndexByte("([{", it[0]) < 0 {
		for i := 0; i < len(it); i++ {
			if !scanWordByte(it[i], true) {
				return false
			}
		}
		return true
	}
	depth := 0
	for i := 0; i < len(it); i++ {
		switch c := it[i]; {
		case strings.IndexByte("([{", c) >= 0:
			depth++
		case strings.IndexByte(")]}", c) >= 0:
			depth--
			if depth == 0 && i != len(it)-1 {
				return false
			}
		case c == ' ' || c == ',' || scanWordByte(c, true):
		default:
			return false
		}
	}
	return depth == 0
}

// scanParseStruct reads a tag text of the structured form back into value and arguments — the harness' own reading of
// the grammar (top-level commas separate arguments, the first `=` ends the name, top-level blanks separate items).
// ok=false for every text outside the form (empty names or items, repeated names, stray brackets, other bytes): the
// structured oracle then says nothing.
func scanParseStruct(text string) (scanStructTag, bool) {
	var t scanStructTag
	parts, ok := scanSplitTop(text, ',')
	if !ok || len(parts) < 2 {
		return t, false
	}
	t.val = parts[0]
	for i := 0; i < len(t.val); i++ {
		// blanks and tabs are part of the value as written (sixth round)
		if !scanWordByte(t.val[i], false) && t.val[i] != ' ' && t.val[i] != '\t' {
			return t, false
		}
	}
	names := map[string]bool{}
	for _, p := range parts[1:] {
		a := scanArg{name: p, flag: true}
		if i := strings.IndexByte(p, '='); i >= 0 {
			a.name, a.flag = p[:i], false
			a.items, ok = scanSplitTop(p[i+1:], ' ')
			if !ok {
				return t, false
			}
			for _, it := range a.items {
				if !scanItemOK(it) {
					return t, false
				}
			}
		}
		if a.name == "" || !(a.name[0] >= 'a' && a.name[0] <= 'z' || a.name[0] >= 'A' && a.name[0] <= 'Z') {
			return t, false
		}
		for i := 0; i < len(a.name); i++ {
			if !scanWordByte(a.name[i], false) || strings.IndexByte("._*/-", a.name[i]) >= 0 {
				return t, false
			}
		}
		if names[upFirst(a.name)] {
			return t, false
		}
		names[upFirst(a.name)] = true
		t.args = append(t.args, a)
	}
	return t, true
}

var scanStructWords = []string{"0", "*", "*/5", "1-5", "30", "mon", "tue", "sat", "UTC", "v8", "turbo", "a.b", "x_y", "min=3", "eq=abc", "Z"}
var scanStructNames = []string{"cron", "on", "zone", "note", "list", "opt", "Window", "retry", "k2"}

func (g *scanGenSt) structGroup(depth int) string {
	r := g.r
	br := []string{"()", "[]", "{}"}[r.Intn(3)]
	n := 1 + r.Intn(5)
	var sb strings.Builder
	sb.WriteByte(br[0])
	for i := 0; i < n; i++ {
		if i > 0 {
			sb.WriteString([]string{" ", " ", " ", ", ", ","}[r.Intn(5)])
		}
		if depth < 2 && r.P(1, 8) {
			sb.WriteString(g.structGroup(depth + 1))
		} else {
			sb.WriteString(scanStructWords[r.Intn(len(scanStructWords))])
		}
	}
	sb.WriteByte(br[1])
	return sb.String()
}

// structTag: a structured custom tag; most of them carry a bracketed item with blanks inside, many carry several
// blank-separated items (words and groups mixed)
func (g *scanGenSt) structTag() scanStructTag {
	r := g.r
	for tries := 0; ; tries++ {
		t := scanStructTag{val: []string{"", "v", "purge", "some.value", "a-b", "job/1"}[r.Intn(6)]}
		na := 1 + r.Intn(3)
		perm := r.Perm(len(scanStructNames))
		for i := 0; i < na; i++ {
			a := scanArg{name: scanStructNames[perm[i]]}
			switch c := r.Intn(10); {
			case c < 1:
				a.flag = true
			case c < 3: // words only
				for k := 1 + r.Intn(3); k > 0; k-- {
					a.items = append(a.items, scanStructWords[r.Intn(len(scanStructWords))])
				}
			case c < 6: // one group
				a.items = []string{g.structGroup(0)}
			default: // several items, words and groups mixed
				for k := 2 + r.Intn(3); k > 0; k-- {
					if r.P(1, 2) {
						a.items = append(a.items, g.structGroup(0))
					} else {
						a.items = append(a.items, scanStructWords[r.Intn(len(scanStructWords))])
					}
				}
			}
			t.args = append(t.args, a)
		}
		// harness sanity: the text reads back as the structure it was rendered from
		if back, ok := scanParseStruct(t.text()); (ok && reflect.DeepEqual(back.argMap(), t.argMap()) && back.val == t.val) || tries > 20 {
			return t
		}
	}
}

// oracle (i): against the flattened arrangement, unit by unit (by position: repeated names are suffixed in the flat form)
func scanOracleFlat(r, flat *scanResult) string {
	if r.outcome != flat.outcome {
		return fmt.Sprintf("FAIL scan-renest outcome %s, flattened %s", r.outcome, flat.outcome)
	}
	if r.outcome != "ok" {
		return "" // a failed start stops at an unspecified point; only the outcome is compared
	}
	if len(r.units) != len(flat.units) {
		return "FAIL scan-renest unit count"
	}
	for i, u := range r.units {
		fu := flat.units[i]
		if fu.n.ty != u.n.ty || fu.n.tagText() != u.n.tagText() || scanExported(fu.n.name) != scanExported(u.n.name) {
			return "FAIL scan-renest unit order" // harness sanity: the same declarations in the same order (names may differ, see scanFlatten)
		}
		if r.nprops[u.path] > 1 || flat.nprops[fu.path] > 1 {
			// two processors own the field (e.g. a marker that also carries a value tag); processors of equal
			// Order run in registration order, a Go map order: which write lands last is not C11's subject
			continue
		}
		if r.post[u.path] != flat.post[fu.path] {
			return fmt.Sprintf("FAIL scan-renest %s tag=%q nested %s, flattened %s", u.path, u.n.tagText(), r.post[u.path], flat.post[fu.path])
		}
	}
	return ""
}

// scanPlumbing: a unit of the processor plumbing — a field whose type is one of package processors' Default… types (ty dp)
func scanPlumbing(n *scanNode) bool { return n.ty == "dp" }

// oracle (viii), processor holders only: against the plain twin holder of the same shape, unit by unit (by path: the twin
// declares the same fields in the same nesting, without the plumbing units)
func scanOracleTwin(r, tw *scanResult) string {
	if r.outcome != tw.outcome {
		return fmt.Sprintf("FAIL scan-holder-kind Run ends %s for the holder that is a post-processor, %s for the plain holder of the same shape: %s", r.outcome, tw.outcome, r.detail+tw.detail)
	}
	if r.outcome != "ok" {
		return ""
	}
	mine := map[string]scanUnit{}
	n := 0
	for _, u := range r.units {
		if !scanPlumbing(u.n) {
			mine[u.path] = u
			n++
		}
	}
	if n != len(tw.units) {
		return "FAIL scan-holder-kind unit count" // harness sanity: the twin declares the same units
	}
	for _, tu := range tw.units {
		u, ok := mine[tu.path]
		if !ok || u.n.ty != tu.n.ty || u.n.tagText() != tu.n.tagText() {
			return "FAIL scan-holder-kind unit " + tu.path // harness sanity
		}
		if r.nprops[u.path] > 1 || tw.nprops[tu.path] > 1 {
			continue // two processors own the field: see scanOracleFlat
		}
		if r.post[u.path] != tw.post[tu.path] {
			return fmt.Sprintf("FAIL scan-holder-kind %s tag=%q: %s on the holder that is a post-processor, %s on the plain holder of the same shape",
				u.path, u.n.tagText(), r.post[u.path], tw.post[tu.path])
		}
	}
	return ""
}

// scanConfigPoint: a unit the container may touch — exported, and carrying a recognised tag or being a
// ConfigurationProperties by its type (the harness' own reading of the property: tag text and Go's method sets)
func scanConfigPoint(n *scanNode) bool {
	_, rec := (scanUnit{n: n}).recognised()
	return scanExported(n.name) && (rec || n.marker != "")
}

// oracle (vii), marker-family shapes only: the units the property calls untouched do not decide whether the container
// starts.  The same units without them (flattened, a reflect.StructOf type) must end Run with the same outcome.
func scanOracleStart(r *scanResult, kids []*scanNode, extra string) string {
	var keep []*scanNode
	var dropped []string
	for _, n := range scanFlatten(kids) {
		if scanConfigPoint(n) {
			keep = append(keep, n)
		} else {
			dropped = append(dropped, fmt.Sprintf("%s %s%s `%s`", n.name, map[bool]string{true: "", false: "*"}[!n.isStruct || n.byVal], n.ty, n.tagText()))
		}
	}
	if len(dropped) == 0 {
		return ""
	}
	red := scanRunX(keep, nil, extra)
	if red.obs == "structof-panic" {
		return "" // an embedded Go-declared type with methods: reflect.StructOf cannot build the reduced twin
	}
	if red.outcome != r.outcome {
		if len(dropped) > 6 {
			dropped = append(dropped[:6], "…")
		}
		return fmt.Sprintf("FAIL scan-frame-start Run ends %s, but %s without the fields the container has no business with (%s): %s",
			r.outcome, red.outcome, strings.Join(dropped, "; "), r.detail+red.detail)
	}
	return ""
}

func scanLabels(kids []*scanNode, r *scanResult, extra ...string) []string {
	tags := append([]string{}, extra...)
	d := scanDepth(kids)
	tags = append(tags, fmt.Sprintf("depth%d", d), "run-"+r.outcome)
	kinds := map[string]bool{}
	nrec := 0
	for _, u := range r.units {
		if t, ok := u.recognised(); ok {
			kinds[t] = true
			if scanExported(u.n.name) {
				nrec++
			}
		}
	}
	for k := range kinds {
		tags = append(tags, "tag-"+k)
	}
	structured, blankInGroup := false, false
	for _, u := range r.units {
		if tv, ok := reflect.StructTag(u.n.tagText()).Lookup(scanCustomTag); ok && scanExported(u.n.name) {
			if st, ok := scanParseStruct(tv); ok {
				structured = true
				for _, a := range st.args {
					for _, it := range a.items {
						if strings.Contains(it, " ") {
							blankInGroup = true
						}
					}
				}
			}
		}
	}
	blankVal, blankLit := false, false
	for _, u := range r.units {
		if !scanExported(u.n.name) {
			continue
		}
		st := reflect.StructTag(u.n.tagText())
		if tv, ok := st.Lookup(scanCustomTag); ok {
			if v, ok := scanValueAsWritten(tv); ok && scanBlankEdge(v) {
				blankVal = true
			}
		}
		if tv, ok := st.Lookup("value"); ok && u.n.ty == "s" {
			if v, ok := scanValueAsWritten(tv); ok && scanBlankEdge(v) {
				blankLit = true
			}
		}
	}
	if blankVal {
		tags = append(tags, "custom-blank-value")
		if d > 0 {
			tags = append(tags, "custom-blank-value-embedded")
		}
	}
	if blankLit {
		tags = append(tags, "value-blank-literal")
	}
	if structured {
		tags = append(tags, "custom-structured")
	}
	if blankInGroup {
		tags = append(tags, "custom-blank-in-brackets")
	}
	famShape := scanMarkFamily(kids) // (labels of marker-family shapes only: the older shapes keep theirs)
	famSeen := map[string]bool{}
	famTag := func(t string) {
		if !famSeen[t] {
			famSeen[t] = true
			tags = append(tags, t)
		}
	}
	for _, u := range r.units {
		n := u.n
		if _, fam := scanMarkFamilyT[n.ty]; !famShape || !n.isStruct || !(fam || n.ty == "mk") || !scanExported(n.name) {
			continue
		}
		_, hasPrefix := reflect.StructTag(n.tagText()).Lookup("prefix")
		deep := map[bool]string{true: "-embedded", false: ""}[strings.Contains(u.path, ".")]
		switch {
		case hasPrefix:
			famTag("mark-prefix-tagged")
		case n.byVal && n.marker == "":
			// the shape the method-set rule is about: by value, Prefix() on the pointer only, no prefix tag
			famTag("mark-ptrrecv-byvalue"+deep)
			if len(n.tags) > 0 {
				famTag("mark-ptrrecv-byvalue-foreign-tag")
			}
		case n.byVal:
			famTag("mark-valrecv-byvalue"+deep)
		case n.ty == "mk":
			famTag("mark-valrecv-pointer"+deep)
		default:
			famTag("mark-ptrrecv-pointer"+deep)
		}
	}
	if r.extra != nil && r.extra.calls > 0 && r.rec.calls > 0 && len(r.rec.seen) > 0 && strings.IndexByte("ebp", r.extra.ret) >= 0 {
		tags = append(tags, "extra-returns-without-custom-fields")
	}
	tags = append(tags, fmt.Sprintf("units%d", len(r.units)/4*4))
	am, amt, sh, di := scanNameStats(kids)
	for _, l := range []struct {
		on bool
		s  string
	}{{am, "name-ambig"}, {amt, "name-ambig-tagged"}, {sh, "name-shadow"}, {di, "type-diamond"}} {
		if l.on {
			tags = append(tags, l.s)
		}
	}
	if d == 0 || nrec == 0 {
		tags = append(tags, "trivial")
	}
	return tags
}

// one case: run the arrangement, evaluate the oracles, compare with the flattened run
func scanCase(mode string, kids []*scanNode, static any, flat *scanResult, labels []string, w *hx.Writer) *scanResult {
	return scanCaseT(mode, kids, static, flat, nil, labels, w)
}

// scanCaseT: twin = the run of the plain twin holder (processor holders only, else nil)
func scanCaseT(mode string, kids []*scanNode, static any, flat, twin *scanResult, labels []string, w *hx.Writer) *scanResult {
	extra := ""
	if i := strings.IndexByte(mode, '+'); i >= 0 {
		extra = mode[i+1:]
		labels = append(append([]string{}, labels...), "extra-processor", "extra-pos-"+extra[:1], "extra-ret-"+extra[1:])
	}
	r := scanRunX(kids, static, extra)
	scanDebug(r)
	c := hx.Case{Scn: scanEncode(mode, kids), Obs: r.obs}
	c.Oracle = scanOracleSingle(r)
	if c.Oracle == "" && flat != nil {
		c.Oracle = scanOracleFlat(r, flat)
	}
	if c.Oracle == "" && scanMarkFamily(kids) {
		c.Oracle = scanOracleStart(r, kids, extra)
	}
	if twin != nil {
		// both verdicts are reported: the twin comparison (viii) and the first failing one of the oracles above
		if o := scanOracleTwin(r, twin); o != "" {
			if c.Oracle != "" {
				o += " ;; " + c.Oracle
			}
			c.Oracle = o
		}
	}
	c.Tags = scanLabels(kids, r, labels...)
	w.Put(c)
	return r
}

/* ---------- static types: what reflect.StructOf cannot build ---------- */

type scanLower struct {
	X *ScanProvA `wire:""`
	y *ScanProvA `wire:""`
	V string     `value:"lit"`
}
type ScanUpper struct {
	scanLower
	Z *ScanProvB `wire:""`
}

// unexported embedded struct types (depth 2), a named unexported struct, a pointer embed
type ScanStatic0 struct {
	ScanUpper
	named scanLower
	Ptr   *ScanUpper
	W     string `value:"${s.k1}"`
}

// an embedded ConfigurationProperties marker is descended into, not bound; a named one is bound
type ScanStatic1 struct {
	ScanMark
	M  ScanMark
	m2 ScanMark
	ScanGrp
}

// embedded interface, embedded pointer, tagged embeds
type ScanStatic2 struct {
	syslog.Logger `logger:"x"`
	*ScanProvA    `wire:""`
	ScanGrp       `prefix:"grp"`
	scanLower     `json:"l"`
	T             string `mytag:"v,a=b c"`
}

// an unexported embedded pointer and an untagged embedded interface
type ScanStatic3 struct {
	*scanLower
	ScanIface
	U string `prop:"s.k2"`
}

// the hand-flattened twin of ScanStatic0 (same units, same order, no embedding)
type ScanStatic0Flat struct {
	X     *ScanProvA `wire:""`
	y     *ScanProvA `wire:""`
	V     string     `value:"lit"`
	Z     *ScanProvB `wire:""`
	named scanLower
	Ptr   *ScanUpper
	W     string `value:"${s.k1}"`
}

// two sibling mix-ins (one of an unexported type) that declare equally named fields at the same depth: `Dep` and `N`
// are ambiguous selectors on ScanStatic4, yet each is a field of its own, addressable through its holder
type ScanReader struct {
	Dep *ScanProvA `wire:""`
	Src string     `value:"lit"`
	N   int        `mytag:"r,a=1"`
}
type scanWriter struct {
	Dep *ScanProvA `wire:""`
	Dst string     `value:"${s.k1}"`
	N   int        `mytag:"w" prop:"i.k"`
}
type ScanStatic4 struct {
	ScanReader
	scanWriter
	Own string `prop:"s.k2"`
}
type ScanStatic4Flat struct {
	Dep  *ScanProvA `wire:""`
	Src  string     `value:"lit"`
	N    int        `mytag:"r,a=1"`
	Dep2 *ScanProvA `wire:""`
	Dst  string     `value:"${s.k1}"`
	N2   int        `mytag:"w" prop:"i.k"`
	Own  string     `prop:"s.k2"`
}

// a diamond: the same embedded type reached through two parents; Right.V shadows the two Base.V
type ScanBase struct {
	D  *ScanProvB    `wire:""`
	Mk string        `mytag:"m,opt=1"`
	V  int           `value:"42"`
	lg syslog.Logger `logger:""`
}
type ScanLeft struct{ ScanBase }
type ScanRight struct {
	ScanBase
	V bool `value:"false"`
}
type ScanStatic5 struct {
	ScanLeft
	ScanRight
}
type ScanStatic5Flat struct {
	D   *ScanProvB    `wire:""`
	Mk  string        `mytag:"m,opt=1"`
	V   int           `value:"42"`
	lg  syslog.Logger `logger:""`
	D2  *ScanProvB    `wire:""`
	Mk2 string        `mytag:"m,opt=1"`
	V2  int           `value:"42"`
	lg2 syslog.Logger `logger:""`
	V3  bool          `value:"false"`
}

// SELF-CANDIDATES: a component that is itself a candidate for its own `wire` fields (it implements the interface the
// field asks for).  StructOf types have no methods, so these are static.  The same five points —
//
//	Peers []ScanIface `wire:""`                 candidates: provider A and the holder      -> [A]
//	Next  ScanIface   `wire:""`                 candidates: provider A and the holder      -> A
//	Opt   ScanSolo    `wire:",required=false"`  the holder is the ONLY candidate           -> stays nil
//	OptS  []ScanSolo  `wire:",required=false"`  the holder is the ONLY candidate           -> stays nil
//	Fns   []ScanIface `func:"Ping"`             candidates: provider A and the holder      -> [A]
//
// — are declared directly on the component (the flat twins) and inside embedded structs in every position: first member
// (offset 0), after a plain member, after another embedded struct, two and three levels deep, first member of an
// embedded struct that is itself not first.  Every arrangement must end with what its flat twin ends with (oracle (i)).
type ScanSelfLinks struct {
	Peers []ScanIface `wire:""`
	Next  ScanIface   `wire:""`
	Opt   ScanSolo    `wire:",required=false"`
	OptS  []ScanSolo  `wire:",required=false"`
	Fns   []ScanIface `func:"Ping"`
}
type ScanSelfInfo struct {
	Label string
	Count int
}

// (the component has a method Ping and a method Solo in every arrangement)
// flat twin 1: Label Count <links>
type ScanHubFlat1 struct {
	Label string
	Count int
	Peers []ScanIface `wire:""`
	Next  ScanIface   `wire:""`
	Opt   ScanSolo    `wire:",required=false"`
	OptS  []ScanSolo  `wire:",required=false"`
	Fns   []ScanIface `func:"Ping"`
}

// flat twin 2: <links> Label Count
type ScanHubFlat2 struct {
	Peers []ScanIface `wire:""`
	Next  ScanIface   `wire:""`
	Opt   ScanSolo    `wire:",required=false"`
	OptS  []ScanSolo  `wire:",required=false"`
	Fns   []ScanIface `func:"Ping"`
	Label string
	Count int
}

// flat twin 3: Label <links> Count
type ScanHubFlat3 struct {
	Label string
	Peers []ScanIface `wire:""`
	Next  ScanIface   `wire:""`
	Opt   ScanSolo    `wire:",required=false"`
	OptS  []ScanSolo  `wire:",required=false"`
	Fns   []ScanIface `func:"Ping"`
	Count int
}

// the embedded struct is the first member (offset 0)
type ScanHubFirst struct {
	ScanSelfLinks
	Label string
	Count int
}

// … declared after plain members (non-zero offset)
type ScanHubSecond struct {
	Label string
	Count int
	ScanSelfLinks
}

// … declared after another embedded struct
type ScanHubAfterEmbed struct {
	ScanSelfInfo
	ScanSelfLinks
}

// … two levels deep, behind another embedded struct
type ScanSelfInner struct {
	ScanSelfInfo
	ScanSelfLinks
}
type ScanHubDeep struct{ ScanSelfInner }

// … three levels deep
type ScanSelfWrap3 struct{ ScanSelfLinks }
type ScanSelfWrap2 struct {
	ScanSelfInfo
	ScanSelfWrap3
}
type ScanSelfWrap1 struct{ ScanSelfWrap2 }
type ScanHubDeep3 struct{ ScanSelfWrap1 }

// … first member at both levels (offset 0 all the way down)
type ScanSelfOuter0 struct {
	ScanSelfLinks
	Label string
}
type ScanHubFirstDeep struct {
	ScanSelfOuter0
	Count int
}

// … first member of an embedded struct that is itself declared after a plain member
type ScanSelfOuterN struct {
	ScanSelfLinks
	Count int
}
type ScanHubMid struct {
	Label string
	ScanSelfOuterN
}

func (*ScanHubFlat1) Ping()      {}
func (*ScanHubFlat1) Solo()      {}
func (*ScanHubFlat2) Ping()      {}
func (*ScanHubFlat2) Solo()      {}
func (*ScanHubFlat3) Ping()      {}
func (*ScanHubFlat3) Solo()      {}
func (*ScanHubFirst) Ping()      {}
func (*ScanHubFirst) Solo()      {}
func (*ScanHubSecond) Ping()     {}
func (*ScanHubSecond) Solo()     {}
func (*ScanHubAfterEmbed) Ping() {}
func (*ScanHubAfterEmbed) Solo() {}
func (*ScanHubDeep) Ping()       {}
func (*ScanHubDeep) Solo()       {}
func (*ScanHubDeep3) Ping()      {}
func (*ScanHubDeep3) Solo()      {}
func (*ScanHubFirstDeep) Ping()  {}
func (*ScanHubFirstDeep) Solo()  {}
func (*ScanHubMid) Ping()        {}
func (*ScanHubMid) Solo()        {}

// a REQUIRED point whose only candidate is the holder itself: the start is refused, wherever the point is declared
type ScanSoloLinks struct {
	Only ScanSolo `wire:""`
}
type ScanSoloFlat1 struct {
	Label string
	Only  ScanSolo `wire:""`
}
type ScanSoloFlat2 struct {
	Only  ScanSolo `wire:""`
	Label string
}
type ScanSoloFirst struct {
	ScanSoloLinks
	Label string
}
type ScanSoloSecond struct {
	Label string
	ScanSoloLinks
}
type ScanSoloInfo struct{ Label string }
type ScanSoloInner struct {
	ScanSoloInfo
	ScanSoloLinks
}
type ScanSoloDeep struct{ ScanSoloInner }

func (*ScanSoloFlat1) Solo()  {}
func (*ScanSoloFlat2) Solo()  {}
func (*ScanSoloFirst) Solo()  {}
func (*ScanSoloSecond) Solo() {}
func (*ScanSoloDeep) Solo()   {}

// white space at the edges of tag values (sixth round): separators and padding handed to a user tag processor, literals of
// blanks for the built-in `value` tag — directly on the component (the flat twin) and one / two embedded levels down
type ScanSepBase struct {
	Gap string `mytag:" "`
	Bar string `mytag:" | ,style=wide"`
	Ind string `value:"  "`
}
type ScanSepMid struct {
	ScanSepBase
	Dash  string `mytag:" - "`
	Arrow string `value:"-> "`
}
type ScanStatic21 struct {
	Label string
	ScanSepMid
	Tab  string `mytag:"\tv\t,note=(a b) c"`
	Lead string `value:" ${s.k1}"`
	Only int    `mytag:"   ,k"`
}
type ScanStatic21Flat struct {
	Label string
	Gap   string `mytag:" "`
	Bar   string `mytag:" | ,style=wide"`
	Ind   string `value:"  "`
	Dash  string `mytag:" - "`
	Arrow string `value:"-> "`
	Tab   string `mytag:"\tv\t,note=(a b) c"`
	Lead  string `value:" ${s.k1}"`
	Only  int    `mytag:"   ,k"`
}

// the marker family on Go-declared holder types (seventh round): which fields are configuration points without a tag is
// decided by the method set of the field's TYPE.  The comments say what the unchanged library does (observed first).
type ScanCfgInner struct {
	Primary  *ScanPMark                    // *T implements: bound from "grp" (a fresh struct is allocated)
	Fallback ScanPMark                     // by value, pointer receiver: T does not implement — left alone
	Labelled ScanPMark `json:"labelled"`   // only a foreign tag: left alone
	Bound    ScanPMark `prefix:"grp"`      // the prefix tag: bound
	ByVal    ScanMark                      // value receiver: bound from "mark"
	ByValJ   ScanMark `json:"m"`           // bound from "mark"
	PtrV     *ScanMark                     // bound from "mark" (pre-set: see scanPreset)
	PtrSet   *ScanPSet `yaml:"p"`          // pre-set, bound from "grp"
	Absent   ScanPNone                     // by value, pointer receiver, prefix absent from the configuration: left alone,
	AbsentJ  ScanPNone `yaml:"x" mytag:"cfg,note=(a b)"` // and no reason to refuse the start; the recorder is handed this one
	hidden   ScanPMark
	hiddenP  *ScanPMark
	Note     string
}
type ScanCfgMid struct {
	Count int
	ScanCfgInner
}
type ScanStatic23 struct {
	Label string
	ScanCfgMid
	Tail ScanPSet `db:"t"`
}
type ScanStatic23Flat struct {
	Label    string
	Count    int
	Primary  *ScanPMark
	Fallback ScanPMark
	Labelled ScanPMark `json:"labelled"`
	Bound    ScanPMark `prefix:"grp"`
	ByVal    ScanMark
	ByValJ   ScanMark `json:"m"`
	PtrV     *ScanMark
	PtrSet   *ScanPSet `yaml:"p"`
	Absent   ScanPNone
	AbsentJ  ScanPNone `yaml:"x" mytag:"cfg,note=(a b)"`
	hidden   ScanPMark
	hiddenP  *ScanPMark
	Note     string
	Tail     ScanPSet `db:"t"`
}

// the same types as ANONYMOUS members: an embedded struct with a tag is a field of its own, an embedded pointer too
// (three embedded types declare Prefix at the same depth, so the holders promote none)
type ScanCfgAnon struct {
	ScanPMark `json:"e"` // by value, pointer receiver, foreign tag: left alone
	ScanMark  `yaml:"m"` // value receiver: bound from "mark"
	*ScanPSet            // pointer: bound from "grp"
	Own       string `value:"lit"`
}
type ScanStatic25 struct {
	Label string
	ScanCfgAnon
}
type ScanStatic25Flat struct {
	Label     string
	ScanPMark `json:"e"`
	ScanMark  `yaml:"m"`
	*ScanPSet
	Own string `value:"lit"`
}

// an untagged embedded by-value struct is descended into whatever its methods are: its fields are plain untagged fields
type ScanStatic27 struct {
	ScanPNone
	Inner struct{ ScanPMark }
	W     string `value:"${s.k1}"`
}

/* ---------- holders that are themselves post-processors (ninth round) ---------- */

// A component may itself be a user-supplied, non-lazy post-processor (typically the processor of a custom tag) and carry
// recognised tags of its own like any component.  Such a holder is created and populated inside the registration loop of
// InvokeBeanFactoryPostProcessors by the processors registered so far.  The holders below are not Ordered, or Ordered behind
// the built-in processors: every built-in processor (and the ordered recorder) is registered when they are populated, so
// their tagged fields — declared directly, and one / two / three embedded levels down — must end with what the PLAIN twin
// of the same shape ends with (oracle (viii)).  How the holder becomes a processor:
//
//	ScanPPPtr      embeds *processors.DefaultComponentPostProcessor BY POINTER (left nil: its methods never touch the receiver):
//	               an embedded pointer is a field of its own (unit `DefaultComponentPostProcessor`, ty dp), not descended into
//	ScanPPMeth     explicit methods, no plumbing field at all; Order() = 100
//	ScanPPVal      embeds processors.DefaultInstantiationAwareComponentPostProcessor BY VALUE, the way users write it: an
//	               untagged anonymous by-value struct, so the scanner DESCENDS into it (and into the DefaultComponentPostProcessor
//	               inside it) and finds no field there — the shape has two more empty embedded levels, no unit more;
//	               an ACTIVE processor (PostProcessAfterInstantiation answers true), Order() = MaxInt
//	ScanPPInstPtr  embeds *processors.DefaultInstantiationAwareComponentPostProcessor by pointer (pre-set by the harness: a
//	               promoted method of the struct inside it needs a non-nil pointer); tagged fields in embedded structs only
//	ScanPPFlatProc explicit methods, every field declared directly; Order() = 51 (right behind the recorder)
//
// (A priority-ordered holder, or one Ordered ahead of a built-in processor, is populated without the processors sorted behind
// it on the unchanged library — outside what these shapes test; a LazyInit processor is never populated at all.)
const scanProcessorsPkg = "github.com/go-kid/ioc/container/processors"

type ScanPPLeafs struct {
	Factor int    `value:"42"`
	Name   string `prop:"s.k1"`
	hidden int    `value:"42"`
	Note   string
	Lg     syslog.Logger `logger:""`
}
type ScanPPMid struct {
	ScanPPLeafs
	Dep  *ScanProvA `wire:""`
	Fn   ScanIface  `func:"Ping"`
	Mine string     `mytag:"v,a=b c"`
	Fo   string     `json:"x"`
}
type ScanPPOuter struct {
	Count int `prop:"i.j"`
	ScanPPMid
	Flag bool `value:"${b.k}"`
}

// the plain holder: tagged fields two levels down, one level down and directly
type ScanPPTop struct {
	ScanPPMid
	Offset int        `value:"${i.k}"`
	Helper *ScanProvB `wire:""`
	Grp    ScanGrp    `prefix:"grp"`
	Own    string     `mytag:" w "`
	Pfx    string     `prefix:"s.k2"`
	plain  bool
}

// the same fields, all declared directly (plain)
type ScanPPFlat struct {
	Factor int    `value:"42"`
	Name   string `prop:"s.k1"`
	hidden int    `value:"42"`
	Note   string
	Lg     syslog.Logger `logger:""`
	Dep    *ScanProvA    `wire:""`
	Fn     ScanIface     `func:"Ping"`
	Mine   string        `mytag:"v,a=b c"`
	Fo     string        `json:"x"`
	Offset int           `value:"${i.k}"`
	Helper *ScanProvB    `wire:""`
	Grp    ScanGrp       `prefix:"grp"`
	Own    string        `mytag:" w "`
	Pfx    string        `prefix:"s.k2"`
	plain  bool
}

type ScanPPPtr struct {
	*processors.DefaultComponentPostProcessor
	ScanPPMid
	Offset int        `value:"${i.k}"`
	Helper *ScanProvB `wire:""`
	Grp    ScanGrp    `prefix:"grp"`
	Own    string     `mytag:" w "`
	Pfx    string     `prefix:"s.k2"`
	plain  bool
}

type ScanPPMeth struct {
	ScanPPMid
	Offset int        `value:"${i.k}"`
	Helper *ScanProvB `wire:""`
	Grp    ScanGrp    `prefix:"grp"`
	Own    string     `mytag:" w "`
	Pfx    string     `prefix:"s.k2"`
	plain  bool
}

func (*ScanPPMeth) PostProcessBeforeInitialization(c any, _ string) (any, error) { return c, nil }
func (*ScanPPMeth) PostProcessAfterInitialization(c any, _ string) (any, error)  { return c, nil }
func (*ScanPPMeth) Order() int                                                    { return 100 }

type ScanPPFlatProc struct {
	Factor int    `value:"42"`
	Name   string `prop:"s.k1"`
	hidden int    `value:"42"`
	Note   string
	Lg     syslog.Logger `logger:""`
	Dep    *ScanProvA    `wire:""`
	Fn     ScanIface     `func:"Ping"`
	Mine   string        `mytag:"v,a=b c"`
	Fo     string        `json:"x"`
	Offset int           `value:"${i.k}"`
	Helper *ScanProvB    `wire:""`
	Grp    ScanGrp       `prefix:"grp"`
	Own    string        `mytag:" w "`
	Pfx    string        `prefix:"s.k2"`
	plain  bool
}

func (*ScanPPFlatProc) PostProcessBeforeInitialization(c any, _ string) (any, error) { return c, nil }
func (*ScanPPFlatProc) PostProcessAfterInitialization(c any, _ string) (any, error)  { return c, nil }
func (*ScanPPFlatProc) Order() int                                                    { return scanRecorderOrder + 1 }

// three levels down, behind a plain member
type ScanPPValPlain struct {
	Label string
	ScanPPOuter
}
type ScanPPValFlat struct {
	Label  string
	Count  int    `prop:"i.j"`
	Factor int    `value:"42"`
	Name   string `prop:"s.k1"`
	hidden int    `value:"42"`
	Note   string
	Lg     syslog.Logger `logger:""`
	Dep    *ScanProvA    `wire:""`
	Fn     ScanIface     `func:"Ping"`
	Mine   string        `mytag:"v,a=b c"`
	Fo     string        `json:"x"`
	Flag   bool          `value:"${b.k}"`
}
type ScanPPVal struct {
	processors.DefaultInstantiationAwareComponentPostProcessor
	Label string
	ScanPPOuter
}

func (*ScanPPVal) Order() int { return math.MaxInt }
func (*ScanPPVal) PostProcessAfterInstantiation(component any, componentName string) (bool, error) {
	return true, nil
}
func (*ScanPPVal) PostProcessProperties(properties []*component_definition.Property, component any, componentName string) ([]*component_definition.Property, error) {
	return nil, nil
}

type ScanPPInstPlain struct{ ScanPPOuter }
type ScanPPInstPtr struct {
	*processors.DefaultInstantiationAwareComponentPostProcessor
	ScanPPOuter
}

// the plain twin of a holder that is a post-processor: the same fields in the same nesting (without the plumbing)
var scanHolderTwin = map[int]any{30: ScanPPTop{}, 31: ScanPPTop{}, 32: ScanPPFlat{}, 34: ScanPPValPlain{}, 36: ScanPPInstPlain{}}

var scanStaticFlat = map[int]any{28: ScanPPFlat{}, 31: ScanPPFlat{}, 33: ScanPPValFlat{}, 34: ScanPPValFlat{}, 23: ScanStatic23Flat{}, 25: ScanStatic25Flat{}, 21: ScanStatic21Flat{},0: ScanStatic0Flat{}, 4: ScanStatic4Flat{}, 5: ScanStatic5Flat{},
	9: ScanHubFlat2{}, 10: ScanHubFlat1{}, 11: ScanHubFlat1{}, 12: ScanHubFlat1{}, 13: ScanHubFlat1{}, 14: ScanHubFlat2{}, 15: ScanHubFlat3{},
	18: ScanSoloFlat2{}, 19: ScanSoloFlat1{}, 20: ScanSoloFlat1{}}

var scanStatics = []any{ScanStatic0{}, ScanStatic1{}, ScanStatic2{}, ScanStatic3{}, ScanStatic4{}, ScanStatic5{},
	/* 6 */ ScanHubFlat1{}, ScanHubFlat2{}, ScanHubFlat3{},
	/* 9 */ ScanHubFirst{}, ScanHubSecond{}, ScanHubAfterEmbed{}, ScanHubDeep{}, ScanHubDeep3{}, ScanHubFirstDeep{}, ScanHubMid{},
	/* 16 */ ScanSoloFlat1{}, ScanSoloFlat2{},
	/* 18 */ ScanSoloFirst{}, ScanSoloSecond{}, ScanSoloDeep{},
	/* 21 */ ScanStatic21{}, ScanStatic21Flat{},
	/* 23 */ ScanStatic23{}, ScanStatic23Flat{}, ScanStatic25{}, ScanStatic25Flat{}, ScanStatic27{},
	/* 28 */ ScanPPTop{}, ScanPPFlat{},
	/* 30 */ ScanPPPtr{}, ScanPPMeth{}, ScanPPFlatProc{},
	/* 33 */ ScanPPValPlain{}, ScanPPVal{},
	/* 35 */ ScanPPInstPlain{}, ScanPPInstPtr{}}

func scanParseTag(tag string) []scanKV {
	// the conventional format only (static types are hand-written); mirrors reflect.StructTag.Lookup's scanner
	var out []scanKV
	for tag != "" {
		i := 0
		for i < len(tag) && tag[i] == ' ' {
			i++
		}
		tag = tag[i:]
		if tag == "" {
			break
		}
		i = 0
		for i < len(tag) && tag[i] > ' ' && tag[i] != ':' && tag[i] != '"' && tag[i] != 0x7f {
			i++
		}
		if i == 0 || i+1 >= len(tag) || tag[i] != ':' || tag[i+1] != '"' {
			out = append(out, scanKV{"!raw", tag})
			break
		}
		name := tag[:i]
		tag = tag[i+1:]
		i = 1
		for i < len(tag) && tag[i] != '"' {
			if tag[i] == '\\' {
				i++
			}
			i++
		}
		if i >= len(tag) {
			out = append(out, scanKV{"!raw", name + ":" + tag})
			break
		}
		v, err := strconv.Unquote(tag[:i+1])
		tag = tag[i+1:]
		if err != nil {
			out = append(out, scanKV{"!raw", name + ":?"})
			break
		}
		out = append(out, scanKV{name, v})
	}
	return out
}

func scanNodesOf(t reflect.Type) []*scanNode {
	var out []*scanNode
	for i := 0; i < t.NumField(); i++ {
		sf := t.Field(i)
		n := &scanNode{name: sf.Name, tags: scanParseTag(string(sf.Tag)), ty: "o"}
		ft := sf.Type
		for code, lt := range scanLeafTypes {
			if lt == ft {
				n.ty = code
			}
		}
		st := ft
		if ft.Kind() == reflect.Ptr {
			st = ft.Elem()
		}
		if n.ty == "o" && st.Kind() == reflect.Struct {
			n.isStruct, n.anon, n.byVal = true, sf.Anonymous, ft.Kind() == reflect.Struct
			switch st {
			case scanGrpT:
				n.ty = "gr"
			case scanMarkT:
				n.ty = "mk"
			}
			for code, mt := range scanMarkFamilyT {
				if mt == st {
					n.ty = code
				}
			}
			if st.PkgPath() == scanProcessorsPkg {
				n.ty = "dp" // processor plumbing: processors.Default…PostProcessor embedded by a holder that is a post-processor
			}
			n.kids = scanNodesOf(st)
		}
		n.marker = scanMarkerOf(ft)
		out = append(out, n)
	}
	return out
}

/* ---------- generation ---------- */

type scanGenSt struct {
	r      *hx.Rng
	ctr    int
	maxDep int
}

func (g *scanGenSt) fresh(prefix string) string {
	g.ctr++
	return prefix + strconv.Itoa(g.ctr)
}

var scanForeign = []string{"json", "yaml", "Wire", "wires", "valu", "Value", "prefix2", "Logger", "mytag2", "my", "fun", "props", "db"}
var scanNeutralArgs = []string{",note=a b", ",k", ",X=(1,2)", ",note=", ",a=1,b=2 3", ",Note=true"}

func (g *scanGenSt) customVal() string {
	r := g.r
	if r.P(1, 2) {
		return g.structTag().text()
	}
	v := []string{"", "v", "some.value", "${s.k1}", "{a,b}", "x y", "#{1+1}", "q\"uote", "back\\slash", "(u,v)w"}[r.Intn(10)]
	n := r.Intn(3)
	for i := 0; i < n; i++ {
		v += []string{",a=b c", ",required=false", ",Flag", ",list=[1,2] 3", ",k=", ",=x", ",z==", ",note=(p q)"}[r.Intn(8)]
	}
	return v
}

// a recognised, satisfiable tag for a field of the given type
func (g *scanGenSt) goodTag(ty string) []scanKV {
	r := g.r
	pick := func(opts ...string) scanKV {
		o := opts[r.Intn(len(opts))]
		i := strings.Index(o, "=")
		kv := scanKV{o[:i], o[i+1:]}
		if kv.k != "wire" && kv.k != "func" && r.P(1, 4) {
			kv.v += scanNeutralArgs[r.Intn(len(scanNeutralArgs))]
		}
		return kv
	}
	switch ty {
	case "s":
		return []scanKV{pick("value=lit", "value=${s.k1}", "value=${s.zz:dflt}", "value=${s.zz},required=false", "value=a${s.k1}b${s.k2}",
			"prop=s.k1", "prop=s.zz:dd", "prop=s.k2,required=false", "prefix=s.k2", "prefix=s.zz,required=false", "logger=x", "wire=,required=false", "func=Ping,required=false")}
	case "i":
		return []scanKV{pick("value=42", "value=${i.k}", "value=#{1+2}", "value=${i.zz:9}", "prop=i.k", "prop=i.j", "prefix=i.j", "prefix=i.zz,required=false")}
	case "b":
		return []scanKV{pick("value=false", "value=${b.k}", "prop=b.k", "prefix=b.k", "value=#{1>2}")}
	case "lg":
		return []scanKV{pick("logger=", "logger=nm", "logger=,embed", "logger=nm,embed")}
	case "pa":
		return []scanKV{pick("wire=", "wire=main/ScanProvA", "func=Ping", "wire=,required=false", "wire=nosuch,required=false")}
	case "pb":
		return []scanKV{pick("wire=", "wire=provB", "wire=,required=true", "func=Nope,required=false")}
	case "if":
		return []scanKV{pick("wire=", "func=Ping", "wire=main/ScanProvA")}
	case "in":
		return []scanKV{pick("wire=,required=false", "func=Nope,required=false", "wire=zz,required=false")}
	case "gr":
		return []scanKV{pick("prefix=grp", "prefix=nokey,required=false", "prefix=grp,note=a")}
	case "mk":
		return []scanKV{pick("prefix=mark", "prefix=grp,required=false")}
	default: // st
		return []scanKV{pick("prefix=nokey,required=false", "logger=x", "wire=,required=false")}
	}
}

func (g *scanGenSt) wildTag() []scanKV {
	r := g.r
	k := scanRecognised[r.Intn(len(scanRecognised))]
	v := []string{"", "x", "${s.k1}", "${nokey}", "s.k1", "42", "Ping", "provB", ",required=false", "a,b=c"}[r.Intn(10)]
	return []scanKV{{k, v}}
}

// tags of a unit; `scanned` = the unit will be reached and is exported (so its tags take effect)
func (g *scanGenSt) unitTags(ty string, scanned bool, mustTag bool) []scanKV {
	r := g.r
	var tags []scanKV
	foreign := func() scanKV {
		return scanKV{scanForeign[r.Intn(len(scanForeign))], []string{"x", "", "a,b", "-", "${s.k1}"}[r.Intn(5)]}
	}
	c := r.Intn(100)
	switch {
	case c < 22 && !mustTag:
		return nil
	case c < 36:
		tags = append(tags, foreign())
		if r.P(1, 3) {
			tags = append(tags, foreign())
		}
	case c < 40 && !mustTag:
		return []scanKV{{"!raw", []string{"junk", "wire", "wire:", "value:x", "a b c", "wire=\"x\""}[r.Intn(6)]}}
	case c < 50:
		tags = append(tags, scanKV{scanCustomTag, g.customVal()})
	default:
		if !scanned || r.P(1, 30) {
			tags = g.wildTag()
			if scanned && tags[0].k == scanCustomTag {
				tags[0].v = g.customVal()
			}
		} else {
			tags = g.goodTag(ty)
		}
		if tags[0].k == "value" && r.P(1, 6) {
			tags = append(tags, scanKV{"prop", "i.k"}) // shadowed by the value tag
		}
		if r.P(1, 10) {
			tags = append(tags, scanKV{tags[0].k, "dup"}) // duplicate key: Lookup takes the first
		}
		if r.P(1, 5) {
			tags = append(tags, scanKV{scanCustomTag, g.customVal()})
		}
		if r.P(1, 4) {
			f := foreign()
			if r.Bool() {
				tags = append([]scanKV{f}, tags...)
			} else {
				tags = append(tags, f)
			}
		}
	}
	if len(tags) > 0 && r.P(1, 25) {
		tags = append(tags, scanKV{"!raw", "trailing junk"})
	}
	return tags
}

var scanLeafCodes = []string{"s", "s", "s", "i", "i", "b", "lg", "pa", "pb", "if", "in"}

// kids of a struct; `live` = this struct is reached by the scanner (all ancestors are descended)
func (g *scanGenSt) kids(depth int, live bool, top bool) []*scanNode {
	r := g.r
	nk := r.Intn(4)
	if top {
		nk = 2 + r.Intn(6)
	}
	var out []*scanNode
	for i := 0; i < nk; i++ {
		out = append(out, g.node(depth, live))
	}
	return out
}

func (g *scanGenSt) node(depth int, live bool) *scanNode {
	r := g.r
	if depth < g.maxDep && r.P(9, 20) {
		c := r.Intn(100)
		switch {
		case c < 62: // embedded, untagged, by value: descended
			return &scanNode{name: g.fresh("E"), ty: "st", isStruct: true, anon: true, byVal: true, kids: g.kids(depth+1, live, false)}
		case c < 70: // embedded but tagged: a field of its own
			n := &scanNode{name: g.fresh("T"), ty: "st", isStruct: true, anon: true, byVal: true, kids: g.kids(depth+1, false, false)}
			if r.P(1, 3) {
				n.ty, n.kids = "gr", scanNodesOf(scanGrpT)
			}
			n.tags = g.unitTags(n.ty, live, true)
			return n
		case c < 78: // embedded pointer
			n := &scanNode{name: g.fresh("P"), ty: "st", isStruct: true, anon: true, byVal: false, kids: g.kids(depth+1, false, false)}
			n.tags = g.unitTags("st", live, false)
			return n
		case c < 86: // named struct
			nm := g.fresh("N")
			if r.P(1, 4) {
				nm = g.fresh("n")
			}
			n := &scanNode{name: nm, ty: "st", isStruct: true, byVal: r.P(3, 4), kids: g.kids(depth+1, false, false)}
			if len(n.kids) == 0 { // keep named structs non-empty (distinct addresses)
				n.kids = []*scanNode{{name: "Z", ty: "i"}}
			}
			n.tags = g.unitTags("st", live && scanExported(nm), false)
			return n
		case c < 92: // ScanGrp: embedded (descended when untagged) or named
			n := &scanNode{name: g.fresh("G"), ty: "gr", isStruct: true, anon: r.Bool(), byVal: true, kids: scanNodesOf(scanGrpT)}
			if !n.anon && r.P(1, 4) {
				n.name = g.fresh("g")
			}
			if !n.anon || r.Bool() {
				n.tags = g.unitTags("gr", live && scanExported(n.name), false)
			}
			if n.descended() { // its fields A and B become top-level names: must stay unique
				n.kids = []*scanNode{{name: g.fresh("A"), ty: "s"}, {name: g.fresh("B"), ty: "i"}}
				n.ty = "st"
			}
			return n
		default: // ConfigurationProperties marker (named only: StructOf cannot embed a type with methods)
			n := &scanNode{name: g.fresh("M"), ty: "mk", marker: scanMarkerOf(scanMarkT), isStruct: true, byVal: true, kids: scanNodesOf(scanMarkT)}
			if r.P(1, 4) {
				n.name = g.fresh("m")
			}
			if r.P(1, 3) {
				n.tags = g.unitTags("mk", live && scanExported(n.name), false)
			}
			return n
		}
	}
	ty := scanLeafCodes[r.Intn(len(scanLeafCodes))]
	nm := g.fresh("F")
	if r.P(1, 5) {
		nm = g.fresh("f")
	}
	n := &scanNode{name: nm, ty: ty}
	n.tags = g.unitTags(ty, live && scanExported(nm), false)
	return n
}

// a random re-nesting of the same units, in the same order
func (g *scanGenSt) renest(units []*scanNode, depth int) []*scanNode {
	r := g.r
	var out []*scanNode
	i := 0
	for i < len(units) {
		if depth < g.maxDep && r.P(2, 5) {
			k := r.Intn(len(units) - i + 1)
			out = append(out, &scanNode{name: g.fresh("R"), ty: "st", isStruct: true, anon: true, byVal: true, kids: g.renest(units[i:i+k], depth+1)})
			i += k
		} else {
			out = append(out, units[i])
			i++
		}
	}
	if depth < g.maxDep && r.P(1, 8) {
		out = append(out, &scanNode{name: g.fresh("R"), ty: "st", isStruct: true, anon: true, byVal: true})
	}
	return out
}

/* ---------- repeated names: Go requires unique field names per struct only ---------- */

// a struct the scanner walks: the component itself (owner nil) or a descended embedded struct
type scanSite struct {
	owner  *scanNode
	kids   *[]*scanNode
	depth  int
	parent *scanSite
}

func scanSites(kids *[]*scanNode, owner *scanNode, depth int, parent *scanSite, out *[]*scanSite) {
	s := &scanSite{owner: owner, kids: kids, depth: depth, parent: parent}
	*out = append(*out, s)
	for _, k := range *kids {
		if k.descended() {
			scanSites(&k.kids, k, depth+1, s, out)
		}
	}
}

func scanHasName(kids []*scanNode, name string) bool {
	for _, k := range kids {
		if k.name == name {
			return true
		}
	}
	return false
}

// zero-size struct fields keep their unique names (hence unique types): the harness tells sibling holders apart by
// type and address, and two zero-size siblings of one type share an address
func scanZeroSize(n *scanNode) bool { return n.isStruct && scanFieldType(n).Size() == 0 }

func scanClone(n *scanNode) *scanNode {
	c := *n
	c.tags = append([]scanKV(nil), n.tags...)
	c.kids = nil
	for _, k := range n.kids {
		c.kids = append(c.kids, scanClone(k))
	}
	return &c
}

func scanCountUnits(n *scanNode) int {
	var us []scanUnit
	scanUnits([]*scanNode{n}, "", nil, &us)
	return len(us)
}

// give a field of one walked struct the NAME of a field of another walked struct (mostly one at the same depth:
// siblings and cousins, an ambiguous selector; otherwise any: shadowing).  Paths stay unique.
func (g *scanGenSt) dupName(root *[]*scanNode) bool {
	r := g.r
	var sites, ne []*scanSite
	scanSites(root, nil, 0, nil, &sites)
	for _, s := range sites {
		if len(*s.kids) > 0 {
			ne = append(ne, s)
		}
	}
	if len(ne) < 2 || r.P(1, 4) {
		return g.splitDup(sites)
	}
	for try := 0; try < 30; try++ {
		a := ne[r.Intn(len(ne))]
		mode := r.Intn(8) // 0-3 siblings, 4-5 same depth, 6-7 any (shadowing)
		var cands []*scanSite
		for _, b := range ne {
			if b == a || (mode < 4 && b.parent != a.parent) || (mode < 6 && b.depth != a.depth) {
				continue
			}
			cands = append(cands, b)
		}
		if len(cands) == 0 {
			continue
		}
		b := cands[r.Intn(len(cands))]
		pick := func(kids []*scanNode) *scanNode {
			if r.P(2, 3) { // prefer the fields a tag processor must be handed
				var good []*scanNode
				for _, k := range kids {
					if _, ok := (scanUnit{n: k}).recognised(); ok && scanExported(k.name) && !k.descended() {
						good = append(good, k)
					}
				}
				if len(good) > 0 {
					return good[r.Intn(len(good))]
				}
			}
			return kids[r.Intn(len(kids))]
		}
		k1, k2 := pick(*a.kids), pick(*b.kids)
		if k1.name == k2.name || scanExported(k1.name) != scanExported(k2.name) || scanZeroSize(k2) || scanHasName(*b.kids, k1.name) {
			continue
		}
		k2.name = k1.name
		return true
	}
	return g.splitDup(sites)
}

// two units of one walked struct become two sibling mix-ins declaring the same name: `.. u1 .. u2 ..` -> `.. E{u1} .. E'{u1'} ..`
// (same units in the same order)
func (g *scanGenSt) splitDup(sites []*scanSite) bool {
	r := g.r
	for try := 0; try < 10; try++ {
		s := sites[r.Intn(len(sites))]
		var idx []int
		for i, k := range *s.kids {
			if !k.descended() && !scanZeroSize(k) {
				idx = append(idx, i)
			}
		}
		if len(idx) < 2 {
			continue
		}
		a := r.Intn(len(idx) - 1)
		i, j := idx[a], idx[a+1+r.Intn(len(idx)-a-1)]
		k1, k2 := (*s.kids)[i], (*s.kids)[j]
		if scanExported(k1.name) != scanExported(k2.name) {
			continue
		}
		k2.name = k1.name
		for _, x := range []int{i, j} {
			(*s.kids)[x] = &scanNode{name: g.fresh("E"), ty: "st", isStruct: true, anon: true, byVal: true, kids: []*scanNode{(*s.kids)[x]}}
		}
		return true
	}
	return false
}

// the same embedded struct TYPE (same field names, same tags) under two different parents:
// wrapped `L{B} R{B}` side by side, or a copy of B implanted into another walked struct
func (g *scanGenSt) diamond(root *[]*scanNode) bool {
	r := g.r
	var sites, cands []*scanSite
	scanSites(root, nil, 0, nil, &sites)
	for _, s := range sites {
		if s.owner != nil && len(*s.kids) > 0 && !scanZeroSize(s.owner) && scanCountUnits(s.owner) <= 10 {
			cands = append(cands, s)
		}
	}
	if len(cands) == 0 {
		return false
	}
	s := cands[r.Intn(len(cands))]
	b, p := s.owner, s.parent
	cp := scanClone(b)
	insert := func(kids *[]*scanNode, at int, n *scanNode) {
		*kids = append(*kids, nil)
		copy((*kids)[at+1:], (*kids)[at:])
		(*kids)[at] = n
	}
	if r.Bool() {
		var targets []*scanSite
		for _, t := range sites {
			inside := false
			for x := t; x != nil; x = x.parent {
				if x == s {
					inside = true
				}
			}
			if t != p && !inside && !scanHasName(*t.kids, b.name) {
				targets = append(targets, t)
			}
		}
		if len(targets) > 0 {
			t := targets[r.Intn(len(targets))]
			insert(t.kids, r.Intn(len(*t.kids)+1), cp)
			return true
		}
	}
	at := 0
	for i, k := range *p.kids {
		if k == b {
			at = i
		}
	}
	wrap := func(n *scanNode) *scanNode {
		w := &scanNode{name: g.fresh("E"), ty: "st", isStruct: true, anon: true, byVal: true, kids: []*scanNode{n}}
		if r.P(1, 3) {
			w.kids = append(w.kids, g.node(g.maxDep, true)) // a leaf of its own
		}
		return w
	}
	(*p.kids)[at] = wrap(b)
	insert(p.kids, at+1+r.Intn(len(*p.kids)-at), wrap(cp))
	return true
}

// repeated names in about a quarter of all shapes (the flattened forms cannot have any)
func (g *scanGenSt) repeatNames(root *[]*scanNode, diamonds bool) {
	r := g.r
	if !r.P(1, 2) {
		return
	}
	c := r.Intn(100)
	if diamonds && c < 55 {
		g.diamond(root)
		if c < 25 {
			return
		}
	}
	for k := 1 + r.Intn(3); k > 0; k-- {
		g.dupName(root)
	}
}

func scanGen(rng *hx.Rng, n int, tier string, w *hx.Writer) {
	renests, maxDep := 1, 5
	if tier == "thorough" {
		renests, maxDep = 2, 8
	}
	for i := 0; i < n; i++ {
		g := &scanGenSt{r: rng.Fork(), maxDep: maxDep}
		if g.r.P(1, 6) {
			g.maxDep = g.r.Intn(maxDep + 1)
		}
		base := g.kids(0, true, true)
		g.repeatNames(&base, true)
		scanBlankPass(base)
		flatKids := scanFlatten(base)
		flat := scanCase("G", flatKids, nil, nil, []string{"flat"}, w)
		scanCase("G", base, nil, flat, []string{"base"}, w)
		for k := 0; k < renests; k++ {
			// the units are shared with the flat form: rename copies only
			re := g.renest(scanCloneAll(flatKids), 0)
			g.repeatNames(&re, false)
			scanCase("G", re, nil, flat, []string{"renest"}, w)
		}
		// a third of the shapes once more (drawn last: the cases above are the same as without it), started together with an
		// extra user processor ahead of the recorder that RETURNS a property list; compared with the flattened run without it
		if g.r.P(1, 3) {
			mode := "G+" + string(scanExtraPos[g.r.Intn(len(scanExtraPos))]) + string(scanExtraRet[1+g.r.Intn(len(scanExtraRet)-1)])
			if g.r.P(1, 12) {
				mode = mode[:3] + "n"
			}
			xk := base
			if g.r.P(1, 3) {
				xk = g.renest(scanCloneAll(flatKids), 0)
			}
			scanCase(mode, xk, nil, flat, []string{"with-extra"}, w)
		}
	}
	// seventh round: the marker family, from fresh forks after all shapes above (which stay the ones drawn before)
	scanGenMarks(rng, (n+9)/10, tier, w)
}

/* ---------- the marker family (seventh round) ---------- */

// markNode: a NAMED field of a Go-declared type with a Prefix() method (reflect.StructOf cannot embed such a type), by
// value or by pointer, exported or not, with no tag / a foreign tag / a prefix tag / the custom tag / junk
func (g *scanGenSt) markNode() *scanNode {
	r := g.r
	n := &scanNode{isStruct: true, byVal: r.P(3, 5)}
	switch c := r.Intn(20); {
	case c < 7:
		n.ty = "pm"
	case c < 10:
		n.ty = "ps"
	case c < 14:
		n.ty = "pn"
		if !n.byVal && !r.P(1, 4) { // a recognised field of this type refuses the start: keep those rare
			n.byVal = true
		}
	default:
		n.ty = "mk"
	}
	n.name = g.fresh("K")
	if r.P(1, 7) {
		n.name = g.fresh("k")
	}
	ft := scanFieldType(n)
	n.marker = scanMarkerOf(ft)
	st := ft
	if !n.byVal {
		st = ft.Elem()
	}
	n.kids = scanNodesOf(st)
	foreign := func() scanKV {
		return scanKV{scanForeign[r.Intn(len(scanForeign))], []string{"x", "", "a,b", "-", "grp", "mark"}[r.Intn(6)]}
	}
	switch c := r.Intn(20); {
	case c < 8:
	case c < 13:
		n.tags = []scanKV{foreign()}
		if r.P(1, 3) {
			n.tags = append(n.tags, foreign())
		}
	case c < 16:
		n.tags = []scanKV{{"prefix", []string{"grp", "mark", "nokey,required=false", "grp,note=a"}[r.Intn(4)]}}
		if r.P(1, 3) {
			n.tags = append([]scanKV{foreign()}, n.tags...)
		}
	case c < 18:
		n.tags = []scanKV{{scanCustomTag, g.customVal()}}
		if r.Bool() {
			n.tags = append(n.tags, foreign())
		}
	case c < 19:
		n.tags = []scanKV{{"!raw", []string{"junk", "prefix", "prefix:", "prefix=\"grp\""}[r.Intn(4)]}}
	default:
		n.tags = []scanKV{foreign(), {"!raw", "trailing junk"}}
	}
	return n
}

// scanGenMarks: m shapes of the marker family, drawn after (and independently of) the shapes of scanGen.  An ordinary
// random shape gets 2-5 marker-family fields at random places the scanner walks (the component itself, embedded structs
// of any depth; one of them is put one level further down in an embedded struct of its own in half of the shapes); the
// flattened form, the nesting and one re-nesting run through all oracles, (vii) included.
func scanGenMarks(rng *hx.Rng, m int, tier string, w *hx.Writer) {
	maxDep := 4
	if tier == "thorough" {
		maxDep = 6
	}
	for i := 0; i < m; i++ {
		g := &scanGenSt{r: rng.Fork(), maxDep: maxDep}
		r := g.r
		if r.P(1, 4) {
			g.maxDep = r.Intn(maxDep + 1)
		}
		base := g.kids(0, true, true)
		for k := 2 + r.Intn(4); k > 0; k-- {
			var sites []*scanSite
			scanSites(&base, nil, 0, nil, &sites)
			site := sites[r.Intn(len(sites))]
			if r.P(1, 3) {
				site = sites[len(sites)-1-r.Intn((len(sites)+1)/2)] // prefer the deeper ones
			}
			n := g.markNode()
			if k == 1 && r.Bool() {
				n = &scanNode{name: g.fresh("E"), ty: "st", isStruct: true, anon: true, byVal: true, kids: []*scanNode{n}}
				if r.Bool() {
					n.kids = append(n.kids, g.node(g.maxDep, true))
				}
			}
			at := r.Intn(len(*site.kids) + 1)
			*site.kids = append(*site.kids, nil)
			copy((*site.kids)[at+1:], (*site.kids)[at:])
			(*site.kids)[at] = n
		}
		scanBlankPass(base)
		flatKids := scanFlatten(base)
		flat := scanCase("G", flatKids, nil, nil, []string{"flat", "mark-family"}, w)
		scanCase("G", base, nil, flat, []string{"base", "mark-family"}, w)
		re := g.renest(scanCloneAll(flatKids), 0)
		scanCase("G", re, nil, flat, []string{"renest", "mark-family"}, w)
	}
}

// scanCorpusMarks: the Go-declared holder types of the marker family and two hand-written StructOf shapes
func scanCorpusMarks(w *hx.Writer) {
	for k := scanStaticsOld; k < scanStaticsMarksEnd; k++ {
		scanStaticCase(k, scanStatics[k], []string{"corpus", "static", "mark-family"}, w)
	}
	// ninth round: holders that are themselves post-processors, their plain twins and flat twins
	for k := scanStaticsMarksEnd; k < len(scanStatics); k++ {
		scanStaticCase(k, scanStatics[k], []string{"corpus", "static", "holder-round"}, w)
	}
	mark := func(name, ty string, byVal bool, tags ...scanKV) *scanNode {
		n := &scanNode{name: name, ty: ty, isStruct: true, byVal: byVal, tags: tags}
		ft := scanFieldType(n)
		n.marker = scanMarkerOf(ft)
		if !byVal {
			ft = ft.Elem()
		}
		n.kids = scanNodesOf(ft)
		return n
	}
	emb := func(name string, kids ...*scanNode) *scanNode {
		return &scanNode{name: name, ty: "st", isStruct: true, anon: true, byVal: true, kids: kids}
	}
	leaf := func(name, ty string, tags ...scanKV) *scanNode { return &scanNode{name: name, ty: ty, tags: tags} }
	// every member of the family directly on the component and 1 / 2 / 3 embedded levels down
	fam := []*scanNode{
		mark("Primary", "pm", false), mark("Fallback", "pm", true),
		emb("Db", mark("Labelled", "pm", true, scanKV{"json", "labelled"}), mark("Bound", "pm", true, scanKV{"prefix", "grp"}), leaf("Note", "s"),
			emb("More", mark("ByVal", "mk", true), mark("PtrV", "mk", false, scanKV{"yaml", "v"}), mark("hidden", "pm", true),
				emb("Deep", mark("Absent", "pn", true), mark("AbsentJ", "pn", true, scanKV{"db", "x"}), mark("Seen", "ps", true, scanKV{scanCustomTag, "cfg,note=(a b)"}),
					mark("Set", "ps", false), leaf("W", "s", scanKV{"value", "${s.k1}"})))),
		mark("hiddenP", "pm", false), leaf("Cnt", "i", scanKV{"prop", "i.k"}),
	}
	ffl := scanCase("G", scanFlatten(fam), nil, nil, []string{"corpus", "flat", "mark-family"}, w)
	scanCase("G", fam, nil, ffl, []string{"corpus", "base", "mark-family"}, w)
	scanCase("G+fb", fam, nil, ffl, []string{"corpus", "with-extra", "mark-family"}, w)
	// a component whose ONLY special field is a by-value field of a pointer-receiver type with an absent prefix
	only := []*scanNode{emb("Opt", mark("Fallback", "pn", true)), leaf("Name", "s", scanKV{"value", "lit"})}
	ofl := scanCase("G", scanFlatten(only), nil, nil, []string{"corpus", "flat", "mark-family"}, w)
	scanCase("G", only, nil, ofl, []string{"corpus", "base", "mark-family"}, w)
}

func scanCloneAll(kids []*scanNode) []*scanNode {
	out := make([]*scanNode, len(kids))
	for i, k := range kids {
		out[i] = scanClone(k)
	}
	return out
}

func scanStaticCase(k int, s any, labels []string, w *hx.Writer) {
	var flat *scanResult
	if tw, ok := scanStaticFlat[k]; ok {
		flat = scanRun(scanNodesOf(reflect.TypeOf(tw)), tw)
	}
	hk := scanHolderKind(s)
	if hk == "" {
		scanCase("X"+strconv.Itoa(k), scanNodesOf(reflect.TypeOf(s)), s, flat, labels, w)
		return
	}
	// a holder that is itself a post-processor: the twins run with the same (ordered) recorder
	if tw, ok := scanStaticFlat[k]; ok {
		flat = scanRunY(scanNodesOf(reflect.TypeOf(tw)), tw, "", true)
	}
	var twin *scanResult
	if tw, ok := scanHolderTwin[k]; ok {
		twin = scanRunY(scanNodesOf(reflect.TypeOf(tw)), tw, "", true)
	}
	labels = append(append([]string{}, labels...), "holder-processor", "holder-processor-"+hk[1:2])
	scanCaseT("X"+strconv.Itoa(k)+hk, scanNodesOf(reflect.TypeOf(s)), s, flat, twin, labels, w)
}

// the static types of the first six rounds run first, the later ones at the end of the corpus
const scanStaticsOld = 23

// … the marker family's end at this index, the processor holders follow
const scanStaticsMarksEnd = 28

func scanCorpus(w *hx.Writer) {
	for k, s := range scanStatics[:scanStaticsOld] {
		scanStaticCase(k, s, []string{"corpus", "static"}, w)
	}
	defer scanCorpusMarks(w)
	// hand-written StructOf shapes
	leaf := func(name, ty string, tags ...scanKV) *scanNode { return &scanNode{name: name, ty: ty, tags: tags} }
	emb := func(name string, kids ...*scanNode) *scanNode {
		return &scanNode{name: name, ty: "st", isStruct: true, anon: true, byVal: true, kids: kids}
	}
	all := []*scanNode{
		leaf("W", "pa", scanKV{"wire", ""}), leaf("Fn", "if", scanKV{"func", "Ping"}), leaf("V", "s", scanKV{"value", "${s.k1}"}),
		leaf("Pr", "i", scanKV{"prop", "i.k"}), leaf("Px", "s", scanKV{"prefix", "s.k2"}), leaf("Lg", "lg", scanKV{"logger", ""}),
		leaf("My", "s", scanKV{scanCustomTag, "v,a=b c"}), leaf("u", "pa", scanKV{"wire", ""}), leaf("Plain", "i"),
		leaf("Fo", "s", scanKV{"json", "x"}),
	}
	deep := []*scanNode{emb("E1", all[0], emb("E2", all[1], all[2], emb("E3", all[3], all[4], all[5], all[6], all[7]), all[8]), all[9]), emb("E4")}
	flat := scanCase("G", scanFlatten(deep), nil, nil, []string{"corpus", "flat"}, w)
	scanCase("G", deep, nil, flat, []string{"corpus", "base"}, w)
	scanCase("G", nil, nil, nil, []string{"corpus"}, w)
	// structured custom tags (arguments whose values contain blanks inside brackets, several items) directly on the
	// component and through 1 / 2 / 4 embedded levels
	job := func(name, v string) *scanNode { return leaf(name, "s", scanKV{scanCustomTag, v}) }
	sched := []*scanNode{
		job("Purge", "purge,cron=(0 */5 * * *),zone=UTC"),
		emb("Jobs", job("Rotate", "rotate,on=[mon tue] [sat sun]"),
			emb("Reports", job("Digest", "digest,cron=(30 2 * * 1-5),flag"),
				emb("L3", emb("L4", job("Deep", ",list={a.b, x_y} 30 (v8 turbo) Z,opt=[([0 1] *)],Window=(1-5)"))))),
		job("hidden", "h,cron=(0 0 * * *)"),
		leaf("Eng", "pa", scanKV{"wire", ""}, scanKV{scanCustomTag, "eng,note=(v8 turbo) x"}),
	}
	sfl := scanCase("G", scanFlatten(sched), nil, nil, []string{"corpus", "flat"}, w)
	scanCase("G", sched, nil, sfl, []string{"corpus", "base"}, w)
	// the same two shapes next to an extra user processor ahead of the recorder whose PostProcessProperties returns a
	// partial / empty / reordered list: nothing changes for the recorder and for the built-in processors
	for _, x := range []string{"fb", "lb", "fe", "le", "fm", "lp", "fr", "ls", "fn"} {
		scanCase("G+"+x, sched, nil, sfl, []string{"corpus", "with-extra"}, w)
		scanCase("G+"+x, deep, nil, flat, []string{"corpus", "with-extra"}, w)
	}
	// white space at the edges of tag values: the same units directly on the component and 1 / 2 / 4 embedded levels down
	lit := func(name, v string) *scanNode { return leaf(name, "s", scanKV{"value", v}) }
	seps := []*scanNode{
		job("Gap", " "), lit("Ind", "  "),
		emb("Fmt", job("Bar", " | ,style=wide"), lit("Arrow", "-> "),
			emb("Inner", job("Dash", " - ,cron=(0 */5 * * *)"), lit("Lead", " lit"),
				emb("L3", emb("L4", job("Tab", "\tv\t"), job("Trail", "purge ,zone=UTC"), lit("Pad", " ${s.k1} "))))),
		job("hiddenGap", " "), leaf("Cnt", "i", scanKV{scanCustomTag, "  ,k=1 2"}),
	}
	bfl := scanCase("G", scanFlatten(seps), nil, nil, []string{"corpus", "flat"}, w)
	scanCase("G", seps, nil, bfl, []string{"corpus", "base"}, w)
	scanCase("G+fb", seps, nil, bfl, []string{"corpus", "with-extra"}, w)
	// repeated names: sibling mix-ins with an equally named field; a diamond; a shadowed name
	dep := func() *scanNode { return leaf("Dep", "pa", scanKV{"wire", ""}) }
	base := func() *scanNode {
		return emb("Base", leaf("D", "pb", scanKV{"wire", ""}), leaf("Mk", "s", scanKV{scanCustomTag, "m,opt=1"}), leaf("V", "i", scanKV{"value", "42"}))
	}
	for _, sh := range [][]*scanNode{
		{emb("Reader", dep(), leaf("Src", "s", scanKV{"value", "lit"})), emb("Writer", dep(), leaf("Dst", "s", scanKV{"prop", "s.k1"}))},
		{emb("Left", base()), emb("Right", base(), leaf("Q", "i"))},
		{emb("Left", base()), leaf("V", "b", scanKV{"value", "false"}), emb("Mid", emb("Right", base()), leaf("Mk", "s", scanKV{scanCustomTag, "n"}))},
	} {
		fl := scanCase("G", scanFlatten(sh), nil, nil, []string{"corpus", "flat"}, w)
		scanCase("G", sh, nil, fl, []string{"corpus", "base"}, w)
	}
}

func scanReplay(scn string, w *hx.Writer) {
	f := strings.Fields(scn)
	if len(f) < 2 {
		return
	}
	d := &scanDec{t: f[1:]}
	kids := d.kids()
	if d.bad || d.pos != len(d.t) {
		return
	}
	if strings.HasPrefix(f[0], "X") {
		num := f[0][1:]
		if i := strings.IndexByte(num, '@'); i >= 0 {
			num = num[:i] // X<k>@<cls><order>: the suffix is derived from the type
		}
		k, err := strconv.Atoi(num)
		if err != nil || k < 0 || k >= len(scanStatics) || f[0] != "X"+num+scanHolderKind(scanStatics[k]) {
			return
		}
		scanStaticCase(k, scanStatics[k], []string{"replay"}, w)
		return
	}
	mode := "G"
	if strings.HasPrefix(f[0], "G+") {
		if !scanExtraOK(f[0][2:]) || len(f[0]) != 4 {
			return
		}
		mode = f[0]
	}
	flat := scanRun(scanFlatten(kids), nil)
	scanCase(mode, kids, nil, flat, []string{"replay"}, w)
}

// SCAN_DEBUG=1: print why a Run failed (generator tuning only)
func scanDebug(r *scanResult) {
	if os.Getenv("SCAN_DEBUG") != "" && r.outcome != "ok" {
		d := r.detail
		if i := strings.Index(d, "\n"); i > 0 {
			d = d[:i]
		}
		fmt.Fprintln(os.Stderr, r.outcome, d)
	}
}
