package main

// sub-harness `gperm` (C10): every base scenario is started under k imposed enumeration orders
// (registration order / GetSingletonNames and GetMetas, through the verif hook) and r starts with
// Go's own sync.Map order; the runs of one scenario are compared with each other:
//   - success is the same in every run;
//   - every slice point receives the same set, every single-valued point that is not genuinely tied the same component.
// Imposed runs are also compared with the Lean model line by line; natural-order runs are oracle-only (`#`).

import (
	"fmt"
	"sort"
	"strconv"
	"strings"

	"verifharness/internal/hx"
)

func init() {
	register(&Sub{Name: "gperm", Gen: gpermGen, Replay: gpermReplay, Corpus: gpermCorpus})
}

func runPermGroup(sc *gScen, k, natural int, tags []string, w *hx.Writer) {
	var runs []*gRun
	base := sc.rankSeed
	for j := 0; j < k+natural; j++ {
		c := *sc
		c.rankSeed = base*31 + uint64(j)*7919 + 1
		c.natural = j >= k
		runs = append(runs, runGraph(&c))
	}
	if len(runs) == 0 || runs[0].status == "dupname" {
		return
	}
	ties := map[string][]int{}
	for _, r := range runs {
		if r.status != "hang" {
			for k2, v := range tiedSlots(r) {
				ties[k2] = v
			}
		}
	}
	var fails []string
	add := func(sig, f string, a ...any) { fails = append(fails, "FAIL "+sig+" "+fmt.Sprintf(f, a...)) }
	okCount := 0
	for _, r := range runs {
		if r.status == "ok" {
			okCount++
		}
		if r.status == "panic" || r.status == "hang" {
			add("c10-crash", "a start ended with %s", r.status)
		}
	}
	hasAfterSub := false
	for _, n := range sc.nodes {
		if n.after > 0 {
			hasAfterSub = true
		}
	}
	// … or the early-reference callback of a post-processor fails for one member of a cycle: whether that member is ever
	// asked for its early reference depends on where the cycle is entered (every failing start failed exactly there)
	earlyFaultOnly := false
	for _, n := range sc.nodes {
		if n.flt&fltEarly != 0 {
			earlyFaultOnly = true
		}
	}
	for _, r := range runs {
		if r.status != "ok" && !strings.Contains(r.errText, "injected fault: GetEarlyBeanReference") {
			earlyFaultOnly = false
		}
	}
	if okCount != 0 && okCount != len(runs) && len(ties) == 0 {
		if byNameClosed(sc) {
			// every point names its one candidate and nothing collects components by type: no enumeration order enters any
			// choice, the components are created in the order of their names — the outcome is a function of the component set
			var sts []string
			for _, r := range runs {
				sts = append(sts, r.status)
			}
			add("c10-outcome", "success depends on the registration / enumeration order although every injection point of the population is BY NAME (one candidate each) and no component is collected by type: %v", sts)
		} else if earlyFaultOnly && !hasAfterSub {
			add("c10-d6-early-callback-on-cycle", "start-up succeeds under %d of %d enumeration orders: the early-reference callback fails for a component on a cycle, and whether that component is asked for its early reference depends on where the cycle is entered", okCount, len(runs))
		} else if hasAfterSub {
			add("c10-d6-init-substitute-on-cycle", "start-up succeeds under %d of %d enumeration orders: a component on a cycle is substituted at initialisation and the stale-version check depends on where the cycle is entered", okCount, len(runs))
		} else {
			var sts []string
			for _, r := range runs {
				sts = append(sts, r.status)
			}
			add("c10-outcome", "success depends on the enumeration order: %v", sts)
		}
	}
	var ref *gRun
	for _, r := range runs {
		if r.status != "ok" {
			continue
		}
		if ref == nil {
			ref = r
			continue
		}
		for key, objs := range r.fields {
			if _, tied := ties[key]; tied {
				continue
			}
			// "which COMPONENT a point receives": compare component identity, not the version (whether a holder sees an
			// early proxy or the raw instance can depend on where a cycle is entered; version consistency is C03's subject)
			strip := func(xs []string) []string {
				var out []string
				for _, x := range xs {
					if i := strings.Index(x, "#"); i >= 0 {
						x = x[:i]
					}
					out = append(out, x)
				}
				return out
			}
			a := strip(objs)
			b := strip(ref.fields[key])
			info := r.slotInfo[key]
			if info[0] == "P" || info[0] == "I" {
				sort.Strings(a)
				sort.Strings(b)
			}
			if strings.Join(a, "+") != strings.Join(b, "+") && len(ties) == 0 {
				add("c10-wiring", "point %s received %v under one order and %v under another", key, objs, ref.fields[key])
			}
		}
	}
	for key, cands := range ties {
		for _, r := range runs {
			if r.status != "ok" {
				continue
			}
			for _, o := range r.fields[key] {
				row, _ := strconv.Atoi(o[:strings.Index(o, "#")])
				in := false
				for _, c := range cands {
					if c == row {
						in = true
					}
				}
				if !in {
					add("c10-outside-tie", "tied point %s received %s, not one of the tied candidates %v", key, o, cands)
				}
			}
		}
	}
	// what a configuration slot receives does not depend on the start either: it is the configured value, every time
	for _, r := range runs {
		for _, k2 := range r.cfgBad {
			add("c10-config-value", "%s", k2)
		}
	}
	verdict := joinFails(fails)
	for j, r := range runs {
		if r.status == "hang" {
			w.Put(hx.Case{Scn: "#hang", Obs: "st=hang", Oracle: "FAIL c02-hang Run did not return", Tags: tags})
			continue
		}
		c := hx.Case{Scn: r.scenarioLine(), Obs: r.observation(), Tags: append(append([]string{}, tags...), r.labels()...)}
		if len(ties) > 0 {
			c.Tags = append(c.Tags, "tied")
		}
		if r.sc.natural {
			c.Scn = "#natural " + c.Scn
			c.Tags = append(c.Tags, "natural-order")
		}
		if j == len(runs)-1 {
			c.Oracle = verdict
		}
		w.Put(c)
	}
}

// byNameClosed: a population in which no enumeration order can enter any decision — every injection point is a by-name wire
// through an `any` slot (at most one candidate), there are no runners, closers, zero-size components or post-processors
// (nothing is collected by type by the application, nothing is created in the boot phase in enumeration order), no faults
// and no configuration slots. Substitution is allowed: with the creation order fixed by the names, where a cycle is entered
// is fixed too.
func byNameClosed(sc *gScen) bool {
	if sc.loaderFail || sc.scanFail || sc.zs != 0 || sc.hist != 0 || len(sc.prefill) != 0 || len(sc.nodes) == 0 {
		return false
	}
	for _, n := range sc.nodes {
		u := utInfos[n.ty]
		if u.pp || u.runner || u.closer || hasStaticSlots(n.ty) || n.flt != 0 || n.cfg != 0 || n.fetch != "" || n.progQ != "" || n.extra || n.runAfter != 0 ||
			n.early >= foreignVer || n.after >= foreignVer {
			return false
		}
		for slot, tag := range n.slots {
			if slot != "A0" && slot != "A1" && slot != "A2" || tag[0] != 'w' {
				return false
			}
			target := strings.TrimSuffix(tag[1:], ",required=false")
			if target == "" || strings.Contains(target, ",") {
				return false
			}
		}
	}
	return true
}

// a cycle whose edges are all BY NAME, one member substituted after initialization (sometimes early as well): whether the
// start is refused depends on which member is created first — on the NAMES, and on nothing else
func genNamedCycle(r *hx.Rng) *gScen {
	g := newBuilder(r)
	plain := func(u utInfo) bool { return !u.pp && !u.runner && !u.closer && !u.lazy }
	k := 2 + r.Intn(2)
	var cyc []int
	for i := 0; i < k; i++ {
		cyc = append(cyc, g.addNode(g.randType(plain), false))
	}
	for i := 0; i < k; i++ {
		g.edgeByName(cyc[i], cyc[(i+1)%k], false)
	}
	m := cyc[r.Intn(k)]
	switch r.Intn(3) {
	case 0, 1:
		g.sc.nodes[m].after = 2
	default:
		g.sc.nodes[m].early, g.sc.nodes[m].after = 1, 2
	}
	if r.P(1, 2) { // a bystander that holds a member
		b := g.addNode(g.randType(plain), false)
		g.edgeByName(b, cyc[r.Intn(k)], false)
	}
	return g.sc
}

// a holder that is created first (its name sorts first) with by-name points to BOTH members of a by-name cycle, one member
// substituted at initialisation: which member is created first — the order of the holder's own points — decides whether the
// start succeeds; on the library that order is the declaration order, whatever any map enumerates (seed C10L)
func genGatewayCycle(r *hx.Rng) *gScen {
	g := newBuilder(r)
	plain := func(u utInfo) bool { return !u.pp && !u.runner && !u.closer && !u.lazy }
	gw := g.addNode(g.randType(plain), false)
	g.sc.nodes[gw].cust = "a-gateway"
	x := g.addNode(g.randType(plain), false)
	y := g.addNode(g.randType(plain), false)
	g.sc.nodes[x].cust, g.sc.nodes[y].cust = "xm", "yn"
	if r.P(1, 2) {
		g.sc.nodes[x].cust, g.sc.nodes[y].cust = "yn", "xm"
	}
	g.edgeByName(x, y, false)
	g.edgeByName(y, x, false)
	if r.P(1, 2) {
		g.edgeByName(gw, x, false)
		g.edgeByName(gw, y, false)
	} else {
		g.edgeByName(gw, y, false)
		g.edgeByName(gw, x, false)
	}
	g.sc.nodes[[]int{x, y}[r.Intn(2)]].after = 2
	return g.sc
}

func gpermCorpus(w *hx.Writer) {
	// the representative of known finding D6: cycle 1↔2 entered through a slice of holder 0, node 1 substituted at initialisation
	sc := &gScen{rankSeed: 11}
	sc.nodes = []gNode{
		{ty: 13, cust: "a-holder", slots: map[string]string{"S0": "w"}},
		{ty: 0, cust: "xa", after: 2, slots: map[string]string{"A0": "wxb"}},
		{ty: 1, cust: "xb", slots: map[string]string{"A0": "wxa"}},
	}
	runPermGroup(sc, 6, 0, []string{"corpus", "d6"}, w)
	// the representative of known finding KF-C10-2: the same cycle, nothing substituted, the early-reference callback fails for xa
	sc2 := &gScen{rankSeed: 11}
	sc2.nodes = []gNode{
		{ty: 13, cust: "a-holder", slots: map[string]string{"S0": "w"}},
		{ty: 0, cust: "xa", flt: fltEarly, slots: map[string]string{"A0": "wxb"}},
		{ty: 1, cust: "xb", slots: map[string]string{"A0": "wxa"}},
	}
	runPermGroup(sc2, 6, 0, []string{"corpus", "d6early"}, w)
}

func gpermGen(rng *hx.Rng, n int, tier string, w *hx.Writer) {
	k, nat := 4, 2
	if tier == "thorough" {
		k, nat = 10, 4
	}
	for i := 0; i < n; i++ {
		r := rng.Fork()
		var sc *gScen
		var tag string
		switch c := r.Intn(10); {
		case c < 2:
			sc, tag = genRandom(r, 6), "random"
		case c < 4:
			sc, tag = genCycle(r, 1+r.Intn(4), r.Intn(3)), "cycle"
		case c < 5:
			sc, tag = genSelf(r), "self"
		case c < 8: // narrowing (Primary / unnamed / qualifier preferences) is where the enumeration order could leak into a pick
			sc, tag = genMatch(r), "match"
		case c < 9:
			sc, tag = genSliceCycle(r), "slicecycle"
		default:
			sc, tag = genDiamond(r), "diamond"
		}
		if active() {
			runPermGroup(sc, k, nat, []string{tag}, w)
		}
	}
	// seventh round (drawn after everything else): configuration slots with decoy keys and nested placeholders, qualified
	// func points, the same-named local types
	r7 := rng.Fork()
	for i := 0; i < n/25+2; i++ {
		if active() {
			cs := genConfigSlots(r7.Fork())
			cs.nodes[0].cfg = []int{11, 9, 11, 8}[i%4] // the decoy section in every other group
			runPermGroup(cs, k, nat, []string{"configslots"}, w)
			runPermGroup(genFuncQualified(r7.Fork()), k, nat, []string{"funcq"}, w)
			runPermGroup(genTwinIfaces(r7.Fork()), k, nat, []string{"twinifaces"}, w)
			runPermGroup(genProgQualified(r7.Fork()), k, nat, []string{"progq"}, w)
			runPermGroup(genOddProcessors(r7.Fork()), k, nat, []string{"oddpp"}, w)
		}
	}
	// ninth round (drawn after everything else): runners that build on each other by the ordering contract, by-name cycles
	// with a member substituted at initialisation
	r9 := rng.Fork()
	for i := 0; i < n/25+2; i++ {
		if active() {
			runPermGroup(genRunnerChain(r9.Fork()), k, nat, []string{"runnerchain"}, w)
			runPermGroup(genNamedCycle(r9.Fork()), k, nat, []string{"namedcycle"}, w)
		}
	}
	// (drawn after everything else) the same runner chains with Orders further apart than MaxInt: MinInt next to negative
	// Orders, MaxInt next to positive ones — a comparator that subtracts overflows there and no longer orders them
	r9g := rng.Fork()
	defer func() {
		// (drawn after everything else) a first-created holder of both members of a substituted by-name cycle, more natural starts
		for i := 0; i < n/60+3; i++ {
			if active() {
				runPermGroup(genGatewayCycle(r9g.Fork()), k, nat+8, []string{"gatewaycycle"}, w)
			}
		}
	}()
	r9x := rng.Fork()
	for i := 0; i < n/50+2; i++ {
		if active() {
			runPermGroup(genRunnerChainExtreme(r9x.Fork()), k, nat, []string{"runnerchain", "extreme-orders"}, w)
		}
	}
}

func gpermReplay(scn string, w *hx.Writer) {
	scn = strings.TrimPrefix(scn, "#natural ")
	sc, err := parseGraphScenario(scn)
	if err != nil {
		return
	}
	runPermGroup(sc, 6, 2, []string{"replay"}, w)
}
