package main

// sub-harness `registry` (C04): the three-level singleton cache.
//
// (i)  random operation trees executed directly on support.DefaultSingletonComponentRegistry():
//
//	L <n> <0|1> <e>         GetSingleton(n, allowEarly); <e> = what the early-reference factory returns if this call runs it
//	G <n> <e> [ … ] <res>   doGetComponent's protocol: GetSingleton(n,true); if nil → GetSingletonOrCreateByFactory(n, f)
//	                        where f registers the early-reference factory iff IsSingletonCurrentlyInCreation(n), runs the
//	                        body operations, and returns <res>
//	<e>,<res> ::= x (error) | o<name>#<ver> (one *component_definition.Meta per label)
//
// (ii) `F <variant> fail=… calls=… | <trees>`: histories on the REAL factory through the public API (lazy components whose
//
//	Init fails a given number of times; GetComponentByName repeatedly). The factory is built with
//	factory.NewWithRegistries around a tracer that wraps the real registry; the trees after the bar are the registry
//	history the real factory issued (recorded), so the model replays exactly what the factory did.
//
// observation: the trace `[<n>` (creation body entered) / `<n>=<obj|nil|err><+|-><!>` (call returned; + = in creation
// afterwards; ! = the early-reference factory ran), compared call by call with the Lean model.
//
// Oracles (evaluated on the real code's own observations, independent of the model):
//
//	stale-after-failure   an object is returned for n while no creation of n is running and none has completed
//	early-not-unique      two different objects returned for n during one creation of n
//	early-lost            a lookup of n returns nil during a creation of n although an early reference of n was handed out before
//	early-factory-twice   the early-reference factory produced an object twice, or ran again after it had produced one
//	published-changed     after a creation of n completed: another object / nil / an error for n, or n reported in creation
//	recreated             the body of a creation of n is entered although n is published, or while n is being created
//	in-creation-flag      n not reported in creation during its creation, or reported after the creation returned
//	factory-half-built    (ii) GetComponentByName(n) succeeds although Init of n never succeeded
//	factory-recreated     (ii) Init of n runs again after n was returned successfully
//	factory-identity      (ii) two successful calls for n return different instances
//	factory-left-in-cache (ii) a probe `~n` at rest (no creation running) finds an object / an error / an in-creation mark for a
//	                      name n that never completed a creation: a failed creation left something in a cache level
//
// (ii) optional header token `ask=<comp>:<target>:<mode>:<times>,…`: Init of <comp> asks the factory
// (App.GetComponentByName, re-entrant) for <target> during its first <times> runs; <target> is a component of the variant or
// a name WITHOUT definition (m0, m1); when the lookup fails Init returns the error raw (mode r), wrapped with %w (w), as a
// fresh error without cause chain (n), or ignores it (s). `calls=` may name m0/m1 (top-level lookup of an unknown name) and
// `~<n>` = probe of the registry at rest: GetSingleton(n,false), GetSingleton(n,true) through the tracer (recorded, replayed
// by the model like every other call).

import (
	"errors"
	"fmt"
	"sort"
	"strconv"
	"strings"
	"sync"

	"github.com/go-kid/ioc/app"
	"github.com/go-kid/ioc/component_definition"
	"github.com/go-kid/ioc/container"
	"github.com/go-kid/ioc/container/factory"
	"github.com/go-kid/ioc/container/support"
	"github.com/go-kid/ioc/definition"
	"github.com/go-kid/ioc/syslog"

	"verifharness/internal/hx"
)

func init() {
	register(&Sub{Name: "registry", Gen: regGen, Replay: regReplay, Corpus: regCorpus})
}

// ---------------------------------------------------------------- operation trees

type robj struct {
	ok        bool
	name, ver int
}

func (o robj) tok() string {
	if !o.ok {
		return "x"
	}
	return "o" + strconv.Itoa(o.name) + "#" + strconv.Itoa(o.ver)
}

type rAct struct {
	create bool // G, otherwise L
	n      int
	allow  bool
	early  robj
	body   []*rAct
	res    robj
}

func writeActs(as []*rAct, out *[]string) {
	for _, a := range as {
		if a.create {
			*out = append(*out, "G", strconv.Itoa(a.n), a.early.tok(), "[")
			writeActs(a.body, out)
			*out = append(*out, "]", a.res.tok())
		} else {
			b := "0"
			if a.allow {
				b = "1"
			}
			*out = append(*out, "L", strconv.Itoa(a.n), b, a.early.tok())
		}
	}
}

func parseObjTok(t string) (robj, bool) {
	if t == "x" {
		return robj{}, true
	}
	if !strings.HasPrefix(t, "o") {
		return robj{}, false
	}
	p := strings.Split(t[1:], "#")
	if len(p) != 2 {
		return robj{}, false
	}
	a, e1 := strconv.Atoi(p[0])
	b, e2 := strconv.Atoi(p[1])
	if e1 != nil || e2 != nil || a < 0 || b < 0 {
		return robj{}, false
	}
	return robj{ok: true, name: a, ver: b}, true
}

// parseActs reads operations until "]" (left in place) or the end.
func parseActs(toks []string, pos int) ([]*rAct, int, bool) {
	var out []*rAct
	for pos < len(toks) && toks[pos] != "]" {
		switch toks[pos] {
		case "L":
			if pos+3 >= len(toks) {
				return nil, pos, false
			}
			n, err := strconv.Atoi(toks[pos+1])
			e, ok := parseObjTok(toks[pos+3])
			if err != nil || !ok || (toks[pos+2] != "0" && toks[pos+2] != "1") {
				return nil, pos, false
			}
			out = append(out, &rAct{n: n, allow: toks[pos+2] == "1", early: e})
			pos += 4
		case "G":
			if pos+3 >= len(toks) || toks[pos+3] != "[" {
				return nil, pos, false
			}
			n, err := strconv.Atoi(toks[pos+1])
			e, ok := parseObjTok(toks[pos+2])
			if err != nil || !ok {
				return nil, pos, false
			}
			body, p2, ok := parseActs(toks, pos+4)
			if !ok || p2+1 >= len(toks) || toks[p2] != "]" {
				return nil, pos, false
			}
			res, ok := parseObjTok(toks[p2+1])
			if !ok {
				return nil, pos, false
			}
			out = append(out, &rAct{create: true, n: n, early: e, body: body, res: res})
			pos = p2 + 2
		default:
			return nil, pos, false
		}
	}
	return out, pos, true
}

// ---------------------------------------------------------------- objects

type regDummy struct {
	Label string
}

var (
	regMetaMu  sync.Mutex
	regMetas   = map[[2]int]*component_definition.Meta{}
	regLabels  = map[*component_definition.Meta]string{}
	errRegBody = errors.New("creation failed")
	errRegEar  = errors.New("early reference factory failed")
)

func regMeta(o robj) *component_definition.Meta {
	regMetaMu.Lock()
	defer regMetaMu.Unlock()
	k := [2]int{o.name, o.ver}
	if m, ok := regMetas[k]; ok {
		return m
	}
	m := component_definition.NewMeta(&regDummy{Label: o.tok()})
	regMetas[k] = m
	regLabels[m] = o.tok()
	return m
}

func regLabel(m *component_definition.Meta) string {
	regMetaMu.Lock()
	defer regMetaMu.Unlock()
	if l, ok := regLabels[m]; ok {
		return l
	}
	return "o?#?"
}

func evString(n int, obj string, err error, inCr, ran bool) string {
	s := strconv.Itoa(n) + "="
	switch {
	case err != nil:
		s += "err"
	case obj == "":
		s += "nil"
	default:
		s += obj
	}
	if inCr {
		s += "+"
	} else {
		s += "-"
	}
	if ran {
		s += "!"
	}
	return s
}

// ---------------------------------------------------------------- the oracle (on observations only)

// regOracle follows the calls as they happen on the real registry. Objects are compared by label
// (one label = one pointer).
type regOracle struct {
	active    map[int]int       // creations of n running (body entered, not yet returned)
	published map[int]string    // result of a completed creation of n
	early     map[int]string    // the object handed out for n during its running creation
	earlyOK   map[int]int       // successful runs of n's early factory during its running creation
	fails     map[string]string // signature → first detail
}

// the most telling signature is reported when one history trips several
var regSigOrder = []string{"stale-after-failure", "published-changed", "early-not-unique", "early-lost", "early-factory-twice", "recreated", "in-creation-flag"}

func (o *regOracle) verdict() string {
	for _, sig := range regSigOrder {
		if d, ok := o.fails[sig]; ok {
			return "FAIL " + sig + " " + d
		}
	}
	return ""
}

func newRegOracle() *regOracle {
	return &regOracle{active: map[int]int{}, published: map[int]string{}, early: map[int]string{}, earlyOK: map[int]int{}, fails: map[string]string{}}
}

func (o *regOracle) flag(sig, detail string) {
	if _, ok := o.fails[sig]; !ok {
		o.fails[sig] = detail
	}
}

func (o *regOracle) begin(n int) {
	if o.published[n] != "" {
		o.flag("recreated", fmt.Sprintf("creation body of %d entered although %s is published", n, o.published[n]))
	}
	if o.active[n] > 0 {
		o.flag("recreated", fmt.Sprintf("creation body of %d entered while %d is being created", n, n))
	}
	o.active[n]++
	o.early[n] = ""
	o.earlyOK[n] = 0
}

// earlyRan: the early factory of n was invoked; obj = "" when it failed
func (o *regOracle) earlyRan(n int, obj string) {
	if o.earlyOK[n] > 0 {
		o.flag("early-factory-twice", fmt.Sprintf("early factory of %d ran again after it had produced an object", n))
	}
	if obj != "" {
		o.earlyOK[n]++
	}
	if o.published[n] != "" {
		o.flag("published-changed", fmt.Sprintf("early factory of %d ran although %s is published", n, o.published[n]))
	}
}

// call: a lookup / doGetComponent on n returned (not the return of a creation that ran)
func (o *regOracle) call(n int, obj string, err error, inCr bool) {
	if p := o.published[n]; p != "" {
		if err != nil || obj != p || inCr {
			o.flag("published-changed", fmt.Sprintf("%d is published as %s but a call returned %s", n, p, evString(n, obj, err, inCr, false)))
		}
		return
	}
	if o.active[n] > 0 {
		if !inCr {
			o.flag("in-creation-flag", fmt.Sprintf("%d is being created but is not reported in creation", n))
		}
		if obj != "" && err == nil {
			if o.early[n] == "" {
				o.early[n] = obj
			} else if o.early[n] != obj {
				o.flag("early-not-unique", fmt.Sprintf("during one creation of %d both %s and %s were returned", n, o.early[n], obj))
			}
		} else if obj == "" && err == nil && o.early[n] != "" {
			// all lookups during one creation observe the same early reference: once it exists, "nothing" is another answer
			o.flag("early-lost", fmt.Sprintf("during one creation of %d the early reference %s was returned, a later lookup returned nil", n, o.early[n]))
		}
		return
	}
	if obj != "" && err == nil {
		o.flag("stale-after-failure", fmt.Sprintf("%s returned for %d although no creation of %d is running or has completed", obj, n, n))
	}
	if inCr {
		o.flag("in-creation-flag", fmt.Sprintf("%d reported in creation although no creation of it is running", n))
	}
}

// end: the creation of n returned
func (o *regOracle) end(n int, want robj, obj string, err error, inCr bool) {
	o.active[n]--
	o.early[n] = ""
	o.earlyOK[n] = 0
	if inCr && o.active[n] == 0 {
		o.flag("in-creation-flag", fmt.Sprintf("%d still reported in creation after its creation returned", n))
	}
	if want.ok {
		if err != nil || obj != want.tok() {
			o.flag("published-changed", fmt.Sprintf("creation of %d produced %s but returned %s", n, want.tok(), evString(n, obj, err, inCr, false)))
		}
		if o.published[n] == "" {
			o.published[n] = want.tok()
		}
	} else if err == nil {
		o.flag("stale-after-failure", fmt.Sprintf("creation of %d failed but the call returned %s", n, evString(n, obj, err, inCr, false)))
	}
}

// ---------------------------------------------------------------- (i) running a tree on the real registry

type regRun struct {
	reg      container.SingletonComponentRegistry
	evs      []string
	curEarly robj
	ran      bool
	orc      *regOracle
	circular bool
	failures int
	creates  int
}

func regName(n int) string { return "c" + strconv.Itoa(n) }

func (rr *regRun) label(m *component_definition.Meta) string {
	if m == nil {
		return ""
	}
	return regLabel(m)
}

func (rr *regRun) earlyFactory(n int) container.SingletonFactory {
	return container.FuncSingletonFactory(func() (*component_definition.Meta, error) {
		rr.ran = true
		if !rr.curEarly.ok {
			rr.orc.earlyRan(n, "")
			return nil, errRegEar
		}
		rr.orc.earlyRan(n, rr.curEarly.tok())
		return regMeta(rr.curEarly), nil
	})
}

func (rr *regRun) lookup(n int, allow bool, early robj) (*component_definition.Meta, error) {
	rr.curEarly = early
	rr.ran = false
	m, err := rr.reg.GetSingleton(regName(n), allow)
	inCr := rr.reg.IsSingletonCurrentlyInCreation(regName(n))
	rr.evs = append(rr.evs, evString(n, rr.label(m), err, inCr, rr.ran))
	return m, err
}

func (rr *regRun) exec(a *rAct) {
	if !a.create {
		m, err := rr.lookup(a.n, a.allow, a.early)
		inCr := rr.reg.IsSingletonCurrentlyInCreation(regName(a.n))
		rr.orc.call(a.n, rr.label(m), err, inCr)
		return
	}
	// doGetComponent, factory.go:140-162
	rr.curEarly = a.early
	rr.ran = false
	m, err := rr.reg.GetSingleton(regName(a.n), true)
	inCr0 := rr.reg.IsSingletonCurrentlyInCreation(regName(a.n))
	rr.orc.call(a.n, rr.label(m), err, inCr0)
	if err != nil || m != nil {
		if inCr0 {
			rr.circular = true
		}
		rr.evs = append(rr.evs, evString(a.n, rr.label(m), err, inCr0, rr.ran))
		return
	}
	entered := false
	m, err = rr.reg.GetSingletonOrCreateByFactory(regName(a.n), container.FuncSingletonFactory(func() (*component_definition.Meta, error) {
		entered = true
		rr.creates++
		rr.evs = append(rr.evs, "["+strconv.Itoa(a.n))
		rr.orc.begin(a.n)
		// doCreateComponent, factory.go:192-198
		if rr.reg.IsSingletonCurrentlyInCreation(regName(a.n)) {
			rr.reg.AddSingletonFactory(regName(a.n), rr.earlyFactory(a.n))
		}
		for _, c := range a.body {
			rr.exec(c)
		}
		rr.ran = false
		if a.res.ok {
			return regMeta(a.res), nil
		}
		rr.failures++
		return nil, errRegBody
	}))
	inCr := rr.reg.IsSingletonCurrentlyInCreation(regName(a.n))
	rr.evs = append(rr.evs, evString(a.n, rr.label(m), err, inCr, rr.ran))
	if entered {
		rr.orc.end(a.n, a.res, rr.label(m), err, inCr)
	} else {
		rr.orc.call(a.n, rr.label(m), err, inCr)
	}
}

func actsStats(as []*rAct, depth int, ops, maxDepth *int) {
	for _, a := range as {
		*ops++
		if depth > *maxDepth {
			*maxDepth = depth
		}
		if a.create {
			actsStats(a.body, depth+1, ops, maxDepth)
		}
	}
}

func runRegTree(as []*rAct, tags []string, w *hx.Writer) {
	var toks []string
	writeActs(as, &toks)
	c := hx.Case{Scn: strings.Join(toks, " "), Tags: tags}
	rr := &regRun{reg: support.DefaultSingletonComponentRegistry(), orc: newRegOracle()}
	pan := hx.Guard(func() {
		for _, a := range as {
			rr.exec(a)
		}
	})
	if pan != nil {
		c.Obs = "panic"
		c.Oracle = "FAIL registry-panic " + fmt.Sprint(pan)
		w.Put(c)
		return
	}
	if len(rr.evs) == 0 {
		c.Obs = "."
	} else {
		c.Obs = strings.Join(rr.evs, " ")
	}
	c.Oracle = rr.orc.verdict()
	ops, md := 0, 0
	actsStats(as, 0, &ops, &md)
	c.Tags = append(c.Tags, fmt.Sprintf("depth%d", md), fmt.Sprintf("ops%d", ops/10*10))
	if rr.failures > 0 {
		c.Tags = append(c.Tags, "failed-creation")
	}
	if rr.circular {
		c.Tags = append(c.Tags, "circular")
	}
	if rr.creates == 0 {
		c.Tags = append(c.Tags, "trivial")
	}
	w.Put(c)
}

// ---------------------------------------------------------------- (i) generator

const regNames = 4

type regGenState struct {
	r      *hx.Rng
	budget int
	vers   [regNames]int
}

func (g *regGenState) obj(n int, failNum, failDen int) robj {
	if g.r.P(failNum, failDen) {
		return robj{}
	}
	if g.vers[n] > 0 && g.r.P(1, 4) {
		return robj{ok: true, name: n, ver: g.r.Intn(g.vers[n])}
	}
	v := g.vers[n]
	g.vers[n]++
	return robj{ok: true, name: n, ver: v}
}

func (g *regGenState) name(stack []int) int {
	if len(stack) > 0 && g.r.P(2, 5) {
		return stack[g.r.Intn(len(stack))]
	}
	return g.r.Intn(regNames)
}

func (g *regGenState) lookup(n int) *rAct {
	return &rAct{n: n, allow: g.r.P(2, 3), early: g.obj(n, 3, 20)}
}

func (g *regGenState) acts(depth int, stack []int, maxItems int) []*rAct {
	var out []*rAct
	k := 1 + g.r.Intn(maxItems)
	for i := 0; i < k && g.budget > 0; i++ {
		n := g.name(stack)
		g.budget--
		if depth >= 6 || (g.r.P(9, 20) && !(depth == 0 && i == 0)) {
			out = append(out, g.lookup(n))
			continue
		}
		a := &rAct{create: true, n: n, early: g.obj(n, 3, 20)}
		a.body = g.acts(depth+1, append(append([]int{}, stack...), n), 4)
		if g.r.P(1, 5) {
			a.res = robj{}
		} else if a.early.ok && g.r.P(1, 3) {
			a.res = a.early // the body returns the early reference, as doCreateComponent does
		} else {
			a.res = g.obj(n, 0, 1)
		}
		out = append(out, a)
		if !a.res.ok {
			// lookups after the failure are forced
			out = append(out, &rAct{n: n, allow: true, early: g.obj(n, 1, 2)})
			if g.r.Bool() {
				out = append(out, &rAct{n: n, allow: false, early: robj{}})
			}
			if g.r.Bool() && depth < 6 {
				re := &rAct{create: true, n: n, early: g.obj(n, 3, 20)}
				if g.budget > 0 && g.r.Bool() {
					re.body = g.acts(depth+1, append(append([]int{}, stack...), n), 3)
				}
				if g.r.P(1, 4) {
					re.res = robj{}
				} else {
					re.res = g.obj(n, 0, 1)
				}
				out = append(out, re)
			}
			g.budget -= 2
		}
	}
	return out
}

func regProbes() []*rAct {
	var out []*rAct
	for n := 0; n < regNames; n++ {
		out = append(out, &rAct{n: n, allow: false, early: robj{}}, &rAct{n: n, allow: true, early: robj{}})
	}
	return out
}

// exhaustive small scope: every forest with exactly k operations over the names 0,1
// (early-reference factory: fails / o<n>#0 at a lookup, fails / o<n>#2 at a doGetComponent; creation: fails / o<n>#1)
var regEnumMemo = map[int][][]*rAct{}

func regEnumForests(k int) [][]*rAct {
	if k == 0 {
		return [][]*rAct{nil}
	}
	if v, ok := regEnumMemo[k]; ok {
		return v
	}
	var out [][]*rAct
	for j := 1; j <= k; j++ {
		for _, t := range regEnumTrees(j) {
			for _, rest := range regEnumForests(k - j) {
				out = append(out, append([]*rAct{t}, rest...))
			}
		}
	}
	regEnumMemo[k] = out
	return out
}

func regEnumTrees(j int) []*rAct {
	var out []*rAct
	for n := 0; n < 2; n++ {
		if j == 1 {
			for _, allow := range []bool{false, true} {
				out = append(out, &rAct{n: n, allow: allow}, &rAct{n: n, allow: allow, early: robj{ok: true, name: n, ver: 0}})
			}
		}
		for _, early := range []robj{{}, {ok: true, name: n, ver: 2}} {
			for _, res := range []robj{{}, {ok: true, name: n, ver: 1}} {
				for _, body := range regEnumForests(j - 1) {
					out = append(out, &rAct{create: true, n: n, early: early, body: body, res: res})
				}
			}
		}
	}
	return out
}

func regExhaustive(maxOps int, w *hx.Writer) {
	probes := regProbes()[:4] // names 0 and 1
	for k := 1; k <= maxOps; k++ {
		for _, f := range regEnumForests(k) {
			runRegTree(append(append([]*rAct{}, f...), probes...), []string{"exhaustive"}, w)
		}
	}
}

func regGen(rng *hx.Rng, n int, tier string, w *hx.Writer) {
	syslog.Level(syslog.LvFatal)
	if n > 0 {
		if tier == "thorough" {
			regExhaustive(4, w)
		} else {
			regExhaustive(3, w)
		}
	}
	nFactory := n / 20
	if nFactory > 3000 {
		nFactory = 3000
	}
	for i := 0; i < n; i++ {
		r := rng.Fork()
		g := &regGenState{r: r, budget: 4 + r.Intn(37)}
		as := g.acts(0, nil, 6)
		tags := []string{"tree"}
		if r.Bool() {
			as = append(as, regProbes()...)
			tags = append(tags, "probed")
		}
		runRegTree(as, tags, w)
	}
	for i := 0; i < nFactory; i++ {
		r := rng.Fork()
		runFactoryHistory(genFactoryHistory(r), []string{"factory"}, w)
	}
	// failures caused by a lookup of a name without definition (after the others, so that the earlier cases of a seed stay the same)
	for i := 0; i < nFactory; i++ {
		r := rng.Fork()
		runFactoryHistory(genAskHistory(r), []string{"factory"}, w)
	}
}

// ---------------------------------------------------------------- (ii) histories on the real factory

// the tracer: wraps the real registry, records the history as operation trees and as the trace
type regTracer struct {
	inner    container.SingletonComponentRegistry
	names    map[string]int
	objs     map[*component_definition.Meta]string
	vers     map[int]int
	frames   [][]string // token lists; frames[0] = top level
	creating []string
	added    []bool
	evs      []string
	pending  bool
	pendName string
	earlyRan bool
	earlyOut string
	orc      *regOracle
}

func newRegTracer() *regTracer {
	return &regTracer{inner: support.DefaultSingletonComponentRegistry(), names: map[string]int{},
		objs: map[*component_definition.Meta]string{}, vers: map[int]int{}, frames: [][]string{nil}, orc: newRegOracle()}
}

func (t *regTracer) id(name string) int {
	if v, ok := t.names[name]; ok {
		return v
	}
	v := len(t.names)
	t.names[name] = v
	return v
}

func (t *regTracer) obj(id int, m *component_definition.Meta) string {
	if m == nil {
		return ""
	}
	if l, ok := t.objs[m]; ok {
		return l
	}
	l := "o" + strconv.Itoa(id) + "#" + strconv.Itoa(t.vers[id])
	t.vers[id]++
	t.objs[m] = l
	return l
}

func (t *regTracer) push(toks ...string) {
	top := len(t.frames) - 1
	t.frames[top] = append(t.frames[top], toks...)
}

func (t *regTracer) irregular(what string) { t.push("?" + what) }

func orX(s string) string {
	if s == "" {
		return "x"
	}
	return s
}

func (t *regTracer) AddSingleton(name string, meta *component_definition.Meta) {
	t.pending = false
	t.irregular("AddSingleton")
	t.inner.AddSingleton(name, meta)
}

func (t *regTracer) RemoveSingleton(name string) {
	t.pending = false
	t.irregular("RemoveSingleton")
	t.inner.RemoveSingleton(name)
}

func (t *regTracer) IsSingletonCurrentlyInCreation(name string) bool {
	return t.inner.IsSingletonCurrentlyInCreation(name)
}

func (t *regTracer) AddSingletonFactory(name string, method container.SingletonFactory) {
	t.pending = false
	top := len(t.creating) - 1
	if top < 0 || t.creating[top] != name || len(t.frames[len(t.frames)-1]) != 0 || t.added[top] {
		t.irregular("AddSingletonFactory")
	} else {
		t.added[top] = true
	}
	id := t.id(name)
	t.inner.AddSingletonFactory(name, container.FuncSingletonFactory(func() (*component_definition.Meta, error) {
		m, err := method.GetComponent()
		t.earlyRan = true
		t.earlyOut = ""
		if err == nil {
			t.earlyOut = t.obj(id, m)
		}
		t.orc.earlyRan(id, t.earlyOut)
		return m, err
	}))
}

func (t *regTracer) GetSingleton(name string, allow bool) (*component_definition.Meta, error) {
	t.pending = false
	t.earlyRan = false
	id := t.id(name)
	m, err := t.inner.GetSingleton(name, allow)
	inCr := t.inner.IsSingletonCurrentlyInCreation(name)
	e := "x"
	if t.earlyRan {
		e = orX(t.earlyOut)
	}
	b := "0"
	if allow {
		b = "1"
	}
	t.push("L", strconv.Itoa(id), b, e)
	t.evs = append(t.evs, evString(id, t.obj(id, m), err, inCr, t.earlyRan))
	t.orc.call(id, t.obj(id, m), err, inCr)
	if m == nil && err == nil && allow {
		t.pending, t.pendName = true, name // may turn out to be the first half of a doGetComponent
	}
	return m, err
}

func (t *regTracer) GetSingletonOrCreateByFactory(name string, f container.SingletonFactory) (*component_definition.Meta, error) {
	id := t.id(name)
	if t.pending && t.pendName == name {
		top := len(t.frames) - 1
		t.frames[top] = t.frames[top][:len(t.frames[top])-4]
		t.evs = t.evs[:len(t.evs)-1]
	} else {
		t.irregular("GetSingletonOrCreateByFactory")
	}
	t.pending = false
	entered := false
	var body []string
	res := "x"
	noFactory := false
	var want robj
	m, err := t.inner.GetSingletonOrCreateByFactory(name, container.FuncSingletonFactory(func() (*component_definition.Meta, error) {
		entered = true
		t.evs = append(t.evs, "["+strconv.Itoa(id))
		t.orc.begin(id)
		if len(t.creating) >= 24 {
			// creations nested without end (no early reference is ever found): cut it before the Go stack overflows
			t.orc.flag("recreated", "runaway nested creations (depth 24), cut by the harness")
			return nil, errors.New("harness: runaway nested creation cut")
		}
		t.frames = append(t.frames, nil)
		t.creating = append(t.creating, name)
		t.added = append(t.added, false)
		m, err := f.GetComponent()
		t.pending = false
		t.earlyRan = false
		body = t.frames[len(t.frames)-1]
		noFactory = !t.added[len(t.added)-1] && len(body) > 0
		t.frames = t.frames[:len(t.frames)-1]
		t.creating = t.creating[:len(t.creating)-1]
		t.added = t.added[:len(t.added)-1]
		if err == nil && m != nil {
			res = t.obj(id, m)
			want, _ = parseObjTok(res)
		}
		return m, err
	}))
	inCr := t.inner.IsSingletonCurrentlyInCreation(name)
	if !entered {
		t.irregular("creation-not-entered")
	}
	if noFactory {
		t.irregular("body-without-early-factory")
	}
	t.push("G", strconv.Itoa(id), "x", "[")
	t.push(body...)
	t.push("]", res)
	t.evs = append(t.evs, evString(id, t.obj(id, m), err, inCr, t.earlyRan))
	if entered {
		t.orc.end(id, want, t.obj(id, m), err, inCr)
	}
	return m, err
}

// components of the histories: every type embeds fhBase (lazy, named, Init fails `fail[name]` times first)
type fhCtl struct {
	fail     map[string]int
	attempts map[string]int
	okInit   map[string]int
	deps     map[string][]string // dependencies that do not depend back (acyclic edges of the variant)
	viol     []string            // Init ran although such a dependency had not completed its own Init
	asks     map[string][]*fhAsk // lookups issued by Init through the public API (own mutable copies)
	lookup   func(name string) (any, error)
}

// fhAsk: Init of comp asks the factory for target during its first `times` runs
type fhAsk struct {
	comp, target string
	mode         byte // 'r' return the error as it is, 'w' wrap with %w, 'n' new error without cause chain, 's' swallow
	times        int
}

func (q *fhAsk) tok() string {
	return q.comp + ":" + q.target + ":" + string(q.mode) + ":" + strconv.Itoa(q.times)
}

// names without any definition
var fhMissing = []string{"m0", "m1"}

func fhIsMissing(n string) bool { return n == "m0" || n == "m1" }

// the acyclic edges of each variant (diamond: a<->r is a cycle, so neither direction is listed)
var fhDeps = map[string]map[string][]string{
	"chain":   {"a": {"b", "c"}, "b": {"c"}},
	"diamond": {"a": {"l", "z"}, "l": {"z"}, "r": {"z"}},
	"wmiss":   {"v": {"w"}},
}

// the wire points of each variant (holder -> components it is wired to)
var fhWires = map[string]map[string][]string{
	"chain":   {"a": {"b"}, "b": {"c"}},
	"cycle":   {"x": {"y"}, "y": {"x"}},
	"diamond": {"a": {"l", "r"}, "l": {"z"}, "r": {"z", "a"}},
	"wmiss":   {"v": {"w"}},
}

// fhAcyclicDeps: the dependencies Init may rely on when Init methods also look components up (ask edges): d is listed for n
// when a path of wire points leads from n to d and no component on that path after n lies on a cycle of wire points and
// lookups (a component on such a cycle may legitimately be met as an early reference, i.e. before its Init). Without
// lookups of components this is exactly fhDeps. Lookups only ever remove entries (more edges, more cycles).
func fhAcyclicDeps(h *fhHistory) map[string][]string {
	names := fhVariants[h.variant]
	wires := fhWires[h.variant]
	all := map[string][]string{}
	for n, ds := range wires {
		all[n] = append(all[n], ds...)
	}
	for _, q := range h.asks {
		if !fhIsMissing(q.target) {
			all[q.comp] = append(all[q.comp], q.target)
		}
	}
	reach := func(edges map[string][]string, from string, ok func(string) bool) map[string]bool {
		seen := map[string]bool{}
		var walk func(string)
		walk = func(n string) {
			for _, d := range edges[n] {
				if !seen[d] && ok(d) {
					seen[d] = true
					walk(d)
				}
			}
		}
		walk(from)
		return seen
	}
	onCycle := map[string]bool{}
	for _, n := range names {
		onCycle[n] = reach(all, n, func(string) bool { return true })[n]
	}
	out := map[string][]string{}
	for _, n := range names {
		got := reach(wires, n, func(d string) bool { return !onCycle[d] })
		for _, d := range names {
			if got[d] && d != n {
				out[n] = append(out[n], d)
			}
		}
	}
	return out
}

type fhBase struct {
	definition.LazyInitComponent
	name string
	ctl  *fhCtl
}

func (b *fhBase) Naming() string { return b.name }

func (b *fhBase) Init() error {
	b.ctl.attempts[b.name]++
	for _, d := range b.ctl.deps[b.name] {
		if b.ctl.okInit[d] == 0 {
			b.ctl.viol = append(b.ctl.viol, b.name+" before "+d)
		}
	}
	for _, q := range b.ctl.asks[b.name] {
		if q.times <= 0 || b.ctl.lookup == nil {
			continue
		}
		q.times--
		if _, err := b.ctl.lookup(q.target); err != nil {
			switch q.mode {
			case 'r':
				return err
			case 'w':
				return fmt.Errorf("init of %s cannot get '%s': %w", b.name, q.target, err)
			case 'n':
				return errors.New("init of " + b.name + " cannot get '" + q.target + "': " + err.Error())
			}
			// 's': the failed lookup is ignored
		}
	}
	if b.ctl.fail[b.name] > 0 {
		b.ctl.fail[b.name]--
		return errors.New("init of " + b.name + " fails")
	}
	b.ctl.okInit[b.name]++
	return nil
}

type fhSingle struct{ fhBase }

type fhChainA struct {
	fhBase
	B *fhChainB `wire:""`
}
type fhChainB struct {
	fhBase
	C *fhChainC `wire:""`
}
type fhChainC struct{ fhBase }

type fhCycX struct {
	fhBase
	Y *fhCycY `wire:""`
}
type fhCycY struct {
	fhBase
	X *fhCycX `wire:""`
}

type fhDiaA struct {
	fhBase
	L *fhDiaL `wire:""`
	R *fhDiaR `wire:""`
}
type fhDiaL struct {
	fhBase
	Z *fhDiaZ `wire:""`
}
type fhDiaR struct {
	fhBase
	Z *fhDiaZ `wire:""`
	A *fhDiaA `wire:""`
}
type fhDiaZ struct{ fhBase }

// loose: three components without wire points (they meet only through lookups issued by Init)
type fhLoose struct{ fhBase }

// wmiss: v needs w, w has a required point naming a component that has no definition
type fhWmV struct {
	fhBase
	W *fhWmW `wire:""`
}
type fhWmW struct {
	fhBase
	M *fhLoose `wire:"m0"`
}

var fhVariants = map[string][]string{
	"single":  {"s"},
	"chain":   {"a", "b", "c"},
	"cycle":   {"x", "y"},
	"diamond": {"a", "l", "r", "z"},
	"loose":   {"p", "q", "r"},
	"wmiss":   {"v", "w"},
}

func fhComponents(variant string, ctl *fhCtl) map[string]any {
	b := func(n string) fhBase { return fhBase{name: n, ctl: ctl} }
	switch variant {
	case "single":
		return map[string]any{"s": &fhSingle{b("s")}}
	case "chain":
		return map[string]any{"a": &fhChainA{fhBase: b("a")}, "b": &fhChainB{fhBase: b("b")}, "c": &fhChainC{b("c")}}
	case "cycle":
		return map[string]any{"x": &fhCycX{fhBase: b("x")}, "y": &fhCycY{fhBase: b("y")}}
	case "diamond":
		return map[string]any{"a": &fhDiaA{fhBase: b("a")}, "l": &fhDiaL{fhBase: b("l")}, "r": &fhDiaR{fhBase: b("r")}, "z": &fhDiaZ{b("z")}}
	case "loose":
		return map[string]any{"p": &fhLoose{b("p")}, "q": &fhLoose{b("q")}, "r": &fhLoose{b("r")}}
	case "wmiss":
		return map[string]any{"v": &fhWmV{fhBase: b("v")}, "w": &fhWmW{fhBase: b("w")}}
	}
	return nil
}

type fhHistory struct {
	variant string
	fail    map[string]int
	calls   []string // a component name, a name without definition (m0, m1), or ~<name> = probe of the registry at rest
	asks    []*fhAsk
}

func (h *fhHistory) header() string {
	names := fhVariants[h.variant]
	var fs []string
	for _, n := range names {
		fs = append(fs, n+":"+strconv.Itoa(h.fail[n]))
	}
	s := "F " + h.variant + " fail=" + strings.Join(fs, ",") + " calls=" + strings.Join(h.calls, ",")
	if len(h.asks) > 0 {
		var as []string
		for _, q := range h.asks {
			as = append(as, q.tok())
		}
		s += " ask=" + strings.Join(as, ",")
	}
	return s
}

func parseFhHeader(toks []string) *fhHistory {
	if len(toks) < 4 || len(toks) > 6 || toks[0] != "F" || !strings.HasPrefix(toks[2], "fail=") || !strings.HasPrefix(toks[3], "calls=") {
		return nil
	}
	names, ok := fhVariants[toks[1]]
	if !ok {
		return nil
	}
	h := &fhHistory{variant: toks[1], fail: map[string]int{}}
	valid := map[string]bool{}
	for _, n := range names {
		valid[n] = true
	}
	for _, kv := range strings.Split(toks[2][5:], ",") {
		p := strings.Split(kv, ":")
		if len(p) != 2 || !valid[p[0]] {
			return nil
		}
		v, err := strconv.Atoi(p[1])
		if err != nil || v < 0 || v > 10 {
			return nil
		}
		h.fail[p[0]] = v
	}
	for _, c := range strings.Split(toks[3][6:], ",") {
		n := strings.TrimPrefix(c, "~")
		if !valid[n] && !fhIsMissing(n) {
			return nil
		}
		h.calls = append(h.calls, c)
	}
	for _, t := range toks[4:] {
		switch {
		case strings.HasPrefix(t, "api="): // what the public API answered when the line was recorded (informative)
		case strings.HasPrefix(t, "ask="):
			if h.asks != nil {
				return nil
			}
			for _, e := range strings.Split(t[4:], ",") {
				p := strings.Split(e, ":")
				if len(p) != 4 || !valid[p[0]] || (!valid[p[1]] && !fhIsMissing(p[1])) || len(p[2]) != 1 || !strings.Contains("rwns", p[2]) {
					return nil
				}
				v, err := strconv.Atoi(p[3])
				if err != nil || v < 1 || v > 10 {
					return nil
				}
				h.asks = append(h.asks, &fhAsk{comp: p[0], target: p[1], mode: p[2][0], times: v})
			}
		default:
			return nil
		}
	}
	return h
}

func genFactoryHistory(r *hx.Rng) *fhHistory {
	vs := []string{"single", "chain", "cycle", "cycle", "diamond", "diamond"}
	h := &fhHistory{variant: vs[r.Intn(len(vs))], fail: map[string]int{}}
	names := fhVariants[h.variant]
	for _, n := range names {
		h.fail[n] = 0
	}
	// one or two components fail their first 1-2 Init calls
	for k := 1 + r.Intn(2); k > 0; k-- {
		h.fail[names[r.Intn(len(names))]] = 1 + r.Intn(2)
	}
	for k := 3 + r.Intn(4); k > 0; k-- {
		if r.P(1, 2) {
			h.calls = append(h.calls, names[0])
		} else {
			h.calls = append(h.calls, names[r.Intn(len(names))])
		}
	}
	return h
}

// genAskHistory: histories in which a creation fails because something it ran (Init) looked a name up that has NO definition,
// directly or through enclosing creations (wire points, re-entrant GetComponentByName from Init), and the factory is used
// again afterwards: retries of the failed names, lookups of the unknown name itself, probes of the cache levels at rest.
func genAskHistory(r *hx.Rng) *fhHistory {
	vs := []string{"single", "chain", "chain", "cycle", "cycle", "diamond", "diamond", "loose", "loose", "loose", "wmiss"}
	h := &fhHistory{variant: vs[r.Intn(len(vs))], fail: map[string]int{}}
	names := fhVariants[h.variant]
	for _, n := range names {
		h.fail[n] = 0
	}
	if r.P(1, 3) { // an ordinary failing Init next to the failing lookups
		h.fail[names[r.Intn(len(names))]] = 1 + r.Intn(2)
	}
	mode := func() byte { return "wwwwrrrns"[r.Intn(9)] }
	times := func() int { return []int{1, 1, 2, 9}[r.Intn(4)] }
	missing := func() string { return fhMissing[r.Intn(len(fhMissing))] }
	add := func(comp, target string, m byte) {
		h.asks = append(h.asks, &fhAsk{comp: comp, target: target, mode: m, times: times()})
	}
	switch h.variant {
	case "loose":
		// a chain of re-entrant lookups p -> q [-> r] -> unknown name, sometimes closed to a cycle
		add("p", "q", mode())
		if r.Bool() {
			add("q", "r", mode())
			add("r", missing(), mode())
			if r.P(1, 4) {
				add("r", "p", mode())
			}
		} else {
			add("q", missing(), mode())
			if r.P(1, 4) {
				add("q", "p", mode())
			}
		}
	case "wmiss":
		// the required point of w names a component without definition; sometimes Init lookups on top (never reached for w)
		if r.Bool() {
			add("v", missing(), mode())
		}
	default:
		// the deeper components are the more likely ones: the failure passes through every enclosing creation
		k := 1 + r.Intn(2)
		for i := 0; i < k; i++ {
			comp := names[len(names)-1-r.Intn((len(names)+1)/2)]
			if r.P(1, 4) {
				comp = names[r.Intn(len(names))]
			}
			target := missing()
			if r.P(1, 5) {
				target = names[r.Intn(len(names))]
			}
			add(comp, target, mode())
		}
	}
	probeAll := func() {
		for _, n := range names {
			h.calls = append(h.calls, "~"+n)
		}
	}
	pick := func() string {
		if r.P(1, 2) {
			return names[0]
		}
		return names[r.Intn(len(names))]
	}
	first := pick()
	h.calls = append(h.calls, first)
	if r.P(2, 3) {
		probeAll()
	}
	h.calls = append(h.calls, first) // the retry right after a (probable) failure
	for k := 1 + r.Intn(4); k > 0; k-- {
		switch {
		case r.P(1, 8):
			h.calls = append(h.calls, missing())
		case r.P(1, 5):
			h.calls = append(h.calls, "~"+names[r.Intn(len(names))])
		default:
			h.calls = append(h.calls, pick())
		}
	}
	if r.P(3, 4) {
		// every component once more, then the levels at rest
		for _, i := range r.Perm(len(names)) {
			h.calls = append(h.calls, names[i])
		}
		probeAll()
	}
	return h
}

func runFactoryHistory(h *fhHistory, tags []string, w *hx.Writer) {
	syslog.Level(syslog.LvFatal)
	c := hx.Case{Tags: append(tags, "fh-"+h.variant)}
	ctl := &fhCtl{fail: map[string]int{}, attempts: map[string]int{}, okInit: map[string]int{}, deps: fhDeps[h.variant]}
	for k, v := range h.fail {
		ctl.fail[k] = v
	}
	if len(h.asks) > 0 {
		ctl.asks = map[string][]*fhAsk{}
		for _, q := range h.asks {
			cp := *q
			ctl.asks[q.comp] = append(ctl.asks[q.comp], &cp)
			if !fhIsMissing(q.target) {
				ctl.deps = fhAcyclicDeps(h) // lookups between components: they may close cycles
			}
		}
		c.Tags = append(c.Tags, "fh-ask")
	}
	comps := fhComponents(h.variant, ctl)
	tr := newRegTracer()
	var results []string
	apiFail := ""
	seenSig := map[string]bool{}
	flag := func(sig, detail string) {
		if seenSig[sig] {
			return
		}
		seenSig[sig] = true
		if apiFail != "" {
			apiFail += " ;; "
		}
		apiFail += "FAIL " + sig + " " + detail
	}
	pan := hx.Guard(func() {
		a := app.NewApp()
		var list []any
		names := make([]string, 0, len(comps))
		for n := range comps {
			names = append(names, n)
		}
		sort.Strings(names)
		for _, n := range names {
			list = append(list, comps[n])
		}
		if err := a.Run(app.SetFactory(factory.NewWithRegistries(nil, tr)), app.SetComponents(list...)); err != nil {
			results = append(results, "run-err")
			return
		}
		ctl.lookup = a.GetComponentByName
		succeeded := map[string]bool{}
		attemptsAtSuccess := map[string]int{}
		anyFail := false
		for _, n := range h.calls {
			if strings.HasPrefix(n, "~") {
				// probe of the cache levels at rest, through the tracer (so the calls are part of the recorded history)
				nm := n[1:]
				m0, e0 := tr.GetSingleton(nm, false)
				m1, e1 := tr.GetSingleton(nm, true)
				inCr := tr.IsSingletonCurrentlyInCreation(nm)
				seen := "nil"
				switch {
				case e0 != nil || e1 != nil:
					seen = "err"
				case m0 != nil || m1 != nil:
					seen = "obj"
				}
				if inCr {
					seen += "+"
				}
				results = append(results, n+":"+seen)
				if ctl.okInit[nm] == 0 && seen != "nil" {
					flag("factory-left-in-cache", fmt.Sprintf("no creation of %s ever completed (%d failed Init runs) and none is running, "+
						"but the registry answers a lookup of %s with %s", nm, ctl.attempts[nm], nm, seen))
				}
				continue
			}
			got, err := a.GetComponentByName(n)
			if err != nil {
				results = append(results, n+":err")
				anyFail = true
				if succeeded[n] {
					flag("published-changed", fmt.Sprintf("GetComponentByName(%s) fails after it had succeeded", n))
				}
				continue
			}
			results = append(results, n+":ok")
			if ctl.okInit[n] == 0 {
				flag("factory-half-built", fmt.Sprintf("GetComponentByName(%s) succeeds although Init of %s never succeeded (%d failed attempts)", n, n, ctl.attempts[n]))
			}
			if fhIsMissing(n) {
				continue
			}
			if got != comps[n] {
				flag("factory-identity", fmt.Sprintf("GetComponentByName(%s) returned another instance", n))
			}
			if succeeded[n] && ctl.attempts[n] != attemptsAtSuccess[n] {
				flag("factory-recreated", fmt.Sprintf("Init of %s ran again after %s had been returned", n, n))
			}
			if !succeeded[n] {
				succeeded[n] = true
				attemptsAtSuccess[n] = ctl.attempts[n]
			}
		}
		for n := range succeeded {
			if ctl.okInit[n] > 1 || ctl.attempts[n] != attemptsAtSuccess[n] {
				flag("factory-recreated", fmt.Sprintf("Init of %s succeeded %d times / ran after success", n, ctl.okInit[n]))
			}
		}
		if len(ctl.viol) > 0 {
			flag("factory-deps-first", "Init ran before a dependency that does not depend back had completed its Init: "+strings.Join(ctl.viol, "; "))
		}
		if anyFail {
			c.Tags = append(c.Tags, "failed-creation")
		}
	})
	top := tr.frames[0]
	c.Scn = h.header() + " api=" + strings.Join(results, "/") + " | " + strings.Join(top, " ")
	if pan != nil {
		c.Obs = "panic"
		c.Oracle = "FAIL registry-panic " + fmt.Sprint(pan)
		w.Put(c)
		return
	}
	if len(tr.evs) == 0 {
		c.Obs = "."
	} else {
		c.Obs = strings.Join(tr.evs, " ")
	}
	c.Oracle = tr.orc.verdict()
	if c.Oracle == "" {
		c.Oracle = apiFail
	} else if apiFail != "" {
		c.Oracle += " ;; " + apiFail // both the protocol-level (C04) and the API-level (C05) verdicts are reported
	}
	w.Put(c)
}

// ---------------------------------------------------------------- replay, corpus

func regReplay(scn string, w *hx.Writer) {
	syslog.Level(syslog.LvFatal)
	toks := strings.Fields(scn)
	if len(toks) > 0 && toks[0] == "F" {
		bar := -1
		for i, t := range toks {
			if t == "|" {
				bar = i
				break
			}
		}
		if bar < 0 {
			return
		}
		if h := parseFhHeader(toks[:bar]); h != nil {
			runFactoryHistory(h, []string{"replay"}, w)
		}
		return
	}
	as, pos, ok := parseActs(toks, 0)
	if !ok || pos != len(toks) {
		return
	}
	runRegTree(as, []string{"replay"}, w)
}

func regCorpus(w *hx.Writer) {
	syslog.Level(syslog.LvFatal)
	// the computed dependency sets coincide with the hand-written table when Init methods look nothing up
	for v := range fhVariants {
		got := fhAcyclicDeps(&fhHistory{variant: v})
		for _, n := range fhVariants[v] {
			if strings.Join(got[n], ",") != strings.Join(fhDeps[v][n], ",") {
				panic("fhAcyclicDeps(" + v + ")[" + n + "] = " + strings.Join(got[n], ",") + ", table: " + strings.Join(fhDeps[v][n], ","))
			}
		}
	}
	for _, s := range []string{
		// the trace of DESIGN C04: create 1 { lookup 1; lookup 1; create 2 { lookup 1 } } fails; lookup 1
		"G 1 o1#5 [ L 1 1 o1#5 L 1 1 o1#9 G 2 x [ L 1 1 x ] o2#0 ] x L 1 1 x",
		// D1: the early reference was handed out, the creation fails; then both kinds of lookup and a second attempt
		"G 0 x [ L 0 1 o0#0 ] x L 0 0 x L 0 1 x G 0 x [ L 0 0 x ] o0#1 L 0 1 x",
		// failure without any early reference taken
		"G 0 x [ ] x L 0 1 o0#0 L 0 0 x G 0 x [ ] o0#0 G 0 x [ L 1 1 x ] o0#1",
		// nested failure: the inner creation fails, the outer succeeds; the inner name is retried
		"G 0 x [ G 1 x [ L 0 1 o0#0 ] x L 1 1 x G 1 x [ ] o1#0 L 0 0 x ] o0#0 L 0 1 x L 1 1 x",
		// the outer fails after the inner was published with the outer's early reference
		"G 0 x [ G 1 x [ G 0 o0#0 [ ] o0#9 ] o1#0 ] x L 0 1 x L 1 1 x G 0 x [ L 1 1 x ] o0#1",
		// the early factory fails, then succeeds; lookups without early references before and after
		"G 2 x [ L 2 0 x L 2 1 x L 2 0 x L 2 1 o2#0 L 2 0 x L 2 1 o2#1 G 2 o2#2 [ ] o2#3 L 2 0 x ] o2#0 L 2 1 x",
		// circular doGetComponent whose early factory fails: an error, no creation
		"G 3 x [ G 3 x [ L 3 1 o3#0 ] o3#1 L 3 0 x ] o3#2 G 3 x [ ] o3#4",
		// plain lookups on an empty registry
		"L 0 1 o0#0 L 0 0 x",
		// depth 6
		"G 0 x [ G 1 x [ G 2 x [ G 3 x [ G 0 o0#0 [ ] x G 1 o1#0 [ ] x G 2 x [ L 2 1 o2#0 ] x ] x L 3 1 x ] o2#1 ] x ] x L 0 1 x L 1 1 x L 2 1 x L 3 1 x",
	} {
		toks := strings.Fields(s)
		as, pos, ok := parseActs(toks, 0)
		if !ok || pos != len(toks) {
			panic("bad corpus line: " + s)
		}
		runRegTree(as, []string{"corpus"}, w)
	}
	for _, h := range []*fhHistory{
		{variant: "single", fail: map[string]int{"s": 2}, calls: []string{"s", "s", "s", "s"}},
		{variant: "chain", fail: map[string]int{"a": 0, "b": 0, "c": 1}, calls: []string{"a", "c", "a", "b"}},
		{variant: "chain", fail: map[string]int{"a": 1, "b": 0, "c": 0}, calls: []string{"a", "b", "a", "a"}},
		{variant: "cycle", fail: map[string]int{"x": 0, "y": 1}, calls: []string{"x", "x", "y", "x"}},
		{variant: "cycle", fail: map[string]int{"x": 1, "y": 0}, calls: []string{"x", "y", "x", "x"}},
		{variant: "cycle", fail: map[string]int{"x": 1, "y": 1}, calls: []string{"y", "x", "y", "x", "y"}},
		{variant: "diamond", fail: map[string]int{"a": 0, "l": 0, "r": 1, "z": 0}, calls: []string{"a", "l", "a", "r"}},
		{variant: "diamond", fail: map[string]int{"a": 1, "l": 0, "r": 0, "z": 1}, calls: []string{"a", "a", "r", "a"}},
		// a creation fails because its Init asked the factory for a name without definition; the cause disappears, retry
		{variant: "single", calls: []string{"s", "~s", "s", "s"}, asks: []*fhAsk{{"s", "m0", 'w', 1}}},
		{variant: "single", calls: []string{"s", "s", "~s", "m0", "~m0", "s"}, asks: []*fhAsk{{"s", "m0", 'r', 9}}},
		// the failing lookup is nested: a needs b needs c, Init of c (of b) asks for the unknown name
		{variant: "chain", calls: []string{"a", "~a", "~b", "~c", "a", "b", "c"}, asks: []*fhAsk{{"c", "m0", 'w', 1}}},
		{variant: "chain", calls: []string{"a", "b", "a", "~b", "a", "c"}, asks: []*fhAsk{{"b", "m1", 'r', 2}}},
		{variant: "chain", fail: map[string]int{"a": 1}, calls: []string{"a", "a", "a", "~a", "~b", "~c"}, asks: []*fhAsk{{"c", "m0", 'n', 1}}},
		// inside a cycle: the early reference of x has been handed to y when Init of y fails
		{variant: "cycle", calls: []string{"x", "~x", "~y", "x", "y"}, asks: []*fhAsk{{"y", "m0", 'w', 1}}},
		{variant: "cycle", calls: []string{"y", "y", "x", "~x", "~y"}, asks: []*fhAsk{{"y", "m0", 'r', 1}, {"x", "y", 'r', 9}}},
		{variant: "diamond", calls: []string{"a", "a", "~z", "r", "~a", "~l", "~r"}, asks: []*fhAsk{{"z", "m0", 'w', 1}}},
		// re-entrant: Init of p asks for q, Init of q asks for the unknown name (q, then r)
		{variant: "loose", calls: []string{"p", "~p", "~q", "p", "q"}, asks: []*fhAsk{{"p", "q", 'w', 9}, {"q", "m0", 'r', 1}}},
		{variant: "loose", calls: []string{"p", "q", "r", "~r", "~q", "r", "q"}, asks: []*fhAsk{{"p", "q", 's', 9}, {"q", "r", 'w', 9}, {"r", "m1", 'n', 1}}},
		{variant: "loose", calls: []string{"p", "~p", "~q", "~r", "p", "r"}, asks: []*fhAsk{{"p", "q", 'r', 9}, {"q", "r", 'r', 9}, {"r", "m0", 'r', 1}, {"r", "p", 'w', 9}}},
		// a required wire point names the component without definition: never creatable, never handed out
		{variant: "wmiss", calls: []string{"v", "~v", "~w", "w", "v", "m0"}},
		{variant: "wmiss", calls: []string{"v", "v", "~v", "~w"}, asks: []*fhAsk{{"v", "m1", 'w', 1}}},
	} {
		if h.fail == nil {
			h.fail = map[string]int{}
		}
		for _, n := range fhVariants[h.variant] {
			if _, ok := h.fail[n]; !ok {
				h.fail[n] = 0
			}
		}
		runFactoryHistory(h, []string{"corpus"}, w)
	}
}
