package main

// sub-harnesses `close` (C14) and `conc` (C20; meant to be built with -race).
//
//	close <n> <errmask> <seed>   real app with n closer components (delay 0-30 ms, error flag), Run, App.Close();
//	                             counters and completion flags sampled IMMEDIATELY after Close returns
//	                             observation  calls=1,1,… done=1,1,…   | hang | panic
//	closez <n> <errmask> <zmask> <seed>
//	closef <n> <errmask> <seed>          Close after a start that failed in an application runner
//	                             as `close`, but closer i (bit i of zmask; at most 8 bits) is a component of a ZERO-SIZE struct
//	                             type (a distinct field-less type per such closer: a stateless closer that releases a process-wide
//	                             resource). All such values share one address, so the container must not take the address of a
//	                             component for its identity. Their calls/returns are counted per TYPE in package-level counters.
//	                             observation as `close`
//	closew <n> <errmask> <fastmask> <seed>
//	                             n closer components that WAIT FOR EACH OTHER: a closer's Close() returns only when every one of
//	                             the n closers has been entered (closers in fastmask return at once, but count as entered). A
//	                             closer that has waited `closewGiveUp` (2 s) in vain gives up and returns. Every closer is slow
//	                             exactly as long as some peer has not been invoked, so "a slow closer never prevents the others
//	                             from being invoked" means: nobody has to give up.
//	                             observation  calls=1,1,… done=1,1,… gaveup=<closers that gave up>
//	closea <n> <errmask> <amask> <bmask> <tmask> <seed>
//	                             as `close`, but closer i (bit i of amask) is a component that is itself wired with the
//	                             application (`A *app.App \`wire:""\``: a shutdown hook that looks things up through the App), and
//	                             closer i (bit i of bmask) has a name that sorts BEFORE the App's own component name
//	                             `github.com/go-kid/ioc/app/App` (custom names through Naming(): `a-vc…`, `github.com/go-kid/ioc/app/A…`,
//	                             `Vc…`; the others `vc…`, `github.com/go-kid/ioc/app/App…`, `z-vc…`), so that it is created before
//	                             the App and the App — created inside it — collects a closer that is still in creation. tmask:
//	                             bits 0/1 add a closer of the type vATC0 / vATC1 (wired with the App, named by the container
//	                             after its TYPE, which sorts after the App), bits 2/3 add a component `a-pull0/1` that is wired
//	                             with that closer and pulls it in before the App. They are closers n, n+1 of the observation.
//	                             observation as `close` (n + number of type-named closers entries)
//	closed <n> <errmask> <pairs> <seed>
//	                             as `close`, plus components of DIFFERENT types that PRINT THE SAME (reflect.Type.String()):
//	                             pairs = tokens joined by `.`, a token = kind + order. Kinds: `p` dupa/conn.Conn (closer) and
//	                             dupb/conn.Conn (nothing to close), both `*conn.Conn`, named after their types; `n` the same
//	                             with conn.Pool, self-named; `l` two function-local types `conn` of this package (`*main.conn`),
//	                             one of which embeds a closer; `q` dupa/conn.Sess and dupb/conn.Sess, BOTH closers. Orders:
//	                             `c` the closer (for q: dupa) is registered before the other one, `x` after it — both in one
//	                             App; `s` / `t`: the pair is split over TWO Apps that are started and closed one after the
//	                             other in this process (`s` the closer's App first, `t` the other one's App first; the second
//	                             App has no further closers). Whatever the library remembers per type lives as long as the
//	                             process, and the harness process runs many scenarios.
//	                             observation  calls=… done=…  per App (joined by ` / `): the n ordinary closers, then the
//	                             closers of the pairs in token order
//	closel <n> <errmask> <rounds> <seed>
//	                             (C20) `close` under an OBSERVER of the closing phase: a user logger installed through the
//	                             library's logging hook (syslog.SetLogger / app.SetLogger) before the first App of the process
//	                             exists (always run in a fresh child process: the per-prefix loggers are cached process-wide);
//	                             it takes 100 µs per record like a file sink and counts completed error-level records. rounds
//	                             fresh Apps; read IMMEDIATELY after App.Close returned: the closers' counters and the number
//	                             of records; then, only if fewer records than failing closers were there, the harness waits
//	                             up to 300 ms for records that arrive AFTER the return.
//	                             observation  calls=… done=… reports=<records complete when Close returned>
//	closec <n> <errmask> <groups> <seed>
//	                             as `close`, plus groups of closers whose component NAMES DIFFER ONLY IN LETTER CASE. groups =
//	                             tokens joined by `.` (`-` = none), a token = kind + count (2-4) + order. Kinds: `n` closers of
//	                             one type that name themselves (Naming()) `orders` / `Orders` / `ORDERS` / `oRDERS`; `t` closers
//	                             of the types pool / Pool / POOL / pOOL of the package internal/kase, named by the container
//	                             after their types; `m` the type-named closer kase.Hub (`verifharness/internal/kase/Hub`) and
//	                             closers that name themselves `…/kase/hub`, `…/kase/HUB`, `…/kase/hUB`. Which spellings take
//	                             part is drawn from the seed; order `a`: registered in the drawn order, `d`: in the reverse
//	                             order (positions among the other components drawn from the seed). All these names are
//	                             different strings, every one of them is accepted as a registered component, every one of
//	                             them is a closer. errmask: bits 0..n-1 the ordinary closers, then the members of the groups in
//	                             token order, within a group in registration order.
//	                             observation as `close` (n + members of the groups entries)
//	closeb <n> <errmask> <rounds> <seed>
//	                             (C20) `close` under the library's BUILT-IN logger (no logger installed through SetLogger),
//	                             at the level at which a failing closer is reported, its output redirected to a scratch file
//	                             (os.Stderr swapped while syslog.Level(LvError) builds the logger; always run in a fresh child
//	                             process, before the first App of the process has logged). The failing closers (errmask) wait
//	                             for each other inside Close() and return their errors — each with its own long message — at
//	                             the same moment, so the goroutines of App.Close report them through the one cached
//	                             "Application" logger at once. First a shutdown in which ONE closer fails alone (how often its
//	                             message appears in the output is the reference), then <rounds> fresh Apps.
//	                             observation  calls=… done=… intact=<failing closers whose message stands in the output, whole,
//	                             as often as that of a closer failing alone>
//	cstart <hist> <nops> <sync> <trials> <r>x<m> <r>x<m> …
//	                             CONCURRENT starts of different Apps in one process (always in a fresh child process, because
//	                             app.Settings is process-global): first the app.Settings history `hist` (`1.1.1` = three calls
//	                             with one option each, `-` = none; every option is a no-op, with sync=1 the last one is a
//	                             rendezvous of the concurrently starting Apps with a 1 s give-up timer), then <trials> rounds: one
//	                             fresh App per token `<r>x<m>` with its OWN r runners and m eager components, all started at the
//	                             same moment, App i by Run(opts…) with nops = 1 | 2 | 3 separate options.
//	                             observation (of the first deviating round, else of the last)
//	                                st=<ok|err|panic|hang per App> runs=<invocations per runner, apps joined by /> early=<k> foreign=<k>
//	scan <n> <failmask> <seed>   real start with n components and a user DefinitionRegistryPostProcessor that fails
//	                             for the components in failmask, all at the same moment (barrier)
//	                             observation  errs=<number of component names in Run's error> | race | hang | panic
//	fstart <n> <kinds> <seed>    the FIRST container start of a fresh process: one dependency plus n components that carry
//	                             injection/configuration tags (kinds = bit set of the component shapes used: 0 wire by pointer +
//	                             optional wire, 1 value literals/placeholders with defaults, 2 logger, 3 wire by interface + slice);
//	                             many components share the same tag TEXT, so anything the scan derives from a tag text and shares
//	                             between components is written for the first time by several scan goroutines at once. Always run
//	                             in its own child process (process-wide state is cold exactly once per process).
//	                             observation  errs=0 | errs=? (start failed) | race | hang | panic
//	gmor <g> <trials>            forced concurrency on the definition registry: up to <trials> fresh
//	                             support.DefaultDefinitionRegistry(); g goroutines released together from a spinning barrier
//	                             all call GetMetaOrRegister(<one name>, <their own component>) — the load-or-store the
//	                             parallel definition scan is built on. After they have returned: the number of distinct
//	                             definitions handed out, how often GetMetas() lists the name, and whether every caller holds
//	                             the definition GetMetaByName returns.
//	                             observation  defs=<n> listed=<n> kept=<0|1>   (of the first deviating trial, else of the last)
//	gscan <n> <trials> <seed>    the same in situ: <trials> real starts with n components and a user
//	                             DefinitionRegistryPostProcessor that, for each of them, load-or-stores the definition of ONE
//	                             shared extra component (`vjournal`, contributed by the scanner, not registered by the user)
//	                             while the container scans the n components in parallel (the calls line up at a barrier).
//	                             observation  errs=<0|?> defs=<n> kept=<0|1>
//	lofn <digits>                forced schedule of two LoadOrStoreFn callers (value function blocks on a channel)
//	                             observation  t0=<v>,<loaded> t1=<v>,<loaded>
//	range <nk> <a>               forced schedule: after a visits of a Range another goroutine deletes every key
//	                             observation  seen=<pairs reported>
//	hist <init> <call>…          a RECORDED call/return history of sync2.Map / ConcurrentSets / GenericConcurrentSets
//	                             under 2-4 goroutines; observation lin | nonlin (own checker; the Lean driver
//	                             re-decides the same line with the model's checker). Set histories also record Length()
//	                             (`N`), and end with one QUIESCENT Length() taken after every goroutine has returned.
//	setlen <obj> <nk> <trials> <queue>…
//	                             forced concurrency on a set (obj cs = ConcurrentSets, gs = GenericConcurrentSets): up to
//	                             <trials> fresh sets holding the keys 1..nk; one goroutine per queue (`x<k>` Remove k, `p<k>`
//	                             Put k, joined by `.`), all released from a spinning barrier, typically several goroutines
//	                             removing the SAME present key; no key is both removed and put, so every schedule must end in
//	                             the same set. After all have returned: Length(), len(ToArray()), Exists of the keys 1..8.
//	                             observation  len=<n> arr=<n> has=<k.k…|->  (of the first deviating trial, else of the last)
//	plog <apps> <n> <nc> <first> <flags> <seed>
//	                             (C20) a HISTORY of <apps> Apps started and closed one after the other in ONE process (a fresh
//	                             race-detector child process), App i with its OWN recording logger L<i> installed through
//	                             app.SetLogger. Every App has n plain components, nc closers and a user
//	                             DefinitionRegistryPostProcessor. From App <first> on, the scanner (flags bit 0) writes one line
//	                             per scanned component and every closer (flags bit 1) one line inside Close(), all through the
//	                             SAME prefix logger syslog.Pref(<prefix of this scenario>) — the library's own idiom; the calls of
//	                             one phase line up at a barrier, so the first use of the prefix after the root logger has been
//	                             replaced comes from all goroutines of the parallel scan (or of the parallel Close) at once.
//	                             Observed per App and phase: which loggers received the lines (`+`-joined, `-` = nothing
//	                             written), whether each line written arrived exactly once, and the logger OBJECTS syslog.Pref
//	                             handed to the callers of that phase.
//	                             observation  scan=<t1>,<t2>,… close=<t1>,<t2>,… lines=<ok|lost|dup>
//	rdel <g> <rounds>            forced concurrency on sync2.Map.Range: a real sync2.Map[string,*entry] with two permanent
//	                             entries; one goroutine stores and deletes a THIRD key <rounds> times (a fresh entry each time),
//	                             g goroutines enumerate with Range all the while. Every pair a Range reports is checked.
//	                             observation  phantom=<pairs nobody stored> dup=<keys reported twice by one Range> missing=<permanent keys not reported>
//	closep <regs> <opts> <errmask> <seed>
//	                             (eighth round) a start through the PACKAGE-LEVEL entry points, always in a fresh child process
//	                             (ioc.Register appends to a package-level slice that is never cleared: every later ioc.Run of the
//	                             process sees it). regs = the numbers of closers handed to consecutive `ioc.Register(…)` calls,
//	                             joined by `.` (`-` = no call); then ONE `ioc.Run(app.SetConfigLoader(), <opts>…)`, opts = tokens
//	                             joined by `.` (`-` = none): `r` = `app.SetRegistry(support.NewRegistry())`, a number k =
//	                             `app.SetComponents(<k further closers>)`; every `r` stands before the first number (a registry
//	                             installed AFTER components of the same call were registered discards them by the documented
//	                             meaning of the option order — such lines are `bad-line`). Closers 0.. are the ones handed to
//	                             ioc.Register (in call order), then the ones of the call's own SetComponents options.
//	                             observation as `close` (all closers)
//	closek <n> <errmask> <kinds> <seed>
//	                             (eighth round) as `close`, but closer i is a component of the Go KIND kinds[i] (len(kinds) = n):
//	                             `s` pointer to a struct (the ordinary vCloser), `i` pointer to a named integer, `l` pointer to a
//	                             named slice, `c` a named channel (value receiver), `t` pointer to a named string, `m` pointer to
//	                             a named map — these name themselves (Naming()); `I` / `L` / `C`: the same three kinds named by the
//	                             container after their TYPE (at most one of each per line). Such values cannot carry fields: their
//	                             delay, error flag and call/return counters live in a per-start recorder keyed by the VALUE (the
//	                             pointer / the channel). Map- and func-kind components registered BY VALUE, and integers, arrays
//	                             and structs registered by value, panic on the unchanged library (uncomparable / reflect.Pointer
//	                             of a non-pointer): they are not generated.
//	                             observation as `close`
//	closeq <n> <errmask> <procs> <seed>, closeh <n> <errmask> <quals> <holders> <seed>, fdirect <n> <parts> <starts> <seed>
//	                             (ninth round) closers next to user post-processors that embed the documented default; closers next
//	                             to other components with an injection point of the closer interface type; the public factory driven
//	                             directly, without the App. Described where they are defined, at the end of this file.
//
// In `conc`, the scan/close cases run in a CHILD process (re-exec, hidden sub `concchild`) with
// GORACE="halt_on_error=1 exitcode=66": a race report whose stack mentions github.com/go-kid/ioc becomes the
// observation `race` and the oracle verdict `FAIL race <where>`.
//
// Oracles (on the real code's own observation, independent of the model):
//   close/closez: every counter = 1 and every completion flag set at return (close-not-all-once, close-hang)
//   closew: as close, and no closer had to give up waiting for its peers to be invoked           (close-slow-blocks-others)
//   closea/closed: as close — every REGISTERED closer component, whatever it is wired with, whatever its name, whatever its
//          type prints like: counter = 1 and completion flag set at return                        (close-not-all-once)
//   closec: as close — the registered closers are told apart by their exact names                   (close-not-all-once)
//   closep: as close — every closer handed to ioc.Register or to a SetComponents option of the ioc.Run call is a registered
//          closer of the App that ioc.Run returns                                                  (close-not-all-once)
//   closek: as close — a registered closer of any Go kind the library accepts                      (close-not-all-once)
//   closeb: as close; no race report; and what the concurrently failing closers' goroutines wrote through the built-in
//          logger is what they would have written one after the other: every failure message whole, as often as for a
//          closer that fails alone (two goroutines formatting into shared memory lose, double or mix lines)
//                                                                                  (race, close-log-garbled)
//   closel: as close, and the closing phase is over when Close returns: no record of a closer goroutine reaches the user's
//          logger after App.Close has returned (such a goroutine is still running, unordered with everything the caller does
//          next)                                                                                (close-report-after-return)
//   gmor/gscan: all callers of one load-or-store of a name hold the SAME definition, the one the registry keeps, listed
//          once                                                                   (getmeta-two-winners, scan-two-definitions)
//   cstart: per App, each of ITS runners was invoked exactly once per round (c13-conc-once), by the start of the App it is
//          registered with (c13-conc-foreign), and not before every component of that App was initialised (c13-conc-after-ready)
//   fstart: no race report, no hang/panic of the start                      (race, fstart-hang, fstart-panic)
//   scan:  Run fails iff some scanner failed, and its error names exactly the failing components (scan-errs-lost), no race
//   lofn:  not both callers loaded=false                                    (lofn-two-winners)
//   range/hist: linearizable w.r.t. the sequential map/set (Length = number of keys present); a history that is only
//          explained when the results of Range — and of Length calls that OVERLAP a Put/Remove: Length is
//          len(ToArray()), one Range — are ignored has the signature range-not-atomic (KNOWN FINDING KF-C20-1), any
//          other not-linearizable. A quiescent Length is never ignored.
//   plog:  no race report; all callers of syslog.Pref(p) of one parallel phase (nothing replaces the root logger inside a phase)
//          are handed ONE logger — the load-or-store of the prefix cache has one winner per key           (race, pref-two-loggers)
//          and every line written through it arrives exactly once                                        (pref-line-lost)
//          (WHICH logger that is — the current App's or the one of the App that first used the prefix — is an observation
//          compared with the model, not an oracle: the unchanged library keeps handing out the first one)
//   rdel / range / hist: every pair Range reports was stored under that key at some time (C20_range_regular)  (range-phantom-pair)
//          rdel: a key that is present during the whole Range is reported exactly once, no key twice      (range-key-missing, range-key-twice)
//   setlen: after the goroutines have returned, Length() = len(ToArray()) = the number of keys a sequential execution of
//          the same calls leaves, and Exists holds for exactly those keys            (set-length-drift, set-final-state)

import (
	"bytes"
	"errors"
	"fmt"
	"os"
	"os/exec"
	"runtime"
	"sort"
	"strconv"
	"strings"
	"sync"
	"sync/atomic"
	"time"

	"github.com/go-kid/ioc"
	"github.com/go-kid/ioc/app"
	"github.com/go-kid/ioc/component_definition"
	"github.com/go-kid/ioc/configure"
	"github.com/go-kid/ioc/container"
	"github.com/go-kid/ioc/container/factory"
	"github.com/go-kid/ioc/container/processors"
	"github.com/go-kid/ioc/container/support"
	"github.com/go-kid/ioc/definition"
	"github.com/go-kid/ioc/syslog"
	"github.com/go-kid/ioc/util/list"
	"github.com/go-kid/ioc/util/sync2"

	dupa "verifharness/internal/dupa/conn"
	dupb "verifharness/internal/dupb/conn"
	"verifharness/internal/kase"
	"verifharness/internal/hx"
)

func init() {
	register(&Sub{Name: "close", Gen: closeGen, Replay: concReplay, Corpus: closeCorpus})
	register(&Sub{Name: "conc", Gen: concGen, Replay: concReplay, Corpus: concCorpus})
	register(&Sub{Name: "cstart", Gen: cstartGen, Replay: concReplay, Corpus: cstartCorpus})
	register(&Sub{Name: "concchild", Gen: func(*hx.Rng, int, string, *hx.Writer) {}, Replay: concChildReplay})
}

var quietOnce sync.Once

func concQuiet() { quietOnce.Do(func() { syslog.Level(syslog.LvFatal) }) }

// ---------------------------------------------------------------- components

type vCloser struct {
	N     string
	delay time.Duration
	fail  bool
	calls int32
	done  int32
}

func (c *vCloser) Naming() string { return c.N }
func (c *vCloser) Close() error {
	atomic.AddInt32(&c.calls, 1)
	if c.delay > 0 {
		time.Sleep(c.delay)
	}
	atomic.StoreInt32(&c.done, 1)
	if c.fail {
		return errors.New("close failed")
	}
	return nil
}

type vPlain struct{ N string }

func (p *vPlain) Naming() string { return p.N }

// vScanner fails for the chosen component names; the failing invocations wait for each other so that they fail together.
type vScanner struct {
	failNames map[string]bool
	k         int32
	arrived   int32
	gate      chan struct{}
	seen      sync.Map // name -> *int32: invocations per component
}

func (s *vScanner) Naming() string { return "vscanner" }
func (s *vScanner) PostProcessDefinitionRegistry(registry container.DefinitionRegistry, component any, name string) error {
	c, _ := s.seen.LoadOrStore(name, new(int32))
	atomic.AddInt32(c.(*int32), 1)
	if !s.failNames[name] {
		return nil
	}
	if atomic.AddInt32(&s.arrived, 1) == s.k {
		close(s.gate)
	}
	select {
	case <-s.gate:
	case <-time.After(300 * time.Millisecond):
	}
	return errors.New("SCANFAIL")
}

func bit(mask uint64, i int) bool { return i < 64 && mask>>uint(i)&1 == 1 }

// withWatchdog runs f; reports a panic or a hang as an outcome.
func withWatchdog(d time.Duration, f func()) string {
	if concHangs >= 3 && d > 2*time.Second {
		d = 2 * time.Second
	}
	ch := make(chan any, 1)
	go func() {
		ch <- hx.Guard(f)
	}()
	select {
	case p := <-ch:
		if p != nil {
			return "panic"
		}
		return ""
	case <-time.After(d):
		concHangs++
		if concHangs > 3 {
			// every further hang costs the full watchdog and leaks goroutines; three witnesses were already reported.
			// From now on the watchdog is short (a hanging start hangs at once, not after seconds).
			return "hang"
		}
		return "hang"
	}
}

var concHangs int

// ---------------------------------------------------------------- close

func runClose(n int, mask, seed uint64, maxDelayMs int) hx.Case {
	return runCloseZ(n, mask, 0, seed, maxDelayMs)
}

// ---- zero-size closers: values of field-less struct types cannot carry state (and all share one address), so the delay,
// the error flag and the call/return counters live in package-level tables indexed by the TYPE.

const zcMax = 8

var zcTab struct {
	delay       [zcMax]time.Duration
	fail        [zcMax]bool
	calls, done [zcMax]int32
}

func zcClose(i int) error {
	atomic.AddInt32(&zcTab.calls[i], 1)
	if d := zcTab.delay[i]; d > 0 {
		time.Sleep(d)
	}
	atomic.AddInt32(&zcTab.done[i], 1)
	if zcTab.fail[i] {
		return errors.New("close failed")
	}
	return nil
}

type (
	vZC0 struct{}
	vZC1 struct{}
	vZC2 struct{}
	vZC3 struct{}
	vZC4 struct{}
	vZC5 struct{}
	vZC6 struct{}
	vZC7 struct{}
)

func (*vZC0) Close() error { return zcClose(0) }
func (*vZC1) Close() error { return zcClose(1) }
func (*vZC2) Close() error { return zcClose(2) }
func (*vZC3) Close() error { return zcClose(3) }
func (*vZC4) Close() error { return zcClose(4) }
func (*vZC5) Close() error { return zcClose(5) }
func (*vZC6) Close() error { return zcClose(6) }
func (*vZC7) Close() error { return zcClose(7) }

// half of them name themselves, the others are named by the container after their type
func (*vZC0) Naming() string { return "vzc0" }
func (*vZC2) Naming() string { return "vzc2" }
func (*vZC4) Naming() string { return "vzc4" }
func (*vZC6) Naming() string { return "vzc6" }

func newZC(i int) any {
	switch i {
	case 0:
		return &vZC0{}
	case 1:
		return &vZC1{}
	case 2:
		return &vZC2{}
	case 3:
		return &vZC3{}
	case 4:
		return &vZC4{}
	case 5:
		return &vZC5{}
	case 6:
		return &vZC6{}
	}
	return &vZC7{}
}

// runCloseZ: n closer components; closer i is of a zero-size type iff bit i of zmask (only the first zcMax set bits count).
// vFailRunner: an application runner that fails, so that Run returns an error AFTER every closer was created and wired
type vFailRunner struct{}

func (*vFailRunner) Naming() string { return "vfailrunner" }
func (*vFailRunner) Run() error     { return errors.New("runner failed") }

func runCloseZ(n int, mask, zmask, seed uint64, maxDelayMs int) hx.Case {
	return runCloseG(n, mask, zmask, seed, maxDelayMs, false)
}

// runCloseG: `failedRun` = the start ends with a runner error before Close is called (scenario `closef`): the closers were
// registered, created and wired during refresh, so Close still has to close every one of them exactly once
func runCloseG(n int, mask, zmask, seed uint64, maxDelayMs int, failedRun bool) hx.Case {
	concQuiet()
	scn := fmt.Sprintf("close %d %d %d", n, mask, seed)
	if zmask != 0 {
		scn = fmt.Sprintf("closez %d %d %d %d", n, mask, zmask, seed)
	}
	if failedRun {
		scn = fmt.Sprintf("closef %d %d %d", n, mask, seed)
	}
	rng := hx.NewRng(seed ^ 0xC105E)
	closers := make([]*vCloser, n) // nil for the zero-size ones
	ztype := make([]int, n)        // index of the zero-size type, -1 for an ordinary closer
	comps := make([]any, 0, n)
	nfail, nz := 0, 0
	zcTab.delay, zcTab.fail = [zcMax]time.Duration{}, [zcMax]bool{}
	for i := 0; i < zcMax; i++ {
		atomic.StoreInt32(&zcTab.calls[i], 0)
		atomic.StoreInt32(&zcTab.done[i], 0)
	}
	for i := 0; i < n; i++ {
		d := time.Duration(0)
		if maxDelayMs > 0 && rng.P(1, 2) {
			d = time.Duration(rng.Intn(maxDelayMs*1000+1)) * time.Microsecond
		}
		if bit(mask, i) {
			nfail++
		}
		if bit(zmask, i) && nz < zcMax {
			ztype[i] = nz
			zcTab.delay[nz], zcTab.fail[nz] = d, bit(mask, i)
			comps = append(comps, newZC(nz))
			nz++
			continue
		}
		ztype[i] = -1
		closers[i] = &vCloser{N: fmt.Sprintf("vc%03d", i), delay: d, fail: bit(mask, i)}
		comps = append(comps, closers[i])
	}
	tags := []string{"close", fmt.Sprintf("closers=%s", bucket(n)), fmt.Sprintf("failing=%s", bucket(nfail))}
	if zmask != 0 {
		tags = append(tags, fmt.Sprintf("zero-size-closers=%s", bucket(nz)))
	}
	if n == 0 {
		tags = append(tags, "trivial")
	}
	a := app.NewApp()
	var err error
	if failedRun {
		comps = append(comps, &vFailRunner{})
		tags = append(tags, "after-failed-run")
	}
	if out := withWatchdog(20*time.Second, func() { err = a.Run(app.SetComponents(comps...), app.SetConfigLoader()) }); out != "" || (err != nil) != failedRun {
		return hx.Case{Scn: scn, Obs: "run-" + out + "-failed", Oracle: "FAIL close-run-failed " + fmt.Sprint(err), Tags: tags}
	}
	calls := make([]int32, n)
	done := make([]int32, n)
	out := withWatchdog(10*time.Second, func() {
		a.Close()
		for i, c := range closers { // sampled immediately after Close returned
			if c == nil {
				calls[i] = atomic.LoadInt32(&zcTab.calls[ztype[i]])
				done[i] = atomic.LoadInt32(&zcTab.done[ztype[i]])
				continue
			}
			calls[i] = atomic.LoadInt32(&c.calls)
			done[i] = atomic.LoadInt32(&c.done)
		}
	})
	if out != "" {
		return hx.Case{Scn: scn, Obs: out, Oracle: "FAIL close-" + out + " App.Close did not return normally", Tags: tags}
	}
	var cs, ds []string
	oracle := ""
	for i := 0; i < n; i++ {
		cs = append(cs, strconv.Itoa(int(calls[i])))
		ds = append(ds, strconv.Itoa(int(done[i])))
		if (calls[i] != 1 || done[i] != 1) && oracle == "" {
			what := ""
			if ztype[i] >= 0 {
				what = fmt.Sprintf(" (zero-size type vZC%d)", ztype[i])
			}
			oracle = fmt.Sprintf("FAIL close-not-all-once closer %d of %d%s: calls=%d returned=%d when App.Close returned", i, n, what, calls[i], done[i])
		}
	}
	return hx.Case{Scn: scn, Obs: "calls=" + strings.Join(cs, ",") + " done=" + strings.Join(ds, ","), Oracle: oracle, Tags: tags}
}

func bucket(n int) string {
	switch {
	case n == 0:
		return "0"
	case n == 1:
		return "1"
	case n <= 4:
		return "2-4"
	case n <= 16:
		return "5-16"
	default:
		return "17+"
	}
}

func closeCorpus(w *hx.Writer) {
	w.Put(runClose(0, 0, 1, 0))
	w.Put(runClose(1, 1, 2, 5))
	w.Put(runClose(3, 2, 3, 30))     // the failing one in the middle, slow ones around
	w.Put(runClose(16, 0xFFFF, 4, 5)) // everyone fails
	w.Put(runCloseZ(3, 0, 7, 5, 5))      // three stateless closers of three field-less types (one address, three components)
	w.Put(runCloseZ(6, 0x24, 0x2A, 6, 30)) // zero-size and ordinary closers mixed, one failing of each sort
	w.Put(runCloseZ(8, 0xFF, 0xFF, 7, 0)) // eight zero-size closers, all failing, no delays
	w.Put(runCloseG(3, 2, 0, 8, 5, true))  // Close after a start that failed in a runner: the closers exist and are closed
	w.Put(runCloseG(1, 0, 0, 9, 0, true))
	w.Put(runCloseW(17, 0, 0, 10))              // one more closer than a pool of 16 would run at once; all wait for each other
	w.Put(runCloseW(40, 0x8421084210, 0, 11))   // every 5th fails (after having waited)
	w.Put(runCloseW(33, 1<<32, 0x0F0F0F0F, 12)) // the last one fails; 16 fast ones in between
	w.Put(runCloseW(3, 2, 0, 13))
	// closers that are wired with the App: one hook created before the App (custom name `a-vc000`), alone and among others;
	// the same hook created after the App; wired closers on both sides of the App's name, some failing; type-named wired
	// closers, pulled in early by `a-pull…` or not
	w.Put(runCloseA(1, 0, 1, 1, 0, 14, 5))
	w.Put(runCloseA(1, 0, 1, 0, 0, 15, 5))
	w.Put(runCloseA(8, 0x24, 0x0F, 0x33, 0, 16, 10))
	w.Put(runCloseA(6, 0x41, 0x3F, 0x3F, 0, 17, 10))
	w.Put(runCloseA(3, 0, 0, 7, 0, 18, 5)) // early names, nobody wired
	w.Put(runCloseA(2, 4, 2, 2, 0xF, 19, 5))
	w.Put(runCloseA(0, 0, 0, 0, 5, 20, 0))
	w.Put(runCloseA(4, 0, 0xF, 0, 3, 21, 5)) // everybody wired, everybody after the App
	// different types that print the same, exactly one of them a closer: both registration orders, alone and among other
	// closers, split over two consecutive Apps of this process, every kind of pair at once
	w.Put(runCloseD(0, 0, "pc", 22, 0))
	w.Put(runCloseD(0, 0, "px", 23, 0))
	w.Put(runCloseD(5, 2, "nc", 24, 10))
	w.Put(runCloseD(5, 9, "nx", 25, 10))
	w.Put(runCloseD(3, 0, "lc", 26, 5))
	w.Put(runCloseD(3, 0, "lx", 27, 5))
	w.Put(runCloseD(2, 0, "qc", 28, 5))
	w.Put(runCloseD(2, 1, "pt", 29, 5))
	w.Put(runCloseD(2, 2, "ns", 30, 5))
	w.Put(runCloseD(1, 0, "lt.qs", 31, 5))
	w.Put(runCloseD(6, 0x15, "px.nc.lx.qx", 32, 10))
	w.Put(runCloseD(4, 0, "-", 33, 5))
	// closers whose names differ only in letter case: two self-named ones alone, in both registration orders; two types of one
	// spelling; the type-named Hub and a self-named `…/kase/hub`; four spellings among other closers; every kind at once
	w.Put(runCloseC(0, 0, "n2a", 34, 0))
	w.Put(runCloseC(0, 0, "n2d", 35, 0))
	w.Put(runCloseC(0, 0, "t2a", 36, 0))
	w.Put(runCloseC(0, 0, "t2d", 37, 0))
	w.Put(runCloseC(2, 0, "m2a", 38, 5))
	w.Put(runCloseC(2, 4, "m2d", 39, 5))
	w.Put(runCloseC(5, 0x1A5, "n4a", 40, 10))
	w.Put(runCloseC(3, 0, "t4d", 41, 10))
	w.Put(runCloseC(4, 0x7FF, "n3d.t2a.m2a", 42, 10))
	w.Put(runCloseC(6, 0x09, "-", 43, 5))
	// eighth round. Closers of other Go kinds: a pointer to a named integer (slow), a pointer to a named slice (fails), a named
	// channel (slow and fails) next to a struct closer; every kind at once, self-named and type-named; nobody a struct; control
	w.Put(runCloseK(4, 0x0C, "silc", 44, 30))
	w.Put(runCloseK(9, 0x92, "silctmILC", 45, 10))
	w.Put(runCloseK(6, 0x3F, "iilccm", 46, 5))
	w.Put(runCloseK(1, 0, "C", 47, 0))
	w.Put(runCloseK(3, 2, "sss", 48, 5))
	// starts through ioc.Register + ioc.Run (a fresh child process each): two registered closers + a registry of the call's own +
	// two more closers in the call; registered ones only; three Register calls; controls without SetRegistry / without Register
	runInChild([]string{"closep 2 r.2 10 49"}, w)
	runInChild([]string{"closep 1 r 0 50"}, w)
	runInChild([]string{"closep 2.1.3 r.r.1.2 257 51"}, w)
	runInChild([]string{"closep 2.2 2 5 52"}, w)
	runInChild([]string{"closep - r.3 2 53"}, w)
	runInChild([]string{"closep 4 - 15 54"}, w)
	// ninth round. User post-processors that keep the default PostProcessAfterInstantiation (false): an Ordered one in front of
	// the built-in dependency processor, a PriorityOrdered one, one at the dependency processor's own order next to one that
	// answers true, an unordered one (sorted last), several at once; control without processors
	w.Put(runCloseQ(6, 0x2A, "o1d", 55, 10))
	w.Put(runCloseQ(6, 0, "p3d.u0t", 56, 10))
	w.Put(runCloseQ(3, 0, "o3d.o4t.p0t", 57, 5))
	w.Put(runCloseQ(4, 0xF, "u0d", 58, 5))
	w.Put(runCloseQ(8, 0x81, "p0d.o0d.u0d.o9d", 59, 10))
	w.Put(runCloseQ(1, 0, "o2t", 60, 0))
	w.Put(runCloseQ(5, 4, "-", 61, 5))
	// other components with an injection point of the closer interface type: a `qualifier=db` slice populated before the App
	// (two of six closers qualify, not the first two); three holders at once; single-valued holders; a holder populated after
	// the App; every closer qualifies; control without holders
	w.Put(runCloseH(6, 0x12, "ssdssd", "ldb", 62, 10))
	w.Put(runCloseH(6, 0, "dmsdms", "ldb.omb.lna", 63, 10))
	w.Put(runCloseH(8, 0x0F, "smsdsmsd", "lmb.ldb", 64, 10))
	w.Put(runCloseH(5, 3, "sssss", "onb.lnb", 65, 5))
	w.Put(runCloseH(7, 0x40, "sdsdsds", "odb", 66, 5))
	w.Put(runCloseH(6, 0, "ssdssd", "lda", 67, 5))
	w.Put(runCloseH(4, 0, "dddd", "ldb", 68, 5))
	w.Put(runCloseH(3, 1, "sdm", "-", 69, 5))
}

func closeGen(rng *hx.Rng, n int, tier string, w *hx.Writer) {
	for i := 0; i < n; i++ {
		r := rng.Fork()
		if i%8 == 3 {
			// every 8th case (the other cases draw exactly what they drew before this kind existed):
			// closers that wait for each other: 17..48 of them (sometimes 1..16), all slow at the same moment
			rw := r
			nc := 17 + rw.Intn(32)
			if rw.P(1, 5) {
				nc = 1 + rw.Intn(16)
			}
			all := uint64(1)<<uint(nc) - 1
			var mask, fast uint64
			switch rw.Intn(3) {
			case 1:
				mask = all
			case 2:
				mask = rw.U64() & all
			}
			if rw.P(1, 3) {
				fast = rw.U64() & rw.U64() & all // about a quarter of them return at once
			}
			w.Put(runCloseW(nc, mask, fast, rw.U64()%1000000))
			continue
		}
		nc := r.Intn(17)
		if r.P(1, 4) {
			nc = 17 + r.Intn(46) // beyond any plausible worker-pool size
		}
		var mask uint64
		switch r.Intn(4) {
		case 0:
		case 1:
			mask = (1 << uint(nc)) - 1
		default:
			mask = r.U64() & ((1 << uint(nc)) - 1)
		}
		sd := r.U64() % 1000000
		// a third of the cases: some of the closers are stateless values of distinct zero-size types
		var zmask uint64
		if nc > 0 && r.P(1, 3) {
			k := 2 + r.Intn(zcMax-1)
			if r.P(1, 6) {
				k = 1
			}
			if k > nc {
				k = nc
			}
			for _, j := range r.Perm(nc)[:k] {
				if j < 64 {
					zmask |= 1 << uint(j)
				}
			}
		}
		if zmask == 0 && r.P(1, 6) {
			w.Put(runCloseG(nc, mask, 0, sd, 30, true))
			continue
		}
		w.Put(runCloseZ(nc, mask, zmask, sd, 30))
	}
	// two further kinds, appended (so the cases above are the ones they were before these kinds existed): n/8 cases each of
	// closers that are wired with the App and of component types that print the same
	for i := 0; i < n/8; i++ {
		w.Put(genCloseA(rng.Fork()))
		w.Put(genCloseD(rng.Fork()))
	}
	// a further kind, appended: n/8 cases of closers whose names differ only in letter case
	for i := 0; i < n/8; i++ {
		w.Put(genCloseC(rng.Fork()))
	}
	// eighth round, appended: n/8 cases of closers of other Go kinds than (pointer to) struct, and n/10 starts through the
	// package-level entry points ioc.Register + ioc.Run, each in a fresh child process of its own
	for i := 0; i < n/8; i++ {
		w.Put(genCloseK(rng.Fork()))
	}
	for i := 0; i < n/10; i++ {
		runInChild([]string{genClosePLine(rng.Fork())}, w)
	}
	// ninth round, appended: n/8 cases each of closers next to user post-processors that embed the documented default, and of
	// closers next to other components that have an injection point of the closer interface type (with / without qualifier)
	for i := 0; i < n/8; i++ {
		w.Put(genCloseQ(rng.Fork()))
		w.Put(genCloseH(rng.Fork()))
	}
}

// ---------------------------------------------------------------- closew: closers that wait for each other

// closewGiveUp: how long a closer waits for its peers to be invoked before it gives up. On a library that invokes every
// closer concurrently nobody ever waits longer than it takes to schedule n goroutines; the timer only matters when the
// library holds some closers back until others have returned. After two scenarios in which closers had to give up the
// timer is shortened (the finding is already established; every further witness would cost seconds).
var closewGiveUps int32

func closewGiveUp() time.Duration {
	if atomic.LoadInt32(&closewGiveUps) >= 2 {
		return 150 * time.Millisecond
	}
	return 2 * time.Second
}

type closeMeet struct {
	n       int32
	entered int32 // closers whose Close has been entered (each counted once)
	gate    chan struct{}
	giveUp  time.Duration
	minSeen int32 // smallest `entered` seen by a closer at the moment it gave up
}

type vWCloser struct {
	N          string
	fail, fast bool
	meet       *closeMeet
	calls      int32
	done       int32
	gaveUp     int32
}

func (c *vWCloser) Naming() string { return c.N }
func (c *vWCloser) Close() error {
	if atomic.AddInt32(&c.calls, 1) == 1 {
		if atomic.AddInt32(&c.meet.entered, 1) == c.meet.n {
			close(c.meet.gate) // the last one in releases everybody
		}
	}
	if !c.fast {
		t := time.NewTimer(c.meet.giveUp)
		select {
		case <-c.meet.gate:
			t.Stop()
		case <-t.C:
			atomic.StoreInt32(&c.gaveUp, 1)
			for {
				e, m := atomic.LoadInt32(&c.meet.entered), atomic.LoadInt32(&c.meet.minSeen)
				if e >= m || atomic.CompareAndSwapInt32(&c.meet.minSeen, m, e) {
					break
				}
			}
		}
	}
	atomic.StoreInt32(&c.done, 1)
	if c.fail {
		return errors.New("close failed")
	}
	return nil
}

// runCloseW: see the header (`closew`).
func runCloseW(n int, mask, fastmask, seed uint64) hx.Case {
	concQuiet()
	scn := fmt.Sprintf("closew %d %d %d %d", n, mask, fastmask, seed)
	if n < 0 || n > 62 {
		return hx.Case{Scn: scn, Obs: "bad-line", Oracle: "FAIL bad-line"}
	}
	meet := &closeMeet{n: int32(n), gate: make(chan struct{}), giveUp: closewGiveUp(), minSeen: int32(n)}
	closers := make([]*vWCloser, n)
	comps := make([]any, 0, n)
	nfail, nslow := 0, 0
	for i := range closers {
		closers[i] = &vWCloser{N: fmt.Sprintf("vw%03d", i), fail: bit(mask, i), fast: bit(fastmask, i), meet: meet}
		comps = append(comps, closers[i])
		if closers[i].fail {
			nfail++
		}
		if !closers[i].fast {
			nslow++
		}
	}
	tags := []string{"close", "closers-wait-for-each-other", fmt.Sprintf("closers=%s", bucket(n)), fmt.Sprintf("failing=%s", bucket(nfail)),
		fmt.Sprintf("slow-together=%s", bucket(nslow))}
	if n < 2 {
		tags = append(tags, "trivial")
	}
	a := app.NewApp()
	var err error
	if out := withWatchdog(20*time.Second, func() { err = a.Run(app.SetComponents(comps...), app.SetConfigLoader()) }); out != "" || err != nil {
		return hx.Case{Scn: scn, Obs: "run-" + out + "-failed", Oracle: "FAIL close-run-failed " + fmt.Sprint(err), Tags: tags}
	}
	calls := make([]int32, n)
	done := make([]int32, n)
	out := withWatchdog(15*time.Second, func() {
		a.Close()
		for i, c := range closers { // sampled immediately after Close returned
			calls[i] = atomic.LoadInt32(&c.calls)
			done[i] = atomic.LoadInt32(&c.done)
		}
	})
	if out != "" {
		return hx.Case{Scn: scn, Obs: out, Oracle: "FAIL close-" + out + " App.Close did not return normally", Tags: tags}
	}
	var cs, ds []string
	oracle := ""
	gave := 0
	for i, c := range closers {
		cs = append(cs, strconv.Itoa(int(calls[i])))
		ds = append(ds, strconv.Itoa(int(done[i])))
		if (calls[i] != 1 || done[i] != 1) && oracle == "" {
			oracle = fmt.Sprintf("FAIL close-not-all-once closer %d of %d: calls=%d returned=%d when App.Close returned", i, n, calls[i], done[i])
		}
		if atomic.LoadInt32(&c.gaveUp) != 0 {
			gave++
		}
	}
	if gave > 0 {
		atomic.AddInt32(&closewGiveUps, 1)
		if oracle == "" {
			oracle = fmt.Sprintf("FAIL close-slow-blocks-others %d of %d closers were still inside Close() after %v and only %d of the %d closers had been invoked: "+
				"the closers that had not returned kept the others from being invoked", gave, n, meet.giveUp, atomic.LoadInt32(&meet.minSeen), n)
		}
	}
	return hx.Case{Scn: scn, Obs: "calls=" + strings.Join(cs, ",") + " done=" + strings.Join(ds, ",") + fmt.Sprintf(" gaveup=%d", gave), Oracle: oracle, Tags: tags}
}

// ---------------------------------------------------------------- closea: closers that are themselves wired with the App

// vACloser: a closer component with an injection point of the type *app.App (a shutdown hook that reaches other components
// through the application). When its name sorts before the App's, Refresh creates it first, the App is created INSIDE its
// population, and the App's own `CloserComponents []definition.CloserComponent` point has to collect a closer that is still
// in creation (an early reference).
type vACloser struct {
	N     string
	A     *app.App `wire:""`
	delay time.Duration
	fail  bool
	calls int32
	done  int32
}

func (c *vACloser) Naming() string { return c.N }
func (c *vACloser) Close() error {
	atomic.AddInt32(&c.calls, 1)
	if c.delay > 0 {
		time.Sleep(c.delay)
	}
	atomic.StoreInt32(&c.done, 1)
	if c.fail {
		return errors.New("close failed")
	}
	return nil
}

type vATState struct {
	delay       time.Duration
	fail        bool
	calls, done int32
}

func (s *vATState) close() error {
	atomic.AddInt32(&s.calls, 1)
	if s.delay > 0 {
		time.Sleep(s.delay)
	}
	atomic.StoreInt32(&s.done, 1)
	if s.fail {
		return errors.New("close failed")
	}
	return nil
}

// vATC0 / vATC1: closers wired with the App that are named by the container after their type (`main/vATC0`: sorts after the
// App); vAPull0 / vAPull1 are ordinary components with an early name that are wired with them and so pull them in first.
type vATC0 struct {
	A  *app.App `wire:""`
	st *vATState
}
type vATC1 struct {
	A  *app.App `wire:""`
	st *vATState
}

func (c *vATC0) Close() error { return c.st.close() }
func (c *vATC1) Close() error { return c.st.close() }

type vAPull0 struct {
	N string
	C *vATC0 `wire:""`
}
type vAPull1 struct {
	N string
	C *vATC1 `wire:""`
}

func (p *vAPull0) Naming() string { return p.N }
func (p *vAPull1) Naming() string { return p.N }

// closeaName: a custom component name before (`before`) or after the App's own name github.com/go-kid/ioc/app/App
func closeaName(i int, before bool) string {
	if before {
		return fmt.Sprintf([]string{"a-vc%03d", "github.com/go-kid/ioc/app/A%03d", "Vc%03d"}[i%3], i)
	}
	return fmt.Sprintf([]string{"vc%03d", "github.com/go-kid/ioc/app/App%03d", "z-vc%03d"}[i%3], i)
}

// closeSampler reads one closer's invocation counter and completion flag
type closeSampler func() (calls, done int32)

// closeAndSample: App.Close() under the watchdog; every counter is sampled IMMEDIATELY after Close returned. The verdict is
// the exactly-once oracle of `close`: every registered closer invoked once and returned.
func closeAndSample(a *app.App, samplers []closeSampler, what func(i int) string, atReturn ...func()) (obs, oracle, out string) {
	n := len(samplers)
	calls := make([]int32, n)
	done := make([]int32, n)
	out = withWatchdog(10*time.Second, func() {
		a.Close()
		for _, f := range atReturn {
			f()
		}
		for i, s := range samplers {
			calls[i], done[i] = s()
		}
	})
	if out != "" {
		return out, "FAIL close-" + out + " App.Close did not return normally", out
	}
	var cs, ds []string
	for i := 0; i < n; i++ {
		cs = append(cs, strconv.Itoa(int(calls[i])))
		ds = append(ds, strconv.Itoa(int(done[i])))
		if (calls[i] != 1 || done[i] != 1) && oracle == "" {
			oracle = fmt.Sprintf("FAIL close-not-all-once closer %d of %d (%s): calls=%d returned=%d when App.Close returned", i, n, what(i), calls[i], done[i])
		}
	}
	return "calls=" + strings.Join(cs, ",") + " done=" + strings.Join(ds, ","), oracle, ""
}

// runCloseA: see the header (`closea`).
func runCloseA(n int, mask, amask, bmask, tmask, seed uint64, maxDelayMs int) hx.Case {
	concQuiet()
	scn := fmt.Sprintf("closea %d %d %d %d %d %d", n, mask, amask, bmask, tmask, seed)
	if n < 0 || n > 60 || tmask > 15 || (n < 64 && (mask>>uint(n+2) != 0 || amask>>uint(n) != 0 || bmask>>uint(n) != 0)) {
		return hx.Case{Scn: scn, Obs: "bad-line", Oracle: "FAIL bad-line"}
	}
	rng := hx.NewRng(seed ^ 0xC105EA)
	delay := func() time.Duration {
		if maxDelayMs > 0 && rng.P(1, 2) {
			return time.Duration(rng.Intn(maxDelayMs*1000+1)) * time.Microsecond
		}
		return 0
	}
	var comps []any
	var samplers []closeSampler
	var names []string
	nfail, nwired, nearly := 0, 0, 0
	for i := 0; i < n; i++ {
		name := closeaName(i, bit(bmask, i))
		names = append(names, name)
		if bit(mask, i) {
			nfail++
		}
		if bit(amask, i) {
			c := &vACloser{N: name, delay: delay(), fail: bit(mask, i)}
			comps = append(comps, c)
			samplers = append(samplers, func() (int32, int32) { return atomic.LoadInt32(&c.calls), atomic.LoadInt32(&c.done) })
			nwired++
			if bit(bmask, i) {
				nearly++
			}
			continue
		}
		c := &vCloser{N: name, delay: delay(), fail: bit(mask, i)}
		comps = append(comps, c)
		samplers = append(samplers, func() (int32, int32) { return atomic.LoadInt32(&c.calls), atomic.LoadInt32(&c.done) })
	}
	// the type-named closers (entries n, n+1 of the observation) and the components that pull them in early
	k := n
	for t := 0; t < 2; t++ {
		if !bit(tmask, t) {
			continue
		}
		st := &vATState{delay: delay(), fail: bit(mask, k)}
		if st.fail {
			nfail++
		}
		nwired++
		pulled := bit(tmask, 2+t)
		if pulled {
			nearly++
		}
		if t == 0 {
			c := &vATC0{st: st}
			comps = append(comps, c)
			if pulled {
				comps = append(comps, &vAPull0{N: "a-pull0", C: nil})
			}
			names = append(names, "type-named vATC0")
		} else {
			c := &vATC1{st: st}
			comps = append(comps, c)
			if pulled {
				comps = append(comps, &vAPull1{N: "a-pull1", C: nil})
			}
			names = append(names, "type-named vATC1")
		}
		samplers = append(samplers, func() (int32, int32) { return atomic.LoadInt32(&st.calls), atomic.LoadInt32(&st.done) })
		k++
	}
	// registration order is part of the input: a rotation chosen from the seed
	if len(comps) > 1 {
		r := rng.Intn(len(comps))
		comps = append(append([]any{}, comps[r:]...), comps[:r]...)
	}
	tags := []string{"close", "closers-wired-with-the-app", fmt.Sprintf("closers=%s", bucket(k)), fmt.Sprintf("failing=%s", bucket(nfail)),
		fmt.Sprintf("wired-with-app=%s", bucket(nwired)), fmt.Sprintf("wired-and-created-before-app=%s", bucket(nearly))}
	if nearly == 0 {
		tags = append(tags, "trivial")
	}
	a := app.NewApp()
	var err error
	if out := withWatchdog(20*time.Second, func() { err = a.Run(app.SetComponents(comps...), app.SetConfigLoader()) }); out != "" || err != nil {
		return hx.Case{Scn: scn, Obs: "run-" + out + "-failed", Oracle: "FAIL close-run-failed " + fmt.Sprint(err), Tags: tags}
	}
	obs, oracle, _ := closeAndSample(a, samplers, func(i int) string {
		w := ""
		if i >= n || bit(amask, i) {
			w = ", wired with the *app.App"
		}
		return fmt.Sprintf("component %q%s", names[i], w)
	})
	return hx.Case{Scn: scn, Obs: obs, Oracle: oracle, Tags: tags}
}

// ---------------------------------------------------------------- closed: different types that print the same

type dupBase struct {
	name        string
	calls, done int32
}

func (b *dupBase) Naming() string { return b.name }
func (b *dupBase) Close() error {
	atomic.AddInt32(&b.calls, 1)
	time.Sleep(200 * time.Microsecond)
	atomic.StoreInt32(&b.done, 1)
	return nil
}

type dupPlain struct{ name string }

func (p *dupPlain) Naming() string { return p.name }

// two function-local types of one name: both print as `*main.conn`; the first is a closer (it embeds one), the second is not
func newLocalCloser(name string) (any, *dupBase) {
	type conn struct{ *dupBase }
	b := &dupBase{name: name}
	return &conn{b}, b
}

func newLocalPlain(name string) any {
	type conn struct{ *dupPlain }
	return &conn{&dupPlain{name}}
}

type dupTok struct{ kind, order byte }

func parseDupPairs(s string) ([]dupTok, bool) {
	if s == "-" {
		return nil, true
	}
	var out []dupTok
	seen := map[byte]bool{}
	for _, t := range strings.Split(s, ".") {
		if len(t) != 2 || !strings.ContainsRune("pnlq", rune(t[0])) || !strings.ContainsRune("cxst", rune(t[1])) || seen[t[0]] {
			return nil, false
		}
		seen[t[0]] = true
		out = append(out, dupTok{t[0], t[1]})
	}
	return out, len(out) > 0
}

// dupMember: one component of a pair; sample == nil: it has nothing to close
type dupMember struct {
	comp   any
	sample closeSampler
	what   string
}

// dupPair builds the two members of a pair: the closer (for `q`: dupa's closer) and the other one
func dupPair(kind byte) (closer, other dupMember) {
	switch kind {
	case 'p':
		st := &dupa.State{}
		return dupMember{&dupa.Conn{St: st}, st.Sample, "dupa/conn.Conn (prints *conn.Conn)"}, dupMember{&dupb.Conn{}, nil, "dupb/conn.Conn"}
	case 'n':
		st := &dupa.State{}
		return dupMember{&dupa.Pool{N: "dup-pool-a", St: st}, st.Sample, "dupa/conn.Pool \"dup-pool-a\" (prints *conn.Pool)"}, dupMember{&dupb.Pool{N: "dup-pool-b"}, nil, "dupb/conn.Pool"}
	case 'l':
		c, b := newLocalCloser("dup-local-a")
		return dupMember{c, func() (int32, int32) { return atomic.LoadInt32(&b.calls), atomic.LoadInt32(&b.done) }, "function-local type conn \"dup-local-a\" (prints *main.conn)"},
			dupMember{newLocalPlain("dup-local-b"), nil, "function-local type conn"}
	}
	sa, sb := &dupa.State{}, &dupb.State{}
	return dupMember{&dupa.Sess{St: sa}, sa.Sample, "dupa/conn.Sess (prints *conn.Sess)"}, dupMember{&dupb.Sess{St: sb}, sb.Sample, "dupb/conn.Sess (prints *conn.Sess)"}
}

// runCloseD: see the header (`closed`).
func runCloseD(n int, mask uint64, pairs string, seed uint64, maxDelayMs int) hx.Case {
	concQuiet()
	scn := fmt.Sprintf("closed %d %d %s %d", n, mask, pairs, seed)
	toks, ok := parseDupPairs(pairs)
	if !ok || n < 0 || n > 62 || mask>>uint(n) != 0 {
		return hx.Case{Scn: scn, Obs: "bad-line", Oracle: "FAIL bad-line"}
	}
	rng := hx.NewRng(seed ^ 0xC105ED)
	type round struct {
		comps    []any
		samplers []closeSampler
		whats    []string
	}
	rounds := []*round{{}, {}}
	nfail := 0
	for i := 0; i < n; i++ {
		d := time.Duration(0)
		if maxDelayMs > 0 && rng.P(1, 2) {
			d = time.Duration(rng.Intn(maxDelayMs*1000+1)) * time.Microsecond
		}
		if bit(mask, i) {
			nfail++
		}
		c := &vCloser{N: fmt.Sprintf("vc%03d", i), delay: d, fail: bit(mask, i)}
		rounds[0].comps = append(rounds[0].comps, c)
		rounds[0].samplers = append(rounds[0].samplers, func() (int32, int32) { return atomic.LoadInt32(&c.calls), atomic.LoadInt32(&c.done) })
		rounds[0].whats = append(rounds[0].whats, fmt.Sprintf("ordinary closer %q", c.N))
	}
	two := false
	add := func(r *round, m dupMember, at int) {
		r.comps = append(r.comps[:at], append([]any{m.comp}, r.comps[at:]...)...)
		if m.sample != nil {
			r.samplers = append(r.samplers, m.sample)
			r.whats = append(r.whats, m.what)
		}
	}
	for _, t := range toks {
		closer, other := dupPair(t.kind)
		first, second := closer, other
		if t.order == 'x' || t.order == 't' {
			first, second = other, closer
		}
		if t.order == 's' || t.order == 't' {
			two = true
			add(rounds[0], first, rng.Intn(len(rounds[0].comps)+1))
			add(rounds[1], second, rng.Intn(len(rounds[1].comps)+1))
			continue
		}
		// both in the first App, `first` registered before `second`
		p1 := rng.Intn(len(rounds[0].comps) + 1)
		add(rounds[0], first, p1)
		add(rounds[0], second, p1+1+rng.Intn(len(rounds[0].comps)-p1))
	}
	// samplers are listed ordinary closers first, then pair closers in token order; for a pair with two closers in one App
	// (`qc`/`qx`) the order is the registration order
	tags := []string{"close", "types-that-print-the-same", fmt.Sprintf("closers=%s", bucket(n)), fmt.Sprintf("failing=%s", bucket(nfail)),
		fmt.Sprintf("same-print-pairs=%d", len(toks))}
	if two {
		tags = append(tags, "pair-split-over-two-apps")
	}
	if len(toks) == 0 {
		tags = append(tags, "trivial")
	}
	if !two {
		rounds = rounds[:1]
	}
	var obsAll []string
	oracle := ""
	for ri, r := range rounds {
		a := app.NewApp()
		var err error
		if out := withWatchdog(20*time.Second, func() { err = a.Run(app.SetComponents(r.comps...), app.SetConfigLoader()) }); out != "" || err != nil {
			return hx.Case{Scn: scn, Obs: "run-" + out + "-failed", Oracle: "FAIL close-run-failed " + fmt.Sprint(err), Tags: tags}
		}
		obs, orc, out := closeAndSample(a, r.samplers, func(i int) string { return fmt.Sprintf("%s, App %d of %d of this scenario", r.whats[i], ri+1, len(rounds)) })
		if out != "" {
			return hx.Case{Scn: scn, Obs: obs, Oracle: orc, Tags: tags}
		}
		obsAll = append(obsAll, obs)
		if oracle == "" {
			oracle = orc
		}
	}
	return hx.Case{Scn: scn, Obs: strings.Join(obsAll, " / "), Oracle: oracle, Tags: tags}
}

// genCloseA / genCloseD: the generated cases of the two kinds (appended to the stream of `close` cases, which draws what it
// drew before these kinds existed)
func genCloseA(r *hx.Rng) hx.Case {
	nc := 1 + r.Intn(12)
	if r.P(1, 6) {
		nc = r.Intn(3)
	}
	all := uint64(1)<<uint(nc) - 1
	var mask uint64
	switch r.Intn(3) {
	case 1:
		mask = r.U64() & all
	case 2:
		mask = r.U64() & (all | 3<<uint(nc))
	}
	amask := r.U64() & all
	if r.P(1, 3) {
		amask = all
	}
	if r.P(1, 4) && nc > 0 {
		amask = 1 << uint(r.Intn(nc)) // a single hook
	}
	bmask := r.U64() & all
	if r.P(1, 4) {
		bmask = amask // exactly the wired ones come first
	}
	tmask := uint64(0)
	if r.P(1, 2) {
		tmask = uint64(r.Intn(16))
		if tmask&1 == 0 {
			tmask &^= 4
		}
		if tmask&2 == 0 {
			tmask &^= 8
		}
	}
	extra := uint64(0) // failing flags of the type-named closers: entries nc, nc+1 of the observation
	for t := uint(0); t < 2; t++ {
		if tmask>>t&1 == 1 {
			extra = extra<<1 | 1
		}
	}
	mask &= all | extra<<uint(nc)
	return runCloseA(nc, mask, amask, bmask, tmask, r.U64()%1000000, 10)
}

var dupKinds = []byte("pnlq")

func genCloseD(r *hx.Rng) hx.Case {
	nc := r.Intn(9)
	all := uint64(1)<<uint(nc) - 1
	var mask uint64
	if r.P(1, 2) {
		mask = r.U64() & all
	}
	k := 1
	if r.P(1, 3) {
		k = 2 + r.Intn(3)
	}
	var toks []string
	for _, j := range r.Perm(len(dupKinds))[:k] {
		toks = append(toks, string([]byte{dupKinds[j], "cxst"[r.Intn(4)]}))
	}
	return runCloseD(nc, mask, strings.Join(toks, "."), r.U64()%1000000, 10)
}

// ---------------------------------------------------------------- closec: closers whose names differ only in letter case

var (
	closecWords = []string{"orders", "Orders", "ORDERS", "oRDERS"}
	// member 0 of an `m` group is the type-named closer kase.Hub; the others name themselves
	closecHubs = []string{kase.HubName, "verifharness/internal/kase/hub", "verifharness/internal/kase/HUB", "verifharness/internal/kase/hUB"}
)

type caseTok struct {
	kind  byte // n t m
	count int  // 2..4
	order byte // a d
}

func parseCaseGroups(s string) ([]caseTok, bool) {
	if s == "-" {
		return nil, true
	}
	var out []caseTok
	seen := map[byte]bool{}
	for _, t := range strings.Split(s, ".") {
		if len(t) != 3 || !strings.ContainsRune("ntm", rune(t[0])) || t[1] < '2' || t[1] > '4' || !strings.ContainsRune("ad", rune(t[2])) || seen[t[0]] {
			return nil, false
		}
		seen[t[0]] = true
		out = append(out, caseTok{t[0], int(t[1] - '0'), t[2]})
	}
	return out, len(out) > 0
}

// runCloseC: see the header (`closec`).
func runCloseC(n int, mask uint64, groups string, seed uint64, maxDelayMs int) hx.Case {
	concQuiet()
	scn := fmt.Sprintf("closec %d %d %s %d", n, mask, groups, seed)
	toks, ok := parseCaseGroups(groups)
	total := n
	for _, t := range toks {
		total += t.count
	}
	if !ok || n < 0 || n > 40 || mask>>uint(total) != 0 {
		return hx.Case{Scn: scn, Obs: "bad-line", Oracle: "FAIL bad-line"}
	}
	rng := hx.NewRng(seed ^ 0xC105EC)
	delay := func() time.Duration {
		if maxDelayMs > 0 && rng.P(1, 2) {
			return time.Duration(rng.Intn(maxDelayMs*1000+1)) * time.Microsecond
		}
		return 0
	}
	var comps []any
	var samplers []closeSampler
	var whats []string
	nfail := 0
	for i := 0; i < n; i++ {
		c := &vCloser{N: fmt.Sprintf("vc%03d", i), delay: delay(), fail: bit(mask, i)}
		if c.fail {
			nfail++
		}
		comps = append(comps, c)
		samplers = append(samplers, func() (int32, int32) { return atomic.LoadInt32(&c.calls), atomic.LoadInt32(&c.done) })
		whats = append(whats, fmt.Sprintf("ordinary closer %q", c.N))
	}
	k := n
	tags := []string{"close", "names-differ-only-in-case"}
	for _, t := range toks {
		// which spellings take part (drawn from the seed), in registration order
		var idx []int
		if t.kind == 'm' {
			idx = append(idx, 0)
			r := rng.Intn(3)
			for j := 0; j < t.count-1; j++ {
				idx = append(idx, 1+(r+j)%3)
			}
		} else {
			r := rng.Intn(4)
			for j := 0; j < t.count; j++ {
				idx = append(idx, (r+j)%4)
			}
		}
		if t.order == 'd' {
			for a, b := 0, len(idx)-1; a < b; a, b = a+1, b-1 {
				idx[a], idx[b] = idx[b], idx[a]
			}
		}
		at := 0
		for _, v := range idx {
			fail := bit(mask, k)
			if fail {
				nfail++
			}
			var comp any
			switch {
			case t.kind == 't' || (t.kind == 'm' && v == 0):
				st := &kase.State{Delay: delay(), Fail: fail}
				if t.kind == 't' {
					comp = kase.NewPool(v, st)
					whats = append(whats, fmt.Sprintf("closer of the type kase.%s, component name %q", kase.PoolVariants[v], "verifharness/internal/kase/"+kase.PoolVariants[v]))
				} else {
					comp = &kase.Hub{St: st}
					whats = append(whats, fmt.Sprintf("closer of the type kase.Hub, component name %q", kase.HubName))
				}
				samplers = append(samplers, st.Sample)
			default:
				name := closecWords[v]
				if t.kind == 'm' {
					name = closecHubs[v]
				}
				c := &vCloser{N: name, delay: delay(), fail: fail}
				comp = c
				samplers = append(samplers, func() (int32, int32) { return atomic.LoadInt32(&c.calls), atomic.LoadInt32(&c.done) })
				whats = append(whats, fmt.Sprintf("closer that names itself %q", name))
			}
			// registered after the previous member of its group, anywhere among the other components
			at += rng.Intn(len(comps) - at + 1)
			comps = append(comps[:at], append([]any{comp}, comps[at:]...)...)
			at++
			k++
		}
		tags = append(tags, fmt.Sprintf("case-group-%c=%d%c", t.kind, t.count, t.order))
	}
	tags = append(tags, fmt.Sprintf("closers=%s", bucket(k)), fmt.Sprintf("failing=%s", bucket(nfail)), fmt.Sprintf("case-groups=%d", len(toks)))
	if len(toks) == 0 {
		tags = append(tags, "trivial")
	}
	a := app.NewApp()
	var err error
	if out := withWatchdog(20*time.Second, func() { err = a.Run(app.SetComponents(comps...), app.SetConfigLoader()) }); out != "" || err != nil {
		return hx.Case{Scn: scn, Obs: "run-" + out + "-failed", Oracle: "FAIL close-run-failed " + fmt.Sprint(err), Tags: tags}
	}
	obs, oracle, _ := closeAndSample(a, samplers, func(i int) string { return whats[i] })
	return hx.Case{Scn: scn, Obs: obs, Oracle: oracle, Tags: tags}
}

func genCloseC(r *hx.Rng) hx.Case {
	nc := r.Intn(9)
	kinds := []byte("ntm")
	k := 1
	if r.P(1, 3) {
		k = 2 + r.Intn(2)
	}
	var toks []string
	total := nc
	for _, j := range r.Perm(len(kinds))[:k] {
		cnt := 2
		if r.P(1, 3) {
			cnt = 3 + r.Intn(2)
		}
		total += cnt
		toks = append(toks, fmt.Sprintf("%c%d%c", kinds[j], cnt, "ad"[r.Intn(2)]))
	}
	all := uint64(1)<<uint(total) - 1
	var mask uint64
	switch r.Intn(3) {
	case 1:
		mask = r.U64() & all
	case 2:
		mask = all
	}
	return runCloseC(nc, mask, strings.Join(toks, "."), r.U64()%1000000, 10)
}

// ---------------------------------------------------------------- closeb: the closing phase under the built-in logger

// closebSink: where the library's own logger writes in a closeb process. The built-in logger takes os.Stderr at the moment it
// is built (syslog.New); syslog.Level(lv) builds it anew — so os.Stderr is a scratch file for the duration of that one call.
// No logger is installed through SetLogger. The file is unlinked at once and read back through the descriptor.
var closebSink struct {
	once sync.Once
	f    *os.File
	off  int64
}

func closebInit() {
	closebSink.once.Do(func() {
		f, err := os.CreateTemp("", "verif-closeb")
		if err != nil {
			return
		}
		_ = os.Remove(f.Name())
		saved := os.Stderr
		os.Stderr = f
		syslog.Level(syslog.LvError) // a failing closer is reported at the error level
		os.Stderr = saved
		closebSink.f = f
	})
}

// closebNew returns what the logger has written since the last call.
func closebNew() string {
	f := closebSink.f
	if f == nil {
		return ""
	}
	st, err := f.Stat()
	if err != nil || st.Size() <= closebSink.off {
		return ""
	}
	buf := make([]byte, st.Size()-closebSink.off)
	n, _ := f.ReadAt(buf, closebSink.off)
	closebSink.off += int64(n)
	return string(buf[:n])
}

type vBGate struct {
	n       int32
	entered int32
	open    chan struct{}
}

// vBCloser: a closer with its own long failure message; the failing closers of one App return together
type vBCloser struct {
	N     string
	msg   string
	fail  bool
	g     *vBGate
	calls int32
	done  int32
}

func (c *vBCloser) Naming() string { return c.N }
func (c *vBCloser) Close() error {
	first := atomic.AddInt32(&c.calls, 1) == 1
	if !c.fail {
		atomic.StoreInt32(&c.done, 1)
		return nil
	}
	if first && atomic.AddInt32(&c.g.entered, 1) == c.g.n {
		close(c.g.open)
	}
	t := time.NewTimer(time.Second)
	select {
	case <-c.g.open:
		t.Stop()
	case <-t.C:
	}
	atomic.StoreInt32(&c.done, 1)
	return errors.New(c.msg)
}

const closebLateWait = 300 * time.Millisecond

// runCloseB: see the header (`closeb`). Needs a process in which no App has logged yet.
func runCloseB(n int, mask uint64, rounds int, seed uint64) hx.Case {
	scn := fmt.Sprintf("closeb %d %d %d %d", n, mask, rounds, seed)
	if n < 0 || n > 62 || mask>>uint(n) != 0 || rounds < 1 || rounds > 200 {
		return hx.Case{Scn: scn, Obs: "bad-line", Oracle: "FAIL bad-line"}
	}
	closebInit()
	nfail := 0
	for i := 0; i < n; i++ {
		if bit(mask, i) {
			nfail++
		}
	}
	tags := []string{"close", "closing-phase-under-built-in-logger", fmt.Sprintf("closers=%s", bucket(n)), fmt.Sprintf("failing-together=%s", bucket(nfail))}
	if nfail < 2 {
		tags = append(tags, "trivial")
	}
	message := func(round, i int) string {
		return "BEGIN" + strings.Repeat(fmt.Sprintf("<closer-%02d-round-%02d-of-%d>", i, round, seed), 6) + "END"
	}
	start := func(comps []any) (*app.App, *hx.Case) {
		a := app.NewApp()
		var err error
		if out := withWatchdog(20*time.Second, func() { err = a.Run(app.SetComponents(comps...), app.SetConfigLoader()) }); out != "" || err != nil {
			return nil, &hx.Case{Scn: scn, Obs: "run-" + out + "-failed", Oracle: "FAIL close-run-failed " + fmt.Sprint(err), Tags: tags}
		}
		return a, nil
	}
	// the reference: one closer that fails alone
	ref := 0
	{
		c := &vBCloser{N: "vb-alone", msg: message(-1, 0), fail: true, g: &vBGate{n: 1, open: make(chan struct{})}}
		a, bad := start([]any{c})
		if bad != nil {
			return *bad
		}
		closebNew()
		if out := withWatchdog(10*time.Second, func() { a.Close() }); out != "" {
			return hx.Case{Scn: scn, Obs: out, Oracle: "FAIL close-" + out + " App.Close did not return normally", Tags: tags}
		}
		ref = strings.Count(closebNew(), c.msg)
		if ref == 0 {
			return hx.Case{Scn: scn, Obs: "no-log", Oracle: "FAIL bad-line the built-in logger's report of a failing closer does not reach the redirected output " +
				"(a closeb scenario needs a fresh process)", Tags: tags}
		}
	}
	obs, oracle := "", ""
	for round := 0; round < rounds && oracle == ""; round++ {
		g := &vBGate{n: int32(nfail), open: make(chan struct{})}
		closers := make([]*vBCloser, n)
		comps := make([]any, 0, n)
		var samplers []closeSampler
		for i := range closers {
			c := &vBCloser{N: fmt.Sprintf("vb%03d", i), msg: message(round, i), fail: bit(mask, i), g: g}
			closers[i] = c
			comps = append(comps, c)
			samplers = append(samplers, func() (int32, int32) { return atomic.LoadInt32(&c.calls), atomic.LoadInt32(&c.done) })
		}
		a, bad := start(comps)
		if bad != nil {
			return *bad
		}
		closebNew()
		output := ""
		// first of all: what the logger has written when Close has returned
		o, orc, out := closeAndSample(a, samplers, func(i int) string { return "component " + closers[i].N }, func() { output = closebNew() })
		if out != "" {
			return hx.Case{Scn: scn, Obs: o, Oracle: orc, Tags: tags}
		}
		count := func() (intact, worst, worstN int) {
			worst = -1
			for i, c := range closers {
				if !c.fail {
					continue
				}
				if k := strings.Count(output, c.msg); k == ref {
					intact++
				} else if worst < 0 {
					worst, worstN = i, k
				}
			}
			return
		}
		intact, worst, worstN := count()
		obs = fmt.Sprintf("%s intact=%d", o, intact)
		oracle = orc
		if intact < nfail && oracle == "" {
			// incomplete: do the missing reports arrive now, after Close has returned (closer goroutines still running)?
			deadline := time.Now().Add(closebLateWait)
			late := intact
			for time.Now().Before(deadline) && late < nfail {
				time.Sleep(2 * time.Millisecond)
				output += closebNew()
				late, _, _ = count()
			}
			if late == nfail {
				oracle = fmt.Sprintf("FAIL close-report-after-return round %d: %d of %d closers failed together; when App.Close returned the built-in logger had written the reports of %d of them, "+
					"the others arrived within %v AFTER the return: goroutines of the closing phase were still running when Close returned", round, nfail, n, intact, closebLateWait)
			} else {
				oracle = fmt.Sprintf("FAIL close-log-garbled round %d: %d of %d closers failed at the same moment, each with its own message; the output of the built-in logger holds the whole message "+
					"of only %d of them as often as for a closer that fails alone (%d time(s)); the message of closer %d (%s) stands there %d time(s): the goroutines of App.Close that "+
					"reported through the shared \"Application\" logger overwrote each other's lines", round, nfail, n, intact, ref, worst, closers[worst].N, worstN)
			}
		}
	}
	return hx.Case{Scn: scn, Obs: obs, Oracle: oracle, Tags: tags}
}

// ---------------------------------------------------------------- cstart: concurrent starts of different Apps (C13)

// csMeet is a reusable rendezvous with a give-up timer: a party that waits in vain continues after `giveUp`.
type csMeet struct {
	mu      sync.Mutex
	n       int
	waiting int
	gate    chan struct{}
	giveUp  time.Duration
}

func (m *csMeet) wait() {
	m.mu.Lock()
	gate := m.gate
	m.waiting++
	if m.waiting >= m.n {
		m.waiting = 0
		m.gate = make(chan struct{})
		close(gate)
	}
	m.mu.Unlock()
	t := time.NewTimer(m.giveUp)
	defer t.Stop()
	select {
	case <-gate:
	case <-t.C:
	}
}

// reset forgets parties that gave up (between rounds)
func (m *csMeet) reset() {
	m.mu.Lock()
	if m.waiting != 0 {
		m.waiting = 0
		m.gate = make(chan struct{})
	}
	m.mu.Unlock()
}

// csComp: an ordinary eager component with an Init method
type csComp struct {
	N     string
	ready int32
}

func (c *csComp) Naming() string { return c.N }
func (c *csComp) Init() error {
	atomic.StoreInt32(&c.ready, 1)
	return nil
}

// csRunner: an application runner that belongs to ONE App (`own`); the container wires the App it is registered with into A.
type csRunner struct {
	N       string
	A       *app.App `wire:""`
	own     *app.App
	comps   []*csComp
	runs    int32
	early   int32
	foreign int32
}

func (r *csRunner) Naming() string { return r.N }
func (r *csRunner) Run() error {
	atomic.AddInt32(&r.runs, 1)
	for _, c := range r.comps {
		if atomic.LoadInt32(&c.ready) == 0 {
			atomic.AddInt32(&r.early, 1)
			break
		}
	}
	if r.A != r.own {
		atomic.AddInt32(&r.foreign, 1)
	}
	return nil
}

const (
	csMaxApps    = 8
	csMaxRunners = 4
	csMaxComps   = 6
	csMaxOptions = 12
)

type csShape struct{ r, m int }

func parseCstart(f []string) (hist []int, nops int, sync1 bool, trials int, shapes []csShape, ok bool) {
	if len(f) < 6 || f[0] != "cstart" {
		return
	}
	total := 0
	if f[1] != "-" {
		for _, t := range strings.Split(f[1], ".") {
			k, err := strconv.Atoi(t)
			if err != nil || k < 1 || strconv.Itoa(k) != t {
				return
			}
			total += k
			hist = append(hist, k)
		}
	}
	var e1, e2 error
	nops, e1 = strconv.Atoi(f[2])
	trials, e2 = strconv.Atoi(f[4])
	if e1 != nil || e2 != nil || nops < 1 || nops > 3 || trials < 1 || trials > 1000 || total > csMaxOptions || (f[3] != "0" && f[3] != "1") {
		return
	}
	sync1 = f[3] == "1" && total > 0
	if (f[3] == "1") != sync1 { // a rendezvous needs a Settings option to live in
		return
	}
	for _, t := range f[5:] {
		p := strings.Split(t, "x")
		if len(p) != 2 {
			return
		}
		r, err1 := strconv.Atoi(p[0])
		m, err2 := strconv.Atoi(p[1])
		if err1 != nil || err2 != nil || r < 1 || r > csMaxRunners || m < 0 || m > csMaxComps || fmt.Sprintf("%dx%d", r, m) != t {
			return
		}
		shapes = append(shapes, csShape{r, m})
	}
	ok = len(shapes) >= 1 && len(shapes) <= csMaxApps
	return
}

func runCstartLine(f []string) hx.Case {
	hist, nops, sync1, trials, shapes, ok := parseCstart(f)
	if !ok {
		return hx.Case{Scn: strings.Join(f, " "), Obs: "bad-line", Oracle: "FAIL bad-line"}
	}
	return runCstart(strings.Join(f, " "), hist, nops, sync1, trials, shapes)
}

// csSettingsDone: app.Settings is process-global and only ever grows, so one process runs ONE cstart scenario with the
// history it asks for (the generator and the replay put every cstart line into its own child process); a further line in
// the same process would start from the history of the first and is refused.
var csSettingsDone bool

// runCstart: see the header (`cstart`).
func runCstart(scn string, hist []int, nops int, sync1 bool, trials int, shapes []csShape) hx.Case {
	concQuiet()
	if csSettingsDone {
		return hx.Case{Scn: scn, Obs: "second-cstart-in-one-process", Oracle: "FAIL bad-line a cstart scenario needs a fresh process"}
	}
	csSettingsDone = true
	napps := len(shapes)
	meet := &csMeet{n: napps, gate: make(chan struct{}), giveUp: time.Second}
	total := 0
	for ci, k := range hist {
		ops := make([]app.SettingOption, k)
		for j := range ops {
			ops[j] = func(*app.App) {}
			if sync1 && ci == len(hist)-1 && j == k-1 {
				// lines the concurrently starting Apps up with each other; does nothing to the App
				ops[j] = func(*app.App) { meet.wait() }
			}
		}
		app.Settings(ops...)
		total += k
	}
	nr := 0
	for _, sh := range shapes {
		nr += sh.r
	}
	tags := []string{"cstart", fmt.Sprintf("apps=%d", napps), fmt.Sprintf("settings-calls=%s", bucket(len(hist))), fmt.Sprintf("settings-options=%s", bucket(total)),
		fmt.Sprintf("run-options=%d", nops), fmt.Sprintf("runners=%s", bucket(nr))}
	if sync1 {
		tags = append(tags, "rendezvous-in-settings")
	}
	if napps < 2 {
		tags = append(tags, "trivial")
	}
	obs, oracle := "", ""
	for trial := 0; trial < trials; trial++ {
		meet.reset()
		apps := make([]*app.App, napps)
		runners := make([][]*csRunner, napps)
		comps := make([][]*csComp, napps)
		for i, sh := range shapes {
			apps[i] = app.NewApp()
			for j := 0; j < sh.m; j++ {
				comps[i] = append(comps[i], &csComp{N: fmt.Sprintf("cs%dc%d", i, j)})
			}
			for j := 0; j < sh.r; j++ {
				runners[i] = append(runners[i], &csRunner{N: fmt.Sprintf("cs%dr%d", i, j), own: apps[i], comps: comps[i]})
			}
		}
		st := make([]string, napps)
		var arrived int32
		var wg sync.WaitGroup
		for i := range apps {
			wg.Add(1)
			go func(i int) {
				defer wg.Done()
				var rs, cs []any
				for _, r := range runners[i] {
					rs = append(rs, r)
				}
				for _, c := range comps[i] {
					cs = append(cs, c)
				}
				var ops []app.SettingOption
				switch nops {
				case 1:
					ops = []app.SettingOption{app.Options(app.SetComponents(append(rs, cs...)...), app.SetConfigLoader())}
				case 2:
					ops = []app.SettingOption{app.SetComponents(append(rs, cs...)...), app.SetConfigLoader()}
				default:
					ops = []app.SettingOption{app.SetComponents(rs...), app.SetComponents(cs...), app.SetConfigLoader()}
				}
				// everybody spins until the last one has arrived, so that the Run calls begin together
				atomic.AddInt32(&arrived, 1)
				for spins := 0; atomic.LoadInt32(&arrived) < int32(napps); spins++ {
					if spins > 300 {
						runtime.Gosched()
					}
				}
				var err error
				if p := hx.Guard(func() { err = apps[i].Run(ops...) }); p != nil {
					st[i] = "panic"
				} else if err != nil {
					st[i] = "err"
				} else {
					st[i] = "ok"
				}
			}(i)
		}
		all := make(chan struct{})
		go func() { wg.Wait(); close(all) }()
		hung := false
		select {
		case <-all:
		case <-time.After(20 * time.Second):
			hung = true
		}
		// the property, per App, on this round's own observations
		var runsTok []string
		early, foreign := 0, 0
		verdict := ""
		for i := range apps {
			s := st[i]
			if hung && s == "" {
				st[i] = "hang"
			}
			var rt []string
			for j, r := range runners[i] {
				n := int(atomic.LoadInt32(&r.runs))
				rt = append(rt, strconv.Itoa(n))
				e, fo := int(atomic.LoadInt32(&r.early)), int(atomic.LoadInt32(&r.foreign))
				early += e
				foreign += fo
				switch {
				case verdict != "":
				case n == 0 && st[i] != "ok":
					// the start of this App did not succeed (no runner fails in this scenario, so that is not what C13 speaks
					// about): left to the comparison with the model
				case n != 1:
					verdict = fmt.Sprintf("FAIL c13-conc-once round %d: runner %d of App %d (registered with that App only, whose Run returned %q) was invoked %d times in this round of %d concurrent starts, want exactly once",
						trial, j, i, st[i], n, napps)
				case fo != 0:
					verdict = fmt.Sprintf("FAIL c13-conc-foreign round %d: runner %d of App %d was invoked by the start of an App it is not registered with", trial, j, i)
				case e != 0:
					verdict = fmt.Sprintf("FAIL c13-conc-after-ready round %d: runner %d of App %d ran before every component of App %d had been initialised", trial, j, i, i)
				}
			}
			runsTok = append(runsTok, strings.Join(rt, "."))
		}
		obs = fmt.Sprintf("st=%s runs=%s early=%d foreign=%d", strings.Join(st, "."), strings.Join(runsTok, "/"), early, foreign)
		if !hung {
			for i := range apps {
				if st[i] == "ok" {
					a := apps[i]
					withWatchdog(5*time.Second, func() { a.Close() })
				}
			}
		}
		clean := !hung && early == 0 && foreign == 0
		for i := range apps {
			clean = clean && st[i] == "ok"
			for _, r := range runners[i] {
				clean = clean && atomic.LoadInt32(&r.runs) == 1
			}
		}
		if !clean {
			oracle = verdict
			break
		}
	}
	return hx.Case{Scn: scn, Obs: obs, Oracle: oracle, Tags: tags}
}

var csHists = []string{"1.1.1", "1.1.1", "1.1.1", "1.1.1.1.1", "2.1", "4.1", "1.1.1.1.1.1", "1.1", "1", "3", "-", "1.2", "2.2.1", "1.1.1.1"}

func genCstartLine(r *hx.Rng, tier string) string {
	hist := csHists[r.Intn(len(csHists))]
	if r.P(1, 6) { // any history of 1-5 calls with 1-3 options each
		var hs []string
		total := 0
		for k := 1 + r.Intn(5); k > 0 && total < csMaxOptions-3; k-- {
			c := 1 + r.Intn(3)
			total += c
			hs = append(hs, strconv.Itoa(c))
		}
		hist = strings.Join(hs, ".")
	}
	nops := 1
	if r.P(1, 3) {
		nops = 2 + r.Intn(2)
	}
	sync1 := 1
	if hist == "-" || r.P(1, 5) {
		sync1 = 0
	}
	napps := 2 + r.Intn(4)
	trials := 3
	if tier == "thorough" {
		napps = 2 + r.Intn(csMaxApps-1)
		trials = 6
	}
	if sync1 == 0 {
		trials *= 5 // nothing lines the starts up: more rounds
	}
	line := fmt.Sprintf("cstart %s %d %d %d", hist, nops, sync1, trials)
	for i := 0; i < napps; i++ {
		rn := 1
		if r.P(1, 3) {
			rn = 1 + r.Intn(csMaxRunners)
		}
		line += fmt.Sprintf(" %dx%d", rn, r.Intn(csMaxComps+1))
	}
	return line
}

func cstartCorpus(w *hx.Writer) {
	// three Settings calls of one option each, four Apps with one runner and one component each, Run with ONE option
	runInChild([]string{"cstart 1.1.1 1 1 3 1x1 1x1 1x1 1x1"}, w)
	runInChild([]string{"cstart 1.1.1.1.1 2 1 3 2x1 1x0 1x3"}, w)
	runInChild([]string{"cstart - 2 0 10 1x1 1x1"}, w)
}

func cstartGen(rng *hx.Rng, n int, tier string, w *hx.Writer) {
	for i := 0; i < n; i++ {
		runInChild([]string{genCstartLine(rng.Fork(), tier)}, w)
	}
}

// ---------------------------------------------------------------- scan

func runScan(n int, mask, seed uint64) hx.Case {
	concQuiet()
	scn := fmt.Sprintf("scan %d %d %d", n, mask, seed)
	sc := &vScanner{failNames: map[string]bool{}, gate: make(chan struct{})}
	comps := []any{sc}
	var want []string
	for i := 0; i < n; i++ {
		name := fmt.Sprintf("vp%03d", i)
		comps = append(comps, &vPlain{N: name})
		if bit(mask, i) {
			sc.failNames[name] = true
			want = append(want, name)
		}
	}
	sc.k = int32(len(want))
	tags := []string{"scan", fmt.Sprintf("components=%s", bucket(n)), fmt.Sprintf("failing-scanners=%d", len(want))}
	a := app.NewApp()
	var err error
	if out := withWatchdog(20*time.Second, func() { err = a.Run(app.SetComponents(comps...), app.SetConfigLoader()) }); out != "" {
		return hx.Case{Scn: scn, Obs: out, Oracle: "FAIL scan-" + out + " Run did not return normally", Tags: tags}
	}
	var got []string
	if err != nil {
		msg := err.Error()
		for i := 0; i < n; i++ {
			name := fmt.Sprintf("vp%03d", i)
			if strings.Contains(msg, name+": SCANFAIL") {
				got = append(got, name)
			}
		}
	}
	c := hx.Case{Scn: scn, Obs: fmt.Sprintf("errs=%d", len(got)), Tags: tags}
	// Run fails iff some scanner failed; the components it names are failing ones. (That EVERY failing component is named
	// is how the code aggregates today, not part of the property: an unsynchronised aggregation is the race detector's
	// business, reported as the observation `race`.)
	subset := true
	for _, g := range got {
		in := false
		for _, w := range want {
			in = in || w == g
		}
		subset = subset && in
	}
	if (err != nil) != (len(want) > 0) || !subset {
		c.Oracle = fmt.Sprintf("FAIL scan-errs-lost failing scanners %v, Run's error names %v (err=%v)", want, got, err != nil)
	}
	// every component was handed to the scanner exactly once
	for i := 0; i < n && c.Oracle == ""; i++ {
		name := fmt.Sprintf("vp%03d", i)
		v, ok := sc.seen.Load(name)
		if !ok || atomic.LoadInt32(v.(*int32)) != 1 {
			c.Oracle = "FAIL scan-not-once component " + name
		}
	}
	if err == nil {
		if out := withWatchdog(10*time.Second, func() { a.Close() }); out != "" {
			c.Oracle = "FAIL close-" + out + " after a clean start"
		}
	}
	return c
}

// ---------------------------------------------------------------- fstart: the first start of a process, tag-carrying components

type vTagIface interface{ TagDepMark() }

type vTagDep struct{ N string }

func (d *vTagDep) Naming() string { return d.N }
func (d *vTagDep) TagDepMark()    {}

// kind 0: wire by pointer type, required (default) and optional
type vTagW struct {
	N   string
	Dep *vTagDep `wire:""`
	Opt *vTagDep `wire:",required=false"`
}

func (c *vTagW) Naming() string { return c.N }

// kind 1: configuration values: a literal and placeholders with defaults (no configuration is loaded)
type vTagV struct {
	N string
	V int    `value:"7"`
	S string `value:"${vk.name:dflt}"`
	P string `prop:"vk.other:x"`
}

func (c *vTagV) Naming() string { return c.N }

// kind 2: logger
type vTagL struct {
	N   string
	Log syslog.Logger `logger:""`
}

func (c *vTagL) Naming() string { return c.N }

// kind 3: wire by interface type, single and slice
type vTagI struct {
	N   string
	Dep vTagIface   `wire:""`
	All []vTagIface `wire:""`
}

func (c *vTagI) Naming() string { return c.N }

const fstartKinds = 4

// runFstart: one dependency and n tag-carrying components; component i has one of the shapes enabled in `kinds`
// (chosen from the seed). Meant to be the first container start of its process (see runInChild / concGen).
func runFstart(n int, kinds, seed uint64) hx.Case {
	concQuiet()
	scn := fmt.Sprintf("fstart %d %d %d", n, kinds, seed)
	var enabled []int
	for k := 0; k < fstartKinds; k++ {
		if bit(kinds, k) {
			enabled = append(enabled, k)
		}
	}
	if len(enabled) == 0 {
		enabled = []int{0}
	}
	rng := hx.NewRng(seed ^ 0xF57A27)
	comps := []any{&vTagDep{N: "vtdep"}}
	used := map[int]int{}
	for i := 0; i < n; i++ {
		name := fmt.Sprintf("vt%03d", i)
		k := enabled[rng.Intn(len(enabled))]
		used[k]++
		switch k {
		case 0:
			comps = append(comps, &vTagW{N: name})
		case 1:
			comps = append(comps, &vTagV{N: name})
		case 2:
			comps = append(comps, &vTagL{N: name})
		default:
			comps = append(comps, &vTagI{N: name})
		}
	}
	shared := 0 // largest number of components that share one shape (= one set of tag texts)
	for _, c := range used {
		if c > shared {
			shared = c
		}
	}
	tags := []string{"fstart", fmt.Sprintf("components=%s", bucket(n)), fmt.Sprintf("same-tag-text=%s", bucket(shared)), fmt.Sprintf("shapes=%d", len(used))}
	if shared < 2 {
		tags = append(tags, "trivial")
	}
	a := app.NewApp()
	var err error
	if out := withWatchdog(20*time.Second, func() { err = a.Run(app.SetComponents(comps...), app.SetConfigLoader()) }); out != "" {
		return hx.Case{Scn: scn, Obs: out, Oracle: "FAIL fstart-" + out + " the first start of the process did not return normally", Tags: tags}
	}
	c := hx.Case{Scn: scn, Obs: "errs=0", Tags: tags}
	if err != nil {
		// not a statement of C20: reported through the comparison with the model (no scanner fails in this scenario)
		c.Obs = "errs=?"
		return c
	}
	if out := withWatchdog(10*time.Second, func() { a.Close() }); out != "" {
		c.Oracle = "FAIL close-" + out + " after a clean start"
	}
	return c
}

// ---------------------------------------------------------------- closel: the closing phase seen through the user's logger

// recLogger is a user-supplied logger (syslog.Logger): it keeps no text, it counts completed error-level records. A record
// takes 100 µs, like a sink that writes to a file or a socket. Safe for concurrent use (several closers may fail at once).
type recLogger struct{}

var recLog struct {
	errors int64 // completed error-level records
}

func recError() {
	time.Sleep(100 * time.Microsecond)
	atomic.AddInt64(&recLog.errors, 1)
}

func (recLogger) Level(syslog.Lv) syslog.Logger { return recLogger{} }
func (recLogger) Pref(any) syslog.Logger        { return recLogger{} }
func (recLogger) Trace(...any)                  {}
func (recLogger) Tracef(string, ...any)         {}
func (recLogger) Debug(...any)                  {}
func (recLogger) Debugf(string, ...any)         {}
func (recLogger) Info(...any)                   {}
func (recLogger) Infof(string, ...any)          {}
func (recLogger) Warn(...any)                   {}
func (recLogger) Warnf(string, ...any)          {}
func (recLogger) Error(v ...any)                { _ = fmt.Sprint(v...); recError() }
func (recLogger) Errorf(f string, v ...any)     { _ = fmt.Sprintf(f, v...); recError() }
func (recLogger) Panic(v ...any)                { panic(fmt.Sprint(v...)) }
func (recLogger) Panicf(f string, v ...any)     { panic(fmt.Sprintf(f, v...)) }
func (recLogger) Fatal(v ...any)                { panic(fmt.Sprint(v...)) }
func (recLogger) Fatalf(f string, v ...any)     { panic(fmt.Sprintf(f, v...)) }

// closelLateWait: how long the harness looks for records that arrive after App.Close returned (only when some are missing)
const closelLateWait = 300 * time.Millisecond

// runCloseL: see the header (`closel`). Needs a process in which no App has logged yet (the generator, the corpus and the
// replay put closel lines into child processes of their own).
func runCloseL(n int, mask uint64, rounds int, seed uint64, maxDelayMs int) hx.Case {
	scn := fmt.Sprintf("closel %d %d %d %d", n, mask, rounds, seed)
	if n < 0 || n > 62 || mask>>uint(n) != 0 || rounds < 1 || rounds > 200 {
		return hx.Case{Scn: scn, Obs: "bad-line", Oracle: "FAIL bad-line"}
	}
	// how a user installs a logger: syslog.SetLogger (or the option app.SetLogger, which calls it) before the application runs
	syslog.SetLogger(recLogger{})
	nfail := 0
	for i := 0; i < n; i++ {
		if bit(mask, i) {
			nfail++
		}
	}
	tags := []string{"close", "closing-phase-observed-by-user-logger", fmt.Sprintf("closers=%s", bucket(n)), fmt.Sprintf("failing=%s", bucket(nfail))}
	if nfail == 0 {
		tags = append(tags, "trivial")
	}
	rng := hx.NewRng(seed ^ 0xC105E1)
	obs, oracle := "", ""
	for round := 0; round < rounds && oracle == ""; round++ {
		closers := make([]*vCloser, n)
		comps := make([]any, 0, n)
		var samplers []closeSampler
		for i := range closers {
			d := time.Duration(0)
			if maxDelayMs > 0 && rng.P(1, 2) {
				d = time.Duration(rng.Intn(maxDelayMs*1000+1)) * time.Microsecond
			}
			c := &vCloser{N: fmt.Sprintf("vc%03d", i), delay: d, fail: bit(mask, i)}
			closers[i] = c
			comps = append(comps, c)
			samplers = append(samplers, func() (int32, int32) { return atomic.LoadInt32(&c.calls), atomic.LoadInt32(&c.done) })
		}
		a := app.NewApp()
		var err error
		if out := withWatchdog(20*time.Second, func() { err = a.Run(app.SetLogger(recLogger{}), app.SetComponents(comps...), app.SetConfigLoader()) }); out != "" || err != nil {
			return hx.Case{Scn: scn, Obs: "run-" + out + "-failed", Oracle: "FAIL close-run-failed " + fmt.Sprint(err), Tags: tags}
		}
		if _, ok := syslog.Pref("Application").(recLogger); !ok {
			// the per-prefix loggers are created once per process: an App has logged before the logger was installed
			return hx.Case{Scn: scn, Obs: "logger-not-installed", Oracle: "FAIL bad-line a closel scenario needs a fresh process", Tags: tags}
		}
		atomic.StoreInt64(&recLog.errors, 0)
		var atReturn int64
		// first of all: what the user's logger holds when Close has returned
		o, orc, out := closeAndSample(a, samplers, func(i int) string { return "component " + closers[i].N },
			func() { atReturn = atomic.LoadInt64(&recLog.errors) })
		if out != "" {
			return hx.Case{Scn: scn, Obs: o, Oracle: orc, Tags: tags}
		}
		obs = fmt.Sprintf("%s reports=%d", o, atReturn)
		oracle = orc
		if int(atReturn) < nfail {
			// fewer records than failing closers: do the others arrive now, after Close has returned?
			deadline := time.Now().Add(closelLateWait)
			for time.Now().Before(deadline) && atomic.LoadInt64(&recLog.errors) < int64(nfail) {
				time.Sleep(200 * time.Microsecond)
			}
			if late := atomic.LoadInt64(&recLog.errors) - atReturn; late > 0 && oracle == "" {
				oracle = fmt.Sprintf("FAIL close-report-after-return round %d: %d of %d closers failed; when App.Close returned the user's logger held %d error record(s), "+
					"%d more arrived within %v AFTER the return: goroutines of the closing phase were still running when Close returned", round, nfail, n, atReturn, late, closelLateWait)
			}
			break
		}
	}
	return hx.Case{Scn: scn, Obs: obs, Oracle: oracle, Tags: tags}
}

// ---------------------------------------------------------------- gmor / gscan: load-or-store of a definition

// vWide: a component with a number of fields (building its definition scans them)
type vWide struct {
	N                      string
	A0, A1, A2, A3, A4, A5 int
	S0, S1, S2, S3         string
	V                      int    `value:"7"`
	P                      string `prop:"vk.wide:x"`
}

func (c *vWide) Naming() string { return c.N }

// spinBarrier: everybody spins until `want` parties have arrived (or the deadline has passed)
func spinBarrier(arrived *int32, want int32, giveUp time.Duration) {
	atomic.AddInt32(arrived, 1)
	var deadline time.Time
	for spins := 0; atomic.LoadInt32(arrived) < want; spins++ {
		if spins > 300 {
			runtime.Gosched()
			if spins%64 == 0 {
				if deadline.IsZero() {
					deadline = time.Now().Add(giveUp)
				} else if time.Now().After(deadline) {
					return
				}
			}
		}
	}
}

const gmorName = "vshared"

// runGmor: see the header (`gmor`).
func runGmor(g, trials int) hx.Case {
	c := hx.Case{Scn: fmt.Sprintf("gmor %d %d", g, trials)}
	if g < 1 || g > 64 || trials < 1 || trials > 100000 {
		c.Obs, c.Oracle = "bad-line", "FAIL bad-line"
		return c
	}
	c.Tags = []string{"forced-getmeta", fmt.Sprintf("goroutines=%s", bucket(g))}
	if g < 2 {
		c.Tags = append(c.Tags, "trivial")
	}
	const want = "defs=1 listed=1 kept=1"
	got, trial := "", 0
	out := withWatchdog(60*time.Second, func() {
		for trial = 0; trial < trials; trial++ {
			registry := support.DefaultDefinitionRegistry()
			res := make([]*component_definition.Meta, g)
			var arrived int32
			var wg sync.WaitGroup
			wg.Add(g)
			for t := 0; t < g; t++ {
				go func(t int) {
					defer wg.Done()
					comp := &vWide{N: fmt.Sprintf("vw%d", t)}
					spinBarrier(&arrived, int32(g), 50*time.Millisecond)
					res[t] = registry.GetMetaOrRegister(gmorName, comp)
				}(t)
			}
			wg.Wait()
			kept := registry.GetMetaByName(gmorName)
			distinct := map[*component_definition.Meta]bool{}
			allKept := 1
			for _, m := range res {
				distinct[m] = true
				if m != kept || m == nil {
					allKept = 0
				}
			}
			listed := 0
			for _, m := range registry.GetMetas() {
				if m.Name() == gmorName {
					listed++
				}
			}
			got = fmt.Sprintf("defs=%d listed=%d kept=%d", len(distinct), listed, allKept)
			if got != want {
				return
			}
		}
	})
	if out != "" {
		c.Obs, c.Oracle = out, "FAIL getmeta-"+out+" the callers did not return"
		return c
	}
	c.Obs = got
	if got != want {
		c.Oracle = fmt.Sprintf("FAIL getmeta-two-winners trial %d: %d goroutines called GetMetaOrRegister(%q, …) on a fresh definition registry at the same moment: %s "+
			"(defs = distinct definitions handed out, listed = entries of that name in GetMetas(), kept = every caller holds the definition GetMetaByName returns); "+
			"a load-or-store gives every caller the one stored definition", trial, g, gmorName, got)
	}
	return c
}

// vJournal is a helper component the user does not register: the scanner below contributes its definition under one fixed
// name, for every component it is shown.
type vJournal struct{}

const gscanName = "vjournal"

type vJournalScanner struct {
	journal *vJournal
	n       int32
	arrived int32
	mu      sync.Mutex
	seen    map[*component_definition.Meta]int
}

func (s *vJournalScanner) Naming() string { return "vjournalscanner" }
func (s *vJournalScanner) PostProcessDefinitionRegistry(registry container.DefinitionRegistry, component any, name string) error {
	if !strings.HasPrefix(name, "vj0") {
		return nil
	}
	// the scans of the n components run in parallel; they line up here so that they ask for the shared name together
	spinBarrier(&s.arrived, s.n, 20*time.Millisecond)
	m := registry.GetMetaOrRegister(gscanName, s.journal)
	s.mu.Lock()
	s.seen[m]++
	s.mu.Unlock()
	return nil
}

// runGscan: see the header (`gscan`).
func runGscan(n, trials int, seed uint64) hx.Case {
	concQuiet()
	c := hx.Case{Scn: fmt.Sprintf("gscan %d %d %d", n, trials, seed)}
	if n < 1 || n > 99 || trials < 1 || trials > 1000 {
		c.Obs, c.Oracle = "bad-line", "FAIL bad-line"
		return c
	}
	c.Tags = []string{"scan", "scanner-shares-one-definition", fmt.Sprintf("components=%s", bucket(n))}
	if n < 2 {
		c.Tags = append(c.Tags, "trivial")
	}
	for trial := 0; trial < trials; trial++ {
		sc := &vJournalScanner{journal: &vJournal{}, n: int32(n), seen: map[*component_definition.Meta]int{}}
		comps := []any{sc}
		for i := 0; i < n; i++ {
			comps = append(comps, &vWide{N: fmt.Sprintf("vj%03d", i)})
		}
		a := app.NewApp()
		var err error
		if out := withWatchdog(20*time.Second, func() { err = a.Run(app.SetComponents(comps...), app.SetConfigLoader()) }); out != "" {
			c.Obs, c.Oracle = out, "FAIL scan-"+out+" Run did not return normally"
			return c
		}
		if err != nil {
			// not a statement of C20 (no scanner fails here): left to the comparison with the model
			c.Obs = "errs=? defs=0 kept=0"
			return c
		}
		kept := a.GetDefinitionRegistry().GetMetaByName(gscanName)
		sc.mu.Lock()
		defs, total, atKept := len(sc.seen), 0, 0
		for m, k := range sc.seen {
			total += k
			if m == kept && m != nil {
				atKept = k
			}
		}
		sc.mu.Unlock()
		allKept := 0
		if atKept == total && total == n {
			allKept = 1
		}
		c.Obs = fmt.Sprintf("errs=0 defs=%d kept=%d", defs, allKept)
		if out := withWatchdog(10*time.Second, func() { a.Close() }); out != "" {
			c.Oracle = "FAIL close-" + out + " after a clean start"
			return c
		}
		if total != n {
			c.Oracle = fmt.Sprintf("FAIL scan-not-once trial %d: the scanner was shown %d of the %d components", trial, total, n)
			return c
		}
		if defs != 1 || allKept != 1 {
			c.Oracle = fmt.Sprintf("FAIL scan-two-definitions trial %d: the parallel scans of %d components each asked the definition registry for GetMetaOrRegister(%q, journal) and "+
				"received %d different definitions; %d of the %d calls hold the one the registry keeps", trial, n, gscanName, defs, atKept, n)
			return c
		}
	}
	return c
}

// ---------------------------------------------------------------- plog: a history of Apps, each with its own logger; one shared prefix

// vPSink is what a recording root logger (and every logger derived from it with Pref / Level) writes to: it keeps, per
// audit line, how often that line arrived. Safe for concurrent use.
type vPSink struct {
	root int
	mu   sync.Mutex
	got  map[string]int
}

func (s *vPSink) count(msg string) int {
	s.mu.Lock()
	defer s.mu.Unlock()
	return s.got[msg]
}

// vPLogger: a user-supplied logger (syslog.Logger). Immutable after construction.
type vPLogger struct {
	sink *vPSink
	pref string
}

func (l *vPLogger) write(msg string) {
	if !strings.HasPrefix(msg, "vaudit ") { // the library's own lines are not looked at
		return
	}
	l.sink.mu.Lock()
	l.sink.got[msg]++
	l.sink.mu.Unlock()
}

func (l *vPLogger) Level(syslog.Lv) syslog.Logger { return l }
func (l *vPLogger) Pref(p any) syslog.Logger {
	return &vPLogger{sink: l.sink, pref: l.pref + fmt.Sprintf("[%v]", p)}
}
func (l *vPLogger) Trace(v ...any)            {}
func (l *vPLogger) Tracef(string, ...any)     {}
func (l *vPLogger) Debug(v ...any)            {}
func (l *vPLogger) Debugf(string, ...any)     {}
func (l *vPLogger) Info(v ...any)             { l.write(fmt.Sprint(v...)) }
func (l *vPLogger) Infof(f string, v ...any)  { l.write(fmt.Sprintf(f, v...)) }
func (l *vPLogger) Warn(v ...any)             { l.write(fmt.Sprint(v...)) }
func (l *vPLogger) Warnf(f string, v ...any)  { l.write(fmt.Sprintf(f, v...)) }
func (l *vPLogger) Error(v ...any)            { l.write(fmt.Sprint(v...)) }
func (l *vPLogger) Errorf(f string, v ...any) { l.write(fmt.Sprintf(f, v...)) }
func (l *vPLogger) Panic(v ...any)            { panic(fmt.Sprint(v...)) }
func (l *vPLogger) Panicf(f string, v ...any) { panic(fmt.Sprintf(f, v...)) }
func (l *vPLogger) Fatal(v ...any)            { panic(fmt.Sprint(v...)) }
func (l *vPLogger) Fatalf(f string, v ...any) { panic(fmt.Sprintf(f, v...)) }

// vPPhase: the callers of syslog.Pref(prefix) of one parallel phase of one App: they line up, ask for the prefix logger,
// write one line through it and remember which logger object they were handed.
type vPPhase struct {
	prefix  string
	what    string // "a<i> scan" / "a<i> close"
	parties int32
	arrived int32
	mu      sync.Mutex
	handed  []syslog.Logger
}

func (ph *vPPhase) line(name string) string { return "vaudit " + ph.prefix + " " + ph.what + " " + name }

func (ph *vPPhase) log(name string) {
	spinBarrier(&ph.arrived, ph.parties, 20*time.Millisecond)
	l := syslog.Pref(ph.prefix) // the library's idiom: syslog.Pref("<Name>") at the call site
	l.Info(ph.line(name))
	ph.mu.Lock()
	ph.handed = append(ph.handed, l)
	ph.mu.Unlock()
}

type vPScanner struct{ ph *vPPhase }

func (s *vPScanner) Naming() string { return "vpscanner" }
func (s *vPScanner) PostProcessDefinitionRegistry(registry container.DefinitionRegistry, component any, name string) error {
	if s.ph != nil && strings.HasPrefix(name, "vq") {
		s.ph.log(name)
	}
	return nil
}

type vPCloser struct {
	N     string
	ph    *vPPhase
	calls int32
	done  int32
}

func (c *vPCloser) Naming() string { return c.N }
func (c *vPCloser) Close() error {
	first := atomic.AddInt32(&c.calls, 1) == 1
	if c.ph != nil && first {
		c.ph.log(c.N)
	}
	atomic.StoreInt32(&c.done, 1)
	return nil
}

// plogSerial: the prefix of a plog scenario is new to the process (the prefix cache is process-wide), whatever ran before
var plogSerial int32

// runPlog: see the header (`plog`).
func runPlog(apps, n, nc, first int, flags, seed uint64) hx.Case {
	scn := fmt.Sprintf("plog %d %d %d %d %d %d", apps, n, nc, first, flags, seed)
	if apps < 1 || apps > 12 || n < 1 || n > 64 || nc < 0 || nc > 32 || first < 1 || first > apps || flags < 1 || flags > 3 {
		return hx.Case{Scn: scn, Obs: "bad-line", Oracle: "FAIL bad-line"}
	}
	scanLogs, closeLogs := flags&1 != 0, flags&2 != 0 && nc > 0
	tags := []string{"app-history-own-loggers-one-prefix", fmt.Sprintf("apps=%s", bucket(apps)), fmt.Sprintf("components=%s", bucket(n+nc)),
		fmt.Sprintf("closers=%s", bucket(nc)), fmt.Sprintf("apps-after-prefix-cached=%s", bucket(apps-first))}
	switch {
	case scanLogs:
		tags = append(tags, "first-use-after-new-root=parallel-scan")
	case closeLogs:
		tags = append(tags, "first-use-after-new-root=parallel-close")
	}
	if first == apps || !(scanLogs || closeLogs) || (scanLogs && n+nc < 2) || (!scanLogs && nc < 2) {
		tags = append(tags, "trivial") // the prefix is never asked for after the root logger was replaced, or by one caller only
	}
	prefix := fmt.Sprintf("VAudit-%d-%d", atomic.AddInt32(&plogSerial, 1), seed)
	sinks := make([]*vPSink, 0, apps)
	var scanTo, closeTo []string
	lines, oracle := "ok", ""
	// evaluate one phase: where did its lines go, did each arrive once, were all callers handed one logger
	eval := func(i int, ph *vPPhase, names []string) string {
		if ph == nil {
			return "-"
		}
		per := make([]int, len(sinks))
		total, dup := 0, false
		for _, name := range names {
			k := 0
			for j, s := range sinks {
				c := s.count(ph.line(name))
				per[j] += c
				k += c
			}
			total += k
			dup = dup || k > 1
		}
		var to, holders []string
		for j, c := range per {
			if c > 0 {
				to = append(to, strconv.Itoa(j+1))
				holders = append(holders, fmt.Sprintf("logger#%d:%d", j+1, c))
			}
		}
		ph.mu.Lock()
		objs := map[syslog.Logger]bool{}
		for _, l := range ph.handed {
			objs[l] = true
		}
		callers := len(ph.handed)
		ph.mu.Unlock()
		history := fmt.Sprintf("App %d of %d Apps started and closed one after the other in this process, each with its own logger through app.SetLogger "+
			"(the prefix was first used by App %d)", i, apps, first)
		switch {
		case oracle != "":
		case len(objs) > 1 || len(to) > 1:
			oracle = fmt.Sprintf("FAIL pref-two-loggers %s: the %d callers of syslog.Pref(%q) in the parallel %s - no SetLogger / Level between their calls - were handed %d different "+
				"loggers; their lines are split over %v: the load-or-store of the prefix cache let more than one caller win for one key", history, callers, ph.prefix, ph.what[strings.Index(ph.what, " ")+1:], len(objs), holders)
		case total != len(names) || dup || callers != len(names):
			if total < len(names) {
				lines = "lost"
			} else {
				lines = "dup"
			}
			oracle = fmt.Sprintf("FAIL pref-line-lost %s: %d goroutines of the parallel %s each wrote one line through syslog.Pref(%q); %d callers returned, %d lines arrived at the recording "+
				"loggers %v", history, len(names), ph.what[strings.Index(ph.what, " ")+1:], ph.prefix, callers, total, holders)
		}
		if len(to) == 0 {
			return "none"
		}
		return strings.Join(to, "+")
	}
	for i := 1; i <= apps && oracle == ""; i++ {
		sink := &vPSink{root: i, got: map[string]int{}}
		sinks = append(sinks, sink)
		var names, cnames []string
		comps := make([]any, 0, n+nc+1)
		var scanPh, closePh *vPPhase
		if i >= first && scanLogs {
			scanPh = &vPPhase{prefix: prefix, what: fmt.Sprintf("a%d scan", i), parties: int32(n + nc)}
		}
		if i >= first && closeLogs {
			closePh = &vPPhase{prefix: prefix, what: fmt.Sprintf("a%d close", i), parties: int32(nc)}
		}
		comps = append(comps, &vPScanner{ph: scanPh})
		for k := 0; k < n; k++ {
			name := fmt.Sprintf("vqp%03d", k)
			names = append(names, name)
			comps = append(comps, &vPlain{N: name})
		}
		closers := make([]*vPCloser, nc)
		for k := range closers {
			closers[k] = &vPCloser{N: fmt.Sprintf("vqc%03d", k), ph: closePh}
			names = append(names, closers[k].N)
			cnames = append(cnames, closers[k].N)
			comps = append(comps, closers[k])
		}
		a := app.NewApp()
		var err error
		if out := withWatchdog(20*time.Second, func() {
			err = a.Run(app.SetLogger(&vPLogger{sink: sink}), app.SetComponents(comps...), app.SetConfigLoader())
		}); out != "" || err != nil {
			return hx.Case{Scn: scn, Obs: "run-" + out + "-failed", Oracle: "FAIL plog-run-failed App " + strconv.Itoa(i) + ": " + fmt.Sprint(err), Tags: tags}
		}
		scanTo = append(scanTo, eval(i, scanPh, names))
		if out := withWatchdog(10*time.Second, func() { a.Close() }); out != "" {
			return hx.Case{Scn: scn, Obs: out, Oracle: "FAIL close-" + out + " App.Close did not return normally", Tags: tags}
		}
		for _, c := range closers {
			if oracle == "" && (atomic.LoadInt32(&c.calls) != 1 || atomic.LoadInt32(&c.done) != 1) {
				oracle = fmt.Sprintf("FAIL close-not-all-once App %d: closer %s calls=%d done=%d when Close returned", i, c.N, atomic.LoadInt32(&c.calls), atomic.LoadInt32(&c.done))
			}
		}
		closeTo = append(closeTo, eval(i, closePh, cnames))
	}
	obs := fmt.Sprintf("scan=%s close=%s lines=%s", strings.Join(scanTo, ","), strings.Join(closeTo, ","), lines)
	return hx.Case{Scn: scn, Obs: obs, Oracle: oracle, Tags: tags}
}

func genPlog(r *hx.Rng, tier string) string {
	apps := 2 + r.Intn(4)
	if tier == "thorough" && r.P(1, 4) {
		apps = 6 + r.Intn(7)
	}
	n := 8 + r.Intn(33)
	if r.P(1, 8) {
		n = 1 + r.Intn(7)
	}
	flags := uint64([]int{3, 3, 1, 2}[r.Intn(4)])
	nc := r.Intn(13)
	if flags&2 != 0 && nc < 2 {
		nc = 2 + r.Intn(11)
	}
	first := 1
	if r.P(1, 3) {
		first = 1 + r.Intn(apps)
	}
	return fmt.Sprintf("plog %d %d %d %d %d %d", apps, n, nc, first, flags, r.U64()%1000000)
}

// ---------------------------------------------------------------- rdel: Range against Store/Delete of one key

type vREntry struct{ key string }

// runRdel: see the header (`rdel`).
func runRdel(g, rounds int) hx.Case {
	c := hx.Case{Scn: fmt.Sprintf("rdel %d %d", g, rounds)}
	if g < 1 || g > 32 || rounds < 1 || rounds > 1000000 {
		c.Obs, c.Oracle = "bad-line", "FAIL bad-line"
		return c
	}
	c.Tags = []string{"forced-range-vs-delete", fmt.Sprintf("rangers=%s", bucket(g))}
	const want = "phantom=0 dup=0 missing=0"
	perm := map[string]*vREntry{"perm-a": {key: "perm-a"}, "perm-b": {key: "perm-b"}}
	m := sync2.New[string, *vREntry]()
	for k, e := range perm {
		m.Store(k, e)
	}
	var stop int32
	var firstBad atomic.Value // string
	var phantom, dup, missing, ranges int64
	var wg sync.WaitGroup
	out := withWatchdog(60*time.Second, func() {
		var arrived int32
		wg.Add(g + 1)
		go func() { // the writer: the temporary key comes and goes
			defer wg.Done()
			defer atomic.StoreInt32(&stop, 1)
			spinBarrier(&arrived, int32(g+1), 50*time.Millisecond)
			for r := 0; r < rounds && atomic.LoadInt64(&phantom)+atomic.LoadInt64(&dup)+atomic.LoadInt64(&missing) == 0; r++ {
				m.Store("temp", &vREntry{key: "temp"})
				if r%3 == 0 {
					runtime.Gosched()
				}
				m.Delete("temp")
			}
		}()
		for t := 0; t < g; t++ {
			go func(t int) {
				defer wg.Done()
				spinBarrier(&arrived, int32(g+1), 50*time.Millisecond)
				for done := false; !done; {
					done = atomic.LoadInt32(&stop) == 1 // one more Range after the writer has finished
					seen := map[string]int{}
					m.Range(func(k string, v *vREntry) bool {
						seen[k]++
						if v == nil || v.key != k {
							if atomic.AddInt64(&phantom, 1) == 1 {
								firstBad.Store(fmt.Sprintf("Range %d of goroutine %d reported key %q with a value nobody stored under it (%v)", atomic.LoadInt64(&ranges), t, k, v))
							}
						}
						return true
					})
					atomic.AddInt64(&ranges, 1)
					for k, n := range seen {
						if n > 1 {
							atomic.AddInt64(&dup, 1)
							firstBad.CompareAndSwap(nil, fmt.Sprintf("one Range reported key %q %d times", k, n))
						}
					}
					for k := range perm {
						if seen[k] == 0 {
							atomic.AddInt64(&missing, 1)
							firstBad.CompareAndSwap(nil, fmt.Sprintf("a Range did not report key %q, which is in the map all the time", k))
						}
					}
				}
			}(t)
		}
		wg.Wait()
	})
	if out != "" {
		c.Obs, c.Oracle = out, "FAIL rdel-"+out+" the goroutines did not return"
		return c
	}
	c.Obs = fmt.Sprintf("phantom=%d dup=%d missing=%d", min64(phantom, 1), min64(dup, 1), min64(missing, 1))
	if c.Obs != want {
		sig := "range-phantom-pair"
		if phantom == 0 && dup > 0 {
			sig = "range-key-twice"
		} else if phantom == 0 {
			sig = "range-key-missing"
		}
		first, _ := firstBad.Load().(string)
		c.Oracle = fmt.Sprintf("FAIL %s a sync2.Map[string,*entry] {perm-a, perm-b}; one goroutine: %d x (Store(\"temp\", fresh entry); Delete(\"temp\")); %d goroutines Range all the while (%d Ranges): %s; "+
			"every pair Range reports was stored under that key at some time, a key present all the time is reported once", sig, rounds, g, ranges, first)
	}
	return c
}

func min64(a, b int64) int64 {
	if a < b {
		return a
	}
	return b
}

// ---------------------------------------------------------------- child process for the race-enabled starts

func concChildReplay(scn string, w *hx.Writer) {
	fmt.Fprintln(os.Stderr, "VERIF-CASE "+scn)
	w.Put(runLine(scn, 3))
	_ = w.Flush()
}

func runLine(scn string, closeDelayMs int) hx.Case {
	f := strings.Fields(scn)
	num := func(i int) uint64 {
		if i < len(f) {
			v, _ := strconv.ParseUint(f[i], 10, 64)
			return v
		}
		return 0
	}
	switch {
	case len(f) == 4 && f[0] == "close":
		return runClose(int(num(1)), num(2), num(3), closeDelayMs)
	case len(f) == 4 && f[0] == "closef":
		return runCloseG(int(num(1)), num(2), 0, num(3), closeDelayMs, true)
	case len(f) == 5 && f[0] == "closez":
		return runCloseZ(int(num(1)), num(2), num(3), num(4), closeDelayMs)
	case len(f) == 5 && f[0] == "closew":
		return runCloseW(int(num(1)), num(2), num(3), num(4))
	case len(f) == 7 && f[0] == "closea":
		return runCloseA(int(num(1)), num(2), num(3), num(4), num(5), num(6), closeDelayMs)
	case len(f) == 5 && f[0] == "closed":
		return runCloseD(int(num(1)), num(2), f[3], num(4), closeDelayMs)
	case len(f) == 5 && f[0] == "closel":
		return runCloseL(int(num(1)), num(2), int(num(3)), num(4), 3)
	case len(f) == 5 && f[0] == "closec":
		return runCloseC(int(num(1)), num(2), f[3], num(4), closeDelayMs)
	case len(f) == 5 && f[0] == "closeb":
		return runCloseB(int(num(1)), num(2), int(num(3)), num(4))
	case len(f) == 5 && f[0] == "closep":
		return runCloseP(f[1], f[2], num(3), num(4), 10)
	case len(f) == 5 && f[0] == "closek":
		return runCloseK(int(num(1)), num(2), f[3], num(4), closeDelayMs)
	case len(f) == 5 && f[0] == "closeq":
		return runCloseQ(int(num(1)), num(2), f[3], num(4), closeDelayMs)
	case len(f) == 6 && f[0] == "closeh":
		return runCloseH(int(num(1)), num(2), f[3], f[4], num(5), closeDelayMs)
	case len(f) == 5 && f[0] == "fdirect":
		return runFdirect(int(num(1)), f[2], int(num(3)), num(4))
	case len(f) == 7 && f[0] == "plog":
		return runPlog(int(num(1)), int(num(2)), int(num(3)), int(num(4)), num(5), num(6))
	case len(f) == 3 && f[0] == "rdel":
		return runRdel(int(num(1)), int(num(2)))
	case len(f) == 3 && f[0] == "gmor":
		return runGmor(int(num(1)), int(num(2)))
	case len(f) == 4 && f[0] == "gscan":
		return runGscan(int(num(1)), int(num(2)), num(3))
	case len(f) >= 6 && f[0] == "cstart":
		return runCstartLine(f)
	case len(f) == 4 && f[0] == "scan":
		return runScan(int(num(1)), num(2), num(3))
	case len(f) == 4 && f[0] == "fstart":
		return runFstart(int(num(1)), num(2), num(3))
	case len(f) == 2 && f[0] == "lofn":
		return runLofn(f[1])
	case len(f) == 3 && f[0] == "range":
		return runRange(int(num(1)), int(num(2)))
	case len(f) >= 2 && f[0] == "hist":
		return recheckHist(scn)
	case len(f) >= 5 && f[0] == "setlen":
		return runSetLenLine(f)
	}
	return hx.Case{Scn: scn, Obs: "bad-line", Oracle: "FAIL bad-line"}
}

// raceWhere extracts the first frame inside go-kid/ioc of a race report ("" if none).
func raceWhere(report string) string {
	for _, line := range strings.Split(report, "\n") {
		t := strings.TrimSpace(line)
		if strings.HasPrefix(t, "github.com/go-kid/ioc") && strings.HasSuffix(t, ")") {
			if i := strings.LastIndex(t, "/"); i >= 0 {
				t = t[i+1:]
			}
			return strings.ReplaceAll(t, " ", "")
		}
	}
	return ""
}

// runInChild runs the scenario lines in a child process of this binary and copies its cases.
func runInChild(lines []string, w *hx.Writer) {
	exe, err := os.Executable()
	if err != nil {
		exe = os.Args[0]
	}
	restarts := 0
	for len(lines) > 0 && restarts <= 6 {
		dir, _ := os.MkdirTemp("", "verif-conc")
		in, out := dir+"/in.txt", dir+"/out.tsv"
		_ = os.WriteFile(in, []byte(strings.Join(lines, "\n")+"\n"), 0o644)
		cmd := exec.Command(exe, "concchild", "-replay", in, "-out", out)
		cmd.Env = append(os.Environ(), "GORACE=halt_on_error=1 exitcode=66")
		var stderr bytes.Buffer
		cmd.Stderr = &stderr
		runErr := cmd.Run()
		data, _ := os.ReadFile(out)
		_ = os.RemoveAll(dir)
		ndone := 0
		for _, l := range strings.Split(string(data), "\n") {
			p := strings.Split(l, "\t")
			if len(p) < 4 {
				continue
			}
			tags := strings.Split(p[3], ",")
			if raceEnabled {
				tags = append(tags, "race-detector-on")
			}
			w.Put(hx.Case{Scn: p[0], Obs: p[1], Oracle: p[2], Tags: tags})
			ndone++
		}
		if runErr == nil {
			return
		}
		// the child died: the case in progress is the first line without a result
		if ndone >= len(lines) {
			return
		}
		cur := lines[ndone]
		rep := stderr.String()
		if i := strings.Index(rep, "WARNING: DATA RACE"); i >= 0 {
			rep = rep[i:]
			where := raceWhere(rep)
			if where != "" {
				w.Put(hx.Case{Scn: cur, Obs: "race", Oracle: "FAIL race " + where, Tags: []string{"race-report"}})
			} else {
				w.Put(hx.Case{Scn: cur, Obs: "race-elsewhere", Oracle: "FAIL harness-race " + firstLines(rep, 12), Tags: []string{"race-report"}})
			}
		} else {
			w.Put(hx.Case{Scn: cur, Obs: "crash", Oracle: "FAIL child-crash " + firstLines(rep, 6), Tags: []string{"crash"}})
		}
		lines = lines[ndone+1:]
		restarts++
	}
}

func firstLines(s string, n int) string {
	l := strings.Split(s, "\n")
	if len(l) > n {
		l = l[:n]
	}
	return strings.Join(l, " | ")
}

// ---------------------------------------------------------------- forced schedules

func resTok(v int, loaded bool) string {
	if loaded {
		return fmt.Sprintf("%d,1", v)
	}
	return fmt.Sprintf("%d,0", v)
}

// runLofn: two callers LoadOrStoreFn(1, 10+t) on an empty map; digits = which thread takes each step
// (invoke, Load, f, LoadOrStore). Supported: both pass the Load first (01010011, 01011100), sequential (000011, 111100).
func runLofn(digits string) hx.Case {
	c := hx.Case{Scn: "lofn " + digits, Tags: []string{"forced-lofn"}}
	m := sync2.New[int, int]()
	var v [2]int
	var l [2]bool
	call := func(t int, f func() int) { v[t], l[t] = m.LoadOrStoreFn(1, f) }
	wait := func(ch chan struct{}) bool {
		select {
		case <-ch:
			return true
		case <-time.After(2 * time.Second):
			return false
		}
	}
	ok := true
	switch digits {
	case "000011", "111100":
		first := int(digits[0] - '0')
		call(first, func() int { return 10 + first })
		call(1-first, func() int { return 10 + (1 - first) })
	case "01010011", "01011100":
		first := 0
		if digits == "01011100" {
			first = 1
		}
		var entered, release, done [2]chan struct{}
		for t := 0; t < 2; t++ {
			entered[t], release[t], done[t] = make(chan struct{}), make(chan struct{}), make(chan struct{})
		}
		start := func(t int) {
			go func() {
				defer close(done[t])
				call(t, func() int { close(entered[t]); <-release[t]; return 10 + t })
			}()
		}
		start(0)
		ok = wait(entered[0]) // caller 0 is past its Load (miss) and inside f
		start(1)
		ok = ok && wait(entered[1]) // caller 1 too: both passed the Load before anything was stored
		close(release[first])
		ok = ok && wait(done[first])
		close(release[1-first])
		ok = ok && wait(done[1-first])
	default:
		c.Obs, c.Oracle = "bad-line", "FAIL bad-line unsupported schedule"
		return c
	}
	if !ok {
		c.Obs, c.Oracle = "hang", "FAIL lofn-hang the forced schedule could not be established"
		return c
	}
	c.Obs = "t0=" + resTok(v[0], l[0]) + " t1=" + resTok(v[1], l[1])
	if !l[0] && !l[1] {
		c.Oracle = "FAIL lofn-two-winners both callers of LoadOrStoreFn got loaded=false: " + c.Obs
	}
	return c
}

// runRange: Range over keys 1..nk; inside the callback of the a-th visit another goroutine deletes every key,
// the visited ones first (in visiting order), then the others; a = 0: the deletes come before the Range.
func runRange(nk, a int) hx.Case {
	c := hx.Case{Scn: fmt.Sprintf("range %d %d", nk, a), Tags: []string{"forced-range"}}
	if nk < 1 || nk > 8 || a < 0 {
		c.Obs, c.Oracle = "bad-line", "FAIL bad-line"
		return c
	}
	m := sync2.New[int, int]()
	for k := 1; k <= nk; k++ {
		m.Store(k, 1)
	}
	m.Range(func(int, int) bool { return true })
	var visited, order []int
	phantom := "" // a reported pair that nobody stored (every value stored is 1)
	deleteAll := func() {
		seen := map[int]bool{}
		for _, k := range visited {
			seen[k] = true
			order = append(order, k)
		}
		for k := 1; k <= nk; k++ {
			if !seen[k] {
				order = append(order, k)
			}
		}
		done := make(chan struct{})
		ord := append([]int(nil), order...)
		go func() {
			defer close(done)
			for _, k := range ord {
				m.Delete(k)
			}
		}()
		<-done
	}
	if a == 0 {
		deleteAll()
	}
	m.Range(func(k, v int) bool {
		visited = append(visited, k)
		if (v != 1 || k < 1 || k > nk) && phantom == "" {
			phantom = fmt.Sprintf("(%d,%d)", k, v)
		}
		if len(visited) == a {
			deleteAll()
		}
		return true
	})
	c.Obs = fmt.Sprintf("seen=%d", len(visited))
	// an atomic Range sees all keys or what is left after a prefix of the (totally ordered) deletes = a suffix of `order`
	okSet := len(visited) == nk || len(order) == 0
	if !okSet {
		suffix := order[len(order)-len(visited):]
		okSet = sameSet(suffix, visited)
	}
	if !okSet {
		c.Oracle = fmt.Sprintf("FAIL range-not-atomic Range reported %v although the keys were deleted in the order %v", visited, order)
	}
	if phantom != "" {
		// whatever Range may or may not see of a concurrent Delete: a pair it reports was in the map at some time
		c.Oracle = fmt.Sprintf("FAIL range-phantom-pair sync2.Map {1..%d -> 1}; after %d visits of a Range another goroutine deleted the keys %v; the Range reported keys %v, among them the pair %s, "+
			"which nobody ever stored (every value stored is 1)", nk, a, order, visited, phantom)
	}
	return c
}

func sameSet(a, b []int) bool {
	if len(a) != len(b) {
		return false
	}
	x, y := append([]int(nil), a...), append([]int(nil), b...)
	sort.Ints(x)
	sort.Ints(y)
	for i := range x {
		if x[i] != y[i] {
			return false
		}
	}
	return true
}

// ---------------------------------------------------------------- setlen: quiescent reads after concurrent removals

type setOp struct {
	put bool
	k   int
}

const setLenMaxKey = 8

func parseSetQueues(toks []string) ([][]setOp, bool) {
	var qs [][]setOp
	for _, t := range toks {
		var q []setOp
		for _, o := range strings.Split(t, ".") {
			if len(o) < 2 || (o[0] != 'x' && o[0] != 'p') {
				return nil, false
			}
			k, err := strconv.Atoi(o[1:])
			if err != nil || k < 1 || k > setLenMaxKey || strconv.Itoa(k) != o[1:] {
				return nil, false
			}
			q = append(q, setOp{put: o[0] == 'p', k: k})
		}
		qs = append(qs, q)
	}
	return qs, len(qs) > 0
}

func setQueuesString(qs [][]setOp) string {
	var ts []string
	for _, q := range qs {
		var os []string
		for _, o := range q {
			c := "x"
			if o.put {
				c = "p"
			}
			os = append(os, c+strconv.Itoa(o.k))
		}
		ts = append(ts, strings.Join(os, "."))
	}
	return strings.Join(ts, " ")
}

func runSetLenLine(f []string) hx.Case {
	bad := hx.Case{Scn: strings.Join(f, " "), Obs: "bad-line", Oracle: "FAIL bad-line"}
	nk, err1 := strconv.Atoi(f[2])
	trials, err2 := strconv.Atoi(f[3])
	qs, ok := parseSetQueues(f[4:])
	if (f[1] != "cs" && f[1] != "gs") || err1 != nil || err2 != nil || nk < 0 || nk > setLenMaxKey || !ok {
		return bad
	}
	removed, put := map[int]bool{}, map[int]bool{}
	for _, q := range qs {
		for _, o := range q {
			if o.put {
				put[o.k] = true
			} else {
				removed[o.k] = true
			}
		}
	}
	for k := range removed {
		if put[k] { // the final set would depend on the schedule
			return bad
		}
	}
	return runSetLen(f[1], nk, trials, qs)
}

// runSetLen: see the header (`setlen`). The expectation is the harness' own sequential execution of the queues.
func runSetLen(obj string, nk, trials int, qs [][]setOp) hx.Case {
	if trials < 1 {
		trials = 1
	}
	if trials > 200000 {
		trials = 200000
	}
	c := hx.Case{Scn: fmt.Sprintf("setlen %s %d %d %s", obj, nk, trials, setQueuesString(qs))}
	// what a sequential execution leaves (queue after queue; any other order gives the same: no key is both removed and put)
	final := map[int]bool{}
	for k := 1; k <= nk; k++ {
		final[k] = true
	}
	sameKeyRemovers := map[int]int{}
	for _, q := range qs {
		seen := map[int]bool{}
		for _, o := range q {
			if o.put {
				final[o.k] = true
			} else {
				delete(final, o.k)
				if o.k <= nk && !seen[o.k] {
					seen[o.k] = true
					sameKeyRemovers[o.k]++
				}
			}
		}
	}
	most := 0
	for _, n := range sameKeyRemovers {
		if n > most {
			most = n
		}
	}
	c.Tags = []string{"forced-setlen", "object=" + map[string]string{"cs": "ConcurrentSets", "gs": "GenericConcurrentSets"}[obj],
		fmt.Sprintf("goroutines=%s", bucket(len(qs))), fmt.Sprintf("removers-of-one-present-key=%s", bucket(most))}
	if most < 2 {
		c.Tags = append(c.Tags, "trivial")
	}
	var wantHas []string
	for k := 1; k <= setLenMaxKey; k++ {
		if final[k] {
			wantHas = append(wantHas, strconv.Itoa(k))
		}
	}
	show := func(ln, arr int, has []string) string {
		h := "-"
		if len(has) > 0 {
			h = strings.Join(has, ".")
		}
		return fmt.Sprintf("len=%d arr=%d has=%s", ln, arr, h)
	}
	want := show(len(final), len(final), wantHas)
	G := int32(len(qs))
	got, trial := "", 0
	phantom := ""
	out := withWatchdog(30*time.Second, func() {
		for trial = 0; trial < trials; trial++ {
			var cs list.Set
			var gs list.GenericSet[int]
			if obj == "cs" {
				cs = list.NewConcurrentSets()
			} else {
				gs = list.NewGenericConcurrentSets[int]()
			}
			for k := 1; k <= nk; k++ {
				if obj == "cs" {
					cs.Put(strconv.Itoa(k))
				} else {
					gs.Put(k)
				}
			}
			var arrived int32
			var wg sync.WaitGroup
			// (tenth round) a reader that keeps taking ToArray() while the others work: whatever it is handed must be a key that
			// somebody put — the snapshot need not be atomic (KF-C20-1), but it cannot contain what was never in the set
			var stopReader int32
			readerDone := make(chan struct{})
			go func() {
				defer close(readerDone)
				for atomic.LoadInt32(&stopReader) == 0 {
					if obj == "cs" {
						for _, e := range cs.ToArray() {
							if n, err := strconv.Atoi(e); err != nil || n < 1 || n > setLenMaxKey {
								phantom = fmt.Sprintf("%q", e)
							}
						}
					} else {
						for _, e := range gs.ToArray() {
							if e < 1 || e > setLenMaxKey {
								phantom = strconv.Itoa(e)
							}
						}
					}
					runtime.Gosched()
				}
			}()
			wg.Add(len(qs))
			for _, q := range qs {
				go func(q []setOp) {
					defer wg.Done()
					// barrier: everybody spins until the last one has arrived, so the first calls start together
					atomic.AddInt32(&arrived, 1)
					for spins := 0; atomic.LoadInt32(&arrived) < G; spins++ {
						if spins > 300 {
							runtime.Gosched()
						}
					}
					for _, o := range q {
						switch {
						case obj == "cs" && o.put:
							cs.Put(strconv.Itoa(o.k))
						case obj == "cs":
							cs.Remove(strconv.Itoa(o.k))
						case o.put:
							gs.Put(o.k)
						default:
							gs.Remove(o.k)
						}
					}
				}(q)
			}
			wg.Wait()
			atomic.StoreInt32(&stopReader, 1)
			<-readerDone
			if phantom != "" {
				return
			}
			// quiescent: nobody else touches the set any more
			var ln, arr int
			var has []string
			if obj == "cs" {
				ln, arr = cs.Length(), len(cs.ToArray())
			} else {
				ln, arr = gs.Length(), len(gs.ToArray())
			}
			for k := 1; k <= setLenMaxKey; k++ {
				if (obj == "cs" && cs.Exists(strconv.Itoa(k))) || (obj == "gs" && gs.Exists(k)) {
					has = append(has, strconv.Itoa(k))
				}
			}
			got = show(ln, arr, has)
			if got != want {
				return
			}
		}
	})
	if out != "" {
		c.Obs, c.Oracle = out, "FAIL setlen-"+out+" the goroutines did not return"
		return c
	}
	if phantom != "" {
		c.Obs = want // (the final state was not looked at: the verdict is the reader's)
		c.Oracle = fmt.Sprintf("FAIL set-phantom-element trial %d: ToArray() taken while %d goroutines (%s) worked on a fresh set {1..%d} contained %s, which nobody ever put",
			trial, len(qs), setQueuesString(qs), nk, phantom)
		return c
	}
	c.Obs = got
	if got != want {
		sig := "set-final-state"
		if strings.Fields(got)[0] != strings.Fields(want)[0] {
			sig = "set-length-drift"
		}
		c.Oracle = fmt.Sprintf("FAIL %s trial %d: after %d goroutines (%s) on a fresh set {1..%d} had all returned: %s; every sequential order of these calls leaves %s",
			sig, trial, len(qs), setQueuesString(qs), nk, got, want)
	}
	return c
}

// genSetLen: mostly g goroutines that all Remove one present key; sometimes with further calls on other keys
func genSetLen(r *hx.Rng, trials int) hx.Case {
	obj := []string{"cs", "gs"}[r.Intn(2)]
	nk := 1 + r.Intn(4)
	g := []int{2, 3, 4, 8, 8, 12}[r.Intn(6)]
	hot := 1 + r.Intn(nk)
	qs := make([][]setOp, g)
	for i := range qs {
		qs[i] = []setOp{{k: hot}}
	}
	if r.P(1, 3) { // other keys: removals of a second present key, insertions of fresh keys, a removal of an absent key
		for i := range qs {
			switch r.Intn(5) {
			case 0:
				if nk >= 2 {
					qs[i] = append(qs[i], setOp{k: hot%nk + 1})
				}
			case 1:
				qs[i] = append([]setOp{{put: true, k: nk + 1 + r.Intn(2)}}, qs[i]...)
			case 2:
				qs[i] = append(qs[i], setOp{k: setLenMaxKey})
			}
		}
	}
	return runSetLen(obj, nk, trials, qs)
}

// ---------------------------------------------------------------- recorded histories + linearizability checker

type hcall struct {
	kind     string // L S LS LF D R P E X N
	k, v     int
	res      string // u | g/<v|->/<0|1> | s/k=v/k=v…
	inv, ret int64
	soft     bool // a read built on sync.Map.Range whose result may be ignored when classifying a failure (see histCase)
}

func (h hcall) token(keys string) string {
	k, v := strconv.Itoa(h.k), strconv.Itoa(h.v)
	if h.kind == "R" || h.kind == "N" {
		k, v = keys, "-"
	}
	return fmt.Sprintf("%s:%s:%s:%s:%d:%d", h.kind, k, v, h.res, h.inv, h.ret)
}

func gotTok(v int, has bool, loaded bool) string {
	b := "0"
	if loaded {
		b = "1"
	}
	if !has {
		return "g/-/" + b
	}
	return fmt.Sprintf("g/%d/%s", v, b)
}

// specApply: the sequential specification (mirrors Ioc.Conc.Op.spec); returns the result token.
func specApply(m map[int]int, c hcall, universe []int) string {
	switch c.kind {
	case "L":
		v, ok := m[c.k]
		return gotTok(v, ok, ok)
	case "S":
		m[c.k] = c.v
		return "u"
	case "LS", "LF":
		if v, ok := m[c.k]; ok {
			return gotTok(v, true, true)
		}
		m[c.k] = c.v
		return gotTok(c.v, true, false)
	case "D", "X":
		delete(m, c.k)
		return "u"
	case "P":
		m[c.k] = 0
		return "u"
	case "E":
		_, ok := m[c.k]
		return gotTok(0, false, ok)
	case "N": // Length(): the number of keys present
		n := 0
		for _, k := range universe {
			if _, ok := m[k]; ok {
				n++
			}
		}
		return gotTok(n, true, false)
	case "R":
		s := "s"
		for _, k := range universe {
			if v, ok := m[k]; ok {
				s += fmt.Sprintf("/%d=%d", k, v)
			}
		}
		return s
	}
	return "?"
}

// linearizable: depth-first search over the orders that respect real time (a.ret < b.inv ⇒ a before b).
func linearizable(init map[int]int, calls []hcall, universe []int, ignoreRange bool) bool {
	var rec func(m map[int]int, pending []hcall) bool
	rec = func(m map[int]int, pending []hcall) bool {
		if len(pending) == 0 {
			return true
		}
		for i, c := range pending {
			minimal := true
			for _, o := range pending {
				if o.ret < c.inv {
					minimal = false
					break
				}
			}
			if !minimal {
				continue
			}
			m2 := make(map[int]int, len(m))
			for k, v := range m {
				m2[k] = v
			}
			r := specApply(m2, c, universe)
			if r != c.res && !(ignoreRange && c.soft) {
				continue
			}
			rest := append(append([]hcall(nil), pending[:i]...), pending[i+1:]...)
			if rec(m2, rest) {
				return true
			}
		}
		return false
	}
	return rec(init, calls)
}

func histCase(init map[int]int, calls []hcall, universe []int, tags []string) hx.Case {
	var ks []string
	for _, k := range universe {
		ks = append(ks, strconv.Itoa(k))
	}
	keys := strings.Join(ks, ".")
	var ini []string
	for _, k := range universe {
		if v, ok := init[k]; ok {
			ini = append(ini, fmt.Sprintf("%d=%d", k, v))
		}
	}
	scn := "hist "
	if len(ini) == 0 {
		scn += "-"
	} else {
		scn += strings.Join(ini, ",")
	}
	sort.SliceStable(calls, func(i, j int) bool { return calls[i].inv < calls[j].inv })
	for i := range calls {
		// Range is not atomic (KF-C20-1); Length() is len(ToArray()) = one Range, so a Length that OVERLAPS a mutation of
		// the set shares that weakness. A Length that overlaps no mutation (a quiescent read) does not.
		switch calls[i].kind {
		case "R":
			calls[i].soft = true
		case "N":
			for j, o := range calls {
				if j != i && (o.kind == "P" || o.kind == "X") && !(o.ret < calls[i].inv || calls[i].ret < o.inv) {
					calls[i].soft = true
				}
			}
		}
	}
	for _, c := range calls {
		scn += " " + c.token(keys)
	}
	c := hx.Case{Scn: scn, Tags: tags}
	if linearizable(init, calls, universe, false) {
		c.Obs = "lin"
		return c
	}
	c.Obs = "nonlin"
	if ph := phantomPair(init, calls); ph != "" {
		c.Oracle = "FAIL range-phantom-pair a recorded Range reported " + ph + ", a pair that is neither in the initial map nor stored by any call of the history"
		return c
	}
	if linearizable(init, calls, universe, true) {
		c.Oracle = "FAIL range-not-atomic the recorded history is explained only when the results of Range (or of a Length overlapping a Put/Remove) are ignored"
	} else {
		c.Oracle = "FAIL not-linearizable no sequential order of the recorded calls explains their results"
	}
	return c
}

// phantomPair: a pair k=v in the result of a recorded Range whose value no call of the history (and not the initial map) ever
// put under k. Ignoring Range's results (KF-C20-1: Range is not atomic) does not cover such a history: a non-atomic Range
// still reports only pairs that were in the map at some time (C20_range_regular).
func phantomPair(init map[int]int, calls []hcall) string {
	for _, c := range calls {
		if c.kind != "R" || !strings.HasPrefix(c.res, "s") {
			continue
		}
		for _, p := range strings.Split(c.res, "/")[1:] {
			kv := strings.Split(p, "=")
			if len(kv) != 2 {
				continue
			}
			k, err1 := strconv.Atoi(kv[0])
			v, err2 := strconv.Atoi(kv[1])
			if err1 != nil || err2 != nil {
				continue
			}
			stored := false
			if iv, ok := init[k]; ok && iv == v {
				stored = true
			}
			for _, o := range calls {
				if (o.kind == "S" || o.kind == "LS" || o.kind == "LF") && o.k == k && o.v == v {
					stored = true
				}
			}
			if !stored {
				return p
			}
		}
	}
	return ""
}

// recheckHist re-decides a recorded history line (a recorded interleaving cannot be re-run).
func recheckHist(scn string) hx.Case {
	f := strings.Fields(scn)
	init := map[int]int{}
	if f[1] != "-" {
		for _, p := range strings.Split(f[1], ",") {
			kv := strings.Split(p, "=")
			if len(kv) == 2 {
				k, _ := strconv.Atoi(kv[0])
				v, _ := strconv.Atoi(kv[1])
				init[k] = v
			}
		}
	}
	universe := []int{1, 2, 3}
	var calls []hcall
	for _, tok := range f[2:] {
		p := strings.Split(tok, ":")
		if len(p) != 6 {
			return hx.Case{Scn: scn, Obs: "bad-line", Oracle: "FAIL bad-line"}
		}
		c := hcall{kind: p[0], res: p[3]}
		if c.kind == "R" || c.kind == "N" {
			universe = nil
			for _, x := range strings.Split(p[1], ".") {
				k, _ := strconv.Atoi(x)
				universe = append(universe, k)
			}
		} else {
			c.k, _ = strconv.Atoi(p[1])
			c.v, _ = strconv.Atoi(p[2])
		}
		c.inv, _ = strconv.ParseInt(p[4], 10, 64)
		c.ret, _ = strconv.ParseInt(p[5], 10, 64)
		calls = append(calls, c)
	}
	return histCase(init, calls, universe, []string{"history-recheck"})
}

// recordHistory runs 2-4 goroutines against one real object and records invocation/response stamps.
func recordHistory(rng *hx.Rng) hx.Case {
	nkeys := 2 + rng.Intn(2)
	universe := make([]int, nkeys)
	for i := range universe {
		universe[i] = i + 1
	}
	kind := rng.Intn(4) // 0,1: sync2.Map   2: ConcurrentSets   3: GenericConcurrentSets
	nth := 2 + rng.Intn(3)
	init := map[int]int{}
	m := sync2.New[int, int]()
	var cs list.Set
	var gs list.GenericSet[int]
	if kind == 2 {
		cs = list.NewConcurrentSets()
	}
	if kind == 3 {
		gs = list.NewGenericConcurrentSets[int]()
	}
	for _, k := range universe {
		if rng.P(1, 2) {
			switch kind {
			case 2:
				init[k] = 0
				cs.Put(strconv.Itoa(k))
			case 3:
				init[k] = 0
				gs.Put(k)
			default:
				init[k] = 50 + k
				m.Store(k, 50+k)
			}
		}
	}
	// plan
	type planned struct {
		kind  string
		k, v  int
		yield bool
	}
	plans := make([][]planned, nth)
	total := 0
	kinds := map[string]bool{}
	for t := 0; t < nth; t++ {
		nops := 1 + rng.Intn(3)
		for j := 0; j < nops && total < 8; j++ {
			p := planned{k: universe[rng.Intn(nkeys)], v: (t+1)*100 + j, yield: rng.P(1, 2)}
			if kind >= 2 {
				p.kind = []string{"P", "E", "X", "E", "X", "N", "P", "N"}[rng.Intn(8)]
			} else {
				p.kind = []string{"L", "S", "LS", "LF", "D", "R", "L", "LF"}[rng.Intn(8)]
			}
			kinds[p.kind] = true
			plans[t] = append(plans[t], p)
			total++
		}
	}
	var clock int64
	tick := func() int64 { return atomic.AddInt64(&clock, 1) }
	results := make([][]hcall, nth)
	start := make(chan struct{})
	var wg sync.WaitGroup
	for t := 0; t < nth; t++ {
		wg.Add(1)
		go func(t int) {
			defer wg.Done()
			<-start
			for _, p := range plans[t] {
				c := hcall{kind: p.kind, k: p.k, v: p.v}
				c.inv = tick()
				if p.yield {
					runtime.Gosched()
				}
				switch p.kind {
				case "L":
					v, ok := m.Load(p.k)
					c.res = gotTok(v, ok, ok)
				case "S":
					m.Store(p.k, p.v)
					c.res = "u"
				case "LS":
					v, l := m.LoadOrStore(p.k, p.v)
					c.res = gotTok(v, true, l)
				case "LF":
					v, l := m.LoadOrStoreFn(p.k, func() int {
						if p.yield {
							runtime.Gosched()
						}
						return p.v
					})
					c.res = gotTok(v, true, l)
				case "D":
					m.Delete(p.k)
					c.res = "u"
				case "R":
					got := map[int]int{}
					m.Range(func(k, v int) bool {
						got[k] = v
						if p.yield {
							runtime.Gosched()
						}
						return true
					})
					c.res = "s"
					for _, k := range universe {
						if v, ok := got[k]; ok {
							c.res += fmt.Sprintf("/%d=%d", k, v)
						}
					}
				case "P":
					if kind == 2 {
						cs.Put(strconv.Itoa(p.k))
					} else {
						gs.Put(p.k)
					}
					c.res = "u"
				case "E":
					var ok bool
					if kind == 2 {
						ok = cs.Exists(strconv.Itoa(p.k))
					} else {
						ok = gs.Exists(p.k)
					}
					c.res = gotTok(0, false, ok)
				case "X":
					if kind == 2 {
						cs.Remove(strconv.Itoa(p.k))
					} else {
						gs.Remove(p.k)
					}
					c.res = "u"
				case "N":
					var n int
					if kind == 2 {
						n = cs.Length()
					} else {
						n = gs.Length()
					}
					c.res = gotTok(n, true, false)
				}
				c.ret = tick()
				results[t] = append(results[t], c)
			}
		}(t)
	}
	close(start)
	wg.Wait()
	var calls []hcall
	for t := range results {
		calls = append(calls, results[t]...)
	}
	if kind >= 2 { // the final quiescent Length(): every goroutine has returned
		c := hcall{kind: "N", inv: tick()}
		if kind == 2 {
			c.res = gotTok(cs.Length(), true, false)
		} else {
			c.res = gotTok(gs.Length(), true, false)
		}
		c.ret = tick()
		calls = append(calls, c)
	}
	overlap := false
	for i := range calls {
		for j := range calls {
			if i != j && calls[i].inv < calls[j].inv && calls[j].inv < calls[i].ret {
				overlap = true
			}
		}
	}
	tags := []string{"history", []string{"object=sync2.Map", "object=sync2.Map", "object=ConcurrentSets", "object=GenericConcurrentSets"}[kind],
		fmt.Sprintf("goroutines=%d", nth)}
	if overlap {
		tags = append(tags, "overlapping-calls")
	} else {
		tags = append(tags, "no-overlap")
	}
	for _, k := range []string{"LF", "R", "N"} {
		if kinds[k] {
			tags = append(tags, "has-"+k)
		}
	}
	if kind >= 2 {
		tags = append(tags, "final-quiescent-Length")
		// two Removes of one key that was present at the start, overlapping in real time
		for i := range calls {
			for j := range calls {
				if _, present := init[calls[i].k]; i < j && present && calls[i].kind == "X" && calls[j].kind == "X" && calls[i].k == calls[j].k &&
					!(calls[i].ret < calls[j].inv || calls[j].ret < calls[i].inv) {
					tags = append(tags, "overlapping-removes-of-one-key")
					i = len(calls) - 1
					break
				}
			}
		}
	}
	return histCase(init, calls, universe, tags)
}

// ---------------------------------------------------------------- conc: corpus, generator, replay

func concCorpus(w *hx.Writer) {
	w.Put(runRange(2, 1)) // range-forced: the schedule of KF-C20-1 (expected to FAIL range-not-atomic: known finding)
	w.Put(runRange(3, 0))
	w.Put(runRange(3, 3))
	w.Put(runLofn("01010011")) // both callers pass the Load before either stores
	w.Put(runLofn("01011100"))
	w.Put(runLofn("000011"))
	w.Put(runLofn("111100"))
	// eight goroutines Remove the same present key of {1,2,3}, then the set is read (both set types); mixed calls on other keys
	w.Put(runSetLenLine(strings.Fields("setlen cs 3 500 x1 x1 x1 x1 x1 x1 x1 x1")))
	w.Put(runSetLenLine(strings.Fields("setlen gs 3 500 x1 x1 x1 x1 x1 x1 x1 x1")))
	w.Put(runSetLenLine(strings.Fields("setlen cs 2 150 x2.x1 p4.x2 x2 x2.x8")))
	w.Put(runSetLenLine(strings.Fields("setlen gs 0 50 p1 p1.p2 x3")))
	// all scanners of a start fail together; every closer fails
	runInChild([]string{"scan 2 3 1", "scan 12 4095 2", "scan 40 31 3", "close 8 255 4", "close 0 0 5"}, w)
	// the first start of a process: 32 components that all carry the same tag texts; every shape at once
	runInChild([]string{"fstart 32 1 1"}, w)
	runInChild([]string{"fstart 40 15 2"}, w)
	// the closing phase under a user logger (a fresh process each: the logger must be there before the first App logs):
	// everybody fails at once without delays; a few failing among slow ones; nobody fails
	runInChild([]string{"closel 8 255 4 1", "closel 16 65535 3 2", "closel 1 1 6 3", "closel 12 1170 3 4", "closel 5 0 1 5", "closel 0 0 1 6"}, w)
	// load-or-store of one definition: 2 / 8 / 16 callers released together on a fresh registry; in situ: a scanner that
	// contributes one shared definition while 32 / 48 / 3 components are scanned in parallel
	w.Put(runGmor(2, 400))
	w.Put(runGmor(8, 300))
	w.Put(runGmor(16, 150))
	w.Put(runGmor(1, 5))
	runInChild([]string{"gscan 32 4 1", "gscan 48 4 2", "gscan 3 6 3"}, w)
	// the closing phase under the built-in logger (a fresh process: the logger is built on the scratch file before the first
	// App logs): 12 / 24 closers that all fail at the same moment; some failing among others; one; nobody
	runInChild([]string{"closeb 12 4095 4 1", "closeb 24 16777215 3 2", "closeb 16 42405 3 3", "closeb 2 3 6 4", "closeb 5 4 2 5", "closeb 3 0 1 6"}, w)
	// seventh round. A history of Apps in one process, each with its own logger, user scanner and closers logging through one
	// syslog.Pref prefix: 4 Apps x 24 components; the prefix first used by the closers of App 2; by the scanner only; one App
	runInChild([]string{"plog 4 16 8 1 3 1", "plog 5 4 12 2 2 2", "plog 3 40 0 1 1 3", "plog 1 8 4 1 3 4"}, w)
	// Range against Store/Delete of one key: every reported pair was stored
	w.Put(runRdel(4, 1500))
	w.Put(runRdel(1, 300))
	// ninth round. The public factory driven directly (no App, no built-in processor looks at the definition registry before the
	// parallel scan): one tag scanner over 32 components; a recording scanner over 48; three scanners; control with a factory
	// post-processor that looks at the registry first
	runInChild([]string{"fdirect 32 t 30 1", "fdirect 48 r 30 2", "fdirect 16 tur 30 3", "fdirect 24 trf 10 4", "fdirect 2 r 30 5"}, w)
}

func concGen(rng *hx.Rng, n int, tier string, w *hx.Writer) {
	// (a) race-enabled real starts and shutdowns, in a child process
	starts := n * 15 / 100
	if tier == "thorough" {
		starts = n * 3 / 100
	}
	if starts < 8 {
		starts = 8
	}
	var lines []string
	for i := 0; i < starts; i++ {
		r := rng.Fork()
		if i%5 == 4 {
			nc := r.Intn(17)
			lines = append(lines, fmt.Sprintf("close %d %d %d", nc, r.U64()&((1<<uint(nc))-1), r.U64()%1000000))
			continue
		}
		nc := 2 + r.Intn(39)
		k := r.Intn(6)
		if k > nc {
			k = nc
		}
		var mask uint64
		for _, j := range r.Perm(nc)[:k] {
			mask |= 1 << uint(j)
		}
		lines = append(lines, fmt.Sprintf("scan %d %d %d", nc, mask, r.U64()%1000000))
	}
	runInChild(lines, w)
	// (a') first starts: each in its own fresh child process (what a start derives from tag texts, type names, … and keeps
	// process-wide is cold only once per process)
	firsts := 4
	if tier == "thorough" {
		firsts = 24
	}
	for i := 0; i < firsts; i++ {
		r := rng.Fork()
		nc := 8 + r.Intn(41)
		if r.P(1, 8) {
			nc = 2 + r.Intn(6)
		}
		kinds := uint64(1 + r.Intn(1<<fstartKinds-1))
		if r.P(1, 2) {
			kinds = 1 << uint(r.Intn(fstartKinds)) // one shape only: every component has the same tag texts
		}
		runInChild([]string{fmt.Sprintf("fstart %d %d %d", nc, kinds, r.U64()%1000000)}, w)
	}
	// (c) forced schedules
	forced := n / 20
	if forced > 40 {
		forced = 40
	}
	for i := 0; i < forced; i++ {
		r := rng.Fork()
		if r.Bool() {
			w.Put(runLofn([]string{"01010011", "01011100", "000011", "111100"}[r.Intn(4)]))
		} else {
			nk := 2 + r.Intn(3)
			w.Put(runRange(nk, r.Intn(nk+1)))
		}
	}
	// (c') forced concurrency on the sets: several goroutines Remove one present key, then Length() is read
	setlens, trials := 6, 600
	if tier == "thorough" {
		setlens, trials = n/400, 1500
		if setlens > 40 {
			setlens = 40
		}
	}
	for i := 0; i < setlens; i++ {
		w.Put(genSetLen(rng.Fork(), trials))
	}
	// (b) recorded histories
	for i := 0; i < n; i++ {
		w.Put(recordHistory(rng.Fork()))
	}
	// the kinds below were added later; they draw after everything else, so the cases above are what they were before
	// (a'') the closing phase under a user logger: one fresh child process for the whole batch (quick 8, thorough 40 lines)
	{
		nl, rounds := 8, 3
		if tier == "thorough" {
			nl, rounds = 40, 6
		}
		var ls []string
		for i := 0; i < nl; i++ {
			r := rng.Fork()
			nc := 1 + r.Intn(16)
			all := uint64(1)<<uint(nc) - 1
			mask := all
			switch r.Intn(4) {
			case 0:
				mask = r.U64() & all
			case 1:
				mask = 1 << uint(r.Intn(nc))
			}
			ls = append(ls, fmt.Sprintf("closel %d %d %d %d", nc, mask, rounds, r.U64()%1000000))
		}
		runInChild(ls, w)
	}
	// (a''') load-or-store of a definition: forced on the registry alone, and in situ during the parallel scan
	{
		ng, trials, ns, starts := 4, 300, 4, 3
		if tier == "thorough" {
			ng, trials, ns, starts = 16, 1500, 16, 8
		}
		for i := 0; i < ng; i++ {
			r := rng.Fork()
			w.Put(runGmor([]int{2, 3, 4, 8, 8, 12, 16, 24}[r.Intn(8)], trials))
		}
		var ls []string
		for i := 0; i < ns; i++ {
			r := rng.Fork()
			nc := 8 + r.Intn(41)
			if r.P(1, 8) {
				nc = 2 + r.Intn(6)
			}
			ls = append(ls, fmt.Sprintf("gscan %d %d %d", nc, starts, r.U64()%1000000))
		}
		runInChild(ls, w)
	}
	// (a-5) the closing phase under the built-in logger, 8-24 closers failing together: one fresh child process for the
	// batch (quick 4, thorough 16 lines)
	{
		nl, rounds := 4, 4
		if tier == "thorough" {
			nl, rounds = 16, 12
		}
		var ls []string
		for i := 0; i < nl; i++ {
			r := rng.Fork()
			nc := 8 + r.Intn(17)
			all := uint64(1)<<uint(nc) - 1
			mask := all
			if r.P(1, 3) {
				mask = (r.U64() | r.U64()) & all // about three quarters of them
				if mask&(mask-1) == 0 {
					mask = all
				}
			}
			ls = append(ls, fmt.Sprintf("closeb %d %d %d %d", nc, mask, rounds, r.U64()%1000000))
		}
		runInChild(ls, w)
	}
	// (a-6) seventh round: histories of Apps with their own loggers and one shared syslog.Pref prefix: one fresh child process
	// for the batch (quick 6, thorough 30 lines); Range against Store/Delete of one key (quick 3, thorough 12 cases)
	{
		nl, nr, rounds := 6, 3, 1500
		if tier == "thorough" {
			nl, nr, rounds = 30, 12, 20000
		}
		var ls []string
		for i := 0; i < nl; i++ {
			ls = append(ls, genPlog(rng.Fork(), tier))
		}
		runInChild(ls, w)
		for i := 0; i < nr; i++ {
			r := rng.Fork()
			w.Put(runRdel([]int{2, 3, 4, 4, 6, 8}[r.Intn(6)], rounds))
		}
	}
	// (a-7) ninth round: the public factory driven directly, fresh factory per start: one child process for the batch (quick 6,
	// thorough 30 lines)
	{
		nl := 6
		if tier == "thorough" {
			nl = 30
		}
		var ls []string
		for i := 0; i < nl; i++ {
			ls = append(ls, genFdirectLine(rng.Fork(), tier))
		}
		runInChild(ls, w)
	}
}

func concReplay(scn string, w *hx.Writer) {
	f := strings.Fields(scn)
	if len(f) > 0 && (((f[0] == "scan" || f[0] == "fstart" || f[0] == "gscan" || f[0] == "fdirect") && raceEnabled) || f[0] == "cstart" || f[0] == "closel" || f[0] == "closeb" || f[0] == "plog" || f[0] == "closep") {
		runInChild([]string{scn}, w)
		return
	}
	w.Put(runLine(scn, 30))
}

// ---------------------------------------------------------------- closep: a start through ioc.Register + ioc.Run (eighth round)

// closepDirty: ioc.Register was called in this process. The package-level slice it appends to is never cleared, so a second
// `closep` history in the same process would start with the closers of the first one: every line runs in a child of its own.
var closepDirty bool

type closepOpt struct {
	registry bool // app.SetRegistry(support.NewRegistry())
	k        int  // app.SetComponents(<k closers>)
}

func parseCounts(s string, max int) ([]int, bool) {
	if s == "-" {
		return nil, true
	}
	var out []int
	for _, t := range strings.Split(s, ".") {
		v, err := strconv.Atoi(t)
		if err != nil || v < 1 || v > 8 || strconv.Itoa(v) != t {
			return nil, false
		}
		out = append(out, v)
	}
	return out, len(out) > 0 && len(out) <= max
}

func parseCloseP(regs, opts string) (groups []int, ops []closepOpt, ok bool) {
	groups, ok = parseCounts(regs, 6)
	if !ok {
		return nil, nil, false
	}
	if opts == "-" {
		return groups, nil, true
	}
	toks := strings.Split(opts, ".")
	if len(toks) > 8 {
		return nil, nil, false
	}
	comps := false
	for _, t := range toks {
		if t == "r" {
			if comps { // a registry installed after components of the same call: not generated, not judged
				return nil, nil, false
			}
			ops = append(ops, closepOpt{registry: true})
			continue
		}
		ks, ok := parseCounts(t, 1)
		if !ok || len(ks) != 1 {
			return nil, nil, false
		}
		comps = true
		ops = append(ops, closepOpt{k: ks[0]})
	}
	return groups, ops, true
}

// runCloseP: see the header (`closep`). Runs in the process it is called in: callers go through runInChild, one line each.
func runCloseP(regs, opts string, mask, seed uint64, maxDelayMs int) hx.Case {
	concQuiet()
	scn := fmt.Sprintf("closep %s %s %d %d", regs, opts, mask, seed)
	groups, ops, ok := parseCloseP(regs, opts)
	nreg, nown, nsetreg := 0, 0, 0
	for _, g := range groups {
		nreg += g
	}
	for _, o := range ops {
		nown += o.k
		if o.registry {
			nsetreg++
		}
	}
	total := nreg + nown
	if !ok || total > 60 || mask>>uint(total) != 0 {
		return hx.Case{Scn: scn, Obs: "bad-line", Oracle: "FAIL bad-line"}
	}
	if closepDirty {
		return hx.Case{Scn: scn, Obs: "bad-process", Oracle: "FAIL harness-closep-reused ioc.Register was already called in this process"}
	}
	rng := hx.NewRng(seed ^ 0xC105E9)
	closers := make([]*vCloser, total)
	whats := make([]string, total)
	samplers := make([]closeSampler, total)
	nfail := 0
	for i := range closers {
		d := time.Duration(0)
		if maxDelayMs > 0 && rng.P(1, 2) {
			d = time.Duration(rng.Intn(maxDelayMs*1000+1)) * time.Microsecond
		}
		name := fmt.Sprintf("vr%03d", i)
		whats[i] = fmt.Sprintf("closer %q handed to ioc.Register", name)
		if i >= nreg {
			name = fmt.Sprintf("vc%03d", i)
			whats[i] = fmt.Sprintf("closer %q of a SetComponents option of the ioc.Run call", name)
		}
		c := &vCloser{N: name, delay: d, fail: bit(mask, i)}
		if c.fail {
			nfail++
		}
		closers[i] = c
		samplers[i] = func() (int32, int32) { return atomic.LoadInt32(&c.calls), atomic.LoadInt32(&c.done) }
	}
	tags := []string{"close", "package-level-entry-points", fmt.Sprintf("closers=%s", bucket(total)), fmt.Sprintf("failing=%s", bucket(nfail)),
		fmt.Sprintf("via-ioc.Register=%s", bucket(nreg)), fmt.Sprintf("via-SetComponents=%s", bucket(nown)), fmt.Sprintf("SetRegistry-options=%d", nsetreg)}
	if nreg == 0 || nsetreg == 0 {
		tags = append(tags, "trivial")
	}
	next := 0
	take := func(k int) []any {
		var cs []any
		for j := 0; j < k; j++ {
			cs = append(cs, closers[next])
			next++
		}
		return cs
	}
	for _, g := range groups {
		closepDirty = true
		ioc.Register(take(g)...)
	}
	options := []app.SettingOption{app.SetConfigLoader()}
	for _, o := range ops {
		if o.registry {
			options = append(options, app.SetRegistry(support.NewRegistry()))
		} else {
			options = append(options, app.SetComponents(take(o.k)...))
		}
	}
	var a *app.App
	var err error
	if out := withWatchdog(20*time.Second, func() { a, err = ioc.Run(options...) }); out != "" || err != nil || a == nil {
		return hx.Case{Scn: scn, Obs: "run-" + out + "-failed", Oracle: "FAIL close-run-failed " + fmt.Sprint(err), Tags: tags}
	}
	obs, oracle, _ := closeAndSample(a, samplers, func(i int) string {
		return fmt.Sprintf("%s; ioc.Run was given %d SetRegistry option(s) before its components", whats[i], nsetreg)
	})
	return hx.Case{Scn: scn, Obs: obs, Oracle: oracle, Tags: tags}
}

func genClosePLine(r *hx.Rng) string {
	var regs, opts []string
	total := 0
	ng := 1 + r.Intn(3)
	if r.P(1, 8) {
		ng = 0
	}
	for i := 0; i < ng; i++ {
		k := 1 + r.Intn(4)
		if r.P(1, 6) {
			k = 5 + r.Intn(4)
		}
		regs = append(regs, strconv.Itoa(k))
		total += k
	}
	// three of four histories install a registry of their own (sometimes twice) before the call's components
	if r.P(3, 4) {
		opts = append(opts, "r")
		if r.P(1, 6) {
			opts = append(opts, "r")
		}
	}
	nc := r.Intn(3)
	for i := 0; i < nc; i++ {
		k := 1 + r.Intn(4)
		opts = append(opts, strconv.Itoa(k))
		total += k
	}
	all := uint64(1)<<uint(total) - 1
	var mask uint64
	switch r.Intn(4) {
	case 0:
	case 1:
		mask = all
	default:
		mask = r.U64() & all
	}
	j := func(l []string) string {
		if len(l) == 0 {
			return "-"
		}
		return strings.Join(l, ".")
	}
	return fmt.Sprintf("closep %s %s %d %d", j(regs), j(opts), mask, r.U64()%1000000)
}

// ---------------------------------------------------------------- closek: closers of other Go kinds than (pointer to) struct (eighth round)

// kRec: what a closer that cannot carry fields would carry; kEnv: the recorder of the current start, keyed by the component
// VALUE (a pointer or a channel: comparable, unique per component). One start at a time per process.
type kRec struct {
	name        string
	delay       time.Duration
	fail        bool
	calls, done int32
}

type kEnv struct{ recs map[any]*kRec }

var curK atomic.Pointer[kEnv]

// kStray: Close calls on values the current start does not know (a component of an earlier start closed late)
var kStray int32

func kRecOf(v any) *kRec {
	if e := curK.Load(); e != nil {
		return e.recs[v]
	}
	return nil
}

func kName(v any) string {
	if r := kRecOf(v); r != nil {
		return r.name
	}
	return "" // a value the start does not know (e.g. a zero value made by reflection): no name of its own
}

func kClose(v any) error {
	r := kRecOf(v)
	if r == nil {
		atomic.AddInt32(&kStray, 1)
		return nil
	}
	atomic.AddInt32(&r.calls, 1)
	if r.delay > 0 {
		time.Sleep(r.delay)
	}
	atomic.StoreInt32(&r.done, 1)
	if r.fail {
		return errors.New("close failed")
	}
	return nil
}

type (
	vKInt   int64          // a session counter
	vKList  []string       // a pool of connections
	vKChan  chan struct{}  // a stop signal
	vKText  string         // a lock-file path
	vKMap   map[string]int // a table of open handles
	vKIntT  int64
	vKListT []string
	vKChanT chan struct{}
)

func (c *vKInt) Close() error   { return kClose(c) }
func (c *vKList) Close() error  { return kClose(c) }
func (c vKChan) Close() error   { return kClose(c) }
func (c *vKText) Close() error  { return kClose(c) }
func (c *vKMap) Close() error   { return kClose(c) }
func (c *vKIntT) Close() error  { return kClose(c) }
func (c *vKListT) Close() error { return kClose(c) }
func (c vKChanT) Close() error  { return kClose(c) }

func (c *vKInt) Naming() string  { return kName(c) }
func (c *vKList) Naming() string { return kName(c) }
func (c vKChan) Naming() string  { return kName(c) }
func (c *vKText) Naming() string { return kName(c) }
func (c *vKMap) Naming() string  { return kName(c) }

const closekKinds = "silctmILC"

func newKComp(kind byte, i int) (comp any, what string) {
	switch kind {
	case 'i':
		p := new(vKInt)
		*p = vKInt(i + 1)
		return p, "pointer to a named integer (*vKInt)"
	case 'l':
		p := &vKList{"a", "b"}
		return p, "pointer to a named slice (*vKList)"
	case 'c':
		return make(vKChan), "named channel (vKChan)"
	case 't':
		p := new(vKText)
		*p = vKText(fmt.Sprintf("/run/lock/%d", i))
		return p, "pointer to a named string (*vKText)"
	case 'm':
		p := &vKMap{"fd": i}
		return p, "pointer to a named map (*vKMap)"
	case 'I':
		p := new(vKIntT)
		*p = vKIntT(i + 1)
		return p, "pointer to a named integer, named after its type (*vKIntT)"
	case 'L':
		p := &vKListT{"a"}
		return p, "pointer to a named slice, named after its type (*vKListT)"
	case 'C':
		return make(vKChanT), "named channel, named after its type (vKChanT)"
	}
	return nil, ""
}

// runCloseK: see the header (`closek`).
func runCloseK(n int, mask uint64, kinds string, seed uint64, maxDelayMs int) hx.Case {
	concQuiet()
	scn := fmt.Sprintf("closek %d %d %s %d", n, mask, kinds, seed)
	ok := n >= 0 && n <= 40 && mask>>uint(n) == 0 && (len(kinds) == n || (n == 0 && kinds == "-"))
	if ok && n > 0 {
		for _, k := range []byte(kinds) {
			if !strings.ContainsRune(closekKinds, rune(k)) || (k < 'a' && strings.Count(kinds, string(k)) > 1) {
				ok = false
			}
		}
	}
	if !ok {
		return hx.Case{Scn: scn, Obs: "bad-line", Oracle: "FAIL bad-line"}
	}
	rng := hx.NewRng(seed ^ 0xC105EB)
	env := &kEnv{recs: map[any]*kRec{}}
	var comps []any
	var samplers []closeSampler
	var whats []string
	nfail, nother := 0, 0
	for i := 0; i < n; i++ {
		d := time.Duration(0)
		if maxDelayMs > 0 && rng.P(1, 2) {
			d = time.Duration(rng.Intn(maxDelayMs*1000+1)) * time.Microsecond
		}
		fail := bit(mask, i)
		if fail {
			nfail++
		}
		if kinds[i] == 's' {
			c := &vCloser{N: fmt.Sprintf("vc%03d", i), delay: d, fail: fail}
			comps = append(comps, c)
			samplers = append(samplers, func() (int32, int32) { return atomic.LoadInt32(&c.calls), atomic.LoadInt32(&c.done) })
			whats = append(whats, fmt.Sprintf("pointer to a struct (*vCloser) %q", c.N))
			continue
		}
		nother++
		comp, what := newKComp(kinds[i], i)
		rec := &kRec{delay: d, fail: fail}
		if kinds[i] >= 'a' {
			rec.name = fmt.Sprintf("vk%03d", i)
			what += fmt.Sprintf(" %q", rec.name)
		}
		env.recs[comp] = rec
		comps = append(comps, comp)
		samplers = append(samplers, func() (int32, int32) { return atomic.LoadInt32(&rec.calls), atomic.LoadInt32(&rec.done) })
		whats = append(whats, what)
	}
	tags := []string{"close", "closers-of-other-kinds", fmt.Sprintf("closers=%s", bucket(n)), fmt.Sprintf("failing=%s", bucket(nfail)),
		fmt.Sprintf("not-struct-kind=%s", bucket(nother))}
	for _, k := range []byte(closekKinds) {
		if strings.IndexByte(kinds, k) >= 0 {
			tags = append(tags, fmt.Sprintf("kind-%c", k))
		}
	}
	if nother == 0 {
		tags = append(tags, "trivial")
	}
	curK.Store(env)
	a := app.NewApp()
	var err error
	if out := withWatchdog(20*time.Second, func() { err = a.Run(app.SetComponents(comps...), app.SetConfigLoader()) }); out != "" || err != nil {
		return hx.Case{Scn: scn, Obs: "run-" + out + "-failed", Oracle: "FAIL close-run-failed " + fmt.Sprint(err), Tags: tags}
	}
	obs, oracle, _ := closeAndSample(a, samplers, func(i int) string { return "a " + whats[i] })
	return hx.Case{Scn: scn, Obs: obs, Oracle: oracle, Tags: tags}
}

func genCloseK(r *hx.Rng) hx.Case {
	n := 1 + r.Intn(12)
	if r.P(1, 8) {
		n = 13 + r.Intn(20)
	}
	self := "ilctm"
	kinds := make([]byte, n)
	for i := range kinds {
		if r.P(2, 5) {
			kinds[i] = 's'
		} else {
			kinds[i] = self[r.Intn(len(self))]
		}
	}
	if r.P(1, 8) { // nobody is a struct
		for i := range kinds {
			kinds[i] = self[r.Intn(len(self))]
		}
	}
	// type-named ones: each at most once
	for _, k := range []byte("ILC") {
		if r.P(1, 3) {
			kinds[r.Intn(n)] = k
		}
	}
	// a later draw may have overwritten an earlier type-named one, never doubled it
	all := uint64(1)<<uint(n) - 1
	var mask uint64
	switch r.Intn(4) {
	case 0:
	case 1:
		mask = all
	default:
		mask = r.U64() & all
	}
	return runCloseK(n, mask, string(kinds), r.U64()%1000000, 30)
}

// ---------------------------------------------------------------- closeq: closers next to USER post-processors (ninth round)
//
//	closeq <n> <errmask> <procs> <seed>
//	                             as `close`, plus user InstantiationAwareComponentPostProcessors written the documented way (they
//	                             embed processors.DefaultInstantiationAwareComponentPostProcessor). procs = tokens joined by `.`
//	                             (`-` = none), a token = class + order digit + answer. Class: `p` PriorityOrdered, `o` Ordered,
//	                             `u` neither (digit 0). Order() = closeqOrders[digit] (-1 0 1 2 3 4 5 8 16 100: below, at and above
//	                             the orders 2 / 4 / 8 of the built-in dependency / matching / validation processors). Answer: `d` the
//	                             processor keeps the embedded default PostProcessAfterInstantiation (false: "I do not want to see the
//	                             properties"), `t` it overrides it and answers true (its PostProcessProperties does nothing).
//	                             Which processors take part in the start is no business of Close: every registered closer is a
//	                             registered closer.
//	                             observation as `close`
//	closeh <n> <errmask> <quals> <holders> <seed>
//	                             as `close`, but closer i has the wire qualifier quals[i] (len(quals) = n): `s` none (vCloser), `d`
//	                             Qualifier() = "db", `m` Qualifier() = "mq"; plus OTHER components that have an injection point of the
//	                             closer interface type themselves. holders = tokens joined by `.` (`-` = none), a token = kind +
//	                             qualifier + position. Kind `l`: a field `[]definition.CloserComponent`, `o`: a field
//	                             `definition.CloserComponent`; qualifier `d` / `m`: the tag `wire:",qualifier=db"` / `…=mq"`, `n`: the
//	                             tag `wire:""`; position `b`: the holder is named `a-vh<k>` (sorts BEFORE the App's own name, so it is
//	                             populated before the App), `a`: `z-vh<k>` (after it). A holder whose qualifier no closer carries is a
//	                             `bad-line` (its field is required: the start fails by design). The holders close nothing.
//	                             observation as `close`
//
// Oracle (both): the exactly-once oracle of `close` — every registered closer invoked once and returned when Close returns
// (close-not-all-once).

var closeqOrders = []int{-1, 0, 1, 2, 3, 4, 5, 8, 16, 100}

// vQProc: a user post-processor that embeds the documented default and counts the components it is shown
type vQProc struct {
	processors.DefaultInstantiationAwareComponentPostProcessor
	N     string
	order int
	seen  int32
}

func (p *vQProc) Naming() string { return p.N }
func (p *vQProc) PostProcessBeforeInitialization(component any, componentName string) (any, error) {
	atomic.AddInt32(&p.seen, 1)
	return component, nil
}

type (
	vQProcU  struct{ vQProc } // not ordered, default answer
	vQProcO  struct{ vQProc } // Ordered, default answer
	vQProcP  struct{ vQProc } // PriorityOrdered, default answer
	vQProcUT struct{ vQProc } // the same three, answering true
	vQProcOT struct{ vQProc }
	vQProcPT struct{ vQProc }
)

func (p *vQProcO) Order() int  { return p.order }
func (p *vQProcP) Order() int  { return p.order }
func (p *vQProcP) Priority()   {}
func (p *vQProcOT) Order() int { return p.order }
func (p *vQProcPT) Order() int { return p.order }
func (p *vQProcPT) Priority()  {}

func (p *vQProcUT) PostProcessAfterInstantiation(any, string) (bool, error) { return true, nil }
func (p *vQProcOT) PostProcessAfterInstantiation(any, string) (bool, error) { return true, nil }
func (p *vQProcPT) PostProcessAfterInstantiation(any, string) (bool, error) { return true, nil }

type qProcTok struct {
	class  byte
	digit  int
	answer byte
}

func parseQProcs(s string) ([]qProcTok, bool) {
	if s == "-" {
		return nil, true
	}
	var out []qProcTok
	for _, t := range strings.Split(s, ".") {
		if len(t) != 3 || !strings.ContainsRune("pou", rune(t[0])) || t[1] < '0' || t[1] > '9' || !strings.ContainsRune("dt", rune(t[2])) {
			return nil, false
		}
		if t[0] == 'u' && t[1] != '0' {
			return nil, false
		}
		out = append(out, qProcTok{t[0], int(t[1] - '0'), t[2]})
	}
	return out, len(out) <= 6
}

func newQProc(t qProcTok, k int) (any, string) {
	base := vQProc{N: fmt.Sprintf("vqp%d", k), order: closeqOrders[t.digit]}
	ans := "keeps the default PostProcessAfterInstantiation (false)"
	if t.answer == 't' {
		ans = "answers true"
	}
	switch string([]byte{t.class, t.answer}) {
	case "ud":
		return &vQProcU{base}, "not ordered, " + ans
	case "ut":
		return &vQProcUT{base}, "not ordered, " + ans
	case "od":
		return &vQProcO{base}, fmt.Sprintf("Ordered %d, %s", base.order, ans)
	case "ot":
		return &vQProcOT{base}, fmt.Sprintf("Ordered %d, %s", base.order, ans)
	case "pd":
		return &vQProcP{base}, fmt.Sprintf("PriorityOrdered %d, %s", base.order, ans)
	}
	return &vQProcPT{base}, fmt.Sprintf("PriorityOrdered %d, %s", base.order, ans)
}

// runCloseQ: see above (`closeq`).
func runCloseQ(n int, mask uint64, procs string, seed uint64, maxDelayMs int) hx.Case {
	concQuiet()
	scn := fmt.Sprintf("closeq %d %d %s %d", n, mask, procs, seed)
	toks, ok := parseQProcs(procs)
	if !ok || n < 0 || n > 40 || mask>>uint(n) != 0 {
		return hx.Case{Scn: scn, Obs: "bad-line", Oracle: "FAIL bad-line"}
	}
	rng := hx.NewRng(seed ^ 0xC105EC)
	var comps []any
	var samplers []closeSampler
	nfail, nveto, nearly := 0, 0, 0
	for i := 0; i < n; i++ {
		d := time.Duration(0)
		if maxDelayMs > 0 && rng.P(1, 2) {
			d = time.Duration(rng.Intn(maxDelayMs*1000+1)) * time.Microsecond
		}
		c := &vCloser{N: fmt.Sprintf("vc%03d", i), delay: d, fail: bit(mask, i)}
		if c.fail {
			nfail++
		}
		comps = append(comps, c)
		samplers = append(samplers, func() (int32, int32) { return atomic.LoadInt32(&c.calls), atomic.LoadInt32(&c.done) })
	}
	var descr []string
	for k, t := range toks {
		p, what := newQProc(t, k)
		comps = append(comps, p)
		descr = append(descr, what)
		if t.answer == 'd' {
			nveto++
			if t.class == 'p' || (t.class == 'o' && closeqOrders[t.digit] < 2) {
				nearly++
			}
		}
	}
	if len(comps) > 1 {
		r := rng.Intn(len(comps))
		comps = append(append([]any{}, comps[r:]...), comps[:r]...)
	}
	tags := []string{"close", "user-post-processors", fmt.Sprintf("closers=%s", bucket(n)), fmt.Sprintf("failing=%s", bucket(nfail)),
		fmt.Sprintf("user-processors=%s", bucket(len(toks))), fmt.Sprintf("answering-false=%s", bucket(nveto)),
		fmt.Sprintf("answering-false-before-the-dependency-processor=%s", bucket(nearly))}
	if nearly == 0 || n == 0 {
		tags = append(tags, "trivial")
	}
	a := app.NewApp()
	var err error
	if out := withWatchdog(20*time.Second, func() { err = a.Run(app.SetComponents(comps...), app.SetConfigLoader()) }); out != "" || err != nil {
		return hx.Case{Scn: scn, Obs: "run-" + out + "-failed", Oracle: "FAIL close-run-failed " + fmt.Sprint(err), Tags: tags}
	}
	obs, oracle, _ := closeAndSample(a, samplers, func(i int) string {
		return fmt.Sprintf("component \"vc%03d\"; user post-processors of the start: %s", i, strings.Join(descr, "; "))
	})
	return hx.Case{Scn: scn, Obs: obs, Oracle: oracle, Tags: tags}
}

func genCloseQ(r *hx.Rng) hx.Case {
	n := 1 + r.Intn(8)
	if r.P(1, 10) {
		n = r.Intn(17)
	}
	np := 1 + r.Intn(3)
	if r.P(1, 10) {
		np = 0
	}
	var toks []string
	for i := 0; i < np; i++ {
		class := "pou"[r.Intn(3)]
		digit := r.Intn(len(closeqOrders))
		if class == 'u' {
			digit = 0
		}
		answer := byte('d')
		if r.P(1, 3) {
			answer = 't'
		}
		toks = append(toks, fmt.Sprintf("%c%d%c", class, digit, answer))
	}
	procs := "-"
	if len(toks) > 0 {
		procs = strings.Join(toks, ".")
	}
	all := uint64(1)<<uint(n) - 1
	var mask uint64
	switch r.Intn(4) {
	case 0:
	case 1:
		mask = all
	default:
		mask = r.U64() & all
	}
	return runCloseQ(n, mask, procs, r.U64()%1000000, 30)
}

// ---- closeh: other components with an injection point of the closer interface type

type vQCloser struct {
	vCloser
	Q string
}

func (c *vQCloser) Qualifier() string { return c.Q }

type (
	vHoldLD struct {
		N  string
		Cs []definition.CloserComponent `wire:",qualifier=db"`
	}
	vHoldLM struct {
		N  string
		Cs []definition.CloserComponent `wire:",qualifier=mq"`
	}
	vHoldLN struct {
		N  string
		Cs []definition.CloserComponent `wire:""`
	}
	vHoldOD struct {
		N string
		C definition.CloserComponent `wire:",qualifier=db"`
	}
	vHoldOM struct {
		N string
		C definition.CloserComponent `wire:",qualifier=mq"`
	}
	vHoldON struct {
		N string
		C definition.CloserComponent `wire:""`
	}
)

func (h *vHoldLD) Naming() string { return h.N }
func (h *vHoldLM) Naming() string { return h.N }
func (h *vHoldLN) Naming() string { return h.N }
func (h *vHoldOD) Naming() string { return h.N }
func (h *vHoldOM) Naming() string { return h.N }
func (h *vHoldON) Naming() string { return h.N }

func parseHolders(s string) ([]string, bool) {
	if s == "-" {
		return nil, true
	}
	toks := strings.Split(s, ".")
	for _, t := range toks {
		if len(t) != 3 || !strings.ContainsRune("lo", rune(t[0])) || !strings.ContainsRune("dmn", rune(t[1])) || !strings.ContainsRune("ba", rune(t[2])) {
			return nil, false
		}
	}
	return toks, len(toks) <= 6
}

func newHolder(t string, k int) any {
	name := fmt.Sprintf("z-vh%d", k)
	if t[2] == 'b' {
		name = fmt.Sprintf("a-vh%d", k)
	}
	switch t[:2] {
	case "ld":
		return &vHoldLD{N: name}
	case "lm":
		return &vHoldLM{N: name}
	case "ln":
		return &vHoldLN{N: name}
	case "od":
		return &vHoldOD{N: name}
	case "om":
		return &vHoldOM{N: name}
	}
	return &vHoldON{N: name}
}

// runCloseH: see above (`closeh`).
func runCloseH(n int, mask uint64, quals, holders string, seed uint64, maxDelayMs int) hx.Case {
	concQuiet()
	scn := fmt.Sprintf("closeh %d %d %s %s %d", n, mask, quals, holders, seed)
	toks, ok := parseHolders(holders)
	ok = ok && n >= 0 && n <= 40 && mask>>uint(n) == 0 && (len(quals) == n || (n == 0 && quals == "-"))
	if ok && n > 0 {
		for _, q := range []byte(quals) {
			if !strings.ContainsRune("sdm", rune(q)) {
				ok = false
			}
		}
	}
	if ok {
		for _, t := range toks {
			switch t[1] {
			case 'n':
				ok = ok && n > 0
			default:
				ok = ok && n > 0 && strings.IndexByte(quals, t[1]) >= 0
			}
		}
	}
	if !ok {
		return hx.Case{Scn: scn, Obs: "bad-line", Oracle: "FAIL bad-line"}
	}
	rng := hx.NewRng(seed ^ 0xC105ED)
	var comps []any
	var samplers []closeSampler
	var whats []string
	nfail, nqual, nearly, nnarrow := 0, 0, 0, 0
	for i := 0; i < n; i++ {
		d := time.Duration(0)
		if maxDelayMs > 0 && rng.P(1, 2) {
			d = time.Duration(rng.Intn(maxDelayMs*1000+1)) * time.Microsecond
		}
		base := vCloser{N: fmt.Sprintf("vc%03d", i), delay: d, fail: bit(mask, i)}
		if base.fail {
			nfail++
		}
		if quals[i] == 's' {
			c := &vCloser{N: base.N, delay: base.delay, fail: base.fail}
			comps = append(comps, c)
			samplers = append(samplers, func() (int32, int32) { return atomic.LoadInt32(&c.calls), atomic.LoadInt32(&c.done) })
			whats = append(whats, fmt.Sprintf("component %q without qualifier", c.N))
			continue
		}
		nqual++
		c := &vQCloser{Q: map[byte]string{'d': "db", 'm': "mq"}[quals[i]]}
		c.N, c.delay, c.fail = base.N, base.delay, base.fail
		comps = append(comps, c)
		samplers = append(samplers, func() (int32, int32) { return atomic.LoadInt32(&c.calls), atomic.LoadInt32(&c.done) })
		whats = append(whats, fmt.Sprintf("component %q with qualifier %q", c.N, c.Q))
	}
	var descr []string
	for k, t := range toks {
		comps = append(comps, newHolder(t, k))
		field := map[byte]string{'l': "[]definition.CloserComponent", 'o': "definition.CloserComponent"}[t[0]]
		tag := map[byte]string{'d': `wire:",qualifier=db"`, 'm': `wire:",qualifier=mq"`, 'n': `wire:""`}[t[1]]
		pos := map[byte]string{'b': "populated before the App", 'a': "populated after the App"}[t[2]]
		descr = append(descr, fmt.Sprintf("%s `%s` (%s)", field, tag, pos))
		if t[2] == 'b' {
			nearly++
			if t[1] != 'n' {
				nnarrow++
			}
		}
	}
	if len(comps) > 1 {
		r := rng.Intn(len(comps))
		comps = append(append([]any{}, comps[r:]...), comps[:r]...)
	}
	tags := []string{"close", "other-holders-of-closers", fmt.Sprintf("closers=%s", bucket(n)), fmt.Sprintf("failing=%s", bucket(nfail)),
		fmt.Sprintf("closers-with-qualifier=%s", bucket(nqual)), fmt.Sprintf("holders=%s", bucket(len(toks))),
		fmt.Sprintf("holders-before-the-app=%s", bucket(nearly)), fmt.Sprintf("narrowing-holders-before-the-app=%s", bucket(nnarrow))}
	if nnarrow == 0 || n < 2 {
		tags = append(tags, "trivial")
	}
	a := app.NewApp()
	var err error
	if out := withWatchdog(20*time.Second, func() { err = a.Run(app.SetComponents(comps...), app.SetConfigLoader()) }); out != "" || err != nil {
		return hx.Case{Scn: scn, Obs: "run-" + out + "-failed", Oracle: "FAIL close-run-failed " + fmt.Sprint(err), Tags: tags}
	}
	obs, oracle, _ := closeAndSample(a, samplers, func(i int) string {
		return fmt.Sprintf("%s; other components with a closer injection point: %s", whats[i], strings.Join(descr, "; "))
	})
	return hx.Case{Scn: scn, Obs: obs, Oracle: oracle, Tags: tags}
}

func genCloseH(r *hx.Rng) hx.Case {
	n := 3 + r.Intn(8)
	if r.P(1, 8) {
		n = 1 + r.Intn(2)
	}
	quals := make([]byte, n)
	for i := range quals {
		quals[i] = "ssdm"[r.Intn(4)]
		if r.P(1, 4) {
			quals[i] = 'd'
		}
	}
	nh := 1 + r.Intn(3)
	if r.P(1, 10) {
		nh = 0
	}
	var toks []string
	for i := 0; i < nh; i++ {
		kind := byte('l')
		if r.P(1, 3) {
			kind = 'o'
		}
		q := "ddmn"[r.Intn(4)]
		if q != 'n' && strings.IndexByte(string(quals), q) < 0 {
			quals[r.Intn(n)] = q // somebody carries the qualifier the holder asks for
		}
		pos := byte('b')
		if r.P(1, 4) {
			pos = 'a'
		}
		toks = append(toks, string([]byte{kind, q, pos}))
	}
	// a later holder may have overwritten the only carrier of an earlier holder's qualifier: give it one back
	for _, t := range toks {
		if t[1] != 'n' && strings.IndexByte(string(quals), t[1]) < 0 {
			for i := range quals {
				if quals[i] == 's' || strings.Count(string(quals), string(quals[i])) > 1 {
					quals[i] = t[1]
					break
				}
			}
		}
	}
	for _, t := range toks {
		if t[1] != 'n' && strings.IndexByte(string(quals), t[1]) < 0 {
			toks = nil // cannot happen with at most two qualifiers and n >= 3; with n < 3 the line is generated without holders
			break
		}
	}
	holders := "-"
	if len(toks) > 0 {
		holders = strings.Join(toks, ".")
	}
	all := uint64(1)<<uint(n) - 1
	var mask uint64
	switch r.Intn(4) {
	case 0:
	case 1:
		mask = all
	default:
		mask = r.U64() & all
	}
	return runCloseH(n, mask, string(quals), holders, r.U64()%1000000, 30)
}

// ---------------------------------------------------------------- fdirect: the public factory driven directly (ninth round)
//
//	fdirect <n> <parts> <starts> <seed>
//	                             (C20) <starts> fresh starts of the container's public building blocks WITHOUT the App and its built-in
//	                             processors: `support.NewRegistry()`, n components `vd000…` (each with two tagged fields), the parts,
//	                             `factory.Default()`, SetRegistry, SetConfigure, PrepareComponents (the parallel definition scan), Refresh.
//	                             parts = one letter per further registered singleton: `t` a tag scanner for the tag `link`, `u` one for
//	                             the tag `link2` (both embed the public processors.DefaultTagScanDefinitionRegistryPostProcessor), `r` a
//	                             recording scanner (asks the registry it is handed for GetMetaOrRegister(name, component) and keeps what
//	                             it was given), `f` a ComponentFactoryPostProcessor that looks at factory.GetDefinitionRegistry() before
//	                             the scan (what the App's dependency processors do). At least one scanner, at most one `f`.
//	                             Observed after every start: registered components without definition, with a definition that lost a
//	                             scanned property, that cannot be looked up or are not listed (`lost`); components for which two
//	                             scanners were handed different definitions or not the one the registry keeps (`two`).
//	                             observation  errs=<0|?> lost=<k> two=<k>  (of the first deviating start, else of the last) | race
//
// Oracles: no race report (race); every component registered before the start has its definition, with what every scanner
// stored in it, after the parallel scan (scan-definition-lost); all scanners are handed the one definition the registry keeps
// (scan-two-definitions).

type vDSvc struct {
	N    string
	Peer *vDSvc `link:"peer"`
	Aux  *vDSvc `link2:"aux"`
}

func (s *vDSvc) Naming() string { return s.N }

type vDTagScanner struct {
	processors.DefaultTagScanDefinitionRegistryPostProcessor
	N string
}

func (s *vDTagScanner) Naming() string { return s.N }

type vDRecScanner struct {
	N   string
	mu  sync.Mutex
	got map[string]*component_definition.Meta
	nil int
}

func (s *vDRecScanner) Naming() string { return s.N }
func (s *vDRecScanner) PostProcessDefinitionRegistry(registry container.DefinitionRegistry, component any, name string) error {
	var m *component_definition.Meta
	if registry != nil {
		m = registry.GetMetaOrRegister(name, component)
	}
	s.mu.Lock()
	if m == nil {
		s.nil++
	}
	s.got[name] = m
	s.mu.Unlock()
	return nil
}

type vDFactoryPP struct{ N string }

func (p *vDFactoryPP) Naming() string { return p.N }
func (p *vDFactoryPP) PostProcessComponentFactory(f container.Factory) error {
	_ = f.GetDefinitionRegistry()
	return nil
}

func runFdirect(n int, parts string, starts int, seed uint64) hx.Case {
	concQuiet()
	c := hx.Case{Scn: fmt.Sprintf("fdirect %d %s %d %d", n, parts, starts, seed)}
	ok := n >= 1 && n <= 96 && starts >= 1 && starts <= 2000 && len(parts) >= 1 && len(parts) <= 6
	nscan := 0
	for _, p := range []byte(parts) {
		switch p {
		case 't', 'u', 'r':
			nscan++
		case 'f':
		default:
			ok = false
		}
	}
	if !ok || nscan == 0 || strings.Count(parts, "f") > 1 || strings.Count(parts, "t") > 1 || strings.Count(parts, "u") > 1 {
		c.Obs, c.Oracle = "bad-line", "FAIL bad-line"
		return c
	}
	c.Tags = []string{"scan", "factory-driven-directly", fmt.Sprintf("components=%s", bucket(n)), fmt.Sprintf("scanners=%d", nscan)}
	if strings.Contains(parts, "f") {
		c.Tags = append(c.Tags, "registry-looked-at-before-the-scan", "trivial")
	} else {
		c.Tags = append(c.Tags, "first-look-at-the-registry-inside-the-scan")
	}
	if runtime.GOMAXPROCS(0) < 4 {
		defer runtime.GOMAXPROCS(runtime.GOMAXPROCS(4))
	}
	rng := hx.NewRng(seed ^ 0xC105EE)
	for start := 0; start < starts; start++ {
		reg := support.NewRegistry()
		var svcs []*vDSvc
		var all []any
		for i := 0; i < n; i++ {
			s := &vDSvc{N: fmt.Sprintf("vd%03d", i)}
			svcs = append(svcs, s)
			all = append(all, s)
		}
		var recs []*vDRecScanner
		tagScanners := 0
		for k, p := range []byte(parts) {
			switch p {
			case 't', 'u':
				tag := map[byte]string{'t': "link", 'u': "link2"}[p]
				all = append(all, &vDTagScanner{N: fmt.Sprintf("vdscan%d", k), DefaultTagScanDefinitionRegistryPostProcessor: processors.DefaultTagScanDefinitionRegistryPostProcessor{
					NodeType: component_definition.PropertyTypeComponent, Tag: tag}})
				tagScanners++
			case 'r':
				r := &vDRecScanner{N: fmt.Sprintf("vdscan%d", k), got: map[string]*component_definition.Meta{}}
				recs = append(recs, r)
				all = append(all, r)
			case 'f':
				all = append(all, &vDFactoryPP{N: fmt.Sprintf("vdfpp%d", k)})
			}
		}
		names := make([]string, len(all))
		for i, x := range all {
			names[i] = x.(interface{ Naming() string }).Naming()
		}
		for _, j := range rng.Perm(len(all)) {
			reg.RegisterSingleton(all[j])
		}
		f := factory.Default()
		var err error
		out := withWatchdog(20*time.Second, func() {
			f.SetRegistry(reg)
			f.SetConfigure(configure.Default())
			if err = f.PrepareComponents(); err == nil {
				err = f.Refresh()
			}
		})
		if out != "" {
			c.Obs, c.Oracle = out, "FAIL scan-"+out+" PrepareComponents / Refresh did not return normally"
			return c
		}
		if err != nil {
			// no scanner fails here; not a statement of C20: left to the comparison with the model
			c.Obs = "errs=? lost=0 two=0"
			return c
		}
		dr := f.GetDefinitionRegistry()
		lost, two := 0, 0
		firstLost, firstTwo := "", ""
		listed := map[string]int{}
		for _, m := range dr.GetMetas() {
			listed[m.Name()]++
		}
		for i, name := range names {
			kept := dr.GetMetaByName(name)
			why := ""
			switch {
			case kept == nil:
				why = "has no definition"
			case listed[name] != 1:
				why = fmt.Sprintf("is listed %d times by GetMetas()", listed[name])
			case i < n && len(kept.GetComponentProperties()) != tagScanners:
				why = fmt.Sprintf("has a definition with %d scanned properties; %d tag scanner(s) stored one each", len(kept.GetComponentProperties()), tagScanners)
			default:
				if got, e := f.GetComponentByName(name); e != nil || got != all[i] {
					why = fmt.Sprintf("cannot be looked up (%v)", e)
				}
			}
			if why != "" {
				lost++
				if firstLost == "" {
					firstLost = fmt.Sprintf("component %q %s", name, why)
				}
			}
			for _, r := range recs {
				r.mu.Lock()
				m, seen := r.got[name]
				r.mu.Unlock()
				if !seen || m == nil || m != kept {
					two++
					if firstTwo == "" {
						firstTwo = fmt.Sprintf("scanner %q was handed a definition of %q that is not the one the registry keeps", r.N, name)
					}
					break
				}
			}
		}
		c.Obs = fmt.Sprintf("errs=0 lost=%d two=%d", lost, two)
		if lost != 0 {
			c.Oracle = fmt.Sprintf("FAIL scan-definition-lost start %d of factory.Default() + SetRegistry + PrepareComponents + Refresh with %d components and the parts %q: "+
				"%s after the parallel definition scan (%d such components)", start, n, parts, firstLost, lost)
			return c
		}
		if two != 0 {
			c.Oracle = fmt.Sprintf("FAIL scan-two-definitions start %d of the factory driven directly with %d components and the parts %q: %s (%d such components)",
				start, n, parts, firstTwo, two)
			return c
		}
	}
	return c
}

func genFdirectLine(r *hx.Rng, tier string) string {
	n := 8 + r.Intn(41)
	if r.P(1, 8) {
		n = 2 + r.Intn(6)
	}
	parts := []string{"t", "r", "tr", "tu", "rr", "tur", "trr", "r", "t", "tf", "rf"}[r.Intn(11)]
	starts := 25
	if tier == "thorough" {
		starts = 100
	}
	return fmt.Sprintf("fdirect %d %s %d %d", n, parts, starts, r.U64()%1000000)
}
