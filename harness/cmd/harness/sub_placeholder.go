package main

// sub-harness `placeholder` (C16): ${key} / ${key:default} resolution.
//
//	scenario     `<TagStr-hex> <cfg>`   cfg = prefix form of the configuration tree (see lean/Driver/Placeholder.lean)
//	             a leading `# ` marks a case that is not compared with the model (a default of a class whose
//	             re-formatting the model leaves opaque: slice/map literal, > 15 significant digits)
//	observation  `<TagVal-hex>` | `err` | `panic` | `hang`
//
// The real code: a real *Property (component_definition.NewMeta + NewProperty) is handed to the real
// processors.NewConfigQuoteAwarePostProcessors(), which got its Configure through PostProcessComponentFactory from a
// factory stub holding a real configure.Configure with a ViperBinder loaded from YAML. A tenth of the cases also run
// end to end through app.Run with a struct type built by reflect.StructOf.
//
// Oracles (real code only, independent of the model):
//	(a) the call returns within the watchdog (5 s), and does not panic;
//	(b) tags generated from the grammar whose replacements are brace-free scalars / plain defaults: the result
//	    equals the harness's own inner-first substitution (phEv.eval); a difference in a case where an empty map / list
//	    without default was substituted carries the signature placeholder-empty-container-kept (defect repaired in 729842a);
//	    the same for replacements that carry placeholders themselves (a configured value `base: "${root}/app"`): the tag is
//	    processed as if it had been written with the replacement text, so the harness parses the value (phParse: every brace
//	    belongs to a `${…}` pair) and substitutes it in turn; a key met again on its OWN chain is a circular reference and
//	    is left to (a); repetition and diamonds are not circular. A difference carries the signature placeholder-indirect;
//	    claimed only below 300 substitutions per tag (the library's bound is 1000 replacements);
//	(c) a result without error contains no `${…}` match;
//	(d) end to end: Run binds the same string (only for "plain" results), or fails when the direct call fails.
//
// Tag TEXTS (scenario `T …`, see the section "from the tag TEXT" at the end): the property is created from the whole text of a
// `value` tag - value part and arguments - whose placeholders nest in front of a comma of the outer block
// (placeholder-tagtext).
//
// As written (scenario `W …`, sub_placeholder_written.go): a field tagged with the text T and a field tagged with the text T becomes
// when every placeholder is replaced by hand are started on real Apps under the same configuration and must end the same way
// (placeholder-as-written); replacement texts carry `#{…}` expressions.
//
// Sources merged after the start (scenario `R …`, sub_placeholder_reload.go): on the library's DEFAULT configure tags are resolved,
// documents are merged through the public API (SetConfig / AddLoaders + Initialize), the same tags are resolved again - also in
// a LazyInit component fetched after the merge; the second resolution is judged under the configured values as they are then
// (placeholder-merge-stale / placeholder-merge-current).
//
// Histories (scenario `H …`, see the section "histories" below): tags are resolved, paths of the configuration are changed
// with Configure.Set, the same tags are resolved again on fresh properties; the second resolution is judged like a first
// one under the CURRENT configuration (placeholder-set-stale / placeholder-set-current).

import (
	"fmt"
	"os"
	"reflect"
	"regexp"
	"strconv"
	"strings"
	"sync"
	"time"

	"github.com/go-kid/ioc/app"
	"github.com/go-kid/ioc/component_definition"
	"github.com/go-kid/ioc/configure"
	"github.com/go-kid/ioc/configure/binder"
	"github.com/go-kid/ioc/configure/loader"
	"github.com/go-kid/ioc/container"
	"github.com/go-kid/ioc/container/processors"
	"github.com/go-kid/ioc/syslog"
	"github.com/go-kid/ioc/util/el"
	"github.com/go-kid/strconv2"
	"gopkg.in/yaml.v3"

	"verifharness/internal/hx"
)

func init() {
	register(&Sub{Name: "placeholder", Gen: phGen, Replay: phReplay, Corpus: phCorpus})
}

// ---------------------------------------------------------------- configuration trees

type cval struct {
	kind byte // z null, s string, n number (text), b bool, l list, m map
	s    string
	b    bool
	xs   []*cval
	ks   []string // keys of a map, parallel to xs
}

func cStr(s string) *cval { return &cval{kind: 's', s: s} }
func cNum(s string) *cval { return &cval{kind: 'n', s: s} }
func cMap() *cval         { return &cval{kind: 'm'} }

func (c *cval) put(k string, v *cval) {
	for i, x := range c.ks {
		if x == k {
			c.xs[i] = v
			return
		}
	}
	c.ks = append(c.ks, k)
	c.xs = append(c.xs, v)
}

func (c *cval) child(k string) *cval {
	for i, x := range c.ks {
		if x == k {
			return c.xs[i]
		}
	}
	return nil
}

func (c *cval) toAny() any {
	switch c.kind {
	case 's':
		return c.s
	case 'n':
		if strings.Contains(c.s, ".") {
			f, _ := strconv.ParseFloat(c.s, 64)
			return f
		}
		i, _ := strconv.Atoi(c.s)
		return i
	case 'b':
		return c.b
	case 'l':
		out := make([]any, 0, len(c.xs))
		for _, x := range c.xs {
			out = append(out, x.toAny())
		}
		return out
	case 'm':
		out := map[string]any{}
		for i, k := range c.ks {
			out[k] = c.xs[i].toAny()
		}
		return out
	}
	return nil
}

func hexTok(prefix, s string) string {
	if s == "" {
		return prefix
	}
	return prefix + hx.Hex(s)
}

func (c *cval) tokens(out *[]string) {
	switch c.kind {
	case 'z':
		*out = append(*out, "Z")
	case 's':
		*out = append(*out, hexTok("S", c.s))
	case 'n':
		*out = append(*out, hexTok("N", c.s))
	case 'b':
		if c.b {
			*out = append(*out, "T")
		} else {
			*out = append(*out, "F")
		}
	case 'l':
		*out = append(*out, "L"+strconv.Itoa(len(c.xs)))
		for _, x := range c.xs {
			x.tokens(out)
		}
	case 'm':
		*out = append(*out, "M"+strconv.Itoa(len(c.xs)))
		for i, k := range c.ks {
			*out = append(*out, hexTok("K", k))
			c.xs[i].tokens(out)
		}
	}
}

func parseCfgTokens(toks []string) (*cval, []string, bool) {
	if len(toks) == 0 {
		return nil, nil, false
	}
	t, rest := toks[0], toks[1:]
	un := func(s string) (string, bool) {
		if s == "" {
			return "", true
		}
		r, err := hx.UnHex(s)
		return r, err == nil
	}
	switch t[0] {
	case 'Z':
		return &cval{kind: 'z'}, rest, true
	case 'T':
		return &cval{kind: 'b', b: true}, rest, true
	case 'F':
		return &cval{kind: 'b'}, rest, true
	case 'S', 'N':
		s, ok := un(t[1:])
		return &cval{kind: t[0] + 32, s: s}, rest, ok
	case 'L', 'M':
		k, err := strconv.Atoi(t[1:])
		if err != nil {
			return nil, nil, false
		}
		c := &cval{kind: t[0] + 32}
		for i := 0; i < k; i++ {
			if t[0] == 'M' {
				if len(rest) == 0 || rest[0][0] != 'K' {
					return nil, nil, false
				}
				key, ok := un(rest[0][1:])
				if !ok {
					return nil, nil, false
				}
				c.ks = append(c.ks, key)
				rest = rest[1:]
			}
			v, r, ok := parseCfgTokens(rest)
			if !ok {
				return nil, nil, false
			}
			c.xs = append(c.xs, v)
			rest = r
		}
		return c, rest, true
	}
	return nil, nil, false
}

// ---------------------------------------------------------------- running the real code

type phFactory struct {
	container.Factory
	cfg configure.Configure
}

func (f *phFactory) GetConfigure() configure.Configure { return f.cfg }

type phHolder struct{ V string }

var phQuote = regexp.MustCompile(`\$\{[^{}]*\}`)
var phExpr = regexp.MustCompile(`#\{[^{}]*\}`)
var phNumber = regexp.MustCompile(`^(-|\+)?\d+(\.\d+)?$`)

func newConfigure(yamlBytes []byte) (configure.Configure, error) {
	c := configure.NewConfigure()
	c.SetBinder(binder.NewViperBinder("yaml"))
	if len(yamlBytes) != 0 {
		if err := c.SetConfig(yamlBytes); err != nil {
			return nil, err
		}
	}
	return c, nil
}

// watchdog: f runs in its own goroutine; a panic comes back as a value, no answer within 5 s is a hang
func phWatch(f func()) (pan any, hung bool) {
	done := make(chan any, 1)
	go func() {
		defer func() { done <- recover() }()
		f()
	}()
	t := time.NewTimer(5 * time.Second)
	defer t.Stop()
	select {
	case p := <-done:
		return p, false
	case <-t.C:
		return nil, true
	}
}

// what the reference trace saw (classification only; never used as an expectation)
type phTrace struct {
	opaque, loneQuote, getPanic bool
}

func sigDigits(d string) (sig, total int) {
	d = strings.TrimLeft(d, "+-")
	d = strings.Replace(d, ".", "", 1)
	total = len(d)
	d = strings.TrimLeft(d, "0")
	d = strings.TrimRight(d, "0")
	return len(d), total
}

var phRefQuote = el.NewQuote()

// the trace is cut after 250 callbacks (a circular configuration would otherwise be walked twice to the bound)
func phRefTrace(cfg configure.Configure, tagStr string) (tr phTrace) {
	rounds := 0
	_, _ = phWatch(func() {
		_, _ = phRefQuote.ReplaceAllContent(tagStr, func(exp string) (string, error) {
			if rounds++; rounds > 250 {
				return "", fmt.Errorf("stop")
			}
			sp := strings.SplitN(exp, ":", 2)
			var v any
			if hx.Guard(func() { v = cfg.Get(sp[0]) }) != nil {
				tr.getPanic = true
				return "", fmt.Errorf("stop")
			}
			absent := v == nil
			if m, ok := v.(map[string]any); ok && len(m) == 0 {
				absent = true
			}
			if a, ok := v.([]any); ok && len(a) == 0 {
				absent = true
			}
			if absent {
				v = nil
				if len(sp) == 2 && sp[1] != "" {
					d := sp[1]
					var err error
					if pan := hx.Guard(func() { v, err = strconv2.ParseAny(d) }); pan != nil || err != nil {
						// the real call ends here as well (error or panic). KF-C16-1: ParseAny on a lone quote character,
						// as the default itself or as an element of a slice/map literal default
						if pan != nil && strings.Contains(fmt.Sprint(pan), "slice bounds out of range [1:0]") {
							tr.loneQuote = true
						}
						if !(d == "'" || d == "\"") {
							tr.opaque = true
						}
						return "", fmt.Errorf("stop")
					}
					switch v.(type) {
					case []any, map[string]any:
						tr.opaque = true
					case float64:
						if s, t := sigDigits(d); s > 15 || t > 40 {
							tr.opaque = true
						}
					}
				}
			}
			if v == nil {
				return "", nil
			}
			return strconv2.FormatAny(v)
		})
	})
	return
}

type phRun struct {
	obs    string
	tagStr string
	pan    any
	val    string
}

// the real processor on a real property
func phDirect(cfg configure.Configure, text string, exactTagStr bool) phRun {
	var r phRun
	pp := processors.NewConfigQuoteAwarePostProcessors()
	_ = pp.(container.ComponentFactoryPostProcessor).PostProcessComponentFactory(&phFactory{cfg: cfg})
	meta := component_definition.NewMeta(&phHolder{})
	p := component_definition.NewProperty(meta.Fields[0], component_definition.PropertyTypeConfiguration, "value", text)
	if exactTagStr { // replay: the scenario records TagStr itself
		p.TagStr, p.TagVal = text, text
	}
	r.tagStr = p.TagStr
	var err error
	pan, hung := phWatch(func() {
		_, err = pp.PostProcessProperties([]*component_definition.Property{p}, nil, "x")
	})
	switch {
	case hung:
		r.obs = "hang"
	case pan != nil:
		r.obs, r.pan = "panic", pan
	case err != nil:
		r.obs = "err"
	default:
		r.obs, r.val = hx.Hex(p.TagVal), p.TagVal
	}
	return r
}

// "plain" = strconv2.ParseAny would hand the text on unchanged (the value path's own normalisation belongs to C17)
func phPlain(s string) bool {
	if s == "" || phNumber.MatchString(s) || phExpr.MatchString(s) {
		return false
	}
	l := strings.ToLower(s)
	if l == "true" || l == "false" {
		return false
	}
	switch s[0] {
	case '[', '{', '\'', '"':
		return false
	}
	return !strings.HasPrefix(s, "map[")
}

// end to end through app.Run; returns (bound string, error seen, panic)
func phEndToEnd(yamlBytes []byte, text string) (string, bool, any, bool) {
	tag := reflect.StructTag("value:" + strconv.Quote(text))
	if got, ok := tag.Lookup("value"); !ok || got != text {
		return "", false, nil, false
	}
	t := reflect.StructOf([]reflect.StructField{{Name: "V", Type: reflect.TypeOf(""), Tag: tag}})
	h := reflect.New(t)
	var err error
	pan, hung := phWatch(func() {
		err = app.NewApp().Run(app.LogLevel(syslog.LvPanic), app.SetConfigLoader(loader.NewRawLoader(yamlBytes)), app.SetComponents(h.Interface()))
	})
	if hung {
		return "", false, "hang", true
	}
	if pan != nil {
		return "", false, pan, true
	}
	return h.Elem().Field(0).String(), err != nil, nil, true
}

// ---------------------------------------------------------------- the tag grammar and the harness's own substitution

type phNode struct {
	lit  string
	key  []*phNode // non-nil = placeholder
	def  []*phNode
	hasD bool
}

func renderNodes(ns []*phNode, sb *strings.Builder) {
	for _, n := range ns {
		if n.key == nil {
			sb.WriteString(n.lit)
			continue
		}
		sb.WriteString("${")
		renderNodes(n.key, sb)
		if n.hasD {
			sb.WriteString(":")
			renderNodes(n.def, sb)
		}
		sb.WriteString("}")
	}
}

func countPh(ns []*phNode) (n, depth int) {
	for _, x := range ns {
		if x.key != nil {
			a, da := countPh(x.key)
			b, db := countPh(x.def)
			n += 1 + a + b
			if da < db {
				da = db
			}
			if depth < da+1 {
				depth = da + 1
			}
		}
	}
	return
}

// lookup with the property's reading of a key: dotted path through maps, decimal index into lists
func phLookup(root *cval, key string) (v *cval, exact bool) {
	if key == "" {
		return nil, false
	}
	cur := root
	for _, seg := range strings.Split(strings.ToLower(key), ".") {
		if cur == nil {
			return nil, true
		}
		switch cur.kind {
		case 'm':
			cur = cur.child(seg)
		case 'l':
			if seg == "" || strings.Trim(seg, "0123456789") != "" {
				if _, err := strconv.Atoi(seg); err == nil {
					return nil, false // signed index: outside what the oracle claims
				}
				return nil, true
			}
			i, err := strconv.Atoi(seg)
			if err != nil || i >= len(cur.xs) {
				return nil, true
			}
			cur = cur.xs[i]
		default:
			return nil, true
		}
	}
	return cur, true
}

// phParse reads a text as literals and placeholders when EVERY brace of the text belongs to a `${ … }` pair (nesting
// allowed); the content of a placeholder is kept whole (its first ':' is found after substitution, as the property reads
// `${key:default}`). ok=false for any other text (a lone brace, `${` without its `}`).
func phParse(s string) ([]*phNode, bool) {
	ns, rest, ok := phParseSeq(s, false, 0)
	return ns, ok && rest == ""
}

func phParseSeq(s string, inside bool, depth int) (ns []*phNode, rest string, ok bool) {
	if depth > 40 {
		return nil, "", false
	}
	var lit strings.Builder
	flush := func() {
		if lit.Len() > 0 {
			ns = append(ns, &phNode{lit: lit.String()})
			lit.Reset()
		}
	}
	for len(s) > 0 {
		switch {
		case strings.HasPrefix(s, "${"):
			flush()
			inner, r, ok := phParseSeq(s[2:], true, depth+1)
			if !ok {
				return nil, "", false
			}
			if inner == nil {
				inner = []*phNode{}
			}
			ns = append(ns, &phNode{key: inner})
			s = r
		case s[0] == '}':
			if !inside {
				return nil, "", false
			}
			flush()
			return ns, s[1:], true
		case s[0] == '{':
			return nil, "", false
		default:
			lit.WriteByte(s[0])
			s = s[1:]
		}
	}
	flush()
	return ns, "", !inside
}

// phEv: the harness's own substitution (never the library's code, never the model).
type phEv struct {
	root           *cval
	look           func(key string) (*cval, bool) // nil = phLookup(root, key); histories: the current view (phCurView.lookup)
	emptyNoDefault bool     // an empty map / list without default was substituted
	indirect       bool     // a replacement carried placeholders itself and was substituted in turn
	steps          int      // placeholders substituted so far (= look-ups the library needs)
	chain          []string // keys whose value is being substituted right now
	litBraces      bool     // the literals are the generator's own and may carry the braces of an expression wrapper `#{…}`
	// eighth round (scenario `W`, see sub_placeholder_written.go): a replacement text may carry expression wrappers `#{ … }`
	// (whose inside holds brace-free text and placeholders) - but only where the placeholder stands OUTSIDE every other
	// placeholder's key and default (depth 0): there the wrapper's braces cannot hide an enclosing placeholder from the scanner
	exprOK   bool
	depth    int  // how many placeholders' keys / defaults enclose what is being evaluated
	exprRepl bool // a replacement carried an expression wrapper
}

const phMaxSteps = 300 // far below the library's bound of 1000 replacements: beyond it the oracle claims nothing

// eval: inner-first substitution. exact=false = the oracle does not apply (JSON values, number-like or
// bracketed defaults, a lone brace in a replacement, lookups it does not claim, circular references, too many steps)
func (e *phEv) eval(ns []*phNode) (string, bool) {
	root := e.root
	var sb strings.Builder
	for _, n := range ns {
		if n.key == nil {
			if strings.ContainsAny(n.lit, "{}") && !e.litBraces {
				return "", false
			}
			sb.WriteString(n.lit)
			continue
		}
		e.depth++
		content, ok := e.eval(n.key)
		e.depth--
		if !ok {
			return "", false
		}
		if n.hasD {
			e.depth++
			d, ok := e.eval(n.def)
			e.depth--
			if !ok {
				return "", false
			}
			content += ":" + d
		}
		if e.exprOK && strings.ContainsAny(content, "{}") {
			return "", false // the scanner would not see this placeholder (cannot happen without exprOK: contents are brace-free there)
		}
		if e.steps++; e.steps > phMaxSteps {
			return "", false
		}
		key, def := content, ""
		if i := strings.IndexByte(content, ':'); i >= 0 {
			key, def = content[:i], content[i+1:]
		}
		var v *cval
		var exact bool
		if e.look != nil {
			v, exact = e.look(key)
		} else {
			v, exact = phLookup(root, key)
		}
		if !exact {
			return "", false
		}
		var r string
		switch {
		case v == nil || v.kind == 'z' || ((v.kind == 'm' || v.kind == 'l') && len(v.xs) == 0):
			l := strings.ToLower(def)
			switch {
			case def == "":
				r = ""
				if v != nil && v.kind != 'z' {
					e.emptyNoDefault = true // an empty map / list without default: must resolve like an absent key
				}
			case l == "true" || l == "false":
				r = l
			case phNumber.MatchString(def), def[0] == '[', def[0] == '{', strings.HasPrefix(def, "map["), len(def) == 1 && (def[0] == '\'' || def[0] == '"'):
				return "", false
			case def[0] == '\'' && def[len(def)-1] == '\'', def[0] == '"' && def[len(def)-1] == '"':
				r = def[1 : len(def)-1]
			default:
				r = def
			}
		case v.kind == 's' || v.kind == 'n':
			r = v.s
		case v.kind == 'b':
			r = strconv.FormatBool(v.b)
		default:
			return "", false
		}
		if strings.ContainsAny(r, "{}") {
			// the replacement text carries placeholders itself: the tag goes on as if it had been written with that text
			sub, ok := phParse(r)
			if !ok && e.exprOK && e.depth == 0 {
				if sub, ok = phParseX(r); ok {
					e.exprRepl = true
				}
			}
			if !ok {
				return "", false
			}
			ck := strings.ToLower(key)
			for _, c := range e.chain {
				if c == ck {
					return "", false // circular: the property asks for an error or an empty value, judged by the watchdog
				}
			}
			e.chain = append(e.chain, ck)
			r, ok = e.eval(sub)
			e.chain = e.chain[:len(e.chain)-1]
			if !ok {
				return "", false
			}
			e.indirect = true
		}
		sb.WriteString(r)
	}
	return sb.String(), true
}

// ---------------------------------------------------------------- one case

type phCase struct {
	text  string
	nodes []*phNode // nil = not from the grammar
	cfg   *cval
	tags  []string
	e2e   bool
	exact bool // replay: text is TagStr
}

var phQuiet sync.Once

var phEnvName = regexp.MustCompile(`^[A-Za-z_][A-Za-z0-9_]{1,63}$`)
var phEnvWord = regexp.MustCompile(`[A-Za-z0-9_.\-]+`)
var phEnvKeep = map[string]bool{"TZ": true, "LANG": true, "TMPDIR": true, "HOME": true, "PATH": true, "USER": true, "PWD": true}

// phDecoyEnv sets decoy environment variables for the keys of the case (never one that exists already) and returns the undo
func phDecoyEnv(c phCase) func() {
	names := map[string]bool{}
	rep := strings.NewReplacer(".", "_", "-", "_")
	add := func(path string) {
		parts := strings.Split(path, ".")
		for i := 1; i <= len(parts); i++ {
			n := strings.ToUpper(rep.Replace(strings.Join(parts[:i], ".")))
			if phEnvName.MatchString(n) && !phEnvKeep[n] && !strings.HasPrefix(n, "GO") && !strings.HasPrefix(n, "LC_") {
				names[n] = true
			}
		}
	}
	var paths []string
	phPaths(c.cfg, "", &paths)
	for _, p := range paths {
		add(p)
	}
	for _, m := range phEnvWord.FindAllString(c.text, -1) {
		add(m)
	}
	var set []string
	for n := range names {
		if _, exists := os.LookupEnv(n); !exists {
			os.Setenv(n, "env-decoy")
			set = append(set, n)
		}
	}
	return func() {
		for _, n := range set {
			os.Unsetenv(n)
		}
	}
}

// after a hang the spinning goroutine cannot be stopped; the verdict is fixed, so no further case is run
var phHung bool

func runPh(c phCase, w *hx.Writer) {
	if phHung {
		return
	}
	phQuiet.Do(func() { syslog.Level(syslog.LvPanic) }) // before the first syslog.Pref caches a logger
	yamlBytes, err := yaml.Marshal(c.cfg.toAny())
	if err != nil || len(c.cfg.xs) == 0 {
		yamlBytes = nil
	}
	// the process environment is no configuration source: while the case runs, variables named like its keys (and like every
	// proper prefix of them, upper-cased, `.` and `-` as `_`) hold decoy values — a binder that consults the environment shows
	undoEnv := phDecoyEnv(c)
	defer undoEnv()
	cfg, err := newConfigure(yamlBytes)
	if err != nil {
		return // a configuration YAML cannot carry; not a container matter
	}
	r := phDirect(cfg, c.text, c.exact)
	var toks []string
	c.cfg.tokens(&toks)
	out := hx.Case{Scn: hx.Hex(r.tagStr) + " " + strings.Join(toks, " "), Obs: r.obs, Tags: c.tags}
	tr := phRefTrace(cfg, r.tagStr)
	if tr.opaque {
		out.Scn = "# " + out.Scn
		out.Tags = append(out.Tags, "opaque")
	}
	switch r.obs {
	case "hang":
		phHung = true
		out.Oracle = "FAIL placeholder-hang no answer within 5s"
	case "panic":
		msg := fmt.Sprint(r.pan)
		switch {
		case tr.loneQuote && strings.Contains(msg, "slice bounds out of range [1:0]"):
			out.Oracle = "FAIL placeholder-panic-lone-quote " + msg
		case tr.getPanic && strings.Contains(msg, "index out of range [-"):
			out.Oracle = "FAIL placeholder-panic-negative-index " + msg
		default:
			out.Oracle = "FAIL placeholder-panic " + msg
		}
	case "err":
	default:
		if phQuote.MatchString(r.val) {
			out.Oracle = fmt.Sprintf("FAIL placeholder-left result %q still has a placeholder", r.val)
		}
	}
	if c.nodes != nil && r.tagStr == c.text && out.Oracle == "" {
		ev := &phEv{root: c.cfg}
		if want, ok := ev.eval(c.nodes); ok {
			out.Tags = append(out.Tags, "eval-oracle")
			if ev.indirect {
				out.Tags = append(out.Tags, "eval-indirect")
			}
			if r.obs != hx.Hex(want) {
				sig := "placeholder-eval"
				switch {
				case ev.indirect:
					sig = "placeholder-indirect"
				case ev.emptyNoDefault:
					sig = "placeholder-empty-container-kept"
				}
				out.Oracle = fmt.Sprintf("FAIL %s tag %q gives %q (obs %s), substitution gives %q", sig, c.text, r.val, r.obs, want)
			}
		}
	}
	if c.e2e && out.Oracle == "" && r.tagStr == c.text && !tr.opaque && (r.obs == "err" || (r.obs != "panic" && phPlain(r.val))) {
		got, failed, pan, ran := phEndToEnd(yamlBytes, c.text)
		if ran {
			out.Tags = append(out.Tags, "e2e")
			switch {
			case pan != nil:
				out.Oracle = fmt.Sprintf("FAIL placeholder-e2e Run panicked or hung: %v", pan)
			case r.obs == "err" && !failed:
				out.Oracle = fmt.Sprintf("FAIL placeholder-e2e direct call fails, Run succeeds with %q", got)
			case r.obs != "err" && (failed || got != r.val):
				out.Oracle = fmt.Sprintf("FAIL placeholder-e2e direct %q, Run failed=%v bound %q", r.val, failed, got)
			}
		}
	}
	w.Put(out)
}

func phReplay(scn string, w *hx.Writer) {
	scn = strings.TrimPrefix(scn, "# ")
	f := strings.Fields(scn)
	if len(f) > 0 && f[0] == "H" {
		phHistReplay(f, w)
		return
	}
	if len(f) > 0 && f[0] == "T" {
		phTextReplay(f, w)
		return
	}
	if len(f) > 0 && f[0] == "W" {
		phWrittenReplay(f, w)
		return
	}
	if len(f) > 0 && f[0] == "R" {
		phReloadReplay(f, w)
		return
	}
	if len(f) < 2 {
		return
	}
	s, err := hx.UnHex(f[0])
	if err != nil {
		return
	}
	cfg, rest, ok := parseCfgTokens(f[1:])
	if !ok || len(rest) != 0 || cfg.kind != 'm' {
		return
	}
	nodes, ok := phParse(s) // the substitution oracle applies to a recorded TagStr that reads as literals and placeholders
	if !ok {
		nodes = nil
	}
	runPh(phCase{text: s, nodes: nodes, cfg: cfg, tags: []string{"replay"}, exact: true}, w)
}

// ---------------------------------------------------------------- corpus

func phCfgOf(kv ...any) *cval {
	m := cMap()
	for i := 0; i+1 < len(kv); i += 2 {
		var v *cval
		switch x := kv[i+1].(type) {
		case string:
			v = cStr(x)
		case int:
			v = cNum(strconv.Itoa(x))
		case bool:
			v = &cval{kind: 'b', b: x}
		case nil:
			v = &cval{kind: 'z'}
		case *cval:
			v = x
		}
		m.put(kv[i].(string), v)
	}
	return m
}

func phCorpus(w *hx.Writer) {
	defer phReloadCorpus(w)  // (ninth round) sources merged after the start, on the default configure; runs last
	defer phWrittenCorpus(w) // (eighth round) runs after every other corpus case
	defer phTextCorpus(w)
	defer phHistCorpus(w)
	list := &cval{kind: 'l', xs: []*cval{cNum("1"), cStr("x"), {kind: 'b', b: true}}}
	base := func() *cval {
		return phCfgOf("a", 1, "s", "str", "f", cNum("1.5"), "t", true, "n", nil, "e", cMap(), "el", &cval{kind: 'l'},
			"l", list, "m", phCfgOf("k", "v", "j", 2, "q", cMap()), "p", "b", "ab", "hit", "c", "x:y")
	}
	for _, t := range []string{"", "plain", "${a}", "${A}", "${s}${a}", "x${s}y${f}z", "${zz}", "${zz:dd}", "${zz:}", "${n:dd}", "${e:dd}", "${el:dd}",
		"${e}", "${el}", "${el:}", "${e:}", "x${e}y${el}z", "${n}",
		"${m.k}", "${m.q:d}", "${m.k.z:d}", "${m}", "${l}", "${l.0}", "${l.1}", "${l.+1}", "${l.01}", "${l.5:d}", "${l.x:d}", "${a${p}}", "${zz:${s}}",
		"${zz:${zz:${a}}}", "${${zz:a}}", "${zz:'q'}", "${zz:\"q\"}", "${zz:''}", "${zz:TRUE}", "${zz:False}", "${zz:1.10}", "${zz:007}", "${zz:+5}", "${zz:-0}",
		"${zz:1000000000000000000000}", "${zz:0.00001}", "${zz:123456789012345}", "${zz:1234567890123456}", "${zz:[a,b]}", "${zz:map[a:b]}", "${zz:${l}}",
		"${zz:a:b}", "${c}", "${zz${c}}", "${", "${a", "${a}}", "{${a}}", "$${a}", "${${a}", "${a{b}}", "${}", "${:d}", "$", "${a}${", "}${a}{", "${a},required=false",
		"${zz:x,y}", "a,b", "${t}", "${zz:'}", "${zz:\"}", "${l.-1}", "${l.-1:d}", "#{1+1}${a}", "${m.j}", "${M.K}"} {
		runPh(phCase{text: t, cfg: base(), tags: []string{"corpus"}, e2e: true}, w)
	}
	// structured corpus cases (these carry the substitution oracle): an empty map / list is an absent key
	phN := func(key string) *phNode { return &phNode{key: []*phNode{{lit: key}}} }
	phD := func(key, d string) *phNode {
		return &phNode{key: []*phNode{{lit: key}}, hasD: true, def: []*phNode{{lit: d}}}
	}
	for _, ns := range [][]*phNode{{phN("e")}, {phN("el")}, {phD("el", "")}, {phD("e", "")}, {phD("e", "dd")}, {phD("el", "'q'")}, {phN("zz")}, {phN("n")},
		{{lit: "x"}, phN("e"), {lit: "y"}, phN("el"), {lit: "z"}, phN("m.q")}, {phN("a"), phN("s"), phD("zz", "TRUE")},
		{{key: []*phNode{{lit: "a"}, phN("p")}}}, {{key: []*phNode{{lit: "zz"}}, hasD: true, def: []*phNode{phN("s"), {lit: "-"}, phD("e", "d")}}}} {
		var sb strings.Builder
		renderNodes(ns, &sb)
		runPh(phCase{text: sb.String(), nodes: ns, cfg: base(), tags: []string{"corpus", "grammar"}, e2e: true}, w)
	}
	for _, t := range []string{"${x}", "${:d}", "${}"} {
		runPh(phCase{text: t, cfg: cMap(), tags: []string{"corpus"}}, w)
		runPh(phCase{text: t, cfg: phCfgOf("n", nil, "e", phCfgOf("q", cMap())), tags: []string{"corpus"}}, w)
		runPh(phCase{text: t, cfg: phCfgOf("x", "<&>\"\\", "l", &cval{kind: 'l', xs: []*cval{cStr("<&>\"\\")}}), tags: []string{"corpus"}}, w)
	}
	// values that contain placeholders
	rec := []*cval{
		phCfgOf("a", "${a}"),
		phCfgOf("a", "${b}", "b", "${a}"),
		phCfgOf("a", "${a}${a}"),
		phCfgOf("a", "x${a}"),
		phCfgOf("a", "${b}", "b", "${c}", "c", "end"),
		phCfgOf("a", "${b:${c}}", "c", "${d:dd}"),
		phCfgOf("a", "${zz:${a}}"),
		phCfgOf("a", "{", "b", "}"),
		phCfgOf("a", "$", "b", "{b}"),
		phCfgOf("a", "${", "b", "a}"),
	}
	for _, c := range rec {
		for _, t := range []string{"${a}", "x${a}y${b:d}", "${a}${b}", "${${a}}", "$${a}{b}", "${a}b}"} {
			runPh(phCase{text: t, cfg: c, tags: []string{"corpus", "recursive"}, e2e: true}, w)
		}
	}
	// values that contain placeholders, reached more than once in one tag: repetition of an indirect key, diamonds (two
	// keys that go through a third one), the same inside a default and inside another placeholder's key. Nothing is
	// circular here, so every placeholder resolves (these carry the substitution oracle)
	dia := func() *cval {
		return phCfgOf("root", "/opt", "base", "${root}/app", "bin", "${base}/bin", "lib", "${base}/lib", "n", 5, "port", "${n}",
			"twice", "${base}:${base}", "dflt", "${nope:${root}}", "opt", "${nope:dd}", "e", cMap(), "sel", "${which}", "which", "x",
			"kx", "${base}!", "deep", "${bin}${lib}${twice}", "grp", phCfgOf("home", "${root}/home", "both", "${grp.home}|${grp.home}"))
	}
	for _, t := range []string{"${base}", "${base}/bin:${base}/lib", "${bin}:${lib}", "${bin}:${base}", "${twice}", "${twice}${twice}", "${zz:${base}}-${base}",
		"${base:d}${BASE}", "${dflt}${dflt}", "${opt} ${opt}", "${port}${port}${port}", "${k${sel}}", "${k${sel}}${k${sel}}", "${k${sel}} ${sel} ${base}",
		"${deep}", "${deep}/${deep}", "${grp.home}:${grp.home}", "${grp.both}", "${GRP.BOTH}${grp.home}", "${e:${base}}${el:${base}}", "${root}${root}",
		"${zz:${zz:${base}}}${base}", "x${bin}y${lib}z${base}"} {
		nodes, _ := phParse(t)
		runPh(phCase{text: t, nodes: nodes, cfg: dia(), tags: []string{"corpus", "grammar", "indirect"}, e2e: true}, w)
	}
	// a circular value that mentions the circular key twice: the number of placeholders grows with every replacement;
	// resolution must still end (error or empty value) within the watchdog
	for _, c := range []*cval{phCfgOf("twice", "${twice}/${twice}"), phCfgOf("left", "${right} ${right}", "right", "${left}"),
		phCfgOf("a", "${b}${b}", "b", "${c}${c}", "c", "${a}${a}"),
		// … and circular values with a resolvable placeholder (a configured key, a default) in front of the back reference
		phCfgOf("home", "/home/kid", "path", "${home}/bin:${path}", "start", "${prefix:}${start}"),
		phCfgOf("sep", "/", "start", "a${sep}${other}", "other", "b${sep}${start}", "path", "${nope:x}${path}${sep}${path}")} {
		for _, t := range []string{"${twice}", "${left}", "${right}${left}", "${a}", "${path}", "${start}", "${home}:${start}${path}"} {
			runPh(phCase{text: t, cfg: c, tags: []string{"corpus", "recursive"}, e2e: true}, w)
		}
	}
}

// ---------------------------------------------------------------- generators

const phLitAlpha = "abcxyzABZ019 $:,'.\"-_#"

func phAtom(r *hx.Rng, max int) string {
	n := 1 + r.Intn(max)
	var sb strings.Builder
	for i := 0; i < n; i++ {
		if r.P(2, 3) {
			sb.WriteByte("abcxyz"[r.Intn(6)])
		} else {
			sb.WriteByte(phLitAlpha[r.Intn(len(phLitAlpha))])
		}
	}
	return sb.String()
}

func phKeyName(r *hx.Rng) string {
	n := 1 + r.Intn(3)
	b := make([]byte, n)
	for i := range b {
		b[i] = "abcdefgh"[r.Intn(8)]
	}
	return string(b)
}

func phNumText(r *hx.Rng) string {
	s := strconv.Itoa(r.Intn(2000) - 300)
	if r.P(1, 3) {
		s += "." + []string{"5", "25", "75", "125", "1", "07"}[r.Intn(6)]
	}
	return s
}

func phScalar(r *hx.Rng) *cval {
	switch r.Intn(10) {
	case 0, 1, 2, 3:
		return cStr(phAtom(r, 5))
	case 4:
		return cStr([]string{"", "true", "12", "a:b", "'q'", "x y", "<&>", "q\"\\"}[r.Intn(8)])
	case 5, 6:
		return cNum(phNumText(r))
	case 7:
		return &cval{kind: 'b', b: r.Bool()}
	case 8:
		return &cval{kind: 'z'}
	}
	return cStr(phKeyName(r)) // a value that is itself usable as (part of) a key
}

func phValue(r *hx.Rng, depth int) *cval {
	switch k := r.Intn(16); {
	case k < 10 || depth >= 2:
		return phScalar(r)
	case k == 10:
		return cMap()
	case k == 11:
		return &cval{kind: 'l'}
	case k < 14:
		l := &cval{kind: 'l'}
		for i, n := 0, 1+r.Intn(3); i < n; i++ {
			if r.P(1, 8) {
				l.xs = append(l.xs, phValue(r, depth+1))
			} else {
				l.xs = append(l.xs, phScalar(r))
			}
		}
		return l
	}
	m := cMap()
	for i, n := 0, 1+r.Intn(3); i < n; i++ {
		m.put(phKeyName(r), phValue(r, depth+1))
	}
	return m
}

func phRandomCfg(r *hx.Rng) *cval {
	m := cMap()
	for i, n := 0, 1+r.Intn(6); i < n; i++ {
		m.put(phKeyName(r), phValue(r, 0))
	}
	return m
}

// paths of a tree: scalar leaves, containers, list elements
func phPaths(c *cval, prefix string, out *[]string) {
	for i, x := range c.xs {
		var p string
		if c.kind == 'm' {
			p = c.ks[i]
		} else {
			p = strconv.Itoa(i)
		}
		if prefix != "" {
			p = prefix + "." + p
		}
		*out = append(*out, p)
		if x.kind == 'm' || x.kind == 'l' {
			phPaths(x, p, out)
		}
	}
}

var phDefaults = []string{"TRUE", "false", "True", "1.10", "007", "+5", "-0", "12", "-3.50", "0.5", "0.00001", "1000000000000000000000",
	"123456789012345", "1234567890123456", "'q'", "\"q r\"", "''", "'a", "a'", "a:b", ":", " ", "x y"}

type phGenCtx struct {
	r     *hx.Rng
	cfg   *cval
	paths []string
	nph   int
}

func (g *phGenCtx) key(depth int) []*phNode {
	r := g.r
	var k string
	switch c := r.Intn(20); {
	case c < 10 && len(g.paths) > 0:
		k = g.paths[r.Intn(len(g.paths))]
	case c < 12 && len(g.paths) > 0:
		k = strings.ToUpper(g.paths[r.Intn(len(g.paths))])
	case c < 14 && len(g.paths) > 0:
		k = g.paths[r.Intn(len(g.paths))] + "." + []string{"zz", "0", "1", "x"}[r.Intn(4)]
	case c < 18:
		k = "z" + phKeyName(r)
	case c < 19:
		k = phAtom(r, 3)
	default:
		k = ""
		if r.P(1, 2) && len(g.paths) > 0 {
			k = g.paths[r.Intn(len(g.paths))] + []string{".-1", ".+0", ".00", "..", "."}[r.Intn(5)]
		}
	}
	if depth < 3 && g.nph < 4 && k != "" && r.P(1, 4) {
		// nested: a part of the key comes from another placeholder
		cut := r.Intn(len(k) + 1)
		if part := k[cut:]; part != "" && r.P(2, 3) {
			// the tail of the key is the value of an auxiliary entry added to the designed configuration
			aux := "k" + strconv.Itoa(len(g.cfg.xs))
			g.cfg.put(aux, cStr(part))
			g.nph++
			return []*phNode{{lit: k[:cut]}, {key: []*phNode{{lit: aux}}}}
		}
		return []*phNode{{lit: k}, g.placeholder(depth + 1)}
	}
	return []*phNode{{lit: k}}
}

func (g *phGenCtx) placeholder(depth int) *phNode {
	r := g.r
	g.nph++
	n := &phNode{key: g.key(depth)}
	if r.P(1, 2) {
		n.hasD = true
		switch c := r.Intn(12); {
		case c < 5:
			n.def = []*phNode{{lit: phAtom(r, 4)}}
		case c < 6:
			n.def = []*phNode{}
		case c < 9:
			n.def = []*phNode{{lit: phDefaults[r.Intn(len(phDefaults))]}}
		case c < 11 && depth < 3 && g.nph < 4:
			n.def = []*phNode{g.placeholder(depth + 1)}
			if r.P(1, 3) {
				n.def = append([]*phNode{{lit: phAtom(r, 2)}}, n.def...)
			}
		default:
			n.def = []*phNode{{lit: []string{"'", "\"", "[a,b]", "map[a:b]", "[]", "[1, 2]"}[r.Intn(6)]}}
			if r.P(5, 6) {
				n.def = []*phNode{{lit: phAtom(r, 4)}}
			}
		}
	}
	return n
}

func (g *phGenCtx) tag() []*phNode {
	r := g.r
	want := 0
	if r.P(9, 10) {
		want = 1 + r.Intn(4)
	}
	var ns []*phNode
	if r.P(1, 2) {
		ns = append(ns, &phNode{lit: phAtom(r, 4)})
	}
	for g.nph < want {
		ns = append(ns, g.placeholder(0))
		if r.P(1, 2) {
			ns = append(ns, &phNode{lit: phAtom(r, 3)})
		}
	}
	return ns
}

func phMalformed(r *hx.Rng, paths []string) string {
	var sb strings.Builder
	for i, n := 0, 2+r.Intn(9); i < n; i++ {
		switch r.Intn(9) {
		case 0, 7:
			sb.WriteString("${")
		case 1:
			sb.WriteString("}")
		case 2:
			sb.WriteString("{")
		case 3:
			sb.WriteString("$")
		case 4:
			sb.WriteString(":")
		case 5, 6:
			if len(paths) > 0 {
				sb.WriteString(paths[r.Intn(len(paths))])
			} else {
				sb.WriteString("zz")
			}
		default:
			sb.WriteString(phAtom(r, 3))
		}
	}
	return sb.String()
}

// a configuration whose values contain placeholders, over the given key names
func phRecursiveCfg(r *hx.Rng, names []string) *cval {
	m := cMap()
	if len(names) == 0 {
		names = []string{"a", "b", "c"}
	}
	pick := func() string { return names[r.Intn(len(names))] }
	ref := func(k string) string {
		if r.P(1, 5) {
			return "${" + k + ":" + phAtom(r, 2) + "}"
		}
		return "${" + k + "}"
	}
	for i, n := 0, 1+r.Intn(4); i < n; i++ {
		k := pick()
		switch r.Intn(9) {
		case 0:
			m.put(k, cStr(ref(k))) // self reference
		case 1:
			o := pick()
			m.put(k, cStr(ref(o)))
			m.put(o, cStr(ref(k))) // mutual
		case 2:
			m.put(k, cStr(ref(k)+ref(k))) // growth
		case 3, 4:
			m.put(k, cStr(phAtom(r, 2)+ref(pick()))) // chain
		case 5:
			m.put(k, cStr("${zz:"+ref(pick())+"}"))
		case 6:
			m.put(k, cStr([]string{"{", "}", "${", "a}", "$", "{" + pick() + "}", "}${"}[r.Intn(7)]))
		default:
			m.put(k, phScalar(r))
		}
	}
	return m
}

func topNames(paths []string) []string {
	var out []string
	for _, p := range paths {
		if !strings.Contains(p, ".") {
			out = append(out, p)
		}
	}
	return out
}

func phMutate(r *hx.Rng, c *cval) *cval {
	m := cMap()
	for i, k := range c.ks {
		switch r.Intn(6) {
		case 0:
		case 1:
			m.put(k, []*cval{cMap(), {kind: 'l'}, {kind: 'z'}}[r.Intn(3)])
		case 2:
			m.put(k, phValue(r, 0))
		default:
			m.put(k, c.xs[i])
		}
	}
	return m
}

// ---------------------------------------------------------------- indirect placeholders
//
// Designed configurations in levels: leaf keys hold plain scalars (some are absent), the value of a middle key is a text
// with placeholders for leaf keys, the value of a top key a text with placeholders for middle (and leaf) keys. The tag
// reaches one placeholder-bearing value at least twice: by repetition, through two different keys (a diamond), inside a
// default, inside another placeholder's key. Nothing is circular, so the property demands the full substitution.

const phIndAlpha = "abcxyzABZ019 /-_.:"

type phIndKey struct {
	name   string
	absent bool
}

type phIndGen struct {
	r    *hx.Rng
	cfg  *cval
	used map[string]bool
}

func (g *phIndGen) atom(max int) string {
	n := 1 + g.r.Intn(max)
	b := make([]byte, n)
	for i := range b {
		if g.r.P(2, 3) {
			b[i] = "abcxyz"[g.r.Intn(6)]
		} else {
			b[i] = phIndAlpha[g.r.Intn(len(phIndAlpha))]
		}
	}
	return string(b)
}

func (g *phIndGen) letters(min, max int) string {
	n := min + g.r.Intn(max-min+1)
	b := make([]byte, n)
	for i := range b {
		b[i] = "abcdefgh"[g.r.Intn(8)]
	}
	return string(b)
}

// a fresh key name; one time in six inside a nested map (dotted path)
func (g *phIndGen) fresh(nested bool) string {
	for {
		k := g.letters(2, 4)
		if nested && g.r.P(1, 6) {
			k = "g" + g.letters(1, 1) + "." + k
		}
		if !g.used[k] && !g.used[strings.SplitN(k, ".", 2)[0]] {
			g.used[k] = true
			return k
		}
	}
}

func (g *phIndGen) put(path string, v *cval) {
	if i := strings.IndexByte(path, '.'); i >= 0 {
		grp := g.cfg.child(path[:i])
		if grp == nil || grp.kind != 'm' {
			grp = cMap()
			g.cfg.put(path[:i], grp)
			g.used[path[:i]] = true
		}
		grp.put(path[i+1:], v)
		return
	}
	g.cfg.put(path, v)
}

func (g *phIndGen) ref(k phIndKey) *phNode {
	r := g.r
	key := k.name
	if r.P(1, 8) {
		key = strings.ToUpper(key)
	}
	n := &phNode{key: []*phNode{{lit: key}}}
	if (k.absent && r.P(3, 4)) || (!k.absent && r.P(1, 5)) {
		n.hasD = true
		switch r.Intn(6) {
		case 0:
			n.def = []*phNode{}
		case 1:
			n.def = []*phNode{{lit: []string{"'q'", "TRUE", "a:b", "x y"}[r.Intn(4)]}}
		default:
			n.def = []*phNode{{lit: g.atom(3)}}
		}
	}
	return n
}

// a text over the keys of pool; `must` (if any) is referred to first and, half of the time, once more
func (g *phIndGen) text(pool []phIndKey, must *phIndKey, minRefs int) []*phNode {
	r := g.r
	var ns []*phNode
	if r.P(1, 2) {
		ns = append(ns, &phNode{lit: g.atom(3)})
	}
	refs := minRefs + r.Intn(3)
	if refs == 0 {
		refs = 1
	}
	for i := 0; i < refs; i++ {
		k := pool[r.Intn(len(pool))]
		if must != nil && (i == 0 || (i == 1 && r.P(1, 2))) {
			k = *must
		}
		ns = append(ns, g.ref(k))
		if r.P(2, 3) {
			ns = append(ns, &phNode{lit: g.atom(3)})
		}
	}
	return ns
}

func phRender(ns []*phNode) string {
	var sb strings.Builder
	renderNodes(ns, &sb)
	return sb.String()
}

type phIndInfo struct{ leaves, mids, tops []phIndKey }

func phIndirectCase(r *hx.Rng) (*cval, []*phNode, []string, phIndInfo) {
	g := &phIndGen{r: r, cfg: cMap(), used: map[string]bool{"zz": true}}
	var leaves, mids, tops []phIndKey
	for i, n := 0, 1+r.Intn(3); i < n; i++ {
		k := phIndKey{name: g.fresh(true), absent: r.P(1, 5)}
		if !k.absent {
			switch r.Intn(8) {
			case 0:
				g.put(k.name, cNum(phNumText(r)))
			case 1:
				g.put(k.name, &cval{kind: 'b', b: r.Bool()})
			case 2:
				g.put(k.name, cStr([]string{"", "x:y", "a b", "'q'", "12", "true"}[r.Intn(6)]))
			default:
				g.put(k.name, cStr(g.atom(5)))
			}
		}
		leaves = append(leaves, k)
	}
	for i, n := 0, 1+r.Intn(2); i < n; i++ {
		k := phIndKey{name: g.fresh(true)}
		g.put(k.name, cStr(phRender(g.text(leaves, nil, 1))))
		mids = append(mids, k)
	}
	for i := 0; i < 2; i++ {
		k := phIndKey{name: g.fresh(true)}
		g.put(k.name, cStr(phRender(g.text(append(append([]phIndKey{}, mids...), leaves...), &mids[0], 1))))
		tops = append(tops, k)
	}
	all := append(append(append([]phIndKey{}, leaves...), mids...), tops...)
	lit := func() *phNode { return &phNode{lit: g.atom(3)} }
	var ns []*phNode
	shape := r.Intn(8)
	switch shape {
	case 0: // repetition of an indirect key
		ns = []*phNode{g.ref(mids[0]), lit(), g.ref(mids[0])}
		if r.P(1, 3) {
			ns = append(ns, g.ref(mids[0]))
		}
	case 1: // diamond: two keys through a third one
		ns = []*phNode{g.ref(tops[0]), lit(), g.ref(tops[1])}
	case 2: // directly and through another key
		ns = []*phNode{g.ref(mids[0]), lit(), g.ref(tops[r.Intn(2)])}
		if r.Bool() {
			ns[0], ns[2] = ns[2], ns[0]
		}
	case 3: // inside another placeholder's key: ${k${sel}} where sel's value is itself a placeholder text
		w, p := g.letters(1, 3), g.letters(0, 2)
		s0 := phIndKey{name: g.fresh(false)}
		g.put(s0.name, cStr(w))
		s1 := phIndKey{name: g.fresh(false)}
		g.put(s1.name, cStr(p+phRender([]*phNode{g.ref(s0)})))
		tk := "k" + g.letters(0, 1)
		for g.used[tk+p+w] {
			tk += "k"
		}
		g.used[tk+p+w] = true
		if r.Bool() {
			g.put(tk+p+w, cStr(phRender(g.text(all, &mids[0], 1)))) // the selected key is indirect as well
		} else {
			g.put(tk+p+w, cStr(g.atom(4)))
		}
		sel := func() *phNode { return &phNode{key: []*phNode{{lit: tk}, {key: []*phNode{{lit: s1.name}}}}} }
		ns = []*phNode{sel(), lit(), sel()}
		if r.P(1, 2) {
			ns = append(ns, lit(), g.ref(s1), g.ref(mids[0]))
		}
	case 4: // inside a default, and once more outside
		in := mids[0]
		if r.P(1, 3) {
			in = tops[0]
		}
		ns = []*phNode{{key: []*phNode{{lit: "zz"}}, hasD: true, def: []*phNode{g.ref(in)}}, lit(), g.ref(mids[0])}
		if r.P(1, 3) {
			ns[0].def = append([]*phNode{lit()}, ns[0].def...)
		}
	case 5: // one level more: a key over the top keys, next to a top key
		u := phIndKey{name: g.fresh(true)}
		g.put(u.name, cStr(phRender(g.text(append(append([]phIndKey{}, tops...), mids...), &tops[0], 2))))
		ns = []*phNode{g.ref(u), lit(), g.ref(tops[r.Intn(2)])}
	case 6: // the repetition sits inside ONE value: the tag uses that key once
		u := phIndKey{name: g.fresh(true)}
		g.put(u.name, cStr(phRender([]*phNode{g.ref(mids[0]), lit(), g.ref(mids[0])})))
		ns = []*phNode{lit(), g.ref(u)}
	default:
		ns = g.text(all, &mids[0], 2)
	}
	if r.P(1, 3) {
		ns = append([]*phNode{lit()}, ns...)
	}
	np, depth := countPh(ns)
	return g.cfg, ns, []string{"grammar", "indirect", fmt.Sprintf("ind-shape%d", shape), fmt.Sprintf("ph%d", np), fmt.Sprintf("depth%d", depth)},
		phIndInfo{leaves, mids, tops}
}

func (c *cval) clone() *cval {
	d := *c
	d.ks = append([]string(nil), c.ks...)
	d.xs = make([]*cval, len(c.xs))
	for i, x := range c.xs {
		d.xs[i] = x.clone()
	}
	return &d
}

// the designed configuration made circular: the first middle key now leads back to a top key (which goes through it)
// or to itself - behind a resolvable placeholder, or twice, so that the text grows with every replacement. The property
// then asks for an error or an empty value within the watchdog; the substitution oracle abstains on a circular chain.
func phMakeCircular(r *hx.Rng, cfg *cval, in phIndInfo) (*cval, string) {
	c := cfg.clone()
	g := &phIndGen{r: r, cfg: c, used: map[string]bool{}}
	mid, back := in.mids[0], in.tops[r.Intn(len(in.tops))]
	ref := func(k phIndKey) string { return "${" + k.name + "}" }
	var v, kind string
	switch r.Intn(4) {
	case 0:
		v, kind = phRender([]*phNode{g.ref(in.leaves[r.Intn(len(in.leaves))])})+g.atom(2)+ref(back), "circ-behind-resolvable"
	case 1:
		v, kind = "${zz:"+g.atom(2)+"}"+ref(mid)+g.atom(2), "circ-behind-resolvable"
	case 2:
		v, kind = ref(back)+g.atom(2)+ref(back), "circ-twice"
	default:
		v, kind = g.atom(2)+ref(mid)+ref(mid), "circ-twice"
	}
	g.put(mid.name, cStr(v))
	return c, kind
}

func phGenIndirect(rng *hx.Rng, groups int, w *hx.Writer) {
	for i := 0; i < groups; i++ {
		r := rng.Fork()
		cfg, nodes, tags, info := phIndirectCase(r)
		text := phRender(nodes)
		e2e := r.P(1, 10)
		runPh(phCase{text: text, nodes: nodes, cfg: cfg, tags: append(append([]string{}, tags...), "cfg-designed"), e2e: e2e}, w)
		runPh(phCase{text: text, nodes: nodes, cfg: phMutate(r, cfg), tags: append(append([]string{}, tags...), "cfg-mutated"), e2e: e2e}, w)
		if r.P(1, 10) {
			circ, kind := phMakeCircular(r, cfg, info)
			runPh(phCase{text: text, nodes: nodes, cfg: circ, tags: append(append([]string{}, tags...), "cfg-circular", kind), e2e: e2e}, w)
		}
	}
}

func phGen(rng *hx.Rng, n int, tier string, w *hx.Writer) {
	// hx.NewRng(seed) and hx.NewRng(seed+1) walk the same arithmetic progression one step apart; forking once first
	// moves this generator to a hashed starting point, so that neighbouring seeds give unrelated cases
	rng = rng.Fork()
	for i := 0; i < n; i++ {
		r := rng.Fork()
		cfg0 := phRandomCfg(r)
		g := &phGenCtx{r: r, cfg: cfg0}
		phPaths(cfg0, "", &g.paths)
		var text string
		var nodes []*phNode
		var tags []string
		if r.P(3, 4) {
			nodes = g.tag()
			var sb strings.Builder
			renderNodes(nodes, &sb)
			text = sb.String()
			np, depth := countPh(nodes)
			tags = []string{"grammar", fmt.Sprintf("ph%d", np), fmt.Sprintf("depth%d", depth)}
			if np == 0 {
				tags = append(tags, "trivial")
			}
		} else {
			text = phMalformed(r, g.paths)
			tags = []string{"malformed"}
			if !strings.Contains(text, "${") {
				tags = append(tags, "trivial")
			}
		}
		cfgs := []*cval{cfg0, phMutate(r, cfg0), nil}
		kinds := []string{"cfg-designed", "cfg-mutated", ""}
		switch k := r.Intn(12); {
		case k < 2:
			cfgs[2], kinds[2] = phRecursiveCfg(r, topNames(g.paths)), "cfg-recursive"
		case k < 4:
			cfgs[2], kinds[2] = cMap(), "cfg-empty"
		default:
			cfgs[2], kinds[2] = phRandomCfg(r), "cfg-random"
		}
		e2e := r.P(1, 10)
		for j, c := range cfgs {
			runPh(phCase{text: text, nodes: nodes, cfg: c, tags: append(append([]string{}, tags...), kinds[j]), e2e: e2e}, w)
		}
	}
	// after the main stream (whose cases stay what they were): values that carry placeholders, reached several times
	phGenIndirect(rng.Fork(), (n+5)/6, w)
	// … and histories: tags resolved, paths changed with Set, the same tags resolved again
	phGenHist(rng.Fork(), (n+11)/12, w)
	// … and (seventh round) tags given as TEXT with arguments, whose placeholders nest in front of a comma of the outer block
	phGenNested(rng.Fork(), (n+11)/12, w)
	// … and (eighth round) tags whose replacement texts carry expressions, each started on a real App as written and as it
	// reads with every placeholder replaced by hand (scenario `W`, sub_placeholder_written.go)
	phGenWritten(rng.Fork(), (n+11)/12, w)
	// … and (ninth round) histories of SOURCES on the library's default configure: tags resolved, documents merged after the
	// start (SetConfig / AddLoaders + Initialize), the same tags resolved again (scenario `R`, sub_placeholder_reload.go)
	phGenReload(rng.Fork(), (n+11)/12, w)
}

// ---------------------------------------------------------------- histories
//
//	scenario     `H <k> <TagStr-hex>×k <j> (P<path-hex> <value>)×j <cfg>`     values and cfg in the prefix form of the other scenarios
//	observation  `<first>×k / <second>×k`, each `<TagVal-hex>` | `err` | `panic` | `hang`
//
// One Configure (ViperBinder loaded from the YAML document).  Every tag is resolved by the real processor on a real, fresh
// property; then Configure.Set(path, value) for the j operations in order; then every tag is resolved AGAIN on a fresh
// property by a fresh processor.  A tenth of the histories is also run end to end: an App starts with a holder whose
// fields carry the tags, app.Set, then a second App that shares the Configure (app.SetConfigure, no loaders) starts with a
// second holder carrying the same tags.
//
// Oracles: (a) and (c) on both resolutions; (b) on the first resolution as for any tag; on the second resolution the
// harness substitutes under ITS OWN account of the current configuration: the document, and the values handed to Set
// composed in order.  It answers for a key only when no Set is at, above or below the key's path (the document's value) or
// a Set at or above the path gave it a value (that value, with what was set below it later); for any other key — one
// that lies beside a path that was set and is reached through a section created by Set, or whose section was replaced by a
// map that does not mention it — the oracle abstains: what the binder answers there depends on how it layers its sources.
// A second result that differs from the substitution: placeholder-set-stale when it is what the FIRST resolution gave,
// placeholder-set-current otherwise.

type phOp struct {
	path string
	val  *cval
}

type phHist struct {
	tags  []string
	nodes [][]*phNode // per tag; nil = not from the grammar
	ops   []phOp
	cfg   *cval
	lbl   []string
	e2e   bool
}

func (c *cval) lowerKeys() *cval {
	if c.kind != 'm' {
		return c
	}
	out := cMap()
	for i, k := range c.ks {
		out.put(strings.ToLower(k), c.xs[i].lowerKeys())
	}
	return out
}

// phCurView: the harness's own account of the configuration after the Set calls.
type phCurView struct {
	doc *cval
	set *cval
	ops [][]string
}

func phNewCurView(doc *cval, ops []phOp) *phCurView {
	cv := &phCurView{doc: doc, set: cMap()}
	for _, o := range ops {
		path := strings.Split(strings.ToLower(o.path), ".")
		cv.ops = append(cv.ops, path)
		cur := cv.set
		for _, seg := range path[:len(path)-1] {
			next := cur.child(seg)
			if next == nil || next.kind != 'm' {
				next = cMap()
				cur.put(seg, next)
			}
			cur = next
		}
		cur.put(path[len(path)-1], o.val.lowerKeys())
	}
	return cv
}

func phIsPrefix(p, q []string) bool {
	if len(p) > len(q) {
		return false
	}
	for i := range p {
		if p[i] != q[i] {
			return false
		}
	}
	return true
}

func (cv *phCurView) lookup(key string) (*cval, bool) {
	if key == "" {
		return nil, false
	}
	path := strings.Split(strings.ToLower(key), ".")
	comparable, above := false, false
	for _, op := range cv.ops {
		if phIsPrefix(op, path) {
			comparable, above = true, true
		} else if phIsPrefix(path, op) {
			comparable = true
		}
	}
	if !comparable {
		return phLookup(cv.doc, key)
	}
	if above {
		cur := cv.set
		for _, seg := range path {
			if cur == nil || cur.kind != 'm' {
				return nil, false
			}
			cur = cur.child(seg)
		}
		if cur != nil && cur.kind != 'z' {
			return cur, true
		}
	}
	return nil, false
}

func phHistScn(h *phHist) string {
	toks := []string{"H", strconv.Itoa(len(h.tags))}
	for _, t := range h.tags {
		toks = append(toks, hx.Hex(t))
	}
	toks = append(toks, strconv.Itoa(len(h.ops)))
	for _, o := range h.ops {
		toks = append(toks, hexTok("P", o.path))
		o.val.tokens(&toks)
	}
	h.cfg.tokens(&toks)
	return strings.Join(toks, " ")
}

// phHistEndToEnd: two Apps sharing one Configure; returns the strings bound by the second holder (nil = not run / failed)
func phHistEndToEnd(yamlBytes []byte, h *phHist) (second []string, failed bool, pan any, ran bool) {
	var fs []reflect.StructField
	for i, t := range h.tags {
		tag := reflect.StructTag("value:" + strconv.Quote(t+",required=false"))
		if got, ok := tag.Lookup("value"); !ok || got != t+",required=false" {
			return nil, false, nil, false
		}
		fs = append(fs, reflect.StructField{Name: "V" + strconv.Itoa(i), Type: reflect.TypeOf(""), Tag: tag})
	}
	first := reflect.New(reflect.StructOf(fs))
	for i := range fs {
		fs[i].Name = "W" + strconv.Itoa(i)
	}
	late := reflect.New(reflect.StructOf(fs))
	var err1, err2 error
	pan, hung := phWatch(func() {
		a := app.NewApp()
		err1 = a.Run(app.LogLevel(syslog.LvPanic), app.SetConfigLoader(loader.NewRawLoader(yamlBytes)), app.SetComponents(first.Interface()))
		if err1 != nil {
			return
		}
		for _, o := range h.ops {
			a.Set(o.path, o.val.toAny())
		}
		err2 = app.NewApp().Run(app.LogLevel(syslog.LvPanic), app.SetConfigure(a.Configure), app.SetConfigLoader(), app.SetComponents(late.Interface()))
	})
	if hung {
		return nil, false, "hang", true
	}
	if pan != nil {
		return nil, false, pan, true
	}
	if err1 != nil {
		return nil, false, nil, false // the first start fails (a tag that does not resolve): nothing to compare
	}
	if err2 != nil {
		return nil, true, nil, true
	}
	for i := range h.tags {
		second = append(second, late.Elem().Field(i).String())
	}
	return second, false, nil, true
}

func runPhHist(h *phHist, w *hx.Writer) {
	if phHung {
		return
	}
	phQuiet.Do(func() { syslog.Level(syslog.LvPanic) })
	yamlBytes, err := yaml.Marshal(h.cfg.toAny())
	if err != nil || len(h.cfg.xs) == 0 {
		yamlBytes = nil
	}
	cfg, err := newConfigure(yamlBytes)
	if err != nil {
		return
	}
	opaque := false
	judge := func(r phRun, tr phTrace, out *hx.Case, which string) {
		switch r.obs {
		case "hang":
			phHung = true
			if out.Oracle == "" {
				out.Oracle = "FAIL placeholder-hang no answer within 5s (" + which + " resolution)"
			}
		case "panic":
			if out.Oracle == "" {
				msg := fmt.Sprint(r.pan)
				switch {
				case tr.loneQuote && strings.Contains(msg, "slice bounds out of range [1:0]"):
					out.Oracle = "FAIL placeholder-panic-lone-quote " + msg
				case tr.getPanic && strings.Contains(msg, "index out of range [-"):
					out.Oracle = "FAIL placeholder-panic-negative-index " + msg
				default:
					out.Oracle = "FAIL placeholder-panic " + msg + " (" + which + " resolution)"
				}
			}
		case "err":
		default:
			if phQuote.MatchString(r.val) && out.Oracle == "" {
				out.Oracle = fmt.Sprintf("FAIL placeholder-left %s result %q still has a placeholder", which, r.val)
			}
		}
	}
	out := hx.Case{Tags: append([]string{"history"}, h.lbl...)}
	var firsts, seconds []phRun
	for _, t := range h.tags {
		r := phDirect(cfg, t, true)
		tr := phRefTrace(cfg, t)
		opaque = opaque || tr.opaque
		firsts = append(firsts, r)
		judge(r, tr, &out, "first")
		if phHung {
			break
		}
	}
	if !phHung {
		pan := hx.Guard(func() {
			for _, o := range h.ops {
				cfg.Set(o.path, o.val.toAny())
			}
		})
		if pan != nil && out.Oracle == "" {
			out.Oracle = "FAIL placeholder-panic Set panicked: " + fmt.Sprint(pan)
		}
		for _, t := range h.tags {
			r := phDirect(cfg, t, true)
			tr := phRefTrace(cfg, t)
			opaque = opaque || tr.opaque
			seconds = append(seconds, r)
			judge(r, tr, &out, "second")
			if phHung {
				break
			}
		}
	}
	var obs []string
	for _, r := range firsts {
		obs = append(obs, r.obs)
	}
	obs = append(obs, "/")
	for _, r := range seconds {
		obs = append(obs, r.obs)
	}
	out.Scn, out.Obs = phHistScn(h), strings.Join(obs, " ")
	if opaque {
		out.Scn = "# " + out.Scn
		out.Tags = append(out.Tags, "opaque")
	}
	// the substitution oracle: first resolution under the document, second under the current view
	cur := phNewCurView(h.cfg, h.ops)
	judged := false
	for i := range h.tags {
		if out.Oracle != "" || i >= len(seconds) || h.nodes[i] == nil {
			continue
		}
		ev1 := &phEv{root: h.cfg}
		if want, ok := ev1.eval(h.nodes[i]); ok && firsts[i].obs != hx.Hex(want) {
			out.Oracle = fmt.Sprintf("FAIL placeholder-eval tag %q gives %q (obs %s), substitution gives %q", h.tags[i], firsts[i].val, firsts[i].obs, want)
			continue
		}
		ev2 := &phEv{root: h.cfg, look: cur.lookup}
		if want, ok := ev2.eval(h.nodes[i]); ok {
			judged = true
			if seconds[i].obs != hx.Hex(want) {
				sig := "placeholder-set-current"
				if seconds[i].obs == firsts[i].obs {
					sig = "placeholder-set-stale"
				}
				out.Oracle = fmt.Sprintf("FAIL %s tag %q resolved again after Set gives %q (obs %s; first %q), substitution under the current configuration gives %q",
					sig, h.tags[i], seconds[i].val, seconds[i].obs, firsts[i].val, want)
			}
		}
	}
	if judged {
		out.Tags = append(out.Tags, "eval-oracle")
	}
	if h.e2e && out.Oracle == "" && !opaque && len(seconds) == len(h.tags) {
		plain := true
		for _, t := range h.tags {
			if strings.Contains(t, ",") {
				plain = false // the part behind a top-level comma would be read as tag arguments
			}
		}
		for _, r := range seconds {
			if r.obs == "panic" || r.obs == "hang" || (r.obs != "err" && r.val != "" && !phPlain(r.val)) {
				plain = false
			}
		}
		for _, r := range firsts {
			if r.obs == "panic" || r.obs == "hang" || (r.obs != "err" && r.val != "" && !phPlain(r.val)) {
				plain = false
			}
		}
		if plain {
			got, failed, pan, ran := phHistEndToEnd(yamlBytes, h)
			if ran {
				out.Tags = append(out.Tags, "e2e")
				anyErr := false
				for _, r := range seconds {
					anyErr = anyErr || r.obs == "err"
				}
				switch {
				case pan != nil:
					out.Oracle = fmt.Sprintf("FAIL placeholder-e2e Run panicked or hung: %v", pan)
				case anyErr != failed:
					out.Oracle = fmt.Sprintf("FAIL placeholder-e2e second start failed=%v, direct resolution failed=%v", failed, anyErr)
				case !failed:
					for i, r := range seconds {
						if got[i] != r.val {
							out.Oracle = fmt.Sprintf("FAIL placeholder-e2e tag %q: direct %q after Set, the second App bound %q", h.tags[i], r.val, got[i])
							break
						}
					}
				}
			}
		}
	}
	w.Put(out)
}

func phHistReplay(f []string, w *hx.Writer) {
	i := 1
	num := func() (int, bool) {
		if i >= len(f) {
			return 0, false
		}
		n, err := strconv.Atoi(f[i])
		i++
		return n, err == nil && n >= 0 && n < 1000
	}
	h := &phHist{lbl: []string{"replay"}}
	k, ok := num()
	if !ok {
		return
	}
	for ; k > 0; k-- {
		if i >= len(f) {
			return
		}
		t, err := hx.UnHex(f[i])
		if err != nil {
			return
		}
		i++
		h.tags = append(h.tags, t)
		nodes, ok := phParse(t)
		if !ok {
			nodes = nil
		}
		h.nodes = append(h.nodes, nodes)
	}
	j, ok := num()
	if !ok {
		return
	}
	for ; j > 0; j-- {
		if i >= len(f) || f[i][0] != 'P' {
			return
		}
		path := ""
		if len(f[i]) > 1 {
			p, err := hx.UnHex(f[i][1:])
			if err != nil {
				return
			}
			path = p
		}
		v, rest, ok := parseCfgTokens(f[i+1:])
		if !ok {
			return
		}
		h.ops = append(h.ops, phOp{path, v})
		i = len(f) - len(rest)
	}
	cfg, rest, ok := parseCfgTokens(f[i:])
	if !ok || len(rest) != 0 || cfg.kind != 'm' {
		return
	}
	h.cfg = cfg
	runPhHist(h, w)
}

func phHistOf(cfg *cval, ops []phOp, lbl []string, tags ...string) *phHist {
	h := &phHist{cfg: cfg, ops: ops, lbl: lbl}
	for _, t := range tags {
		nodes, ok := phParse(t)
		if !ok {
			nodes = nil
		}
		h.tags = append(h.tags, t)
		h.nodes = append(h.nodes, nodes)
	}
	return h
}

func phHistCorpus(w *hx.Writer) {
	svc := func() *cval {
		return phCfgOf("svc", phCfgOf("url", "http://old.example", "name", "billing"), "db", phCfgOf("host", "primary", "port", 5432, "pool", phCfgOf("size", 3)),
			"l", &cval{kind: 'l', xs: []*cval{cNum("1"), cStr("x")}}, "base", "${svc.url}/v1", "top", "plain")
	}
	lbl := []string{"corpus"}
	tags := []string{"${svc.url}", "${svc.name}", "${cache.ttl:30}", "${svc.url}/${svc.name}?ttl=${cache.ttl:30}", "${base}", "${SVC.URL}", "${db.host}:${db.port}", "${db.pool.size}", "${top}"}
	for _, ops := range [][]phOp{
		nil,
		{{"svc", phCfgOf("url", "http://new.example", "name", "billing")}, {"cache", phCfgOf("ttl", 60)}},
		{{"SVC.URL", cStr("http://new.example")}, {"cache.ttl", cNum("60")}},
		{{"svc.url", cStr("http://new.example")}},
		{{"Svc", phCfgOf("URL", "http://new.example")}},
		{{"db.pool", phCfgOf("size", 9)}, {"db.host", cStr("replica")}},
		{{"db", phCfgOf("host", "replica", "port", 6543, "pool", phCfgOf("size", 4))}, {"db.pool.size", cNum("5")}},
		{{"db.pool.size", cNum("5")}, {"db", phCfgOf("host", "replica")}},
		{{"db.host", cStr("replica")}, {"db.host", cStr("third")}, {"top", cStr("changed")}},
		{{"db", cStr("scalar")}},              // a scalar where the section was: the keys below it are gone
		{{"top.sub", cStr("x")}},               // a section where the scalar was
		{{"l.0", cStr("zero")}},                // a path into a list
		{{"svc.url", &cval{kind: 'z'}}},        // nil: nothing changes
		{{"cache", cMap()}, {"svc.name", cStr("")}},
	} {
		h := phHistOf(svc(), ops, lbl, tags...)
		h.e2e = true
		runPhHist(h, w)
	}
	runPhHist(phHistOf(svc(), []phOp{{"db.host", cStr("replica")}}, lbl, "${}", "${db}", "${l}", "${l.0}", "${db.pool}"), w)
	runPhHist(phHistOf(svc(), []phOp{{"l.0", cStr("zero")}, {"svc.url.x", cNum("1")}}, lbl, "${l}", "${l.0}", "${l.1}", "${svc.url}", "${svc.url.x}", "${svc}"), w)
}

// ---- generators of histories

func phVaryScalar(r *hx.Rng, old *cval) *cval {
	for try := 0; try < 8; try++ {
		var v *cval
		switch r.Intn(4) {
		case 0:
			v = cNum(phNumText(r))
		case 1:
			v = &cval{kind: 'b', b: r.Bool()}
		default:
			v = cStr(phAtom(r, 5))
		}
		if old == nil || v.kind != old.kind || v.s != old.s || v.b != old.b {
			return v
		}
	}
	return cStr("changed")
}

func phCasing(r *hx.Rng, path string) string {
	switch r.Intn(5) {
	case 0:
		return strings.ToUpper(path)
	case 1:
		segs := strings.Split(path, ".")
		i := r.Intn(len(segs))
		segs[i] = strings.ToUpper(segs[i])
		return strings.Join(segs, ".")
	}
	return path
}

// phOpsNear: Set operations at, above and below the given path (a key some tag looks up), and on absent keys
func phOpsNear(r *hx.Rng, root *cval, path string) []phOp {
	segs := strings.Split(strings.ToLower(path), ".")
	cur, _ := phLookup(root, path)
	var ops []phOp
	switch k := r.Intn(10); {
	case k < 3 || len(segs) == 1 && k < 6: // the path itself, in some letter case
		ops = append(ops, phOp{phCasing(r, path), phVaryScalar(r, cur)})
	case k < 6: // an ancestor is replaced by a map that holds the rest of the path
		cut := 1 + r.Intn(len(segs)-1)
		v := phVaryScalar(r, cur)
		for i := len(segs) - 1; i >= cut; i-- {
			m := cMap()
			key := segs[i]
			if r.P(1, 4) {
				key = strings.ToUpper(key)
			}
			m.put(key, v)
			if r.P(1, 3) {
				m.put("z"+phKeyName(r), phScalar(r))
			}
			v = m
		}
		ops = append(ops, phOp{phCasing(r, strings.Join(segs[:cut], ".")), v})
	case k < 8: // a path below it
		ops = append(ops, phOp{phCasing(r, path) + "." + []string{"zz", "x", "0", phKeyName(r)}[r.Intn(4)], phVaryScalar(r, nil)})
	case k < 9: // the path becomes a map / a list / empty (never nil: AllSettings — `${}` — rebuilds its answer INSIDE the maps of
		// the override layer, in Go's map order, and a stored nil makes the outcome depend on that order)
		ops = append(ops, phOp{phCasing(r, path), []*cval{cMap(), {kind: 'l'}, phCfgOf("x", "y"), {kind: 'l', xs: []*cval{cStr("e0")}}}[r.Intn(4)]})
	default: // set twice
		ops = append(ops, phOp{path, phVaryScalar(r, cur)}, phOp{phCasing(r, path), phVaryScalar(r, cur)})
	}
	return ops
}

func phGenHist(rng *hx.Rng, groups int, w *hx.Writer) {
	for i := 0; i < groups; i++ {
		r := rng.Fork()
		if i%2 == 0 {
			// designed in levels (leaves, keys whose values carry placeholders): leaf keys are changed, the tag and the
			// leaves themselves are resolved before and after
			cfg, nodes, tags, info := phIndirectCase(r)
			h := &phHist{cfg: cfg, lbl: append(append([]string{}, tags...), "hist-indirect"), e2e: r.P(1, 10)}
			h.tags, h.nodes = []string{phRender(nodes)}, [][]*phNode{nodes}
			for n, k := 0, 1+r.Intn(2); n < k; n++ {
				leaf := info.leaves[r.Intn(len(info.leaves))]
				ref := []*phNode{{key: []*phNode{{lit: phCasing(r, leaf.name)}}}}
				if leaf.absent || r.P(1, 3) {
					ref[0].hasD, ref[0].def = true, []*phNode{{lit: "dflt"}}
				}
				h.tags, h.nodes = append(h.tags, phRender(ref)), append(h.nodes, ref)
				h.ops = append(h.ops, phOpsNear(r, cfg, leaf.name)...)
			}
			runPhHist(h, w)
			continue
		}
		cfg0 := phRandomCfg(r)
		g := &phGenCtx{r: r, cfg: cfg0}
		phPaths(cfg0, "", &g.paths)
		h := &phHist{cfg: cfg0, lbl: []string{"hist-random"}, e2e: r.P(1, 10)}
		for n, k := 0, 1+r.Intn(3); n < k; n++ {
			g.nph = 0
			nodes := g.tag()
			h.tags, h.nodes = append(h.tags, phRender(nodes)), append(h.nodes, nodes)
		}
		for n, k := 0, 1+r.Intn(3); n < k; n++ {
			path := "z" + phKeyName(r)
			if len(g.paths) > 0 && r.P(5, 6) {
				path = g.paths[r.Intn(len(g.paths))]
			}
			h.ops = append(h.ops, phOpsNear(r, cfg0, path)...)
		}
		runPhHist(h, w)
	}
}

// ---------------------------------------------------------------- from the tag TEXT (seventh round)
//
//	scenario     `T <tag-text-hex> <cfg>`     the whole text of a `value` tag: value part AND arguments (`,required`, `,validate=…`)
//	observation  `<TagStr-hex> <TagVal-hex>` | `<TagStr-hex> err|panic|hang`
//
// The property is created from the tag text by the real NewProperty (TagArg.Parse cuts the arguments off), then handed to
// the real processor.  The texts nest placeholders so that an inner `}` is followed by a comma that still belongs to the
// outer block: `${motd.${lang}:Welcome, stranger},required`, `#{max(${low:1},${quota.${tier}:100})},validate=min=1`.
// Oracles: (a), (c) as everywhere; placeholder-tagtext: the value part of a bracket-balanced text is the text before its
// first TOP-LEVEL comma (the harness's own reader, tagSplitTop) — a processor handed anything else cannot have replaced
// the placeholders of the tag; (b) the harness's own substitution of that value part; (d) end to end when the arguments
// are inert for the other processors.

type phTextCase struct {
	text      string
	val       string    // the value part as the generator rendered it ("" = read it off the text)
	nodes     []*phNode // the structure of the value part (nil = read it off the value part, if it reads)
	litBraces bool      // the literals of `nodes` carry the braces of an expression wrapper `#{…}`
	cfg       *cval
	tags      []string
	e2e       bool
}

func runPhText(c phTextCase, w *hx.Writer) {
	if phHung {
		return
	}
	phQuiet.Do(func() { syslog.Level(syslog.LvPanic) })
	yamlBytes, err := yaml.Marshal(c.cfg.toAny())
	if err != nil || len(c.cfg.xs) == 0 {
		yamlBytes = nil
	}
	cfg, err := newConfigure(yamlBytes)
	if err != nil {
		return
	}
	if c.val == "" {
		segs, ok := tagSplitTop(c.text, ',')
		if !ok {
			return // outside the form the oracle speaks about
		}
		c.val = segs[0]
	}
	if c.nodes == nil {
		if ns, ok := phParse(c.val); ok {
			c.nodes = ns
		}
	}
	r := phDirect(cfg, c.text, false)
	var toks []string
	c.cfg.tokens(&toks)
	res := r.obs
	out := hx.Case{Scn: "T " + hx.Hex(c.text) + " " + strings.Join(toks, " "), Obs: hx.Hex(r.tagStr) + " " + res, Tags: c.tags}
	tr := phRefTrace(cfg, r.tagStr)
	if tr.opaque {
		out.Scn = "# " + out.Scn
		out.Tags = append(out.Tags, "opaque")
	}
	switch res {
	case "hang":
		phHung = true
		out.Oracle = "FAIL placeholder-hang no answer within 5s"
	case "panic":
		msg := fmt.Sprint(r.pan)
		switch {
		case tr.loneQuote && strings.Contains(msg, "slice bounds out of range [1:0]"):
			out.Oracle = "FAIL placeholder-panic-lone-quote " + msg
		case tr.getPanic && strings.Contains(msg, "index out of range [-"):
			out.Oracle = "FAIL placeholder-panic-negative-index " + msg
		default:
			out.Oracle = "FAIL placeholder-panic " + msg
		}
	case "err":
	default:
		if phQuote.MatchString(r.val) {
			out.Oracle = fmt.Sprintf("FAIL placeholder-left result %q still has a placeholder", r.val)
		}
	}
	if r.tagStr != c.val && strings.Contains(c.val, "${") && res != "hang" && res != "panic" {
		out.Oracle = fmt.Sprintf("FAIL placeholder-tagtext the value part of the tag %q is %q (the text before its first top-level comma); the processor was handed %q and gives %q (obs %s): the placeholders of the tag are not replaced",
			c.text, c.val, r.tagStr, r.val, res)
	}
	if c.nodes != nil && out.Oracle == "" {
		ev := &phEv{root: c.cfg, litBraces: c.litBraces}
		if want, ok := ev.eval(c.nodes); ok {
			out.Tags = append(out.Tags, "eval-oracle")
			if res != hx.Hex(want) {
				sig := "placeholder-eval"
				switch {
				case ev.indirect:
					sig = "placeholder-indirect"
				case ev.emptyNoDefault:
					sig = "placeholder-empty-container-kept"
				}
				out.Oracle = fmt.Sprintf("FAIL %s tag %q gives %q (obs %s), substitution of its value part %q gives %q", sig, c.text, r.val, res, c.val, want)
			}
		}
	}
	if c.e2e && out.Oracle == "" && !tr.opaque && (res == "err" || (res != "panic" && phPlain(r.val))) {
		got, failed, pan, ran := phEndToEnd(yamlBytes, c.text)
		if ran {
			out.Tags = append(out.Tags, "e2e")
			switch {
			case pan != nil:
				out.Oracle = fmt.Sprintf("FAIL placeholder-e2e Run panicked or hung: %v", pan)
			case res == "err" && !failed:
				out.Oracle = fmt.Sprintf("FAIL placeholder-e2e direct call fails, Run succeeds with %q", got)
			case res != "err" && (failed || got != r.val):
				out.Oracle = fmt.Sprintf("FAIL placeholder-e2e direct %q, Run failed=%v bound %q", r.val, failed, got)
			}
		}
	}
	w.Put(out)
}

func phTextReplay(f []string, w *hx.Writer) {
	if len(f) < 3 {
		return
	}
	s, err := hx.UnHex(f[1])
	if err != nil {
		return
	}
	cfg, rest, ok := parseCfgTokens(f[2:])
	if !ok || len(rest) != 0 || cfg.kind != 'm' {
		return
	}
	runPhText(phTextCase{text: s, cfg: cfg, tags: []string{"replay"}}, w)
}

var phTextArgs = []string{"required", "required=true", "Required", "required=false", "validate=required", "validate=min=1 max=30",
	"qualifier=[a, b]", "x=(p, q) r", "mapper=yaml", "validate"}

// phNestedCase: a configuration and a value part whose placeholders nest so that an inner closer is followed by a comma
// of the outer block
func phNestedCase(r *hx.Rng) (*cval, []*phNode, string, bool) {
	g := &phIndGen{r: r, cfg: cMap(), used: map[string]bool{"zz": true}}
	lit := func(s string) *phNode { return &phNode{lit: s} }
	ref := func(key string) *phNode { return &phNode{key: []*phNode{lit(key)}} }
	withD := func(n *phNode, def ...*phNode) *phNode {
		n.hasD, n.def = true, def
		if def == nil {
			n.def = []*phNode{}
		}
		return n
	}
	commaText := func() string {
		return g.atom(3) + []string{", ", ",", " , ", ", "}[r.Intn(4)] + g.atom(3)
	}
	value := func() *cval {
		switch r.Intn(5) {
		case 0:
			return cNum(strconv.Itoa(r.Intn(500)))
		case 1:
			return cStr(commaText())
		}
		return cStr(g.atom(5))
	}
	// a selector: its value is the tail of another key
	word := g.letters(1, 3)
	sel := g.fresh(false)
	selAbsent := r.P(1, 6)
	if !selAbsent {
		g.put(sel, cStr(word))
	}
	selNode := func() *phNode {
		n := ref(sel)
		if r.P(1, 8) {
			n = ref(strings.ToUpper(sel))
		}
		if selAbsent || r.P(1, 5) {
			withD(n, lit(word))
		}
		return n
	}
	// ${base.${sel}:text, text}   /   ${base${sel}:text, text}
	nestedKey := func(dotted bool) *phNode {
		base := g.fresh(false)
		path := base + word
		if dotted {
			path = base + "." + word
		}
		if r.P(2, 3) {
			g.put(path, value())
		}
		key := []*phNode{lit(path[:len(path)-len(word)]), selNode()}
		return withD(&phNode{key: key}, lit(commaText()))
	}
	simple := func(numeric bool) *phNode {
		k := g.fresh(true)
		present := r.P(1, 2)
		if present {
			if numeric {
				g.put(k, cNum(strconv.Itoa(1+r.Intn(90))))
			} else {
				g.put(k, value())
			}
		}
		n := ref(k)
		if !present || r.P(1, 3) {
			if numeric {
				withD(n, lit(strconv.Itoa(1+r.Intn(200))))
			} else {
				withD(n, lit(g.atom(3)))
			}
		}
		return n
	}
	numNested := func() *phNode {
		base := g.fresh(false)
		if r.P(2, 3) {
			g.put(base+"."+word, cNum(strconv.Itoa(1+r.Intn(900))))
		}
		return withD(&phNode{key: []*phNode{lit(base + "."), selNode()}}, lit(strconv.Itoa(100*(1+r.Intn(9)))))
	}
	var ns []*phNode
	shape := r.Intn(8)
	litBraces := false
	switch shape {
	case 0:
		ns = []*phNode{nestedKey(true)}
	case 1:
		ns = []*phNode{nestedKey(false)}
	case 2: // the default holds placeholders and a comma behind the first of them
		ns = []*phNode{withD(ref("zz"+g.letters(1, 2)), simple(false), lit([]string{", ", ",", " , "}[r.Intn(3)]), simple(false))}
		if r.P(1, 2) {
			ns[0].def = append(ns[0].def, lit(g.atom(2)))
		}
	case 3: // an expression over placeholders: #{max(${low:1},${quota.${tier}:100})}
		litBraces = true
		fn := []string{"max", "min", "sum"}[r.Intn(3)]
		ns = []*phNode{lit("#{" + fn + "("), simple(true), lit(","), numNested()}
		if r.P(1, 3) {
			ns = append(ns, lit(", "), simple(true))
		}
		ns = append(ns, lit(")}"))
	case 4: // … with nested calls: the inner `)` comes before a comma of the outer call
		litBraces = true
		ns = []*phNode{lit("#{max(min("), simple(true), lit(", " + strconv.Itoa(r.Intn(50)) + "), "), simple(true), lit(")}")}
	case 5: // a call in the default: ${k${sel}:f(x, y)}
		base := g.fresh(false)
		if r.P(1, 2) {
			g.put(base+word, value())
		}
		ns = []*phNode{withD(&phNode{key: []*phNode{lit(base), selNode()}}, lit(g.letters(1, 2)+"("+commaText()+")"))}
	case 6: // two blocks in one tag
		ns = []*phNode{nestedKey(r.Bool()), lit(g.atom(2)), withD(ref("zz"+g.letters(1, 2)), simple(false), lit(", "), lit(g.atom(3)))}
	default: // one level deeper: ${a.${b${c}}:x, y}
		base := g.fresh(false)
		w2 := g.letters(1, 2)
		s2 := g.fresh(false)
		g.put(s2, cStr(w2))
		s1 := g.fresh(false)
		g.put(s1+w2, cStr(word))
		if r.P(2, 3) {
			g.put(base+"."+word, value())
		}
		inner := &phNode{key: []*phNode{lit(s1), ref(s2)}}
		ns = []*phNode{withD(&phNode{key: []*phNode{lit(base + "."), inner}}, lit(commaText()))}
	}
	if !litBraces {
		if r.P(1, 3) {
			ns = append([]*phNode{lit(g.atom(3))}, ns...)
		}
		if r.P(1, 3) {
			ns = append(ns, lit(g.atom(3)))
		}
	}
	return g.cfg, ns, fmt.Sprintf("nest-shape%d", shape), litBraces
}

func phGenNested(rng *hx.Rng, groups int, w *hx.Writer) {
	for i := 0; i < groups; i++ {
		r := rng.Fork()
		cfg, nodes, shape, litBraces := phNestedCase(r)
		val := phRender(nodes)
		text := val
		inert := true
		nargs := 0
		if r.P(4, 5) {
			for n := 1 + r.Intn(2); n > 0; n-- {
				k := r.Intn(len(phTextArgs))
				if r.P(1, 2) {
					k = r.Intn(3)
				}
				if k > 2 {
					inert = false
				}
				text += "," + phTextArgs[k]
				nargs++
			}
		}
		np, depth := countPh(nodes)
		tags := []string{"grammar", "tagtext", shape, fmt.Sprintf("args%d", nargs), fmt.Sprintf("ph%d", np), fmt.Sprintf("depth%d", depth)}
		e2e := inert && r.P(1, 4)
		runPhText(phTextCase{text: text, val: val, nodes: nodes, litBraces: litBraces, cfg: cfg, tags: append(append([]string{}, tags...), "cfg-designed"), e2e: e2e}, w)
		runPhText(phTextCase{text: text, val: val, nodes: nodes, litBraces: litBraces, cfg: phMutate(r, cfg), tags: append(append([]string{}, tags...), "cfg-mutated"), e2e: e2e}, w)
	}
}

// tag texts with arguments whose placeholders nest in front of a comma of the outer block (runs after the other corpus cases)
func phTextCorpus(w *hx.Writer) {
	cfg := func() *cval {
		return phCfgOf("lang", "de", "motd", phCfgOf("de", "Hallo, Fremder", "en", "Hello, stranger"), "tier", "gold", "quota", phCfgOf("gold", 500), "low", 3,
			"who", "you", "a", 1, "p", "b", "ab", "hit")
	}
	for _, t := range []string{"${motd.${lang}:Welcome, stranger}", "${motd.${lang}:Welcome, stranger},required", "${motd.${nolang:fr}:Welcome, whoever ${who} are},required=true",
		"${motd.${lang}:Welcome, stranger},validate=required,required", "#{max(${low:1},${quota.${tier}:100})}", "#{max(${low:1},${quota.${tier}:100})},validate=min=1 max=3",
		"#{max(min(${low:1}, 10), ${a})},required", "${zz:${a}, ${p}},qualifier=[a, b]", "${a${p}:x, y}-${zz:(${a}, ${a})},x=(p, q) r", "${a},required=false", "${zz:x,y},required",
		"${a${p}},required", "${motd.${lang}},required"} {
		runPhText(phTextCase{text: t, cfg: cfg(), tags: []string{"corpus", "tagtext"}, e2e: true}, w)
	}
}
