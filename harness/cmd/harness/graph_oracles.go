package main

// Independent re-statement (on the real objects' reflection facts) of which components an injection point
// may receive, used by the direct oracles of C06 / C07 / C08 / C10. Deliberately NOT shared with the Lean model.

import (
	"fmt"
	"reflect"
	"strconv"
	"strings"

	"github.com/go-kid/ioc/component_definition"

	"verifharness/internal/hx"
)

type slotCands struct {
	holder   int
	kind     string // p i P I o
	byName   bool
	name     string
	named    int   // row registered under `name`, -1 if none
	compat   []int // rows compatible with the declared type (and exposing the method, for func tags)
	admitted []int // … that also pass the qualifier argument
	choice   []int // for single kinds: admitted minus the holder when others remain
	required bool
	hasQual  bool
	quals    []string
}

func typeOK(r *gRun, kind string, tgt int, row int) bool {
	if r.rows[row].obj == nil {
		return false
	}
	if kind == "p" || kind == "P" {
		return r.rows[row].ty == tgt
	}
	if kind == "i" || kind == "I" {
		return r.rows[row].impl&(1<<tgt) != 0
	}
	return false
}

// deliveredOK: is the object that holders RECEIVE for this row assignable to the field? (the registered instance, or the
// substitute of another Go type that a post-processor hands out for it — Property.Inject checks the delivered value)
func deliveredOK(r *gRun, kind string, tgt int, row int) bool {
	if !typeOK(r, kind, tgt, row) {
		return false
	}
	if !r.rows[row].hasInj {
		return true
	}
	if kind == "p" || kind == "P" {
		return r.rows[row].injTy == tgt
	}
	if kind == "i" || kind == "I" {
		return r.rows[row].injImpl&(1<<tgt) != 0
	}
	return false
}

func anyUndeliverable(r *gRun, kind string, tgt int, rows []int) bool {
	for _, c := range rows {
		if c >= 0 && c < len(r.rows) && typeOK(r, kind, tgt, c) && !deliveredOK(r, kind, tgt, c) {
			return true
		}
	}
	return false
}

func candsOf(r *gRun, key string) (*slotCands, bool) {
	info, ok := r.slotInfo[key]
	if !ok {
		return nil, false
	}
	kind, target, tag := info[0], info[1], info[2]
	sc := &slotCands{kind: kind, named: -1}
	sc.holder, _ = strconv.Atoi(key[:strings.Index(key, ".")])
	var p *component_definition.Property
	if hx.Guard(func() {
		p = component_definition.NewProperty(nil, component_definition.PropertyTypeComponent, "wire", tag[1:])
	}) != nil {
		return nil, false
	}
	// the requested name and the required flag are read off the tag TEXT (generated tags are `<name>[,arg…]`, names hold no
	// comma), independently of the library's tag parser
	rawName := tag[1:]
	if i := strings.Index(rawName, ","); i >= 0 {
		rawName = rawName[:i]
	}
	sc.required = !tagOptional(tag)
	tgt, _ := strconv.Atoi(target)
	if qs, ok := p.Args().Find(component_definition.ArgQualifier); ok {
		sc.hasQual, sc.quals = true, qs
	}
	if tag[0] == 'w' && rawName != "" {
		sc.byName, sc.name = true, rawName
		if row, ok := r.rowOf[rawName]; ok && r.rows[row].obj != nil {
			sc.named = row
		}
		return sc, true
	}
	for i, row := range r.rows {
		if !typeOK(r, kind, tgt, i) {
			continue
		}
		if tag[0] == 'f' {
			m := reflect.ValueOf(row.obj).MethodByName(p.TagVal)
			if !m.IsValid() {
				continue
			}
			if rs, ok := p.Args().Find("returns"); ok {
				match := false
				for _, want := range rs {
					if m.Type().NumIn() != 0 {
						continue
					}
					if want == "*" {
						match = true
					} else if m.Type().NumOut() == 0 {
						match = match || want == ""
					} else if fmt.Sprint(m.Call(nil)[0].Interface()) == want {
						match = true
					}
				}
				if !match {
					continue
				}
			} else if m.Type().NumOut() != 0 {
				continue
			}
		}
		sc.compat = append(sc.compat, i)
		if sc.hasQual {
			if row.qual == nil {
				continue
			}
			in := false
			for _, q := range sc.quals {
				if q == *row.qual {
					in = true
				}
			}
			if !in {
				continue
			}
		}
		sc.admitted = append(sc.admitted, i)
	}
	sc.choice = sc.admitted
	if (kind == "p" || kind == "i") && len(sc.admitted) > 1 {
		var others []int
		for _, c := range sc.admitted {
			if c != sc.holder {
				others = append(others, c)
			}
		}
		if len(others) > 0 {
			sc.choice = others
		}
	}
	return sc, true
}

// nothingSubstituted: no node of the scenario asks a post-processor for a substitute, filters instantiation, or is itself a
// user post-processor (C02's "when no post-processor substitutes components")
func (r *gRun) nothingSubstituted() bool {
	if r.sc.loaderFail || r.sc.scanFail {
		return false
	}
	for _, n := range r.sc.nodes {
		if n.flt != 0 || n.early != 0 || n.after != 0 || utInfos[n.ty].pp && n.ty != 24 && n.ty != 36 {
			// (types 24 and 36 are user processors that substitute nothing, veto nothing and change no property: they look at
			// their argument — and rearrange the slice they were handed, which is theirs)
			return false
		}
	}
	return true
}

// tiedSlots: single-valued by-type/func points with several equally ranked candidates
func tiedSlots(r *gRun) map[string][]int {
	out := map[string][]int{}
	for key := range r.slotInfo {
		sc, ok := candsOf(r, key)
		if !ok || sc.byName || (sc.kind != "p" && sc.kind != "i") || len(sc.choice) < 2 {
			continue
		}
		prim, unnamed := 0, 0
		for _, c := range sc.choice {
			if r.rows[c].primary {
				prim++
			}
			if !r.rows[c].custom {
				unnamed++
			}
		}
		if prim > 1 || (prim == 0 && unnamed > 1) || (prim == 0 && unnamed == 0) {
			out[key] = sc.choice
		}
	}
	return out
}

func rowOfObj(o string) int {
	i := strings.Index(o, "#")
	if i < 0 {
		return -1
	}
	n, err := strconv.Atoi(o[:i])
	if err != nil {
		return -1
	}
	return n
}

func inInts(xs []int, x int) bool {
	for _, y := range xs {
		if y == x {
			return true
		}
	}
	return false
}

// matchOracles: C06 / C07 / C08 evaluated on a successful real start
func (r *gRun) matchOracles(add func(sig, format string, a ...any)) {
	// C07: registered names
	for i, n := range r.sc.nodes {
		want := n.cust
		if want == "" {
			t := reflect.TypeOf(r.nodesObj[i]).Elem()
			want = t.PkgPath() + "/" + t.Name()
		}
		if r.rows[i].name != want {
			add("c07-name", "node %d is registered as %q, expected %q", i, r.rows[i].name, want)
		}
	}
	if r.status != "ok" {
		return
	}
	for key, objs := range r.fields {
		sc, ok := candsOf(r, key)
		if !ok {
			continue
		}
		holderCreated := sc.holder >= len(r.sc.nodes) || r.created[r.rows[sc.holder].name]
		if !holderCreated {
			continue
		}
		if sc.holder < len(r.nodesObj) {
			if isUnwired(r.nodesObj[sc.holder]) {
				continue
			}
		}
		info := r.slotInfo[key]
		tgt, _ := strconv.Atoi(info[1])
		var rows []int
		for _, o := range objs {
			rows = append(rows, rowOfObj(o))
		}
		for _, row := range rows {
			if row < 0 || row >= len(r.rows) {
				continue
			}
			if !typeOK(r, sc.kind, tgt, row) {
				add("c06-type", "point %s received row %d which is not compatible with its declared type", key, row)
			}
			if sc.hasQual && !sc.byName {
				q := r.rows[row].qual
				okq := false
				if q != nil {
					for _, want := range sc.quals {
						if want == *q {
							okq = true
						}
					}
				}
				if !okq {
					add("c08-qualifier", "point %s (qualifier %v) received row %d whose qualifier is not in the set", key, sc.quals, row)
				}
			}
		}
		if sc.byName {
			if sc.kind == "p" || sc.kind == "i" {
				switch {
				case sc.named >= 0 && sc.named != sc.holder && deliveredOK(r, sc.kind, tgt, sc.named) && !sc.hasQual:
					if len(rows) != 1 || rows[0] != sc.named {
						add("c07-exact", "by-name point %s (%q) holds %v, expected exactly row %d", key, sc.name, objs, sc.named)
					}
				case sc.named < 0 || !deliveredOK(r, sc.kind, tgt, sc.named):
					if len(rows) != 0 {
						add("c07-absent", "by-name point %s (%q: absent or not assignable) holds %v", key, sc.name, objs)
					}
					if sc.required {
						add("c07-required", "start-up succeeded although required by-name point %s (%q) cannot be satisfied", key, sc.name)
					}
				}
				// … and it is THE component registered under that name: the very object the container hands out for the name
				// (GetComponentByName after the start), not another version of it. (Not where a holder was completed during an
				// earlier, tolerated, failed attempt to create the named component: known finding KF-C03-1, judged by C03.)
				if len(rows) == 1 && rows[0] == sc.named && sc.named >= 0 && sc.named < len(r.sc.nodes) {
					if p, ok := r.pubs[sc.named]; ok && p != "?" && p != "!" && objs[0] != p && !r.leftFromFailedAttempt(key, strconv.Itoa(sc.named)) {
						add("c07-published", "by-name point %s (%q) holds %s, but the component the container hands out for that name is %s: the point did not receive the component registered under the name", key, sc.name, objs[0], p)
					}
				}
			}
			continue
		}
		switch sc.kind {
		case "P", "I":
			want := map[int]bool{}
			for _, c := range sc.admitted {
				if c != sc.holder {
					want[c] = true
				}
			}
			got := map[int]bool{}
			for _, row := range rows {
				if got[row] && row >= 0 {
					add("c06-slice-duplicate", "slice point %s holds component row %d more than once: %v", key, row, objs)
				}
				got[row] = true
			}
			for c := range want {
				// a candidate whose delivered substitute is of another, unassignable Go type makes Inject give up on the
				// whole point (error when required, untouched when optional): completeness is not demanded then
				if !got[c] && !anyUndeliverable(r, sc.kind, tgt, sc.admitted) {
					add("c06-slice-complete", "slice point %s lacks compatible component row %d", key, c)
					if sc.required && r.nothingSubstituted() {
						add("c02-populated", "start-up succeeded, nothing is substituted, but the required slice point %s lacks its target row %d", key, c)
					}
				}
			}
			for c := range got {
				if !want[c] {
					add("c06-slice-sound", "slice point %s holds row %d which is not among the compatible components", key, c)
				}
			}
		case "p", "i":
			if len(rows) == 1 {
				if !inInts(sc.choice, rows[0]) {
					add("c06-single-member", "single point %s holds row %d, not one of its candidates %v", key, rows[0], sc.choice)
				}
				if len(sc.choice) > 1 {
					var prims, unnamed []int
					for _, c := range sc.choice {
						if r.rows[c].primary {
							prims = append(prims, c)
						}
						if !r.rows[c].custom {
							unnamed = append(unnamed, c)
						}
					}
					if len(prims) == 1 && rows[0] != prims[0] {
						add("c08-primary", "single point %s holds row %d although row %d is the unique Primary among %v", key, rows[0], prims[0], sc.choice)
					}
					if len(prims) == 0 && len(unnamed) == 1 && rows[0] != unnamed[0] {
						add("c08-unnamed", "single point %s holds row %d although row %d is the unique unnamed candidate among %v", key, rows[0], unnamed[0], sc.choice)
					}
				}
			}
			if len(rows) == 0 && len(sc.choice) > 0 && !(len(sc.choice) == 1 && sc.choice[0] == sc.holder) &&
				!anyUndeliverable(r, sc.kind, tgt, sc.choice) {
				add("c06-single-missing", "single point %s is empty although candidates %v exist", key, sc.choice)
				if sc.required && r.nothingSubstituted() {
					add("c02-populated", "start-up succeeded, nothing is substituted, but the required point %s is empty although candidates %v exist", key, sc.choice)
				}
			}
		}
	}
}

// ---- ninth round

// byNameOnly: nothing is substituted, no fault is injected (the look-me-up-after-the-start mark is not a fault), no
// configuration slot, no user post-processor, and every injection point of every node is a by-name wire through an `any`
// slot that names an existing node other than its holder — or is optional and names nothing that is registered. Such a
// population resolves completely (C02), at the start or in a lookup after it, and every such point receives the named
// component (C07).
func (r *gRun) byNameOnly() bool {
	if r.sc.loaderFail || r.sc.scanFail || r.sc.progQualified() || r.sc.reentrant() || r.sc.hasType(34) || len(r.sc.nodes) == 0 {
		return false
	}
	names := map[string]int{}
	for i := range r.sc.nodes {
		if i >= len(r.rows) || r.rows[i].obj == nil {
			return false
		}
		names[r.rows[i].name] = i
	}
	for i, n := range r.sc.nodes {
		if n.flt&^fltLookup != 0 || n.early != 0 || n.after != 0 || n.cfg != 0 || utInfos[n.ty].pp || hasStaticSlots(n.ty) {
			return false
		}
		for slot, tag := range n.slots {
			if slot != "A0" && slot != "A1" && slot != "A2" || tag[0] != 'w' {
				return false
			}
			optional := strings.HasSuffix(tag, ",required=false")
			target := strings.TrimSuffix(tag[1:], ",required=false")
			if target == "" || strings.Contains(target, ",") {
				return false
			}
			j, ok := names[target]
			if _, anyRow := r.rowOf[target]; !ok && (anyRow || !optional) {
				return false // names a component outside the universe, or a required point names nothing
			}
			if ok && j == i {
				return false
			}
		}
	}
	return true
}

// lookupOracles: a lazy component that is looked up after a successful start, in a population that resolves completely
// (byNameOnly), is created by the lookup
func (r *gRun) lookupOracles(add func(sig, format string, a ...any)) {
	if r.status != "ok" || r.retries == nil || !r.byNameOnly() {
		return
	}
	for i, n := range r.sc.nodes {
		if n.flt&fltLookup == 0 || r.startCreated[i] {
			continue
		}
		if _, ok := r.succAtt[i]; !ok {
			if _, tried := r.firstAtt[i]; tried {
				for _, sig := range []string{"c07-named-undelivered", "c02-lookup-resolvable-fails"} {
					add(sig, "every lookup of the lazy node %d after the start failed although every injection point of the population names a registered component of its own application (or is optional and names none): the named components exist and were not delivered", i)
				}
			}
		}
	}
}

// mayBeCreatedFor: the components that the creation of a holder may legitimately create for one of its points, by the
// harness's own statement of the candidate rule: by name the named one; a multi-valued point all admitted ones; a
// single-valued point the one it receives — the unique Primary, else the unique unnamed candidate; where that choice is tied
// (several Primaries / several unnamed / neither) any member of the tied class.
func mayBeCreatedFor(r *gRun, key string) []int {
	sc, ok := candsOf(r, key)
	if !ok {
		return nil
	}
	if sc.byName {
		if sc.named >= 0 {
			return []int{sc.named}
		}
		return nil
	}
	if sc.kind != "p" && sc.kind != "i" {
		return sc.admitted
	}
	var prims, unnamed []int
	for _, c := range sc.choice {
		if r.rows[c].primary {
			prims = append(prims, c)
		}
		if !r.rows[c].custom {
			unnamed = append(unnamed, c)
		}
	}
	switch {
	case len(prims) > 0:
		return prims
	case len(unnamed) > 0:
		return unnamed
	}
	return sc.choice
}

// lazyOracles (C05): a component whose type carries the LazyInit marker is created by the start only if a component that the
// start creates anyway needs it — directly or through other lazy components. "Needs" is read generously: a component needs
// whatever one of its points may receive (mayBeCreatedFor). Not evaluated where something asks for components in code
// (lookups after the start, callbacks that fetch by name, processors that qualify points in code).
func (r *gRun) lazyOracles(add func(sig, format string, a ...any)) {
	if r.status != "ok" || r.sc.reentrant() || r.sc.progQualified() || r.startCreated == nil {
		return
	}
	isLazyNode := func(row int) bool {
		return row < len(r.sc.nodes) && r.sc.nodes[row].ty < len(utInfos) && utInfos[r.sc.nodes[row].ty].lazy && !utInfos[r.sc.nodes[row].ty].pp
	}
	needed := map[int]bool{}
	var work []int
	for row := range r.rows {
		if !isLazyNode(row) {
			needed[row] = true
			work = append(work, row)
		}
	}
	pointsOf := map[int][]string{}
	for key := range r.slotInfo {
		h, err := strconv.Atoi(key[:strings.Index(key, ".")])
		if err == nil {
			pointsOf[h] = append(pointsOf[h], key)
		}
	}
	for len(work) > 0 {
		h := work[len(work)-1]
		work = work[:len(work)-1]
		for _, key := range pointsOf[h] {
			for _, c := range mayBeCreatedFor(r, key) {
				if c >= 0 && c < len(r.rows) && !needed[c] {
					needed[c] = true
					work = append(work, c)
				}
			}
		}
	}
	for i := range r.sc.nodes {
		if isLazyNode(i) && r.startCreated[i] && !needed[i] {
			add("c05-lazy-unneeded", "node %d (universe type %d, declared with the LazyInit marker) was created and initialised by the start although no component that the start creates needs it, directly or through other lazy components: no point of any of them can receive it", i, r.sc.nodes[i].ty)
		}
	}
}
