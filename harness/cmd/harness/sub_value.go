package main

// sub-harness `value` (C17, C18): how a configuration value reaches a field.
//
// One scenario line =  <kind> <type> <cfg> <evals> <verdicts> <tag>…      (tokens without spaces, strings in hex)
//
//	V3 ty cfg evals verdicts tagV tagP tagX   a holder struct{ V T `value:tagV`; P T `prop:tagP`; X T `prefix:tagX` }
//	E  ty cfg evals verdicts tag              a holder struct{ V T `value:tag` }
//	Q  ty cfg evals verdicts tag              a holder struct{ V T `prefix:tag` }
//
// The kind may carry flags after a `+` (the model ignores them: they must not change what is bound):
//
//	p   the tagged fields hold NON-ZERO defaults before Run (longer slices, maps with other keys, structs with every
//	    field set, non-nil pointers, non-zero scalars): the configured value must REPLACE them, not merge into them
//	d   the holder also has `Dep *vlValueDep `wire:",required=false"`` and a vlValueDep component is registered, so
//	    that the holder has a Component property group next to the Configuration group; the groups reach the
//	    processors in map-iteration order, so such a scenario is started vlDepStarts times and all starts must agree
//	    (a field whose outcome differs between starts is observed as `unstable(a|b)`)
//
// Two-step histories — the SAME holder is populated twice (see the section "two-step histories" below):
//
//	R3 ty cfg evals verdicts set gate tagV tagP tagX     as V3
//	RE ty cfg evals verdicts set gate tag                as E
//	RQ ty cfg evals verdicts set gate tag                as Q
//
// app.Run with cfg: the holder's first creation FAILS after the placeholder stage ran (gate: n | a0 | a1 | w); then
// app.Set(key, value) for every entry of set = m(hexkey=val,…); then GetComponentByName(holder): the holder is
// created and populated a second time.  Observation: `<first creation: ok|err> <field>…` after the second creation.
//
// Histories with app.Set between two populations of DIFFERENT holders (see the section "kind HS" near the end of the file):
//
//	HS mode cfg ops eager late      a start creates the eager holder; app.Set(path, value)…; a late holder is populated
//	                                afterwards (a second App sharing the Configure | the same App after a failed creation |
//	                                a LazyInit component fetched after a successful start)
//
// A component edits the untyped map / list it was given, another component binds the same subtree (section "(3) kind HM"):
//
//	HM mode cfg muts eager late     the eager holder binds sections / lists by prefix into map[string]any / []any fields, the top
//	                                level of those values is edited in place (by the harness, or by the component's Init), the
//	                                late holder binds the same subtrees: it must get the CONFIGURED value
//
// More flags of the kinds V3 E Q (the model ignores them, they must not change what is bound; section "sixth round"):
//
//	y<n>  the YAML document is written in style n of vlYamlDocStyled (block scalars `|` `|-` `|+` `>` as the last value of the
//	      document, a byte order mark and blank lines in front, the document indented as a whole, no final line break); the key
//	      the last tag names is written last
//	f     the document is written to a file and loaded by loader.NewFileLoader (the others use loader.NewRawLoader); both go
//	      through configure.loadConfigure and the binder's SetConfig
//	e<n>  the tagged fields live in an anonymous embedded struct of the holder, n = 1 | 2 levels deep (reflect.StructOf)
//	g<n>  the holder is the Go-declared type number n of vlGoHolders (fields promoted through Go's own embedding); (ninth round)
//	      numbers 9-16 are themselves USER POST-PROCESSORS (container.ComponentPostProcessor, not LazyInit, not Ordered): created
//	      while the registered processors are resolved, their own tagged fields are processed like anybody's (label pp-holder)
//
//	c<n>  (seventh round) the keys of the YAML document — every level — are written in letter case n of vlRecase (1 Capitalised,
//	      2 UPPER, 3 aLTERNATING); the configuration token keeps them in lower case, which is what viper makes of them
//	r     (seventh round) the scenario is started vlDepStarts times although the holder has no component field: mapstructure
//	      ranges over a Go map when it looks for the key of a struct field, every start must bind the same values
//	h<n>  (eighth round) every tagged field of the holder is HIDDEN, in Go's selector sense, by a name collision among embedded
//	      structs (shape n of vlHiddenFields: two mix-ins with a same-named field, an embedded field shadowed by a field of the
//	      holder, one or two levels deep); the holder has no other tagged field; the field is read through the embedded struct
//
// Tag-less fields that name their own prefix (section "kind CP" at the end of the file):
//
//	CP g<n>[+p] ty cfg c(shape:hexname:hexown,…)   a Go-declared holder whose fields implement definition.ConfigurationProperties,
//	                                each instance pre-populated with the state that says which subtree it is bound to, next to
//	                                a second component with one `prefix:"<own>"` twin per field
//
// ty      S string | I int | J int64 | U uint | D float64 | B bool | A any | P<ty> | L<ty> | M<ty> | T(hexname:ty:hexvalidate,…)
//         Z time.Time | Y vlStamp (a named type whose underlying type is time.Time)   — outside the model's types: oracle only
// cfg     m(hexkey=val,…)   val = z | s<hex> | i<dec> | F<dec> (integer valued float) | f<decimal> | b0 | b1 | l(val,…) | m(hexkey=val,…)
//         | t<hex> a YAML timestamp, written unquoted (`2024-05-01`, `2024-05-01T10:20:30Z`): yaml.v3 hands over a time.Time
// evals   e(hexexpr=val|!,…)   what expr.Compile/Run gives DIRECTLY for the expression texts the real run meets
// verdicts v(hexrender=0|1,…)  what validator gives DIRECTLY for the value the field should hold
//
// Every case is a REAL app.NewApp().Run(…) with a raw YAML loader and the holder as the only user component.
// Observation: the canonical rendering of each tagged field after Run, `err` when Run fails (for V3 the three
// fields are then re-run one per holder), `panic`.
//
// Oracles (never consult the model):
//   C17  X (prefix) = the document value converted directly;  V = P;  V = X, else the difference is classified
//        by the class of the generated value: valuepath-numberlike | -boollike | -quoted | -bracketed | -bigint |
//        -reexpanded | -empty, anything else valuepath-other / prefix-mismatch / prop-differs.
//        V3 with a declared default (`value:"${k:d}"`, `prop:"k:d"`, `prefix:"k"`): the same demands whenever k is
//        configured — a default stands in for an absent key only — reported as valuepath-defaulted when the value is in
//        none of the lossy classes; when k is absent only V = P is demanded.
//        prefill-merged: a bound field still contains a piece of the default it held before Run.
//        start-unstable: the same scenario bound different values in different start-ups.
//   C18  the bound value = the expression evaluated directly with expr on the harness's own substitution of the
//        placeholders (from the tag's syntax tree, not a regular expression), pushed through
//        strconv2.FormatAny/ParseAny and mapstructure; Run fails ⇔ that direct path fails or the direct
//        validator verdict is a failure.  Structs are also generated with a nested section (struct / pointer-to-struct
//        member with its own `required`), absent, null, all-zero or filled: validate-iff.  The verdict is the direct
//        validator's on the field AS DECLARED (a pointer field is handed over as the pointer: `required` holds for a
//        non-nil pointer to 0 / false / "", `omitempty` does not skip it).
//        A placeholder may name its key (or its default) through another placeholder — `${rate_${tier}}`,
//        `${k:${fallback}}`: the tree node of such a placeholder carries the parts of its key / default, the direct
//        substitution resolves them inside-out (inner text first, then the key it spells); expressions and value x
//        constraint pairs over such placeholders are judged by the same oracles (label computed-key).
//        Quote characters are ordinary bytes of a tag: cases with apostrophes / double quotes (odd and even counts) around an
//        expression, in a default, in a literal, in a string literal of the expression, in front of a validate argument
//        (label quote-text) are judged by the same oracles.
//   two-step histories: the same oracles on the SECOND creation against the CURRENT configuration (cfg overlaid with
//        set): C17 V = P = X and X = the current document value; C18 the expression is evaluated on the current
//        values and validation judges the value actually bound.  A field that still shows what the FIRST configuration
//        gave is reported as repopulate-stale.  (ninth round) R3 histories whose value tag holds the placeholder inside an
//        expression that is the identity on it (`#{${k}*${ku}}` with ku = 1, `#{'${k}'}`; label expr-identity): same oracle.
//   kind HS also: setget-sibling-lost — the KNOWN defect KF-C17-9: after Set on one key of a section, a member of a struct / a
//        key of a map bound by prefix through the section (or a higher ancestor) that NO Set is at, above or below is lost
//        (zero / missing) although prop / ${} / prefix on the member itself still give the document's value; any other
//        difference of such a member is setget-current.
//   seventh round: valuepath-keycase — a map literal (or the default of a placeholder) whose keys are spelled with capitals is not
//        bound as written into a struct / *struct / []struct / map-of-struct (a member is found under the key equal to its
//        name up to letter case); in literal cases the prefix twin is judged too (prefix-mismatch) and a shorthand that spells
//        the value tag's own placeholder must bind what the value tag binds (prop-differs).  Flag r: several fresh starts of
//        one scenario must bind the same values (start-unstable).
//        validate-panic (C18, also C09) — the value was bound, the validator applied directly gives a verdict (pass or error),
//        the container PANICS instead of starting / returning an error.
//   kind HM: bound-aliased — a late field does not hold the document's value after the owner of ANOTHER field edited its
//        own bound map / list (no Set anywhere).
//   kind CP (eighth round): cprops-subtree — a tag-less field does not hold the configured value of the subtree its OWN Prefix()
//        names; cprops-twin — it differs from the twin bound to the same subtree through a prefix tag; cprops-panic.

import (
	"fmt"
	"math"
	"math/big"
	"os"
	"reflect"
	"regexp"
	"sort"
	"strconv"
	"strings"
	"time"
	"unicode/utf8"

	"github.com/expr-lang/expr"
	"github.com/go-kid/ioc/app"
	"github.com/go-kid/ioc/configure"
	"github.com/go-kid/ioc/configure/loader"
	"github.com/go-kid/ioc/container/processors"
	"github.com/go-kid/ioc/definition"
	"github.com/go-kid/ioc/syslog"
	"github.com/go-kid/ioc/util/framework_helper"
	"github.com/go-kid/strconv2"
	"github.com/go-kid/strings2"
	"github.com/go-playground/validator/v10"
	"github.com/mitchellh/mapstructure"

	"verifharness/internal/hx"
)

func init() {
	register(&Sub{Name: "value", Gen: vlValueGen, Replay: vlValueReplay, Corpus: vlValueCorpus})
}

// ---------------------------------------------------------------- field types

type vlFty struct {
	k      byte // S I J U D B A P L M T
	elem   *vlFty
	fields []vlFfield
}

type vlFfield struct {
	name     string
	t        *vlFty
	validate string
}

func (t *vlFty) code() string {
	switch t.k {
	case 'P', 'L', 'M':
		return string(t.k) + t.elem.code()
	case 'T':
		var parts []string
		for _, f := range t.fields {
			parts = append(parts, hx.Hex(f.name)+":"+f.t.code()+":"+hx.Hex(f.validate))
		}
		return "T(" + strings.Join(parts, ",") + ")"
	}
	return string(t.k)
}

func (t *vlFty) rtype() reflect.Type {
	switch t.k {
	case 'S':
		return reflect.TypeOf("")
	case 'I':
		return reflect.TypeOf(int(0))
	case 'J':
		return reflect.TypeOf(int64(0))
	case 'U':
		return reflect.TypeOf(uint(0))
	case 'D':
		return reflect.TypeOf(float64(0))
	case 'B':
		return reflect.TypeOf(false)
	case 'A':
		return reflect.TypeOf((*any)(nil)).Elem()
	case 'Z':
		return vlTimeType
	case 'Y':
		return reflect.TypeOf(vlStamp{})
	case 'P':
		return reflect.PointerTo(t.elem.rtype())
	case 'L':
		return reflect.SliceOf(t.elem.rtype())
	case 'M':
		return reflect.MapOf(reflect.TypeOf(""), t.elem.rtype())
	case 'T':
		var fs []reflect.StructField
		for i, f := range t.fields {
			tag := `yaml:"` + f.name + `"`
			if f.validate != "" {
				tag += ` validate:` + strconv.Quote(f.validate)
			}
			fs = append(fs, reflect.StructField{Name: fmt.Sprintf("F%d", i), Type: f.t.rtype(), Tag: reflect.StructTag(tag)})
		}
		return reflect.StructOf(fs)
	}
	panic("bad type code")
}

func vlParseFty(s string) (*vlFty, string, bool) {
	if s == "" {
		return nil, s, false
	}
	switch s[0] {
	case 'S', 'I', 'J', 'U', 'D', 'B', 'A', 'Z', 'Y':
		return &vlFty{k: s[0]}, s[1:], true
	case 'P', 'L', 'M':
		e, rest, ok := vlParseFty(s[1:])
		if !ok {
			return nil, s, false
		}
		return &vlFty{k: s[0], elem: e}, rest, true
	case 'T':
		if len(s) < 2 || s[1] != '(' {
			return nil, s, false
		}
		rest := s[2:]
		t := &vlFty{k: 'T'}
		for {
			if strings.HasPrefix(rest, ")") {
				return t, rest[1:], true
			}
			i := strings.IndexByte(rest, ':')
			if i < 0 {
				return nil, s, false
			}
			name, err := hx.UnHex(rest[:i])
			if err != nil {
				return nil, s, false
			}
			ft, r2, ok := vlParseFty(rest[i+1:])
			if !ok || !strings.HasPrefix(r2, ":") {
				return nil, s, false
			}
			r2 = r2[1:]
			j := strings.IndexAny(r2, ",)")
			if j < 0 {
				return nil, s, false
			}
			val, err := hx.UnHex(r2[:j])
			if err != nil {
				return nil, s, false
			}
			t.fields = append(t.fields, vlFfield{name, ft, val})
			rest = r2[j:]
			if strings.HasPrefix(rest, ",") {
				rest = rest[1:]
			}
		}
	}
	return nil, s, false
}

// ---------------------------------------------------------------- configuration values

type vlCval struct {
	k  byte // z s i F f b l m
	s  string
	i  int64
	b  bool
	l  []*vlCval
	mk []string // sorted keys
	mv []*vlCval
}

func vlCStr(s string) *vlCval      { return &vlCval{k: 's', s: s} }
func vlCInt(i int64) *vlCval       { return &vlCval{k: 'i', i: i} }
func vlCDec(t string) *vlCval      { return &vlCval{k: 'f', s: t} }
func vlCBool(b bool) *vlCval       { return &vlCval{k: 'b', b: b} }
func vlCNull() *vlCval             { return &vlCval{k: 'z'} }
func vlCList(l ...*vlCval) *vlCval { return &vlCval{k: 'l', l: l} }
func vlCMap(kv map[string]*vlCval) *vlCval {
	c := &vlCval{k: 'm'}
	for k := range kv {
		c.mk = append(c.mk, k)
	}
	sort.Strings(c.mk)
	for _, k := range c.mk {
		c.mv = append(c.mv, kv[k])
	}
	return c
}

func (c *vlCval) tok() string {
	switch c.k {
	case 'z':
		return "z"
	case 's':
		return "s" + hx.Hex(c.s)
	case 'i':
		return "i" + strconv.FormatInt(c.i, 10)
	case 'F':
		return "F" + strconv.FormatInt(c.i, 10)
	case 'f':
		return "f" + c.s
	case 't':
		return "t" + hx.Hex(c.s)
	case 'b':
		if c.b {
			return "b1"
		}
		return "b0"
	case 'l':
		var p []string
		for _, e := range c.l {
			p = append(p, e.tok())
		}
		return "l(" + strings.Join(p, ",") + ")"
	case 'm':
		var p []string
		for i, k := range c.mk {
			p = append(p, hx.Hex(k)+"="+c.mv[i].tok())
		}
		return "m(" + strings.Join(p, ",") + ")"
	}
	panic("bad vlCval")
}

func vlParseCval(s string) (*vlCval, string, bool) {
	if s == "" {
		return nil, s, false
	}
	scan := func(s string, set string) (string, string) {
		i := 0
		for i < len(s) && strings.IndexByte(set, s[i]) >= 0 {
			i++
		}
		return s[:i], s[i:]
	}
	switch s[0] {
	case 'z':
		return vlCNull(), s[1:], true
	case 's':
		h, rest := scan(s[1:], "0123456789abcdef-")
		v, err := hx.UnHex(h)
		return vlCStr(v), rest, err == nil
	case 't':
		h, rest := scan(s[1:], "0123456789abcdef-")
		v, err := hx.UnHex(h)
		if _, ok := vlParseStamp(v); err != nil || !ok {
			return nil, s, false
		}
		return vlCStamp(v), rest, true
	case 'i', 'F':
		d, rest := scan(s[1:], "0123456789-")
		v, err := strconv.ParseInt(d, 10, 64)
		return &vlCval{k: s[0], i: v}, rest, err == nil
	case 'f':
		d, rest := scan(s[1:], "0123456789-.")
		return vlCDec(d), rest, d != ""
	case 'b':
		if len(s) < 2 {
			return nil, s, false
		}
		return vlCBool(s[1] == '1'), s[2:], true
	case 'l', 'm':
		if len(s) < 2 || s[1] != '(' {
			return nil, s, false
		}
		c := &vlCval{k: s[0]}
		rest := s[2:]
		for {
			if strings.HasPrefix(rest, ")") {
				return c, rest[1:], true
			}
			if s[0] == 'm' {
				i := strings.IndexByte(rest, '=')
				if i < 0 {
					return nil, s, false
				}
				k, err := hx.UnHex(rest[:i])
				if err != nil {
					return nil, s, false
				}
				c.mk = append(c.mk, k)
				rest = rest[i+1:]
			}
			e, r2, ok := vlParseCval(rest)
			if !ok {
				return nil, s, false
			}
			if s[0] == 'm' {
				c.mv = append(c.mv, e)
			} else {
				c.l = append(c.l, e)
			}
			rest = r2
			if strings.HasPrefix(rest, ",") {
				rest = rest[1:]
			}
		}
	}
	return nil, s, false
}

func vlYamlStr(s string) string {
	var sb strings.Builder
	sb.WriteByte('"')
	for _, r := range s {
		switch {
		case r == '"':
			sb.WriteString(`\"`)
		case r == '\\':
			sb.WriteString(`\\`)
		case r < 0x20 || r == 0x7f:
			fmt.Fprintf(&sb, `\x%02x`, r)
		case r == 0x85 || r == 0xa0 || r == 0x2028 || r == 0x2029 || r == 0xfeff:
			fmt.Fprintf(&sb, `\u%04x`, r)
		default:
			sb.WriteRune(r)
		}
	}
	sb.WriteByte('"')
	return sb.String()
}

// yaml renders the value in flow style on one line.
func (c *vlCval) yaml() string {
	switch c.k {
	case 'z':
		return "~"
	case 's':
		return vlYamlStr(c.s)
	case 'i':
		return strconv.FormatInt(c.i, 10)
	case 'F': // an integer valued float64, written with a fraction so that yaml.v3 reads a float
		return strconv.FormatInt(c.i, 10) + ".0"
	case 'f':
		return c.s
	case 't': // a plain (unquoted) scalar of the timestamp shape
		return c.s
	case 'b':
		return strconv.FormatBool(c.b)
	case 'l':
		var p []string
		for _, e := range c.l {
			p = append(p, e.yaml())
		}
		return "[" + strings.Join(p, ", ") + "]"
	case 'm':
		var p []string
		for i, k := range c.mk {
			p = append(p, vlYamlStr(k)+": "+c.mv[i].yaml())
		}
		return "{" + strings.Join(p, ", ") + "}"
	}
	panic("bad vlCval")
}

// native is the Go value that yaml.v3 + viper hand to the container for this document value.
func (c *vlCval) native() any {
	switch c.k {
	case 'z':
		return nil
	case 's':
		return c.s
	case 'i':
		return int(c.i)
	case 'F':
		return float64(c.i)
	case 'f':
		f, _ := strconv.ParseFloat(c.s, 64)
		return f
	case 't':
		tm, _ := vlParseStamp(c.s)
		return tm
	case 'b':
		return c.b
	case 'l':
		out := make([]any, 0, len(c.l))
		for _, e := range c.l {
			out = append(out, e.native())
		}
		return out
	case 'm':
		out := map[string]any{}
		for i, k := range c.mk {
			out[k] = c.mv[i].native()
		}
		return out
	}
	panic("bad vlCval")
}

// vlCvalOf turns a result of expr (or any decoded Go value) into a token value; ok=false when it is outside the
// classes the model carries (floats that print with an exponent, NaN/Inf, non-string map keys, …).
func vlCvalOf(a any) (*vlCval, bool) {
	if a == nil {
		return vlCNull(), true
	}
	v := reflect.ValueOf(a)
	switch v.Kind() {
	case reflect.String:
		return vlCStr(v.String()), true
	case reflect.Bool:
		return vlCBool(v.Bool()), true
	case reflect.Int, reflect.Int8, reflect.Int16, reflect.Int32, reflect.Int64:
		return vlCInt(v.Int()), true
	case reflect.Uint, reflect.Uint8, reflect.Uint16, reflect.Uint32, reflect.Uint64:
		if v.Uint() > math.MaxInt64 {
			return nil, false
		}
		return vlCInt(int64(v.Uint())), true
	case reflect.Float32, reflect.Float64:
		f := v.Float()
		if math.IsNaN(f) || math.IsInf(f, 0) {
			return nil, false
		}
		if f == math.Trunc(f) {
			if math.Abs(f) >= 1e18 || (f == 0 && math.Signbit(f)) {
				return nil, false
			}
			return &vlCval{k: 'F', i: int64(f)}, true
		}
		t := strconv.FormatFloat(f, 'f', -1, 64)
		if fmt.Sprintf("%v", f) != t || len(strings.Trim(strings.Replace(t, ".", "", 1), "-0")) > 15 {
			return nil, false
		}
		return vlCDec(t), true
	case reflect.Slice, reflect.Array:
		c := &vlCval{k: 'l'}
		for i := 0; i < v.Len(); i++ {
			e, ok := vlCvalOf(v.Index(i).Interface())
			if !ok {
				return nil, false
			}
			c.l = append(c.l, e)
		}
		return c, true
	case reflect.Map:
		if v.Type().Key().Kind() != reflect.String {
			return nil, false
		}
		kv := map[string]*vlCval{}
		for _, k := range v.MapKeys() {
			e, ok := vlCvalOf(v.MapIndex(k).Interface())
			if !ok {
				return nil, false
			}
			kv[k.String()] = e
		}
		return vlCMap(kv), true
	case reflect.Pointer, reflect.Interface:
		if v.IsNil() {
			return vlCNull(), true
		}
		return vlCvalOf(v.Elem().Interface())
	}
	return nil, false
}

// ---------------------------------------------------------------- canonical rendering of a bound field

func vlRenderFloat(f float64) string {
	if math.IsNaN(f) || math.IsInf(f, 0) {
		return "n" + strconv.FormatFloat(f, 'g', -1, 64)
	}
	if f == math.Trunc(f) {
		return "n" + new(big.Float).SetFloat64(f).Text('f', 0)
	}
	return "n" + strconv.FormatFloat(f, 'f', -1, 64)
}

func vlYamlName(f reflect.StructField) string {
	n := strings.SplitN(f.Tag.Get("yaml"), ",", 2)[0]
	if n == "" {
		n = f.Name
	}
	return n
}

func vlRender(v reflect.Value) string {
	if !v.IsValid() {
		return "nil"
	}
	switch v.Kind() {
	case reflect.String:
		return "s" + hx.Hex(v.String())
	case reflect.Bool:
		if v.Bool() {
			return "b1"
		}
		return "b0"
	case reflect.Int, reflect.Int8, reflect.Int16, reflect.Int32, reflect.Int64:
		return "n" + strconv.FormatInt(v.Int(), 10)
	case reflect.Uint, reflect.Uint8, reflect.Uint16, reflect.Uint32, reflect.Uint64:
		return "n" + strconv.FormatUint(v.Uint(), 10)
	case reflect.Float32, reflect.Float64:
		return vlRenderFloat(v.Float())
	case reflect.Slice, reflect.Array:
		var p []string
		for i := 0; i < v.Len(); i++ {
			p = append(p, vlRender(v.Index(i)))
		}
		return "[" + strings.Join(p, ",") + "]"
	case reflect.Map:
		type kv struct{ k, v string }
		var kvs []kv
		for _, k := range v.MapKeys() {
			kvs = append(kvs, kv{fmt.Sprint(k.Interface()), vlRender(v.MapIndex(k))})
		}
		sort.Slice(kvs, func(i, j int) bool { return kvs[i].k < kvs[j].k })
		var p []string
		for _, e := range kvs {
			p = append(p, hx.Hex(e.k)+":"+e.v)
		}
		return "{" + strings.Join(p, ",") + "}"
	case reflect.Struct:
		if v.Type().ConvertibleTo(vlTimeType) {
			// a point in time (time.Time or a named type over it): the instant, zone-independent
			if !v.CanInterface() {
				return "t?"
			}
			return "t" + v.Convert(vlTimeType).Interface().(time.Time).UTC().Format(time.RFC3339Nano)
		}
		var p []string
		for i := 0; i < v.NumField(); i++ {
			p = append(p, hx.Hex(vlYamlName(v.Type().Field(i)))+":"+vlRender(v.Field(i)))
		}
		return "(" + strings.Join(p, ",") + ")"
	case reflect.Pointer:
		if v.IsNil() {
			return "nil"
		}
		return "&" + vlRender(v.Elem())
	case reflect.Interface:
		if v.IsNil() {
			return "nil"
		}
		return vlRender(v.Elem())
	}
	return "?" + v.Kind().String()
}

// ---------------------------------------------------------------- tags as syntax trees (for the harness's own substitution)

type vlTnode struct {
	lit   string // literal text
	key   string // ${key} / ${key:dflt}
	dflt  *string
	inner []vlTnode // #{ … }
	kind  byte      // 'l' 'p' 'e'
	// a placeholder whose key / default is itself built from text and placeholders (`${rate.${tier}}`,
	// `${k:${fallback}}`): the inner placeholders are substituted first, the resulting text is the key / the default.
	// non-nil keyT replaces key, non-nil dfltT replaces dflt.
	keyT  []vlTnode
	dfltT []vlTnode
}

func vlTLit(s string) vlTnode          { return vlTnode{kind: 'l', lit: s} }
func vlTPH(k string) vlTnode           { return vlTnode{kind: 'p', key: k} }
func vlTPHD(k, d string) vlTnode       { return vlTnode{kind: 'p', key: k, dflt: &d} }
func vlTExpr(inner ...vlTnode) vlTnode { return vlTnode{kind: 'e', inner: inner} }

// vlTPHN: `${<key parts>}` — a placeholder whose key is computed from other placeholders.
func vlTPHN(key ...vlTnode) vlTnode { return vlTnode{kind: 'p', keyT: key} }

// vlTPHND: `${<key parts>:<default parts>}`; either side may contain placeholders.
func vlTPHND(key, dflt []vlTnode) vlTnode {
	if dflt == nil {
		dflt = []vlTnode{}
	}
	return vlTnode{kind: 'p', keyT: key, dfltT: dflt}
}

// vlHasComputedKey: some placeholder of the tree has a key or default built from another placeholder.
func vlHasComputedKey(ns []vlTnode) bool {
	for _, n := range ns {
		switch n.kind {
		case 'p':
			for _, part := range [][]vlTnode{n.keyT, n.dfltT} {
				for _, m := range part {
					if m.kind == 'p' {
						return true
					}
				}
			}
		case 'e':
			if vlHasComputedKey(n.inner) {
				return true
			}
		}
	}
	return false
}

func vlTagText(ns []vlTnode) string {
	var sb strings.Builder
	for _, n := range ns {
		switch n.kind {
		case 'l':
			sb.WriteString(n.lit)
		case 'p':
			if n.keyT != nil {
				sb.WriteString("${" + vlTagText(n.keyT))
			} else {
				sb.WriteString("${" + n.key)
			}
			if n.dfltT != nil {
				sb.WriteString(":" + vlTagText(n.dfltT))
			} else if n.dflt != nil {
				sb.WriteString(":" + *n.dflt)
			}
			sb.WriteString("}")
		case 'e':
			sb.WriteString("#{" + vlTagText(n.inner) + "}")
		}
	}
	return sb.String()
}

type vlEvalEntry struct {
	text string
	res  *vlCval // nil = error
	ok   bool    // false: result outside the modelled class
}

// directSubst: the harness's own reading of "placeholders first, then expressions".
func vlDirectSubst(ns []vlTnode, cfg map[string]any, evals *[]vlEvalEntry) (string, error) {
	var sb strings.Builder
	for _, n := range ns {
		switch n.kind {
		case 'l':
			sb.WriteString(n.lit)
		case 'p':
			// a key / default built from placeholders: those are substituted first, the text they give is the key / default
			key, dflt := n.key, n.dflt
			if n.keyT != nil {
				k, err := vlDirectSubst(n.keyT, cfg, evals)
				if err != nil {
					return "", err
				}
				key = k
			}
			if n.dfltT != nil {
				d, err := vlDirectSubst(n.dfltT, cfg, evals)
				if err != nil {
					return "", err
				}
				dflt = &d
			}
			v, present := cfg[key]
			if m, ok := v.(map[string]any); ok && len(m) == 0 {
				present = false
			}
			if l, ok := v.([]any); ok && len(l) == 0 {
				present = false
			}
			if !present || v == nil {
				v = nil // an empty map or list counts as absent
				if dflt != nil && *dflt != "" {
					d, err := strconv2.ParseAny(*dflt)
					if err != nil {
						return "", err
					}
					v = d
				}
			}
			if v != nil {
				s, err := strconv2.FormatAny(v)
				if err != nil {
					return "", err
				}
				sb.WriteString(s)
			}
		case 'e':
			inner, err := vlDirectSubst(n.inner, cfg, evals)
			if err != nil {
				return "", err
			}
			res, err := vlDirectEval(inner)
			ent := vlEvalEntry{text: inner}
			if err == nil {
				ent.res, ent.ok = vlCvalOf(res)
			} else {
				ent.ok = true
			}
			if evals != nil {
				*evals = append(*evals, ent)
			}
			if err != nil {
				return "", err
			}
			s, err := strconv2.FormatAny(res)
			if err != nil {
				return "", err
			}
			sb.WriteString(s)
		}
	}
	return sb.String(), nil
}

func vlDirectEval(src string) (res any, err error) {
	defer func() {
		if r := recover(); r != nil {
			err = fmt.Errorf("panic: %v", r)
		}
	}()
	prog, err := expr.Compile(src)
	if err != nil {
		return nil, err
	}
	return expr.Run(prog, nil)
}

func vlDirectDecode(in any, t reflect.Type) (reflect.Value, error) {
	return vlDirectDecodeLayout(in, t, "", false)
}

// vlDirectDecodeLayout: as vlDirectDecode; withLayout = the tag carries a `timeLayout=<layout>` argument (texts are then
// read as points in time of that layout when the target is a time.Time: mapstructure.StringToTimeHookFunc).
func vlDirectDecodeLayout(in any, t reflect.Type, layout string, withLayout bool) (reflect.Value, error) {
	hooks := []mapstructure.DecodeHookFunc{mapstructure.StringToTimeDurationHookFunc()}
	if withLayout {
		hooks = append(hooks, mapstructure.StringToTimeHookFunc(layout))
	}
	target := t
	isPtr := false
	if t.Kind() == reflect.Pointer {
		target = t.Elem()
		isPtr = true
	}
	out := reflect.New(target)
	dec, err := mapstructure.NewDecoder(&mapstructure.DecoderConfig{
		DecodeHook:       mapstructure.ComposeDecodeHookFunc(hooks...),
		WeaklyTypedInput: true,
		Result:           out.Interface(),
		TagName:          "yaml",
	})
	if err != nil {
		return reflect.Value{}, err
	}
	if err := dec.Decode(in); err != nil {
		return reflect.Value{}, err
	}
	if isPtr {
		return out, nil
	}
	return out.Elem(), nil
}

// ---- points in time (seventh round)

// vlStamp: a named type whose underlying type is time.Time (struct by kind, convertible to time.Time).
type vlStamp time.Time

var vlTimeType = reflect.TypeOf(time.Time{})

func vlCStamp(s string) *vlCval { return &vlCval{k: 't', s: s} }

// vlParseStamp: the two timestamp shapes the harness writes as plain YAML scalars — a date, or date and time in UTC — read
// the way yaml.v3 reads them (UTC).
func vlParseStamp(s string) (time.Time, bool) {
	for _, layout := range []string{"2006-01-02", "2006-01-02T15:04:05Z"} {
		if tm, err := time.Parse(layout, s); err == nil && tm.Format(layout) == s {
			return tm, true
		}
	}
	return time.Time{}, false
}

// vlHasTimeType / vlHasStampVal: the case is outside the types / values the model carries.
func vlHasTimeType(t *vlFty) bool {
	switch t.k {
	case 'Z', 'Y':
		return true
	case 'P', 'L', 'M':
		return vlHasTimeType(t.elem)
	case 'T':
		for _, f := range t.fields {
			if vlHasTimeType(f.t) {
				return true
			}
		}
	}
	return false
}

func vlHasStampVal(c *vlCval) bool {
	switch c.k {
	case 't':
		return true
	case 'l':
		for _, e := range c.l {
			if vlHasStampVal(e) {
				return true
			}
		}
	case 'm':
		for _, e := range c.mv {
			if vlHasStampVal(e) {
				return true
			}
		}
	}
	return false
}

// vlTimeLayoutArg: the `timeLayout=<layout>` argument of a tag.
func vlTimeLayoutArg(args string) (layout string, present bool) {
	for _, a := range strings.Split(args, ",") {
		if strings.HasPrefix(a, "timeLayout=") {
			return strings.TrimPrefix(a, "timeLayout="), true
		}
	}
	return "", false
}

var vlDirectValidator = validator.New(validator.WithRequiredStructEnabled())

// directVerdict: validator applied directly to a value of the field's type; "" = passes, "panic", "fail".
func vlDirectVerdict(v reflect.Value, cs string) (verdict string) {
	defer func() {
		if r := recover(); r != nil {
			verdict = "panic"
		}
	}()
	t := v.Type()
	if t.Kind() == reflect.Pointer {
		if v.IsNil() {
			return ""
		}
		t = t.Elem()
	}
	var err error
	if t.Kind() == reflect.Struct && !t.ConvertibleTo(reflect.TypeOf(time.Time{})) {
		err = vlDirectValidator.Struct(v.Interface())
	} else {
		// a point in time is a VALUE the stated constraints speak about (required, gt, …), not a struct with constrained members:
		// the validator judges it as a variable (it refuses it as a struct) — defect D25 was the container asking the wrong question
		err = vlDirectValidator.Var(v.Interface(), cs)
	}
	if err != nil {
		return "fail"
	}
	return ""
}

// ---------------------------------------------------------------- running the real container

type vlRunOut struct {
	obs []string // per field: rendering | err | panic
}

func vlYamlDoc(cfg *vlCval) string {
	var sb strings.Builder
	for i, k := range cfg.mk {
		sb.WriteString(vlYamlStr(k) + ": " + cfg.mv[i].yaml() + "\n")
	}
	if len(cfg.mk) == 0 {
		sb.WriteString("{}\n")
	}
	return sb.String()
}

// vlValueDep is the optional dependency of the `d` flag.
type vlValueDep struct{}

const vlDepStarts = 4

// markers of the defaults of the `p` flag (a scenario whose document or tags contain one is not pre-filled)
const (
	vlPfStr   = "pfdflt"
	vlPfKey   = "pfk"
	vlPfInt   = 7317731
	vlPfFloat = 7317731.5
	vlPfLen   = 8
)

// vlPrefill stores a non-zero default in v: every scalar a marker, slices longer than any generated list, maps
// with keys no configuration has, every struct field set, pointers non-nil.
func vlPrefill(v reflect.Value) {
	switch v.Kind() {
	case reflect.String:
		v.SetString(vlPfStr)
	case reflect.Int, reflect.Int8, reflect.Int16, reflect.Int32, reflect.Int64:
		v.SetInt(vlPfInt)
	case reflect.Uint, reflect.Uint8, reflect.Uint16, reflect.Uint32, reflect.Uint64:
		v.SetUint(vlPfInt)
	case reflect.Float32, reflect.Float64:
		v.SetFloat(vlPfFloat)
	case reflect.Bool:
		v.SetBool(true)
	case reflect.Interface:
		v.Set(reflect.ValueOf(vlPfStr))
	case reflect.Pointer:
		p := reflect.New(v.Type().Elem())
		vlPrefill(p.Elem())
		v.Set(p)
	case reflect.Slice:
		sl := reflect.MakeSlice(v.Type(), vlPfLen, vlPfLen)
		for i := 0; i < vlPfLen; i++ {
			vlPrefill(sl.Index(i))
		}
		v.Set(sl)
	case reflect.Map:
		m := reflect.MakeMap(v.Type())
		for _, k := range []string{vlPfKey + "a", vlPfKey + "b"} {
			e := reflect.New(v.Type().Elem()).Elem()
			vlPrefill(e)
			m.SetMapIndex(reflect.ValueOf(k), e)
		}
		v.Set(m)
	case reflect.Struct:
		for i := 0; i < v.NumField(); i++ {
			vlPrefill(v.Field(i))
		}
	}
}

// vlHasRemnant: some piece of a vlPrefill default is still inside v.
func vlHasRemnant(v reflect.Value) bool {
	if !v.IsValid() {
		return false
	}
	switch v.Kind() {
	case reflect.String:
		return v.String() == vlPfStr
	case reflect.Int, reflect.Int8, reflect.Int16, reflect.Int32, reflect.Int64:
		return v.Int() == vlPfInt
	case reflect.Uint, reflect.Uint8, reflect.Uint16, reflect.Uint32, reflect.Uint64:
		return v.Uint() == vlPfInt
	case reflect.Float32, reflect.Float64:
		return v.Float() == vlPfFloat
	case reflect.Interface, reflect.Pointer:
		return !v.IsNil() && vlHasRemnant(v.Elem())
	case reflect.Slice, reflect.Array:
		for i := 0; i < v.Len(); i++ {
			if vlHasRemnant(v.Index(i)) {
				return true
			}
		}
	case reflect.Map:
		for _, k := range v.MapKeys() {
			if strings.HasPrefix(fmt.Sprint(k.Interface()), vlPfKey) || vlHasRemnant(v.MapIndex(k)) {
				return true
			}
		}
	case reflect.Struct:
		for i := 0; i < v.NumField(); i++ {
			if vlHasRemnant(v.Field(i)) {
				return true
			}
		}
	}
	return false
}

// vlPrefillSafe: neither the document nor a tag mentions a marker of the defaults.
func vlPrefillSafe(doc string, texts []string) bool {
	for _, s := range append([]string{doc}, texts...) {
		if strings.Contains(s, vlPfStr) || strings.Contains(s, vlPfKey) || strings.Contains(s, strconv.Itoa(vlPfInt)) {
			return false
		}
	}
	return true
}

func vlRunHolder(t reflect.Type, tags []string, doc string, prefill, dep bool, opt vlHolderOpt) (vals []reflect.Value, outcome string) {
	var fs []reflect.StructField
	for i, tg := range tags {
		fs = append(fs, reflect.StructField{Name: fmt.Sprintf("H%d", i), Type: t, Tag: reflect.StructTag(tg)})
	}
	// flag e<n>: the tagged fields sit in an anonymous embedded struct (no tag on the embedded field: the container
	// flattens it into the holder's own properties), n levels deep; every level has an untagged field of its own
	for d := 0; d < opt.embed && opt.hide == 0; d++ {
		fs = []reflect.StructField{{Name: fmt.Sprintf("Emb%d", d), Type: reflect.StructOf(fs), Anonymous: true},
			{Name: fmt.Sprintf("Own%d", d), Type: reflect.TypeOf("")}}
	}
	// flag h<n>: the tagged fields sit in an embedded mix-in and are hidden (in Go's selector sense) by a name collision
	hidePath := 0
	if opt.hide > 0 {
		fs, hidePath = vlHiddenFields(fs, opt.hide)
	}
	comps := []any{nil}
	if dep {
		fs = append(fs, reflect.StructField{Name: "Dep", Type: reflect.TypeOf((*vlValueDep)(nil)), Tag: `wire:",required=false"`})
		comps = append(comps, &vlValueDep{})
	}
	var holder, inner reflect.Value
	if opt.gotype > 0 {
		holder, inner = vlGoHolders[opt.gotype-1].mk()
	} else {
		holder = reflect.New(reflect.StructOf(fs))
		inner = holder.Elem()
		for d := 0; d < opt.embed && opt.hide == 0; d++ {
			inner = inner.Field(0)
		}
		for d := 0; d < hidePath; d++ {
			inner = inner.Field(0) // read through the embedded struct explicitly: the promoted selector does not exist
		}
	}
	comps[0] = holder.Interface()
	if prefill {
		for i := range tags {
			vlPrefill(inner.Field(i))
		}
	}
	ld := configure.Loader(loader.NewRawLoader([]byte(doc)))
	if opt.file {
		path, err := vlWriteDocFile(doc)
		if err != nil {
			return nil, "err"
		}
		defer os.Remove(path)
		ld = loader.NewFileLoader(path)
	}
	var err error
	pan := hx.Guard(func() {
		a := app.NewApp()
		err = a.Run(app.LogLevel(syslog.LvPanic), app.SetConfigLoader(ld), app.SetComponents(comps...))
		a.Close()
	})
	if pan != nil {
		return nil, "panic"
	}
	if err != nil {
		return nil, "err"
	}
	for i := range tags {
		vals = append(vals, inner.Field(i))
	}
	return vals, "ok"
}

// vlWriteDocFile: the document as a file of its own (for loader.NewFileLoader).
func vlWriteDocFile(doc string) (string, error) {
	f, err := os.CreateTemp("", "vlcfg-*.yaml")
	if err != nil {
		return "", err
	}
	_, err = f.WriteString(doc)
	if cerr := f.Close(); err == nil {
		err = cerr
	}
	if err != nil {
		os.Remove(f.Name())
		return "", err
	}
	return f.Name(), nil
}

// vlObserveOnce: one start-up of the scenario (for several tags that fail together, one holder per tag);
// remnant = a bound field still contains a piece of its default.
func vlObserveOnce(t reflect.Type, tagStrs []string, doc string, prefill, dep bool, opt vlHolderOpt) (obs []string, remnant bool) {
	obs = make([]string, len(tagStrs))
	vals, outcome := vlRunHolder(t, tagStrs, doc, prefill, dep, opt)
	switch {
	case outcome == "ok":
		for i := range tagStrs {
			obs[i] = vlRender(vals[i])
			remnant = remnant || (prefill && vlHasRemnant(vals[i]))
		}
	case len(tagStrs) == 1:
		obs[0] = outcome
	default:
		for i := range tagStrs {
			v1, o1 := vlRunHolder(t, tagStrs[i:i+1], doc, prefill, dep, opt)
			if o1 == "ok" {
				obs[i] = vlRender(v1[0])
				remnant = remnant || (prefill && vlHasRemnant(v1[0]))
			} else {
				obs[i] = o1
			}
		}
	}
	return obs, remnant
}

// vlObserve: vlDepStarts start-ups when the holder has both property groups (their order is Go's map order),
// one otherwise; a field whose outcome is not the same in every start is `unstable(a|b)`.
func vlObserve(t reflect.Type, tagStrs []string, doc string, prefill, dep bool, opt vlHolderOpt) (obs []string, remnant, unstable bool) {
	starts := 1
	if dep || opt.repeat {
		starts = vlDepStarts
	}
	var all [][]string
	for s := 0; s < starts; s++ {
		o, rem := vlObserveOnce(t, tagStrs, doc, prefill, dep, opt)
		all = append(all, o)
		remnant = remnant || rem
	}
	obs = make([]string, len(tagStrs))
	for i := range tagStrs {
		seen := map[string]bool{}
		var distinct []string
		for _, o := range all {
			if !seen[o[i]] {
				seen[o[i]] = true
				distinct = append(distinct, o[i])
			}
		}
		if len(distinct) == 1 {
			obs[i] = distinct[0]
		} else {
			sort.Strings(distinct)
			obs[i] = "unstable(" + strings.Join(distinct, "|") + ")"
			unstable = true
		}
	}
	return obs, remnant, unstable
}

func vlStructTag(name, text string) string { return name + ":" + strconv.Quote(text) }

// ---------------------------------------------------------------- classes of generated values (for the C17 oracle)

var (
	vlReNumber = regexp.MustCompile(`^(-|\+)?\d+(\.\d+)?$`)
	vlReQuoteP = regexp.MustCompile(`\$\{[^{}]*\}`)
	vlReExprP  = regexp.MustCompile(`#\{[^{}]*\}`)
)

func vlHasBigInt(c *vlCval) bool {
	switch c.k {
	case 'i':
		return c.i > 1<<53 || c.i < -(1<<53)
	case 'l':
		for _, e := range c.l {
			if vlHasBigInt(e) {
				return true
			}
		}
	case 'm':
		for _, e := range c.mv {
			if vlHasBigInt(e) {
				return true
			}
		}
	}
	return false
}

func vlIsBracketed(s string) bool {
	if len(s) > 1 && s[0] == '[' && s[len(s)-1] == ']' {
		return true
	}
	if len(s) > 4 && strings.HasPrefix(s, "map[") && s[len(s)-1] == ']' {
		return true
	}
	if len(s) > 1 && s[0] == '{' && s[len(s)-1] == '}' {
		return true
	}
	return false
}

func vlIsQuotedS(s string) bool {
	return (strings.HasPrefix(s, "'") && strings.HasSuffix(s, "'")) || (strings.HasPrefix(s, `"`) && strings.HasSuffix(s, `"`))
}

// riskClasses: the classes of the known lossy value path that the generated value (or literal text) falls into.
func vlRiskClasses(c *vlCval) []string {
	var out []string
	if c.k != 'z' {
		if s, err := strconv2.FormatAny(c.native()); err == nil && (vlReQuoteP.MatchString(s) || vlReExprP.MatchString(s)) {
			out = append(out, "reexpanded")
		}
	}
	if (c.k == 'l' && len(c.l) == 0) || (c.k == 'm' && len(c.mk) == 0) {
		out = append(out, "empty")
	}
	if c.k == 's' {
		s := c.s
		switch {
		case s == "":
			out = append(out, "empty")
		case strings.ToLower(s) == "true" || strings.ToLower(s) == "false":
			out = append(out, "boollike")
		case vlReNumber.MatchString(s):
			out = append(out, "numberlike")
		case vlIsBracketed(s):
			out = append(out, "bracketed")
		case vlIsQuotedS(s):
			out = append(out, "quoted")
		}
	}
	if vlHasBigInt(c) {
		out = append(out, "bigint")
	}
	return out
}

// expectRender: the document value converted directly to the field type, for MATCHING kinds only
// (string→string, integer→integer kinds and float64, decimal→float64, bool→bool, list→slice, map→map/struct,
// anything→any, T→*T); ok=false = no expectation (the pair relies on weak conversion or is incompatible).
func vlExpectRender(c *vlCval, t *vlFty) (string, bool) {
	switch t.k {
	case 'A':
		return vlRenderAny(c), true
	case 'P':
		if c.k == 'z' {
			return "nil", true
		}
		r, ok := vlExpectRender(c, t.elem)
		return "&" + r, ok
	}
	switch c.k {
	case 's':
		if t.k == 'S' {
			return "s" + hx.Hex(c.s), true
		}
	case 'i':
		switch t.k {
		case 'I', 'J':
			return "n" + strconv.FormatInt(c.i, 10), true
		case 'U':
			if c.i >= 0 {
				return "n" + strconv.FormatInt(c.i, 10), true
			}
		case 'D':
			return vlRenderFloat(float64(c.i)), true
		}
	case 'F':
		if t.k == 'D' {
			return vlRenderFloat(float64(c.i)), true
		}
	case 'f':
		if t.k == 'D' {
			return "n" + c.s, true
		}
	case 'b':
		if t.k == 'B' {
			if c.b {
				return "b1", true
			}
			return "b0", true
		}
	case 'l':
		if t.k == 'L' {
			var p []string
			for _, e := range c.l {
				r, ok := vlExpectRenderElem(e, t.elem)
				if !ok {
					return "", false
				}
				p = append(p, r)
			}
			return "[" + strings.Join(p, ",") + "]", true
		}
	case 'm':
		if t.k == 'M' {
			var p []string
			for i, k := range c.mk {
				r, ok := vlExpectRenderElem(c.mv[i], t.elem)
				if !ok {
					return "", false
				}
				p = append(p, hx.Hex(k)+":"+r)
			}
			return "{" + strings.Join(p, ",") + "}", true
		}
		if t.k == 'T' {
			var p []string
			for _, f := range t.fields {
				var r string
				ok := true
				// the key of a member: the one spelled exactly like the member's name, else the one equal to it up to letter
				// case (configuration keys are case-insensitive; `_` and `-` are ordinary characters of a key)
				switch i, n := vlMemberKey(c, f.name); {
				case n > 1:
					return "", false // two spellings of one key in one map: no expectation
				case n == 1:
					r, ok = vlExpectRenderElem(c.mv[i], f.t)
				default:
					r = vlZeroRender(f.t)
				}
				if !ok {
					return "", false
				}
				p = append(p, hx.Hex(f.name)+":"+r)
			}
			return "(" + strings.Join(p, ",") + ")", true
		}
	}
	return "", false
}

// vlMemberKey: the index of the key of map c that belongs to the struct member `name` (n = 1), n = 0 when there is none,
// n > 1 when several keys differ from the name in letter case only and none is spelled exactly like it.
func vlMemberKey(c *vlCval, name string) (idx, n int) {
	for i, k := range c.mk {
		if k == name {
			return i, 1
		}
	}
	for i, k := range c.mk {
		if strings.EqualFold(k, name) {
			idx = i
			n++
		}
	}
	return idx, n
}

func vlExpectRenderElem(c *vlCval, t *vlFty) (string, bool) {
	if c.k == 'z' {
		return vlZeroRender(t), true
	}
	return vlExpectRender(c, t)
}

func vlZeroRender(t *vlFty) string { return vlRender(reflect.Zero(t.rtype())) }

func vlRenderAny(c *vlCval) string {
	switch c.k {
	case 'z':
		return "nil"
	case 's':
		return "s" + hx.Hex(c.s)
	case 'i', 'F':
		return "n" + strconv.FormatInt(c.i, 10)
	case 'f':
		return "n" + c.s
	case 'b':
		if c.b {
			return "b1"
		}
		return "b0"
	case 'l':
		var p []string
		for _, e := range c.l {
			p = append(p, vlRenderAny(e))
		}
		return "[" + strings.Join(p, ",") + "]"
	case 'm':
		var p []string
		for i, k := range c.mk {
			p = append(p, hx.Hex(k)+":"+vlRenderAny(c.mv[i]))
		}
		return "{" + strings.Join(p, ",") + "}"
	}
	return "?"
}

// ---------------------------------------------------------------- one case

type vlVcase struct {
	kind    string // V3 | E | Q
	t       *vlFty
	cfg     *vlCval     // top-level map
	tags    [][]vlTnode // value part of each tag as a tree (V3: value, prop key text, prefix key text)
	args    string      // ",required=false" / ",validate=…" appended to every tag (may be empty)
	cons    string      // the validator tag that `args` asks for ("" = none; "-" = bare `validate`)
	subject *vlCval     // C17: the generated document value (for classification); nil otherwise
	literal bool        // C17 literal variant: the V tag is a literal text, subject = its intended value
	prefill bool        // flag p: the fields hold non-zero defaults before Run
	dep     bool        // flag d: the holder also has an optional component field
	ystyle  int         // flag y<n>: how the YAML document is written (0 = flow style on one line per key), see vlYamlDocStyled
	file    bool        // flag f: the document is written to a file and loaded by loader.NewFileLoader
	embed   int         // flag e<n>: the tagged fields live in an anonymous embedded struct, n levels deep (by value)
	gotype  int         // flag g<n>: the holder is the Go-declared type number n of vlGoHolders (tags and type fixed by the table)
	kcase   int         // flag c<n>: the keys of the document are written in letter case n of vlRecase (the configuration has them in lower case)
	repeat  bool        // flag r: the scenario is started vlDepStarts times (no component field), all starts must agree
	hide    int         // flag h<n> (eighth round): every tagged field is HIDDEN by a name collision among embedded structs, see vlHiddenFields
	set     *vlCval     // kinds R3 RE RQ: the keys changed with app.Set between the two creations (a map)
	gate    string      // kinds R3 RE RQ: why the first creation fails: n | a0 | a1 | w
	labels  []string
}

func vlKindTok(kind string, prefill, dep bool, more ...string) string {
	fl := ""
	if prefill {
		fl += "p"
	}
	if dep {
		fl += "d"
	}
	fl += strings.Join(more, "")
	if fl != "" {
		return kind + "+" + fl
	}
	return kind
}

// vlHolderOpt: how the holder of a case is built and fed (flags y f e g of the kind token; none of them may change what
// is bound, the model ignores them).
type vlHolderOpt struct {
	file   bool // the document goes through a file and loader.NewFileLoader
	embed  int  // the tagged fields live in an anonymous embedded struct, this many levels deep
	gotype int  // > 0: the Go-declared holder vlGoHolders[gotype-1]
	repeat bool // several start-ups of the same scenario although the holder has no component field
	hide   int  // > 0: the tagged fields are hidden by a name collision among embedded structs (vlHiddenFields)
}

func (c *vlVcase) holderOpt() vlHolderOpt {
	return vlHolderOpt{file: c.file, embed: c.embed, gotype: c.gotype, repeat: c.repeat, hide: c.hide}
}

func (c *vlVcase) moreFlags() string {
	fl := ""
	if c.ystyle > 0 {
		fl += "y" + strconv.Itoa(c.ystyle)
	}
	if c.file {
		fl += "f"
	}
	if c.embed > 0 {
		fl += "e" + strconv.Itoa(c.embed)
	}
	if c.gotype > 0 {
		fl += "g" + strconv.Itoa(c.gotype)
	}
	if c.kcase > 0 {
		fl += "c" + strconv.Itoa(c.kcase)
	}
	if c.repeat {
		fl += "r"
	}
	if c.hide > 0 {
		fl += "h" + strconv.Itoa(c.hide)
	}
	return fl
}

// vlFlagNum: the number behind flag letter `l` in the flags of a kind token (0 = flag absent).
func vlFlagNum(flags string, l byte) int {
	i := strings.IndexByte(flags, l)
	if i < 0 {
		return 0
	}
	j := i + 1
	for j < len(flags) && flags[j] >= '0' && flags[j] <= '9' {
		j++
	}
	n, _ := strconv.Atoi(flags[i+1 : j])
	return n
}

func vlEncEvals(es []vlEvalEntry) (string, bool) {
	seen := map[string]bool{}
	var p []string
	allOK := true
	for _, e := range es {
		if seen[e.text] {
			continue
		}
		seen[e.text] = true
		if !e.ok {
			allOK = false
			continue
		}
		if e.res == nil {
			p = append(p, hx.Hex(e.text)+"=!")
		} else {
			p = append(p, hx.Hex(e.text)+"="+e.res.tok())
		}
	}
	return "e(" + strings.Join(p, ",") + ")", allOK
}

// vlValidateArg extracts what the validate processor will hand to validator.Var from the tag's arguments:
// present=false when there is no validate argument.
func vlValidateArg(args string) (cs string, present bool) {
	for _, a := range strings.Split(args, ",") {
		if strings.HasPrefix(a, "validate=") {
			return strings.Join(strings.Split(strings.TrimPrefix(a, "validate="), " "), ","), true
		}
		if a == "validate" {
			return "", true
		}
	}
	return "", false
}

// vlDirectRes: the direct path (oracle side) for one value-like tag under one configuration
type vlDirectRes struct {
	bound   reflect.Value
	fails   bool   // substitution / expression / parse / decode fails
	skipped bool   // nothing to bind and not required
	verdict string // "", fail, panic
	known   bool
}

var vlHistBase = map[string]string{"R3": "V3", "RE": "E", "RQ": "Q"}

func vlRunCase(c *vlVcase, w *hx.Writer) {
	if !vlGoHolderFits(c) {
		return
	}
	if c.gotype > 0 {
		c.dep, c.embed, c.hide = false, 0, 0 // the Go-declared holders are what they are
	}
	if c.hide > 0 {
		c.embed = 0 // the collision brings its own embedding
		if c.hide > vlHideShapes || c.set != nil {
			return
		}
	}
	rt := c.t.rtype()
	doc := vlYamlDoc(c.cfg)
	if c.ystyle > 0 && len(c.tags) > 0 {
		doc = vlYamlDocStyled(c.cfg, c.ystyle, vlTagText(c.tags[len(c.tags)-1]))
	}
	hist := c.set != nil
	if c.kcase > 0 {
		// the document spells its keys with capitals; viper hands them out in lower case, as the configuration token has them
		if c.ystyle > 0 || hist || c.kcase > vlKeyCases || !vlKeysLower(c.cfg) {
			return
		}
		doc = vlYamlDoc(vlRecaseKeys(c.cfg, c.kcase))
	}
	cfgNative, _ := c.cfg.native().(map[string]any)
	timed := vlHasTimeType(c.t) || vlHasStampVal(c.cfg)
	layout, hasLayout := vlTimeLayoutArg(c.args)
	base := c.kind
	if hist {
		base = vlHistBase[c.kind]
	}

	// tag texts
	var texts []string
	for _, tr := range c.tags {
		texts = append(texts, vlTagText(tr)+c.args)
	}
	names := []string{"value"}
	switch base {
	case "V3":
		names = []string{"value", "prop", "prefix"}
	case "Q":
		names = []string{"prefix"}
	}

	// the direct path (oracle side): per value-like tag
	var evals []vlEvalEntry
	required := !strings.Contains(c.args, "required=false")
	cs, hasValidate := vlValidateArg(c.args)
	compute := func(cfgNative map[string]any) []vlDirectRes {
		dir := make([]vlDirectRes, len(texts))
		for i, tr := range c.tags {
			d := &dir[i]
			d.known = true
			if names[i] == "prefix" {
				key := vlTagText(tr)
				if strings.Contains(key, "${") {
					// a placeholder inside the prefix tag is substituted first
					key, _ = vlDirectSubst(vlParseTagTree(key, true), cfgNative, nil)
				}
				v := cfgNative[key]
				if v == nil {
					if required {
						d.fails = true
					} else {
						d.skipped = true
						d.bound = reflect.Zero(rt)
					}
				} else if b, err := vlDirectDecodeLayout(v, rt, layout, hasLayout); err != nil {
					d.fails = true
				} else {
					d.bound = b
				}
			} else {
				tree := tr
				if names[i] == "prop" {
					// the shorthand `key[:default]` is the placeholder `${key[:default]}`
					tree = vlParseTagTree("${"+vlTagText(tr)+"}", true)
				}
				s, err := vlDirectSubst(tree, cfgNative, &evals)
				switch {
				case err != nil:
					d.fails = true
				case s == "":
					if required {
						d.fails = true
					} else {
						d.skipped = true
						d.bound = reflect.Zero(rt)
					}
				default:
					var pv any
					var perr error
					if hx.Guard(func() { pv, perr = strconv2.ParseAny(s) }) != nil || perr != nil {
						d.fails = true
					} else if b, err := vlDirectDecodeLayout(pv, rt, layout, hasLayout); err != nil {
						d.fails = true
					} else {
						d.bound = b
					}
				}
			}
			if !d.fails && hasValidate {
				d.verdict = vlDirectVerdict(d.bound, cs)
			}
		}
		return dir
	}
	dir := compute(cfgNative)
	// histories: dir is the direct path under the FIRST configuration, dir2 under the CURRENT one (cfg overlaid with set)
	var dir2 []vlDirectRes
	var cfg2 *vlCval
	if hist {
		cfg2 = vlOverlay(c.cfg, c.set)
		cfg2Native, _ := cfg2.native().(map[string]any)
		dir2 = compute(cfg2Native)
	}

	// expressions that appear only after a configured value was spliced in (re-expansion): evaluated directly
	// for the model's table; the oracle does not use them
	if c.kind == "V3" && c.subject != nil && c.subject.k != 'z' {
		if s, err := strconv2.FormatAny(c.subject.native()); err == nil {
			for round := 0; round < 8; round++ {
				if m := vlReQuoteP.FindString(s); m != "" {
					sub, _ := vlDirectSubst(vlParseTagTree(m, true), cfgNative, nil)
					s = strings.Replace(s, m, sub, 1)
					continue
				}
				m := vlReExprP.FindString(s)
				if m == "" {
					break
				}
				res, err := vlDirectEval(m[2 : len(m)-1])
				ent := vlEvalEntry{text: m[2 : len(m)-1], ok: true}
				rep := ""
				if err == nil {
					ent.res, ent.ok = vlCvalOf(res)
					rep, _ = strconv2.FormatAny(res)
				}
				evals = append(evals, ent)
				if err != nil {
					break
				}
				s = strings.Replace(s, m, rep, 1)
			}
		}
	}

	// evaluation / verdict tables for the model
	evTok, evOK := vlEncEvals(evals)
	var vp []string
	seenV := map[string]bool{}
	for _, d := range append(append([]vlDirectRes{}, dir...), dir2...) {
		if d.known && !d.fails && hasValidate && d.verdict != "panic" {
			r := vlRender(d.bound)
			if !seenV[r] {
				seenV[r] = true
				bit := "1"
				if d.verdict == "fail" {
					bit = "0"
				}
				vp = append(vp, hx.Hex(r)+"="+bit)
			}
		}
	}
	verdTok := "v(" + strings.Join(vp, ",") + ")"

	// the real run
	var tagStrs []string
	for i, tx := range texts {
		tagStrs = append(tagStrs, vlStructTag(names[i], tx))
	}
	// defaults only where something must be bound (an optional field for which nothing is configured keeps what it holds)
	prefill := c.prefill && required && vlPrefillSafe(doc, texts) && !hist && !timed
	var obs []string
	var remnant, unstable bool
	if hist {
		obs = vlObserveHistory(rt, tagStrs, doc, c.set, c.gate)
	} else {
		obs, remnant, unstable = vlObserve(rt, tagStrs, doc, prefill, c.dep, c.holderOpt())
	}

	var hexTags []string
	for _, tx := range texts {
		hexTags = append(hexTags, hx.Hex(tx))
	}
	more := ""
	if !hist {
		more = c.moreFlags()
	}
	head := []string{vlKindTok(c.kind, prefill, c.dep && !hist, more), c.t.code(), c.cfg.tok(), evTok, verdTok}
	if hist {
		head = append(head, c.set.tok(), c.gate)
	}
	scn := strings.Join(append(head, hexTags...), " ")
	modelled := evOK
	if c.kind == "V3" && c.subject != nil && (vlHasUnmodelledForModel(c.t, c.subject) || vlNumTextUnmodelled(c.subject)) {
		modelled = false
	}
	if timed {
		modelled = false // points in time are outside the model's types and values: judged by the direct oracles only
	}
	for _, d := range append(append([]vlDirectRes{}, dir...), dir2...) {
		if d.verdict == "panic" {
			modelled = false
		}
	}
	if hist {
		for _, o := range obs {
			if o == "panic" {
				modelled = false
			}
		}
	}
	if !modelled {
		scn = "# " + scn
	}
	cs2 := hx.Case{Scn: scn, Obs: strings.Join(obs, " "), Tags: c.labels}
	if prefill {
		cs2.Tags = append(append([]string{}, cs2.Tags...), "prefill")
	}
	if c.dep && !hist {
		cs2.Tags = append(append([]string{}, cs2.Tags...), "dep")
	}
	if more != "" {
		cs2.Tags = append([]string{}, cs2.Tags...)
		if c.ystyle > 0 {
			cs2.Tags = append(cs2.Tags, fmt.Sprintf("doc-style%d", c.ystyle))
		}
		if c.file {
			cs2.Tags = append(cs2.Tags, "file-loader")
		}
		if c.embed > 0 {
			cs2.Tags = append(cs2.Tags, fmt.Sprintf("embed%d", c.embed))
		}
		if c.gotype > 0 {
			cs2.Tags = append(cs2.Tags, "go-holder")
		}
		if c.kcase > 0 {
			cs2.Tags = append(cs2.Tags, fmt.Sprintf("doc-keycase%d", c.kcase))
		}
		if c.repeat {
			cs2.Tags = append(cs2.Tags, "repeated-starts")
		}
		if c.hide > 0 {
			cs2.Tags = append(cs2.Tags, fmt.Sprintf("hidden-field%d", c.hide))
		}
	}

	// ---- oracles
	{
		for _, o := range obs {
			if o == "panic" && cs2.Oracle == "" {
				cs2.Oracle = "FAIL valuepath-panic the container panicked"
			}
		}
		// what is bound does not depend on what the field held before, nor on the order in which Go hands out the
		// property groups
		special := ""
		if remnant {
			special = fmt.Sprintf("FAIL prefill-merged a bound field still contains a piece of its default: %s", strings.Join(obs, " "))
		} else if unstable {
			special = fmt.Sprintf("FAIL start-unstable %d start-ups of the same scenario bound different values: %s", vlDepStarts, strings.Join(obs, " "))
		}
		switch {
		case hist && base == "V3":
			cs2.Oracle = vlOracleC17History(c, cfg2, obs, cs2.Oracle)
		case hist:
			if cs2.Oracle == "" {
				cs2.Oracle = vlOracleC18History(c, dir[0], dir2[0], len(evals) > 0, hasValidate, obs, texts[0])
			}
		case base == "V3":
			if cs2.Oracle == "" {
				cs2.Oracle = special
			}
			cs2.Oracle = vlOracleC17(c, obs, cs2.Oracle)
		default:
			d := dir[0]
			want := vlWantOf(d)
			if obs[0] == "panic" && want != "panic" && hasValidate && !d.fails {
				// the value was bound and is handed to the validator, which answers with an error or with nil: a verdict
				// is an error of Run or none, never a panic (C18; C09: Run returns an error, it does not panic)
				cs2.Oracle = fmt.Sprintf("FAIL validate-panic the container panicked; the validator applied directly to the bound value gives %s tag=%q", want, texts[0])
			}
			if cs2.Oracle == "" || want == "panic" {
				cs2.Oracle = ""
				if obs[0] != want {
					sig := "expr-result"
					if unstable {
						sig = "start-unstable"
					} else if hasValidate && (obs[0] == "err") != (want == "err") {
						sig = "validate-iff"
					} else if len(evals) == 0 {
						sig = "bind-direct"
					}
					cs2.Oracle = fmt.Sprintf("FAIL %s field=%s direct=%s tag=%q", sig, obs[0], want, texts[0])
				}
				if remnant && want != "panic" {
					cs2.Oracle = special
				}
			}
		}
	}
	w.Put(cs2)
}

// vlWantOf: what the direct path demands of the field: its rendering, err or panic.
func vlWantOf(d vlDirectRes) string {
	switch {
	case d.verdict == "panic":
		return "panic"
	case d.fails || d.verdict == "fail":
		return "err"
	}
	return vlRender(d.bound)
}

func vlOracleC17(c *vlVcase, obs []string, prior string) string {
	if prior != "" {
		return prior
	}
	V, P, X := obs[0], obs[1], obs[2]
	classes := vlRiskClasses(c.subject)
	if !c.literal {
		if V != P {
			return fmt.Sprintf("FAIL prop-differs value=%s prop=%s", V, P)
		}
		// `${key:default}` / `prop:"key:default"`: a declared default stands in for a key that is NOT configured;
		// then there is no configured value and nothing to compare with the prefix twin
		defaulted := vlDeclaresDefault(c.tags[0])
		if defaulted && c.subject.k == 'z' {
			return ""
		}
		if want, ok := vlExpectRender(c.subject, c.t); ok && c.subject.k != 'z' && X != want {
			return fmt.Sprintf("FAIL prefix-mismatch prefix=%s document=%s", X, want)
		}
		if X == "err" || X == "panic" {
			return "" // incompatible pair: nothing is demanded of the value path
		}
		if V != X {
			sig := "other"
			if len(classes) > 0 {
				sig = classes[0]
			} else if defaulted {
				// the key IS configured (and the value is in none of the lossy classes): the declared default is irrelevant
				sig = "defaulted"
			}
			return fmt.Sprintf("FAIL valuepath-%s value=%s prefix=%s", sig, V, X)
		}
		return ""
	}
	// literal variant: the literal is bound as written (the direct conversion of the literal's intended value)
	want, ok := vlExpectRender(c.subject, c.t)
	if ok && V != want {
		sig := "other"
		if len(classes) > 0 {
			sig = classes[0]
		} else if vlHasUpperKey(c.subject) {
			sig = "keycase" // a map literal whose keys are spelled with capitals
		}
		return fmt.Sprintf("FAIL valuepath-%s literal bound as %s, written %s", sig, V, want)
	}
	// (seventh round) the twins of a literal: the prefix field holds the same data taken from the document, converted
	// directly; a shorthand that spells the very placeholder of the value tag (`prop:"k:d"` next to `value:"${k:d}"`)
	// binds what the value tag binds
	if ok && c.subject.k != 'z' && X != want {
		return fmt.Sprintf("FAIL prefix-mismatch prefix=%s document=%s", X, want)
	}
	if "${"+vlTagText(c.tags[1])+"}" == vlTagText(c.tags[0]) && V != P {
		return fmt.Sprintf("FAIL prop-differs value=%s prop=%s", V, P)
	}
	return ""
}

// vlHasUpperKey: some map key of the value contains an upper-case letter.
func vlHasUpperKey(c *vlCval) bool {
	switch c.k {
	case 'l':
		for _, e := range c.l {
			if vlHasUpperKey(e) {
				return true
			}
		}
	case 'm':
		for i, k := range c.mk {
			if k != strings.ToLower(k) || vlHasUpperKey(c.mv[i]) {
				return true
			}
		}
	}
	return false
}

// vlDeclaresDefault: the value tag is the single placeholder `${key:default}`.
func vlDeclaresDefault(tr []vlTnode) bool {
	return len(tr) == 1 && tr[0].kind == 'p' && tr[0].dflt != nil
}

// ---------------------------------------------------------------- two-step histories (kinds R3, RE, RQ)
//
// A Property object (TagStr, TagVal, arguments) lives in the definition registry and survives a failed creation; the
// configuration can be changed through the public Configure.Set.  A history populates the SAME holder twice:
//
//	1. app.Run(cfg) — the holder's first creation fails AFTER the placeholder stage ran, because of the gate:
//	     n    one of the tagged fields itself fails under cfg (its key is absent, its expression is broken, its
//	          constraint is violated)
//	     a0 / a1   an extra field `G int `value:"${kgate}"`` — first / last field of the holder — whose key is absent from
//	          cfg (the value processor fails: "value … is required") and set afterwards
//	     w    a required dependency `Dep *vlFailOnce `wire:""`` (created lazily) whose Init returns an error as long as its
//	          upstream is down: the holder is populated completely, then its creation fails while the dependency is
//	          fetched; the upstream comes up before step 3
//	2. app.Set(key, value) for every entry of `set`
//	3. app.GetComponentByName(holder) — the singleton registry dropped the failed entry, the holder is created again
//
// The oracles judge the fields after step 3 against the CURRENT configuration.

// vlFailOnce: a lazily created dependency whose initialisation fails while its upstream is down; the harness brings
// the upstream up between the two creations of the holder.
type vlFailOnce struct {
	definition.LazyInitComponent
	down bool
}

func (f *vlFailOnce) Init() error {
	if f.down {
		return fmt.Errorf("vlFailOnce: upstream not reachable")
	}
	return nil
}

const vlGateKey = "kgate"

// vlOverlay: the configuration after the Set calls.
func vlOverlay(cfg, set *vlCval) *vlCval {
	kv := map[string]*vlCval{}
	for i, k := range cfg.mk {
		kv[k] = cfg.mv[i]
	}
	for i, k := range set.mk {
		kv[k] = set.mv[i]
	}
	return vlCMap(kv)
}

// vlRunHistory runs one history on a holder with the given tagged fields; first = outcome of Run, second = outcome
// of the second creation, vals = the tagged fields after it.
func vlRunHistory(t reflect.Type, tags []string, doc string, set *vlCval, gate string) (first string, vals []reflect.Value, second string) {
	var fs []reflect.StructField
	gateField := reflect.StructField{Name: "G", Type: reflect.TypeOf(int(0)), Tag: reflect.StructTag(vlStructTag("value", "${"+vlGateKey+"}"))}
	if gate == "a0" {
		fs = append(fs, gateField)
	}
	off := len(fs)
	for i, tg := range tags {
		fs = append(fs, reflect.StructField{Name: fmt.Sprintf("H%d", i), Type: t, Tag: reflect.StructTag(tg)})
	}
	if gate == "a1" {
		fs = append(fs, gateField)
	}
	comps := []any{nil}
	upstream := &vlFailOnce{down: true}
	if gate == "w" {
		fs = append(fs, reflect.StructField{Name: "Dep", Type: reflect.TypeOf((*vlFailOnce)(nil)), Tag: `wire:""`})
		comps = append(comps, upstream)
	}
	holder := reflect.New(reflect.StructOf(fs))
	comps[0] = holder.Interface()
	name := framework_helper.GetComponentName(holder.Interface())
	var err1, err2 error
	pan := hx.Guard(func() {
		a := app.NewApp()
		err1 = a.Run(app.LogLevel(syslog.LvPanic), app.SetConfigLoader(loader.NewRawLoader([]byte(doc))), app.SetComponents(comps...))
		for i, k := range set.mk {
			a.Set(k, set.mv[i].native())
		}
		upstream.down = false
		_, err2 = a.GetComponentByName(name)
		a.Close()
	})
	if pan != nil {
		return "panic", nil, "panic"
	}
	first, second = "ok", "ok"
	if err1 != nil {
		first = "err"
	}
	if err2 != nil {
		return first, nil, "err"
	}
	for i := range tags {
		vals = append(vals, holder.Elem().Field(off+i))
	}
	return first, vals, second
}

// vlObserveHistory: `<first> <field>…`; when the second creation fails with several tagged fields, one history per tag
// (as vlObserveOnce does for a single start-up).
func vlObserveHistory(t reflect.Type, tagStrs []string, doc string, set *vlCval, gate string) []string {
	obs := make([]string, 1+len(tagStrs))
	first, vals, second := vlRunHistory(t, tagStrs, doc, set, gate)
	obs[0] = first
	switch {
	case second == "ok":
		for i := range tagStrs {
			obs[1+i] = vlRender(vals[i])
		}
	case len(tagStrs) == 1:
		obs[1] = second
	default:
		for i := range tagStrs {
			_, v1, o1 := vlRunHistory(t, tagStrs[i:i+1], doc, set, gate)
			if o1 == "ok" {
				obs[1+i] = vlRender(v1[0])
			} else {
				obs[1+i] = o1
			}
		}
	}
	return obs
}

// vlHistSubject: the document value the three tags of an R3 case denote under the given configuration (the prefix
// tag may name its key through a placeholder).
func vlHistSubject(c *vlVcase, cfg *vlCval) *vlCval {
	key := vlTagText(c.tags[2])
	if strings.Contains(key, "${") {
		native, _ := cfg.native().(map[string]any)
		key, _ = vlDirectSubst(vlParseTagTree(key, true), native, nil)
	}
	for i, k := range cfg.mk {
		if k == key {
			return cfg.mv[i]
		}
	}
	return vlCNull()
}

// vlOracleC17History: C17 on the second creation — X (prefix) = the CURRENT document value, V = P, V = X.
func vlOracleC17History(c *vlVcase, cfg2 *vlCval, obs []string, prior string) string {
	if prior != "" {
		return prior
	}
	c2 := *c
	c2.literal = false
	c2.subject = vlHistSubject(c, cfg2)
	res := vlOracleC17(&c2, obs[1:], "")
	if res == "" {
		return ""
	}
	if len(vlRiskClasses(c2.subject)) == 0 {
		// not one of the lossy classes: does the field still show what the FIRST configuration gave?
		old := vlHistSubject(c, c.cfg)
		stale := "err" // nothing was configured first: the value tag stayed empty
		if old.k != 'z' {
			if r, ok := vlExpectRender(old, c.t); ok {
				stale = r
			}
		}
		if (obs[1] == stale || obs[2] == stale) && obs[3] != stale {
			return "FAIL repopulate-stale after the second creation (first=" + obs[0] + ") " + strings.TrimPrefix(res, "FAIL ") + " stale=" + stale
		}
	}
	return res
}

// vlOracleC18History: C18 on a history.  The second creation must give the direct result under the CURRENT
// configuration (expression evaluated on the substituted current values, validation judging the value bound);
// the first creation of a gate-less history fails exactly when the direct path under the first configuration does.
func vlOracleC18History(c *vlVcase, d1, d2 vlDirectRes, hasEvals, hasValidate bool, obs []string, text string) string {
	want1, want2 := vlWantOf(d1), vlWantOf(d2)
	if want1 == "panic" || want2 == "panic" {
		return "" // the direct validator panics on this constraint: no expectation
	}
	if c.gate == "n" && (obs[0] == "err") != (want1 == "err") {
		sig := "expr-result"
		if hasValidate {
			sig = "validate-iff"
		}
		return fmt.Sprintf("FAIL %s first creation=%s direct=%s tag=%q", sig, obs[0], want1, text)
	}
	if obs[1] == want2 {
		return ""
	}
	sig := "expr-result"
	old := ""
	if !d1.fails {
		old = vlRender(d1.bound)
	}
	switch {
	case obs[0] == "err" && (obs[1] == old || obs[1] == want1) && want1 != want2:
		sig = "repopulate-stale"
	case hasValidate && (obs[1] == "err") != (want2 == "err"):
		sig = "validate-iff"
	case !hasEvals:
		sig = "bind-direct"
	}
	return fmt.Sprintf("FAIL %s second creation (first=%s) field=%s direct=%s tag=%q", sig, obs[0], obs[1], want2, text)
}

// ---------------------------------------------------------------- replay

// vlParseTagTree rebuilds the syntax tree of a tag's value part (replays only; generated cases carry their tree).
func vlParseTagTree(s string, inExpr bool) []vlTnode {
	var out []vlTnode
	litStart := 0
	flush := func(i int) {
		if i > litStart {
			out = append(out, vlTLit(s[litStart:i]))
		}
	}
	for i := 0; i < len(s); {
		if strings.HasPrefix(s[i:], "${") {
			if n, next, ok := vlParsePlaceholder(s, i); ok {
				flush(i)
				out = append(out, n)
				i = next
				litStart = i
				continue
			}
		}
		if !inExpr && strings.HasPrefix(s[i:], "#{") {
			// the end of the expression: the first `}` that does not close a placeholder
			j := i + 2
			end := -1
			for j < len(s) {
				if strings.HasPrefix(s[j:], "${") {
					if _, next, ok := vlParsePlaceholder(s, j); ok {
						j = next
						continue
					}
				}
				if s[j] == '{' {
					break
				}
				if s[j] == '}' {
					end = j
					break
				}
				j++
			}
			if end >= 0 {
				flush(i)
				out = append(out, vlTExpr(vlParseTagTree(s[i+2:end], true)...))
				i = end + 1
				litStart = i
				continue
			}
		}
		i++
	}
	flush(len(s))
	return out
}

// vlParsePlaceholder reads the placeholder that starts at s[i:] = "${…": its content is text without braces and
// further (well-formed) placeholders, up to the closing brace; the first top-level colon separates key and default.
// ok=false: no well-formed placeholder starts here.
func vlParsePlaceholder(s string, i int) (n vlTnode, next int, ok bool) {
	var parts []vlTnode
	nested := false
	j := i + 2
	litStart := j
	flush := func(k int) {
		if k > litStart {
			parts = append(parts, vlTLit(s[litStart:k]))
		}
	}
	for {
		if j >= len(s) {
			return vlTnode{}, 0, false
		}
		if strings.HasPrefix(s[j:], "${") {
			m, nx, ok := vlParsePlaceholder(s, j)
			if !ok {
				return vlTnode{}, 0, false
			}
			flush(j)
			parts = append(parts, m)
			nested = true
			j = nx
			litStart = j
			continue
		}
		if s[j] == '{' {
			return vlTnode{}, 0, false
		}
		if s[j] == '}' {
			flush(j)
			break
		}
		j++
	}
	next = j + 1
	if !nested {
		content := s[i+2 : j]
		if k := strings.IndexByte(content, ':'); k >= 0 {
			return vlTPHD(content[:k], content[k+1:]), next, true
		}
		return vlTPH(content), next, true
	}
	// split at the first colon outside the inner placeholders
	for pi, p := range parts {
		if p.kind != 'l' {
			continue
		}
		if k := strings.IndexByte(p.lit, ':'); k >= 0 {
			key := append([]vlTnode{}, parts[:pi]...)
			if k > 0 {
				key = append(key, vlTLit(p.lit[:k]))
			}
			dflt := []vlTnode{}
			if k+1 < len(p.lit) {
				dflt = append(dflt, vlTLit(p.lit[k+1:]))
			}
			dflt = append(dflt, parts[pi+1:]...)
			if len(key) == 0 {
				key = []vlTnode{}
			}
			return vlTPHND(key, dflt), next, true
		}
	}
	return vlTPHN(parts...), next, true
}

func vlSplitTagArgs(text string) (val, args string) {
	if i := strings2.IndexSkipBlocks(text, ","); i >= 0 {
		return text[:i], text[i:]
	}
	return text, ""
}

func vlValueReplay(scn string, w *hx.Writer) {
	scn = strings.TrimPrefix(scn, "# ")
	f := strings.Fields(scn)
	if len(f) > 0 && f[0] == "HS" {
		vlHSReplay(f, w)
		return
	}
	if len(f) > 0 && f[0] == "HM" {
		vlHMReplay(f, w)
		return
	}
	if len(f) > 0 && f[0] == "CP" {
		vlCPReplay(f, w)
		return
	}
	if len(f) < 6 {
		return
	}
	t, rest, ok := vlParseFty(f[1])
	if !ok || rest != "" {
		return
	}
	cfg, rest, ok := vlParseCval(f[2])
	if !ok || rest != "" || cfg.k != 'm' {
		return
	}
	kind, flags, _ := strings.Cut(f[0], "+")
	c := &vlVcase{kind: kind, t: t, cfg: cfg, labels: []string{"replay"},
		prefill: strings.Contains(flags, "p"), dep: strings.Contains(flags, "d"),
		ystyle: vlFlagNum(flags, 'y'), file: strings.Contains(flags, "f"), embed: vlFlagNum(flags, 'e'), gotype: vlFlagNum(flags, 'g'),
		kcase: vlFlagNum(flags, 'c'), repeat: strings.Contains(flags, "r"), hide: vlFlagNum(flags, 'h')}
	if c.embed > 2 || c.ystyle > vlDocStyles || c.gotype > len(vlGoHolders) || c.kcase > vlKeyCases || c.hide > vlHideShapes {
		return
	}
	tagToks := f[5:]
	base := kind
	if b, hist := vlHistBase[kind]; hist {
		// R3 / RE / RQ: … set gate tag…
		if len(f) < 8 {
			return
		}
		set, rest, ok := vlParseCval(f[5])
		if !ok || rest != "" || set.k != 'm' {
			return
		}
		switch f[6] {
		case "n", "a0", "a1", "w":
		default:
			return
		}
		c.set, c.gate, base, tagToks = set, f[6], b, f[7:]
		c.prefill, c.dep = false, false
		c.ystyle, c.file, c.embed, c.gotype = 0, false, 0, 0
		c.kcase, c.repeat, c.hide = 0, false, 0
	}
	want := map[string]int{"V3": 3, "E": 1, "Q": 1}[base]
	if want == 0 || len(tagToks) != want {
		return
	}
	for i, h := range tagToks {
		s, err := hx.UnHex(h)
		if err != nil {
			return
		}
		val, args := vlSplitTagArgs(s)
		if i == 0 {
			c.args = args
		} else if args != c.args {
			return
		}
		if base == "Q" || i > 0 {
			c.tags = append(c.tags, []vlTnode{vlTLit(val)})
		} else {
			c.tags = append(c.tags, vlParseTagTree(val, false))
		}
	}
	if c.kind == "V3" {
		key := vlTagText(c.tags[2])
		c.subject = vlCNull()
		for i, k := range cfg.mk {
			if k == key {
				c.subject = cfg.mv[i]
			}
		}
		tr := c.tags[0]
		// `${key}` or `${key:default}` next to `prop:"key[:default]"` and `prefix:"key"`; anything else is a literal
		c.literal = !(len(tr) == 1 && tr[0].kind == 'p' && tr[0].key == key)
	}
	if c.kind == "R3" {
		c.subject = vlHistSubject(c, vlOverlay(cfg, c.set))
	}
	vlRunCase(c, w)
}

// ---------------------------------------------------------------- generators

var (
	vlTS  = &vlFty{k: 'S'}
	vlTI  = &vlFty{k: 'I'}
	vlTJ  = &vlFty{k: 'J'}
	vlTU  = &vlFty{k: 'U'}
	vlTD  = &vlFty{k: 'D'}
	vlTB  = &vlFty{k: 'B'}
	vlTA  = &vlFty{k: 'A'}
	vlTPS = &vlFty{k: 'P', elem: vlTS}
	vlTPI = &vlFty{k: 'P', elem: vlTI}
	vlTPJ = &vlFty{k: 'P', elem: vlTJ}
	vlTPU = &vlFty{k: 'P', elem: vlTU}
	vlTPD = &vlFty{k: 'P', elem: vlTD}
	vlTPB = &vlFty{k: 'P', elem: vlTB}
	vlTLS = &vlFty{k: 'L', elem: vlTS}
	vlTLI = &vlFty{k: 'L', elem: vlTI}
	vlTLA = &vlFty{k: 'L', elem: vlTA}
	vlTMA = &vlFty{k: 'M', elem: vlTA}
	vlTMS = &vlFty{k: 'M', elem: vlTS}
)

const vlPlainAlpha = "ghjkmqruvwyzGHJKMQRUVWYZ"

func vlGenPlainWord(r *hx.Rng) string {
	n := 1 + r.Intn(6)
	var sb strings.Builder
	for i := 0; i < n; i++ {
		if i > 0 && r.P(1, 5) {
			sb.WriteByte("0123456789"[r.Intn(10)])
		} else {
			sb.WriteByte(vlPlainAlpha[r.Intn(len(vlPlainAlpha))])
		}
	}
	return sb.String()
}

func vlGenDigits(r *hx.Rng, n int, leadNonZero bool) string {
	var sb strings.Builder
	for i := 0; i < n; i++ {
		d := r.Intn(10)
		if i == 0 && leadNonZero && d == 0 {
			d = 1 + r.Intn(9)
		}
		sb.WriteByte(byte('0' + d))
	}
	return sb.String()
}

// vlGenStringClass returns a string of the named class.
func vlGenStringClass(r *hx.Rng, class string) string {
	switch class {
	case "plain":
		return vlGenPlainWord(r)
	case "numberlike":
		switch r.Intn(8) {
		case 0:
			return "0" + vlGenDigits(r, 1+r.Intn(3), false) // leading zero
		case 1:
			return vlGenDigits(r, 1+r.Intn(3), true) + "." + vlGenDigits(r, r.Intn(3), false) + "0" // trailing zero
		case 2:
			return "+" + vlGenDigits(r, 1+r.Intn(4), true)
		case 3:
			return vlGenDigits(r, 1+r.Intn(6), true) // canonical integer
		case 4:
			return "-" + vlGenDigits(r, 1+r.Intn(4), true)
		case 5:
			return vlGenDigits(r, 1+r.Intn(3), true) + "." + vlGenDigits(r, r.Intn(3), false) + string(byte('1'+r.Intn(9))) // canonical decimal
		case 6:
			return []string{"1.10", "007", "1.0", "00", "0.50", "+1", "10.0", "3.140"}[r.Intn(8)]
		default:
			return strconv.FormatInt((1<<53)+int64(r.Intn(1000))*2+1, 10) // beyond 2^53
		}
	case "boollike":
		return []string{"true", "false", "TRUE", "FALSE", "True", "False", "tRuE", "fALSE"}[r.Intn(8)]
	case "quoted":
		q := []string{"'", `"`}[r.Intn(2)]
		return q + vlGenPlainWord(r) + q
	case "bracketed":
		switch r.Intn(6) {
		case 0:
			return "[" + vlGenPlainWord(r) + "," + vlGenPlainWord(r) + "]"
		case 1:
			return "[" + vlGenDigits(r, 1, true) + "," + vlGenDigits(r, 2, true) + "]"
		case 2:
			return `{"` + vlGenPlainWord(r) + `":` + vlGenDigits(r, 1, true) + `}`
		case 3:
			return "map[" + vlGenPlainWord(r) + ":" + vlGenPlainWord(r) + "]"
		case 4:
			return `["` + vlGenPlainWord(r) + `"]`
		default:
			return "[" + vlGenPlainWord(r) + "]"
		}
	case "punct":
		parts := []string{" ", ",", ":", "{", "}", "(", ")", "=", ";", "/", "?", "!", "@", "%", "^", "*", "~", "|", "<", ">", "&", "'", `"`, `\`, "$", "#", "[", "]", "."}
		var sb strings.Builder
		n := 2 + r.Intn(5)
		sb.WriteString(vlGenPlainWord(r))
		for i := 0; i < n; i++ {
			sb.WriteString(parts[r.Intn(len(parts))])
			if r.P(1, 2) {
				sb.WriteString(vlGenPlainWord(r))
			}
		}
		return sb.String() + "k"
	case "unicode":
		parts := []string{"é", "ß", "日本", "🙂", "Ω", "ж", "ñ", "ü"}
		var sb strings.Builder
		n := 1 + r.Intn(4)
		for i := 0; i < n; i++ {
			sb.WriteString(parts[r.Intn(len(parts))])
			if r.P(1, 2) {
				sb.WriteString(vlGenPlainWord(r))
			}
		}
		return sb.String()
	case "reexpanded":
		switch r.Intn(4) {
		case 0:
			return "#{" + vlGenDigits(r, 1, true) + "+" + vlGenDigits(r, 1, true) + "}"
		case 1:
			return vlGenPlainWord(r) + "${kz}" + vlGenPlainWord(r)
		case 2:
			return "${kz:" + vlGenPlainWord(r) + "}"
		default:
			return vlGenPlainWord(r) + `#{"` + vlGenPlainWord(r) + `"}`
		}
	case "empty":
		return ""
	}
	return vlGenPlainWord(r)
}

var vlStringClasses = []string{"plain", "plain", "plain", "numberlike", "numberlike", "boollike", "quoted", "bracketed", "punct", "punct", "unicode", "empty"}

func vlGenInt(r *hx.Rng) int64 {
	switch r.Intn(10) {
	case 0:
		return []int64{0, 1, -1, 2, 10, 255, 256, 65535, 65536}[r.Intn(9)]
	case 1:
		return []int64{1<<53 - 1, 1 << 53, 1<<53 + 1, 1<<53 + 2, 1<<53 + 3, -(1 << 53), -(1<<53 + 1), -(1<<53 - 1), 1<<63 - 1, 1<<62 + 1, 1<<60 + 7}[r.Intn(11)]
	case 2:
		return int64(r.U64()>>1) >> uint(r.Intn(10)) // large
	case 3:
		return -(int64(r.U64()>>1) >> uint(r.Intn(63)))
	default:
		return int64(r.U64()>>1) >> uint(11+r.Intn(52))
	}
}

func vlGenDec(r *hx.Rng) string {
	ip := "0"
	if r.P(3, 4) {
		ip = vlGenDigits(r, 1+r.Intn(5), true)
	}
	fr := vlGenDigits(r, r.Intn(3), false) + string(byte('1'+r.Intn(9)))
	if ip == "0" && strings.HasPrefix(fr, "000") {
		fr = "5" + fr[1:]
	}
	s := ip + "." + fr
	if r.P(1, 4) {
		s = "-" + s
	}
	return s
}

func vlGenScalar(r *hx.Rng) *vlCval {
	switch r.Intn(6) {
	case 0, 1:
		return vlCStr(vlGenStringClass(r, vlStringClasses[r.Intn(len(vlStringClasses))]))
	case 2, 3:
		return vlCInt(vlGenInt(r))
	case 4:
		return vlCDec(vlGenDec(r))
	default:
		return vlCBool(r.Bool())
	}
}

func vlGenKey(r *hx.Rng) string {
	return "k" + string(vlPlainAlpha[r.Intn(12)]) + vlGenDigits(r, 1, false)
}

func vlGenMap(r *hx.Rng, depth int) *vlCval {
	n := 1 + r.Intn(4)
	kv := map[string]*vlCval{}
	for i := 0; i < n; i++ {
		var v *vlCval
		switch {
		case depth < 2 && r.P(1, 5):
			v = vlGenMap(r, depth+1)
		case depth < 2 && r.P(1, 5):
			v = vlGenList(r, depth+1, 0)
		case r.P(1, 12):
			v = vlCNull()
		default:
			v = vlGenScalar(r)
		}
		kv[vlGenKey(r)] = v
	}
	return vlCMap(kv)
}

// genList: elemKind 0 = mixed scalars, 's' strings, 'i' ints
func vlGenList(r *hx.Rng, depth int, elemKind byte) *vlCval {
	n := r.Intn(5)
	c := &vlCval{k: 'l'}
	for i := 0; i < n; i++ {
		switch elemKind {
		case 's':
			c.l = append(c.l, vlCStr(vlGenStringClass(r, vlStringClasses[r.Intn(len(vlStringClasses))])))
		case 'i':
			c.l = append(c.l, vlCInt(vlGenInt(r)))
		default:
			if depth < 2 && r.P(1, 6) {
				c.l = append(c.l, vlGenMap(r, depth+1))
			} else {
				c.l = append(c.l, vlGenScalar(r))
			}
		}
	}
	return c
}

func vlGenStructType(r *hx.Rng, depth int) *vlFty {
	n := 1 + r.Intn(4)
	t := &vlFty{k: 'T'}
	used := map[string]bool{}
	for i := 0; i < n; i++ {
		name := vlGenKey(r)
		if used[name] {
			continue
		}
		used[name] = true
		var ft *vlFty
		switch r.Intn(8) {
		case 0, 1:
			ft = vlTS
		case 2:
			ft = vlTI
		case 3:
			ft = vlTD
		case 4:
			ft = vlTB
		case 5:
			ft = vlTLS
		case 6:
			if depth < 1 {
				ft = vlGenStructType(r, depth+1)
			} else {
				ft = vlTA
			}
		default:
			ft = vlTPI
		}
		t.fields = append(t.fields, vlFfield{name: name, t: ft})
	}
	return t
}

// genForType: a document value of the kind that matches the type (so that the prefix path has an expectation)
func vlGenForType(r *hx.Rng, t *vlFty) *vlCval {
	switch t.k {
	case 'S':
		return vlCStr(vlGenStringClass(r, vlStringClasses[r.Intn(len(vlStringClasses))]))
	case 'I', 'J':
		return vlCInt(vlGenInt(r))
	case 'U':
		v := vlGenInt(r)
		if v < 0 {
			v = -(v + 1)
		}
		return vlCInt(v)
	case 'D':
		if r.P(1, 3) {
			return vlCInt(vlGenInt(r) >> 12)
		}
		return vlCDec(vlGenDec(r))
	case 'B':
		return vlCBool(r.Bool())
	case 'A':
		switch r.Intn(4) {
		case 0:
			return vlGenMap(r, 1)
		case 1:
			return vlGenList(r, 1, 0)
		default:
			return vlGenScalar(r)
		}
	case 'P':
		return vlGenForType(r, t.elem)
	case 'L':
		n := r.Intn(5)
		c := &vlCval{k: 'l'}
		for i := 0; i < n; i++ {
			c.l = append(c.l, vlGenForType(r, t.elem))
		}
		return c
	case 'M':
		n := 1 + r.Intn(4)
		kv := map[string]*vlCval{}
		for i := 0; i < n; i++ {
			kv[vlGenKey(r)] = vlGenForType(r, t.elem)
		}
		return vlCMap(kv)
	case 'T':
		kv := map[string]*vlCval{}
		for _, f := range t.fields {
			if r.P(1, 6) {
				continue // missing key: the field keeps its zero value
			}
			kv[f.name] = vlGenForType(r, f.t)
		}
		if len(kv) == 0 {
			kv[t.fields[0].name] = vlGenForType(r, t.fields[0].t)
		}
		if r.P(1, 4) {
			kv["kextra"] = vlGenScalar(r)
		}
		return vlCMap(kv)
	}
	return vlCNull()
}

func vlGenType(r *hx.Rng) *vlFty {
	switch r.Intn(20) {
	case 0, 1, 2, 3:
		return vlTS
	case 4:
		return vlTI
	case 5:
		return vlTJ
	case 6:
		return vlTU
	case 7:
		return vlTD
	case 8:
		return vlTB
	case 9:
		return vlTPS
	case 10:
		return vlTPI
	case 11, 12:
		return vlTLS
	case 13:
		return vlTLI
	case 14, 15:
		return vlTMA
	case 16:
		return vlTMS
	case 17:
		return vlTA
	default:
		return vlGenStructType(r, 0)
	}
}

// weakly typed / incompatible pairs inside the modelled class
func vlGenWeakPair(r *hx.Rng) (*vlFty, *vlCval) {
	switch r.Intn(14) {
	case 0:
		return vlTS, vlCInt(vlGenInt(r))
	case 1:
		return vlTS, vlCBool(r.Bool())
	case 2:
		return vlTS, vlCDec(vlGenDec(r))
	case 3:
		return vlTI, vlCStr(vlGenStringClass(r, "numberlike"))
	case 4:
		return vlTI, vlCStr(vlGenStringClass(r, []string{"plain", "punct", "unicode", "boollike", "empty"}[r.Intn(5)]))
	case 5:
		return vlTI, vlCDec(vlGenDec(r))
	case 6:
		return vlTB, vlCInt(int64(r.Intn(3)))
	case 7:
		return vlTB, vlCStr([]string{"1", "0", "t", "F", "TRUE", "yes", "True", ""}[r.Intn(8)])
	case 8:
		return vlTD, vlCStr([]string{"1.5", "007", "12", "2.50", vlGenPlainWord(r) + " z"}[r.Intn(5)])
	case 9:
		return vlTLS, vlGenScalar(r)
	case 10:
		return vlTLI, vlCInt(vlGenInt(r))
	case 11:
		return vlTMS, vlGenMap(r, 2)
	case 12:
		return vlGenStructType(r, 1), vlGenScalar(r)
	default:
		return vlTI, vlCBool(r.Bool())
	}
}

func vlHasUnmodelledForModel(t *vlFty, c *vlCval) bool {
	// pairs whose Go behaviour is outside the model's class (kept as oracle-only cases)
	var walk func(t *vlFty, c *vlCval) bool
	strBad := func(s string, k byte) bool {
		switch k {
		case 'I', 'J', 'U':
			if strings.Contains(s, "_") {
				return true
			}
			if k == 'U' && strings.HasPrefix(s, "-") {
				return true
			}
		case 'D':
			if vlReNumber.MatchString(s) {
				return false
			}
			for _, ch := range s {
				if !strings.ContainsRune("0123456789abcdefABCDEFxXpP_+-.inftyINFTYaA", ch) {
					return false
				}
			}
			return s != ""
		}
		return false
	}
	walk = func(t *vlFty, c *vlCval) bool {
		switch t.k {
		case 'P':
			return walk(t.elem, c)
		case 'L':
			if c.k == 'l' {
				for _, e := range c.l {
					if walk(t.elem, e) {
						return true
					}
				}
				return false
			}
			return walk(t.elem, c)
		case 'M':
			if c.k == 'l' && len(c.l) > 0 {
				return true
			}
			if c.k == 'm' {
				for _, e := range c.mv {
					if walk(t.elem, e) {
						return true
					}
				}
			}
			return false
		case 'T':
			if c.k == 'm' {
				for _, f := range t.fields {
					for i, k := range c.mk {
						if k == f.name && walk(f.t, c.mv[i]) {
							return true
						}
					}
				}
			}
			return false
		}
		switch c.k {
		case 's':
			return strBad(c.s, t.k)
		case 'i':
			return t.k == 'U' && c.i < 0
		case 'f':
			return t.k == 'U' && strings.HasPrefix(c.s, "-")
		}
		return false
	}
	return walk(t, c)
}

// vlNumTextUnmodelled: a number-like top-level string whose float64 reading is outside the model's class
// (negative zero, more than 15 significant digits with a fraction, more than 19 integer digits)
func vlNumTextUnmodelled(c *vlCval) bool {
	if c.k != 's' || !vlReNumber.MatchString(c.s) {
		return false
	}
	s := strings.TrimLeft(c.s, "+-")
	ip, fr := s, ""
	if i := strings.IndexByte(s, '.'); i >= 0 {
		ip, fr = s[:i], s[i+1:]
	}
	ip = strings.TrimLeft(ip, "0")
	fr = strings.TrimRight(fr, "0")
	if ip == "" && fr == "" && strings.HasPrefix(c.s, "-") {
		return true
	}
	if fr == "" {
		return len(ip) > 19
	}
	sig := len(ip) + len(fr)
	if ip == "" {
		sig = len(strings.TrimLeft(fr, "0"))
		if len(fr)-sig >= 4 {
			return true
		}
	}
	return sig > 15
}

func vlGenC17(r *hx.Rng) *vlVcase {
	var t *vlFty
	var v *vlCval
	labels := []string{}
	switch k := r.Intn(20); {
	case k < 14:
		t = vlGenType(r)
		v = vlGenForType(r, t)
		labels = append(labels, "matching")
	case k < 18:
		t, v = vlGenWeakPair(r)
		labels = append(labels, "weak")
	case k < 19:
		t = vlGenType(r)
		v = vlCNull()
		labels = append(labels, "absent")
	default:
		t = vlTS
		v = vlCStr(vlGenStringClass(r, "reexpanded"))
		labels = append(labels, "matching")
	}
	key := vlGenKey(r)
	kv := map[string]*vlCval{"kz": vlCStr("zz")}
	if v.k != 'z' {
		kv[key] = v
	}
	c := &vlVcase{kind: "V3", t: t, cfg: vlCMap(kv), subject: v,
		tags: [][]vlTnode{{vlTPH(key)}, {vlTLit(key)}, {vlTLit(key)}}}
	if r.P(1, 8) || v.k == 'z' && r.P(1, 2) {
		c.args = ",required=false"
		labels = append(labels, "optional")
	}
	labels = append(labels, "type-"+string(t.k))
	for _, cl := range vlRiskClasses(v) {
		labels = append(labels, "class-"+cl)
	}
	if v.k == 's' && len(vlRiskClasses(v)) == 0 && utf8.ValidString(v.s) {
		labels = append(labels, "class-plain")
	}
	if t.k == 'B' && v.k == 'b' {
		labels = append(labels, "trivial")
	}
	c.labels = labels
	vlGenFlagsC17(r, c)
	return c
}

// vlGenFlagsC17 (drawn last): about a quarter of the cases bind into fields that already hold defaults (more often
// for the types a decoder could merge into), one in ten holders also has a component field.
func vlGenFlagsC17(r *hx.Rng, c *vlVcase) {
	switch c.t.k {
	case 'L', 'M', 'T', 'P', 'A':
		c.prefill = r.P(1, 2)
	default:
		c.prefill = r.P(1, 6)
	}
	c.dep = r.P(1, 10)
}

// vlGenDefaultText: a default that fits the field type and differs from the configured value (plain words, short
// canonical numbers, booleans, short bracketed lists/maps: nothing of the lossy classes, no prefill marker).
func vlGenDefaultText(r *hx.Rng, t *vlFty, v *vlCval) string {
	word := func() string {
		w := vlGenPlainWord(r)
		if v.k == 's' && v.s == w {
			w += "q"
		}
		return w
	}
	num := func() string {
		n := int64(1 + r.Intn(99))
		if (v.k == 'i' || v.k == 'F') && v.i == n {
			n++
		}
		return strconv.FormatInt(n, 10)
	}
	switch t.k {
	case 'S':
		return word()
	case 'I', 'J', 'U':
		return num()
	case 'D':
		if r.Bool() {
			return num()
		}
		return strconv.Itoa(r.Intn(9)) + "." + string(byte('1'+r.Intn(9)))
	case 'B':
		if v.k == 'b' {
			return strconv.FormatBool(!v.b)
		}
		return strconv.FormatBool(r.Bool())
	case 'A':
		switch v.k {
		case 'b':
			return strconv.FormatBool(!v.b)
		case 'i', 'F', 'f':
			return num()
		}
		return word()
	case 'P':
		return vlGenDefaultText(r, t.elem, v)
	case 'L':
		switch t.elem.k {
		case 'I', 'J', 'U', 'D':
			return "[" + num() + "," + num() + "]"
		}
		return "[" + word() + "," + word() + "]"
	case 'M':
		return "map[kq:" + word() + "]"
	}
	return "map[kq:" + num() + "]" // a struct: no member is called kq
}

// vlGenC17Default: the placeholder and the shorthand DECLARE A DEFAULT (`value:"${key:dflt}"`, `prop:"key:dflt"`) next to
// the prefix twin `prefix:"key"`.  A default stands in for a key that is not configured; when the key is configured
// — in half of the cases with the ZERO VALUE of its kind: false, 0, 0.0, "" — the three fields must still agree.
func vlGenC17Default(r *hx.Rng) *vlVcase {
	var t *vlFty
	var v *vlCval
	labels := []string{"defaulted"}
	switch k := r.Intn(12); {
	case k < 6:
		switch r.Intn(8) {
		case 0, 1:
			t, v = []*vlFty{vlTB, vlTB, vlTS, vlTA}[r.Intn(4)], vlCBool(false)
		case 2, 3, 4:
			t, v = []*vlFty{vlTI, vlTJ, vlTU, vlTD, vlTS, vlTA, vlTPI}[r.Intn(7)], vlCInt(0)
		case 5, 6:
			t, v = []*vlFty{vlTD, vlTD, vlTS, vlTA, vlTI}[r.Intn(5)], &vlCval{k: 'F', i: 0}
		default:
			t, v = []*vlFty{vlTS, vlTPS, vlTA}[r.Intn(3)], vlCStr("") // the known class `empty`
		}
		labels = append(labels, "zero-value")
	case k < 9:
		t = vlGenType(r)
		v = vlGenForType(r, t)
		labels = append(labels, "matching")
	case k < 10:
		t, v = []*vlFty{vlTD, vlTA, vlTS}[r.Intn(3)], &vlCval{k: 'F', i: int64(r.Intn(2000)) - 1000}
		labels = append(labels, "matching")
	case k < 11:
		t, v = vlGenWeakPair(r)
		labels = append(labels, "weak")
	default:
		t = vlGenType(r)
		v = vlCNull()
		labels = append(labels, "absent")
	}
	key := vlGenKey(r)
	dflt := vlGenDefaultText(r, t, v)
	kv := map[string]*vlCval{"kz": vlCStr("zz")}
	if v.k != 'z' {
		kv[key] = v
	}
	c := &vlVcase{kind: "V3", t: t, cfg: vlCMap(kv), subject: v,
		tags: [][]vlTnode{{vlTPHD(key, dflt)}, {vlTLit(key + ":" + dflt)}, {vlTLit(key)}}}
	if r.P(1, 8) || v.k == 'z' && r.P(1, 2) {
		c.args = ",required=false"
		labels = append(labels, "optional")
	}
	labels = append(labels, "type-"+string(t.k))
	for _, cl := range vlRiskClasses(v) {
		labels = append(labels, "class-"+cl)
	}
	c.labels = labels
	vlGenFlagsC17(r, c)
	return c
}

// literal written in a value tag
func vlGenC17Literal(r *hx.Rng) *vlVcase {
	var t *vlFty
	var vlLit string
	var v *vlCval
	switch r.Intn(10) {
	case 0, 1, 2:
		t, vlLit = vlTS, vlGenPlainWord(r)+[]string{"", " ", "-", ".", ":", "/"}[r.Intn(6)]+vlGenPlainWord(r)
		v = vlCStr(vlLit)
	case 3:
		t = vlTS
		vlLit = vlGenStringClass(r, []string{"numberlike", "boollike", "quoted", "unicode"}[r.Intn(4)])
		v = vlCStr(vlLit)
	case 4:
		n := vlGenInt(r)
		t, vlLit, v = vlTI, strconv.FormatInt(n, 10), vlCInt(n)
	case 5:
		d := vlGenDec(r)
		t, vlLit, v = vlTD, d, vlCDec(d)
	case 6:
		b := r.Bool()
		t, vlLit, v = vlTB, strconv.FormatBool(b), vlCBool(b)
	case 7:
		a, b := vlGenPlainWord(r), vlGenPlainWord(r)
		t, vlLit, v = vlTLS, "["+a+","+b+"]", vlCList(vlCStr(a), vlCStr(b))
	case 8:
		a, b := int64(r.Intn(1000)), int64(r.Intn(1000))
		t, vlLit, v = vlTLI, fmt.Sprintf("[%d,%d]", a, b), vlCList(vlCInt(a), vlCInt(b))
	default:
		a, b := vlGenPlainWord(r), vlGenPlainWord(r)
		n := int64(r.Intn(100))
		t, vlLit = vlTMA, fmt.Sprintf("map[ka:%s kb:%d kc:[%s,%s]]", a, n, a, b)
		v = vlCMap(map[string]*vlCval{"ka": vlCStr(a), "kb": vlCInt(n), "kc": vlCList(vlCStr(a), vlCStr(b))})
	}
	key := vlGenKey(r)
	c := &vlVcase{kind: "V3", t: t, cfg: vlCMap(map[string]*vlCval{key: v}), subject: v, literal: true,
		tags: [][]vlTnode{{vlTLit(vlLit)}, {vlTLit(key)}, {vlTLit(key)}}}
	c.labels = []string{"literal", "type-" + string(t.k)}
	for _, cl := range vlRiskClasses(v) {
		c.labels = append(c.labels, "class-"+cl)
	}
	vlGenFlagsC17(r, c)
	return c
}

// ---- C18: expressions

type vlExprGen struct {
	r   *hx.Rng
	cfg map[string]*vlCval
	n   int
	// dfl: placeholders of configured operands declare a default (`${k:d}`) that differs from the configured value, and
	// the configured values lean towards the zero values (0, false): the configured value is what the expression sees
	dfl bool
}

func (g *vlExprGen) freshKey() string {
	g.n++
	return fmt.Sprintf("ke%d", g.n)
}

// operand: literal text or a placeholder bound to a generated configuration value
func (g *vlExprGen) intOperand() []vlTnode {
	r := g.r
	n := int64(r.Intn(200)) - 50
	if r.P(1, 10) {
		n = int64(r.Intn(1 << 30))
	}
	if g.dfl && r.P(2, 3) {
		if r.Bool() {
			n = 0
		}
		k := g.freshKey()
		g.cfg[k] = vlCInt(n)
		d := int64(1 + r.Intn(40))
		if d == n {
			d++
		}
		ph := []vlTnode{vlTPHD(k, strconv.FormatInt(d, 10))}
		if n < 0 {
			return vlCat(vlLit("("), ph, vlLit(")"))
		}
		return ph
	}
	switch r.Intn(5) {
	case 0, 1:
		if n < 0 {
			return []vlTnode{vlTLit("(" + strconv.FormatInt(n, 10) + ")")}
		}
		return []vlTnode{vlTLit(strconv.FormatInt(n, 10))}
	case 2, 3:
		k := g.freshKey()
		g.cfg[k] = vlCInt(n)
		if n < 0 {
			return []vlTnode{vlTLit("("), vlTPH(k), vlTLit(")")}
		}
		return []vlTnode{vlTPH(k)}
	default:
		k := g.freshKey() // not configured: the default is used
		if n < 0 {
			n = -n
		}
		return []vlTnode{vlTPHD(k, strconv.FormatInt(n, 10))}
	}
}

func (g *vlExprGen) decOperand() []vlTnode {
	r := g.r
	d := strings.TrimPrefix(vlGenDec(r), "-")
	if r.P(1, 2) {
		return []vlTnode{vlTLit(d)}
	}
	k := g.freshKey()
	g.cfg[k] = vlCDec(d)
	return []vlTnode{vlTPH(k)}
}

func (g *vlExprGen) strOperand() []vlTnode {
	r := g.r
	s := vlGenPlainWord(r)
	if r.P(1, 4) {
		s += " " + vlGenPlainWord(r)
	}
	switch r.Intn(3) {
	case 0:
		return []vlTnode{vlTLit(`"` + s + `"`)}
	case 1:
		k := g.freshKey()
		g.cfg[k] = vlCStr(s)
		return []vlTnode{vlTLit(`"`), vlTPH(k), vlTLit(`"`)} // the placeholder expands inside the quotes
	default:
		k := g.freshKey()
		g.cfg[k] = vlCStr(`"` + s + `"`) // the placeholder expands to a quoted literal
		return []vlTnode{vlTPH(k)}
	}
}

func (g *vlExprGen) boolOperand() []vlTnode {
	r := g.r
	b := r.Bool()
	if g.dfl && r.P(2, 3) {
		k := g.freshKey()
		g.cfg[k] = vlCBool(b)
		return []vlTnode{vlTPHD(k, strconv.FormatBool(!b))}
	}
	if r.P(1, 2) {
		return []vlTnode{vlTLit(strconv.FormatBool(b))}
	}
	k := g.freshKey()
	g.cfg[k] = vlCBool(b)
	return []vlTnode{vlTPH(k)}
}

func vlCat(parts ...[]vlTnode) []vlTnode {
	var out []vlTnode
	for _, p := range parts {
		out = append(out, p...)
	}
	return out
}

func vlLit(s string) []vlTnode { return []vlTnode{vlTLit(s)} }

func (g *vlExprGen) arith(depth int) []vlTnode {
	r := g.r
	if depth <= 0 || r.P(1, 3) {
		if r.P(1, 5) {
			return g.decOperand()
		}
		return g.intOperand()
	}
	op := []string{"+", "-", "*", "/", "%", "+", "*"}[r.Intn(7)]
	if op == "%" {
		return vlCat(vlLit("("), g.intOperand(), vlLit(" % "), vlLit(strconv.Itoa(1+r.Intn(9))), vlLit(")"))
	}
	var opn []vlTnode
	if r.P(1, 5) {
		k := g.freshKey() // the operator itself comes from the configuration
		g.cfg[k] = vlCStr(op)
		opn = vlCat(vlLit(" "), []vlTnode{vlTPH(k)}, vlLit(" "))
	} else {
		opn = vlLit(" " + op + " ")
	}
	return vlCat(vlLit("("), g.arith(depth-1), opn, g.arith(depth-1), vlLit(")"))
}

func (g *vlExprGen) boolean(depth int) []vlTnode {
	r := g.r
	switch r.Intn(6) {
	case 0:
		return g.boolOperand()
	case 1:
		return vlCat(g.arith(1), vlLit([]string{" < ", " <= ", " > ", " >= ", " == ", " != "}[r.Intn(6)]), g.arith(1))
	case 2:
		if depth > 0 {
			return vlCat(vlLit("("), g.boolean(depth-1), vlLit([]string{" && ", " || ", " and ", " or "}[r.Intn(4)]), g.boolean(depth-1), vlLit(")"))
		}
		return g.boolOperand()
	case 3:
		return vlCat(vlLit("!("), g.boolean(0), vlLit(")"))
	case 4: // membership
		return vlCat(g.intOperand(), vlLit(" in ["), g.intOperand(), vlLit(", "), g.intOperand(), vlLit(", 7]"))
	default:
		return vlCat(g.strOperand(), vlLit([]string{" contains ", " startsWith ", " endsWith ", " == "}[r.Intn(4)]), g.strOperand())
	}
}

func (g *vlExprGen) str() []vlTnode {
	r := g.r
	switch r.Intn(5) {
	case 0:
		return vlCat(g.strOperand(), vlLit(" + "), g.strOperand())
	case 1:
		return vlCat(vlLit("upper("), g.strOperand(), vlLit(")"))
	case 2:
		return vlCat(vlLit("trim("), g.strOperand(), vlLit(")"))
	case 3:
		return vlCat(g.strOperand(), vlLit(" + string("), g.intOperand(), vlLit(")"))
	default:
		return g.strOperand()
	}
}

// genExprCase: `#{…}` (possibly with text around it) bound to a compatible field
func vlGenExprCase(r *hx.Rng) *vlVcase { return vlGenExprCaseWith(r, false) }

// vlGenExprCaseWith: dfl = the operands taken from the configuration declare defaults (see vlExprGen.dfl)
func vlGenExprCaseWith(r *hx.Rng, dfl bool) *vlVcase {
	g := &vlExprGen{r: r, cfg: map[string]*vlCval{}, dfl: dfl}
	var body []vlTnode
	var t *vlFty
	labels := []string{"expr"}
	if dfl {
		labels = append(labels, "defaulted-operands")
	}
	switch k := r.Intn(12); {
	case k < 4:
		body = g.arith(1 + r.Intn(3))
		t = []*vlFty{vlTI, vlTD, vlTS, vlTA, vlTJ, vlTPI}[r.Intn(6)]
		labels = append(labels, "arith")
	case k < 6:
		body = g.boolean(1 + r.Intn(2))
		t = []*vlFty{vlTB, vlTS, vlTA}[r.Intn(3)]
		labels = append(labels, "boolean")
	case k < 8:
		body = g.str()
		t = []*vlFty{vlTS, vlTA, vlTPS, vlTLS}[r.Intn(4)]
		labels = append(labels, "string")
	case k < 9: // conditional
		body = vlCat(g.boolean(1), vlLit(" ? "), g.arith(1), vlLit(" : "), g.arith(1))
		t = []*vlFty{vlTI, vlTD, vlTS}[r.Intn(3)]
		labels = append(labels, "conditional")
	case k < 10: // list result
		body = vlCat(vlLit("["), g.intOperand(), vlLit(", "), g.intOperand(), vlLit(", "), g.arith(1), vlLit("]"))
		t = []*vlFty{vlTLI, vlTLS, vlTLA, vlTA}[r.Intn(4)]
		labels = append(labels, "list")
	case k < 11: // builtin on a list
		body = vlCat(vlLit([]string{"len", "max", "min", "sum"}[r.Intn(4)]+"(["), g.intOperand(), vlLit(", "), g.intOperand(), vlLit(", "), g.intOperand(), vlLit("])"))
		t = []*vlFty{vlTI, vlTS, vlTD}[r.Intn(3)]
		labels = append(labels, "builtin")
	default: // deliberately broken expressions: start-up must fail
		body = [][]vlTnode{vlLit("1 +"), vlLit("nosuch(1)"), vlCat(vlLit("1 / "), g.strOperand()), vlLit(`"a" * 2`), vlLit("1 % 0")}[r.Intn(5)]
		t = vlTS
		labels = append(labels, "broken")
	}
	tree := []vlTnode{vlTExpr(body...)}
	if r.P(1, 6) && (t.k == 'S' || t.k == 'A') { // text around the expression
		tree = vlCat(vlLit(vlGenPlainWord(r)+"-"), tree, vlLit("-"+vlGenPlainWord(r)))
		labels = append(labels, "embedded")
	}
	if r.P(1, 10) && t.k == 'S' { // two expressions in one tag
		tree = vlCat(tree, vlLit("/"), []vlTnode{vlTExpr(g.arith(1)...)})
		labels = append(labels, "two-exprs")
	}
	c := &vlVcase{kind: "E", t: t, cfg: vlCMap(g.cfg), tags: [][]vlTnode{tree}}
	// validate on a value produced by an expression
	if r.P(1, 5) && (t.k == 'I' || t.k == 'D' || t.k == 'J') {
		c.args = ",validate=" + []string{"min=0", "max=100", "gte=10 lte=1000", "ne=0", "required"}[r.Intn(5)]
		labels = append(labels, "validated")
	}
	c.labels = labels
	c.dep = r.P(3, 10) // drawn last
	return c
}

// ---- C18: validation pairs

func vlGenValidateCase(r *hx.Rng) *vlVcase {
	labels := []string{"validate"}
	key := vlGenKey(r)
	var t *vlFty
	var v *vlCval
	var cons []string
	pick := func(opts ...string) string { return opts[r.Intn(len(opts))] }
	small := func() string { return strconv.Itoa(r.Intn(12)) }
	switch k := r.Intn(12); {
	case k < 4: // integers
		t = []*vlFty{vlTI, vlTJ, vlTU, vlTPI}[r.Intn(4)]
		v = vlCInt(int64(r.Intn(14)))
		if t.k != 'U' && r.P(1, 4) {
			v = vlCInt(-int64(r.Intn(5)))
		}
		n := 1 + r.Intn(2)
		for i := 0; i < n; i++ {
			cons = append(cons, pick("eq=", "ne=", "min=", "max=", "gt=", "lt=", "gte=", "lte=", "oneof=")+small())
		}
		if r.P(1, 5) {
			cons = append(cons, "required")
		}
		labels = append(labels, "int")
	case k < 7: // strings
		t = []*vlFty{vlTS, vlTPS}[r.Intn(2)]
		s := vlGenPlainWord(r)
		switch r.Intn(5) {
		case 0:
			s = ""
		case 1:
			s = vlGenDigits(r, 1+r.Intn(4), true)
		case 2:
			s = vlGenStringClass(r, "unicode")
		}
		v = vlCStr(s)
		n := 1 + r.Intn(2)
		for i := 0; i < n; i++ {
			switch r.Intn(7) {
			case 0:
				cons = append(cons, "required")
			case 1:
				cons = append(cons, "number")
			case 2:
				cons = append(cons, "eq="+pick(s, vlGenPlainWord(r)))
			case 3:
				cons = append(cons, "ne="+pick(s, vlGenPlainWord(r)))
			case 4:
				cons = append(cons, "oneof="+pick(s, vlGenPlainWord(r)))
			default:
				cons = append(cons, pick("min=", "max=", "len=")+strconv.Itoa(r.Intn(8)))
			}
		}
		labels = append(labels, "string")
	case k < 8: // floats
		t = vlTD
		v = vlCDec(strings.TrimPrefix(vlGenDec(r), "-"))
		cons = append(cons, pick("min=", "max=", "gt=", "lt=")+small())
		labels = append(labels, "float")
	case k < 9: // bool
		t = vlTB
		v = vlCBool(r.Bool())
		cons = append(cons, pick("required", "eq=true", "ne=true"))
		labels = append(labels, "bool")
	case k < 10: // slices
		t = []*vlFty{vlTLS, vlTLI}[r.Intn(2)]
		c := &vlCval{k: 'l'}
		for i := r.Intn(4); i > 0; i-- {
			if t == vlTLS {
				c.l = append(c.l, vlCStr(vlGenPlainWord(r)))
			} else {
				c.l = append(c.l, vlCInt(int64(r.Intn(9))))
			}
		}
		v = c
		cons = append(cons, pick("min=", "max=", "len=")+strconv.Itoa(r.Intn(4)))
		if r.P(1, 3) {
			cons = append(cons, "required")
		}
		labels = append(labels, "slice")
	default: // structs with field tags
		t = &vlFty{k: 'T'}
		kv := map[string]*vlCval{}
		n := 1 + r.Intn(3)
		for i := 0; i < n; i++ {
			name := fmt.Sprintf("kf%d", i)
			if r.Bool() {
				iv := int64(r.Intn(12))
				t.fields = append(t.fields, vlFfield{name, vlTI, pick("min=", "max=", "eq=", "ne=", "gte=", "lt=") + small() + pick("", "", ",required")})
				kv[name] = vlCInt(iv)
			} else {
				s := pick("", vlGenPlainWord(r), vlGenDigits(r, 2, true))
				t.fields = append(t.fields, vlFfield{name, vlTS, pick("required", "number", "min=2", "max=3", "len=2", "oneof=red green 12", "required,min=2")})
				kv[name] = vlCStr(s)
			}
			if r.P(1, 8) {
				delete(kv, name)
			}
		}
		if len(kv) == 0 {
			kv["kother"] = vlCInt(1)
		}
		if r.P(1, 3) {
			t = &vlFty{k: 'P', elem: t}
		}
		v = vlCMap(kv)
		labels = append(labels, "struct")
	}
	c := &vlVcase{kind: "E", t: t, tags: [][]vlTnode{{vlTPH(key)}}}
	cfg := map[string]*vlCval{key: v}
	if len(cons) == 0 {
		c.args = ",validate"
	} else {
		c.args = ",validate=" + strings.Join(cons, " ")
	}
	switch r.Intn(8) {
	case 0: // bound by prefix instead
		c.kind = "Q"
		c.tags = [][]vlTnode{{vlTLit(key)}}
		labels = append(labels, "by-prefix")
	case 1: // optional and absent
		delete(cfg, key)
		cfg["kother"] = vlCInt(1)
		c.args += ",required=false"
		labels = append(labels, "absent-optional")
	case 2: // optional and present
		c.args += ",required=false"
	}
	c.cfg = vlCMap(cfg)
	c.labels = labels
	c.dep = r.P(3, 10) // drawn last
	return c
}

// vlGenNestedValidateCase: a struct (or pointer to struct) bound with `,validate` whose members include a NESTED section
// — a struct member (or pointer-to-struct member) that carries its own constraint, mostly `required` — with the
// section absent from / null in / all-zero in / filled in the configuration.  The other members are, half of the time,
// chosen to satisfy their constraints, so that the nested member alone decides the outcome.
func vlGenNestedValidateCase(r *hx.Rng) *vlVcase {
	labels := []string{"validate", "struct", "nested"}
	pick := func(opts ...string) string { return opts[r.Intn(len(opts))] }
	small := func() string { return strconv.Itoa(r.Intn(12)) }
	key := vlGenKey(r)
	outer := &vlFty{k: 'T'}
	kv := map[string]*vlCval{}
	safe := r.Bool()
	if safe {
		labels = append(labels, "members-valid")
	}
	nestAt := 0
	n := r.Intn(3)
	if n > 0 {
		nestAt = r.Intn(n + 1)
	}
	// the nested section
	inner := &vlFty{k: 'T'}
	ikvZero, ikvSet := map[string]*vlCval{}, map[string]*vlCval{}
	m := 1 + r.Intn(2)
	for j := 0; j < m; j++ {
		name := fmt.Sprintf("ki%d", j)
		switch r.Intn(3) {
		case 0:
			inner.fields = append(inner.fields, vlFfield{name, vlTI, pick("", "", "min=1", "gte=0", "max=50")})
			ikvZero[name], ikvSet[name] = vlCInt(0), vlCInt(int64(1+r.Intn(60)))
		case 1:
			inner.fields = append(inner.fields, vlFfield{name, vlTS, pick("", "", "required", "min=2", "max=4")})
			ikvZero[name], ikvSet[name] = vlCStr(""), vlCStr(vlGenPlainWord(r))
		default:
			inner.fields = append(inner.fields, vlFfield{name, vlTB, ""})
			ikvZero[name], ikvSet[name] = vlCBool(false), vlCBool(true)
		}
	}
	nestT := inner
	if r.P(1, 4) {
		nestT = &vlFty{k: 'P', elem: inner}
		labels = append(labels, "nested-pointer")
	}
	nestCons := pick("required", "required", "required", "")
	var nestV *vlCval // nil = the section is absent
	switch r.Intn(7) {
	case 0, 1, 2:
		labels = append(labels, "section-absent")
	case 3:
		nestV = vlCNull()
		labels = append(labels, "section-null")
	case 4:
		nestV = vlCMap(ikvZero)
		labels = append(labels, "section-zero")
	default:
		nestV = vlCMap(ikvSet)
		labels = append(labels, "section-set")
	}
	addNested := func() {
		outer.fields = append(outer.fields, vlFfield{"kn", nestT, nestCons})
		if nestV != nil {
			kv["kn"] = nestV
		}
	}
	for i := 0; i < n; i++ {
		if i == nestAt {
			addNested()
		}
		name := fmt.Sprintf("kf%d", i)
		if r.Bool() {
			iv := int64(r.Intn(12))
			cons := pick("min=", "max=", "eq=", "ne=", "gte=", "lt=") + small() + pick("", "", ",required")
			if safe {
				iv = int64(1 + r.Intn(9))
				cons = pick("min=1", "gte=0", "ne=0", "required", "max=9", "required,lte=100")
			}
			outer.fields = append(outer.fields, vlFfield{name, vlTI, cons})
			kv[name] = vlCInt(iv)
		} else {
			sv := pick("", vlGenPlainWord(r), vlGenDigits(r, 2, true))
			cons := pick("required", "number", "min=2", "max=3", "len=2", "oneof=red green 12", "required,min=2")
			if safe {
				sv = vlGenPlainWord(r) + "z"
				cons = pick("required", "min=1", "max=9", "required,min=2")
			}
			outer.fields = append(outer.fields, vlFfield{name, vlTS, cons})
			kv[name] = vlCStr(sv)
		}
		if !safe && r.P(1, 8) {
			delete(kv, name)
		}
	}
	if nestAt >= n {
		addNested()
	}
	if len(kv) == 0 {
		kv["kother"] = vlCInt(1)
	}
	t := outer
	if r.P(1, 3) {
		t = &vlFty{k: 'P', elem: outer}
	}
	c := &vlVcase{kind: "E", t: t, args: ",validate", tags: [][]vlTnode{{vlTPH(key)}}}
	switch r.Intn(8) {
	case 0, 1: // bound by prefix instead
		c.kind = "Q"
		c.tags = [][]vlTnode{{vlTLit(key)}}
		labels = append(labels, "by-prefix")
	case 2: // optional and present
		c.args += ",required=false"
	}
	c.cfg = vlCMap(map[string]*vlCval{key: vlCMap(kv)})
	c.labels = labels
	c.dep = r.P(3, 10) // drawn last
	return c
}

// ---- C18: pointer fields bound to the ZERO value of their pointee

// vlGenPtrZeroValidateCase: a pointer-typed field (*int *int64 *uint *float64 *bool *string) bound — through ${k}, by
// prefix or as the result of an expression — mostly to the zero value of its pointee (0, 0.0, false, ""), with a
// constraint of the has-a-value family: the validator is handed the field as declared, i.e. the POINTER, so `required`
// holds for every non-nil pointer and `omitempty` does not skip a non-nil pointer to a zero value.
func vlGenPtrZeroValidateCase(r *hx.Rng) *vlVcase {
	labels := []string{"validate", "pointer"}
	pick := func(opts ...string) string { return opts[r.Intn(len(opts))] }
	key := vlGenKey(r)
	zero := r.P(3, 4)
	if zero {
		labels = append(labels, "pointee-zero")
	}
	var t *vlFty
	var v *vlCval
	var cons string
	byPrefixOnly := false
	var tree []vlTnode // nil: the placeholder ${key}
	cfg := map[string]*vlCval{}
	switch r.Intn(7) {
	case 0, 1: // integers
		t = []*vlFty{vlTPI, vlTPI, vlTPJ, vlTPU}[r.Intn(4)]
		v = vlCInt(0)
		if !zero {
			v = vlCInt(int64(1 + r.Intn(9)))
		}
		cons = pick("required", "required", "omitempty min=1", "omitempty gt=0", "omitempty ne=0", "required lte=9", "omitempty max=5", "omitempty oneof=1 2 3", "required min=0")
		labels = append(labels, "int")
	case 2: // booleans
		t = vlTPB
		v = vlCBool(!zero)
		cons = pick("required", "required", "omitempty eq=true", "omitempty ne=false", "required ne=true")
		labels = append(labels, "bool")
	case 3: // floats
		t = vlTPD
		v = &vlCval{k: 'F', i: 0}
		if !zero {
			v = vlCDec(strings.TrimPrefix(vlGenDec(r), "-"))
		}
		cons = pick("required", "omitempty gt=0", "omitempty min=1", "required lt=100000")
		labels = append(labels, "float")
	case 4: // strings: an empty value is bound by prefix only (through ${k} an empty text counts as absent)
		t = vlTPS
		v = vlCStr("")
		if !zero {
			v = vlCStr(vlGenPlainWord(r))
		}
		byPrefixOnly = zero
		cons = pick("required", "required", "omitempty min=2", "omitempty len=3", "omitempty ne=", "required max=6")
		labels = append(labels, "string")
	case 5: // the result of an arithmetic expression
		t = []*vlFty{vlTPI, vlTPJ, vlTPD}[r.Intn(3)]
		n := int64(0)
		if !zero {
			n = int64(1 + r.Intn(9))
		}
		cfg["ke1"] = vlCInt(n)
		tree = []vlTnode{vlTExpr(vlCat([]vlTnode{vlTPH("ke1")}, vlLit(pick("*2", " * 3", "+0", " - 0")))...)}
		cons = pick("required", "omitempty min=1", "omitempty gt=0", "required lte=30")
		labels = append(labels, "expr", "int")
	default: // the result of a boolean expression
		t = vlTPB
		n := int64(r.Intn(3))
		if !zero {
			n = int64(4 + r.Intn(5))
		}
		cfg["ke1"] = vlCInt(n)
		tree = []vlTnode{vlTExpr(vlCat([]vlTnode{vlTPH("ke1")}, vlLit(pick(">3", " > 3", " >= 4")))...)}
		cons = pick("required", "omitempty eq=true", "required ne=true")
		labels = append(labels, "expr", "bool")
	}
	c := &vlVcase{kind: "E", t: t, args: ",validate=" + cons}
	if tree != nil {
		c.tags = [][]vlTnode{tree}
	} else {
		cfg[key] = v
		c.tags = [][]vlTnode{{vlTPH(key)}}
		if byPrefixOnly || r.P(1, 3) {
			c.kind = "Q"
			c.tags = [][]vlTnode{{vlTLit(key)}}
			labels = append(labels, "by-prefix")
		}
	}
	if r.P(1, 8) {
		c.args += ",required=false"
	}
	c.cfg = vlCMap(cfg)
	c.labels = labels
	c.dep = r.P(1, 10) // drawn last
	return c
}

// ---- C18: placeholders with a computed key inside expressions and value x constraint pairs

const vlSelAlpha = "ghjkmqruvwyz"

// vlGenSelWord: what a selector key holds — a short lower-case word or a small number (it becomes part of a key).
func vlGenSelWord(r *hx.Rng) *vlCval {
	if r.P(1, 4) {
		return vlCInt(int64(r.Intn(10)))
	}
	n := 2 + r.Intn(3)
	b := make([]byte, n)
	for i := range b {
		b[i] = vlSelAlpha[r.Intn(len(vlSelAlpha))]
	}
	return vlCStr(string(b))
}

func vlSelText(v *vlCval) string {
	if v.k == 'i' {
		return strconv.FormatInt(v.i, 10)
	}
	return v.s
}

// vlOtherSel: a selector value different from w (the key of the decoy sibling).
func vlOtherSel(r *hx.Rng, w *vlCval) *vlCval {
	for {
		o := vlGenSelWord(r)
		if vlSelText(o) != vlSelText(w) {
			return o
		}
	}
}

type vlKeyComputer struct {
	r     *hx.Rng
	cfg   map[string]*vlCval
	n     int
	done  map[string]vlTnode // flat key -> the placeholder that replaced it (the same key twice: the same rewrite)
	count int
}

func (kc *vlKeyComputer) selKey() string {
	kc.n++
	return fmt.Sprintf("ks%d", kc.n)
}

// selector: the parts that give `word` when substituted: `${ksN}` with ksN: word | `${ksN:word}` with ksN absent |
// `${ksN_${ksM}}` with ksM: w2 and ksN_w2: word (two levels)
func (kc *vlKeyComputer) selector(word *vlCval, depth int) vlTnode {
	r := kc.r
	sk := kc.selKey()
	switch k := r.Intn(8); {
	case k == 0: // the selector is not configured and declares a default
		return vlTPHD(sk, vlSelText(word))
	case k == 1 && depth > 0: // the selector's key is computed as well
		w2 := vlGenSelWord(r)
		sep := []string{"", "_", "-"}[r.Intn(3)]
		if w2.k == 'i' && sep == "" {
			sep = "_" // digits glued to a numbered key could spell another generated key
		}
		kc.cfg[sk+sep+vlSelText(w2)] = word
		kc.cfg[sk+sep+vlSelText(vlOtherSel(r, w2))] = vlOtherSel(r, word)
		return vlTPHN(vlTLit(sk+sep), kc.selector(w2, depth-1))
	default:
		kc.cfg[sk] = word
		return vlTPH(sk)
	}
}

// rewrite turns the flat placeholder n (`${k}` / `${k:d}`) into one whose key — or default — is built from another
// placeholder, and moves the configured value of k to the key that the inner placeholder selects.  What the tag
// denotes is unchanged: the same value under a key that is spelled in two steps.
func (kc *vlKeyComputer) rewrite(n vlTnode) vlTnode {
	if n.keyT != nil || n.dfltT != nil {
		return n
	}
	if d, ok := kc.done[n.key]; ok {
		if (d.dflt == nil) == (n.dflt == nil) && (n.dflt == nil || *d.dflt == *n.dflt) {
			return d
		}
		return n
	}
	r := kc.r
	if kc.count > 0 && r.P(1, 3) {
		return n // left flat: computed and flat placeholders side by side
	}
	v, present := kc.cfg[n.key]
	word := vlGenSelWord(r)
	sep := []string{"", "_", "-"}[r.Intn(3)]
	if word.k == 'i' && sep == "" {
		sep = "_" // digits glued to a numbered key could spell another generated key
	}
	out := n
	switch {
	case present:
		delete(kc.cfg, n.key)
		var newKey string
		if r.P(1, 5) { // the computed part in front: `${${sel}_k}`
			newKey = vlSelText(word) + sep + n.key
			if word.k == 'i' {
				newKey = "k" + newKey
				out.keyT = []vlTnode{vlTLit("k"), kc.selector(word, 1), vlTLit(sep + n.key)}
			} else {
				out.keyT = []vlTnode{kc.selector(word, 1), vlTLit(sep + n.key)}
			}
		} else {
			newKey = n.key + sep + vlSelText(word)
			out.keyT = []vlTnode{vlTLit(n.key + sep), kc.selector(word, 1)}
			// a sibling under another selector value holds a different value
			switch v.k {
			case 'i', 'F', 'f', 'b', 's':
				kc.cfg[n.key+sep+vlSelText(vlOtherSel(r, word))] = vlVaryValue(r, v, nil)
			}
		}
		kc.cfg[newKey] = v
		out.key = ""
	case n.dflt != nil && r.Bool():
		// k is not configured and its default comes from the configuration: `${k:${kfb}}`
		var dv *vlCval
		if i, err := strconv.ParseInt(*n.dflt, 10, 64); err == nil {
			dv = vlCInt(i)
		} else if *n.dflt == "true" || *n.dflt == "false" {
			dv = vlCBool(*n.dflt == "true")
		}
		if dv == nil {
			return n
		}
		fb := kc.selKey()
		kc.cfg[fb] = dv
		out.keyT = []vlTnode{vlTLit(n.key)}
		out.dfltT = []vlTnode{vlTPH(fb)}
		out.key, out.dflt = "", nil
	default:
		// k is not configured under the selected key either: the default (if any) stands in
		out.keyT = []vlTnode{vlTLit(n.key + sep), kc.selector(word, 1)}
		out.key = ""
	}
	kc.done[n.key] = out
	kc.count++
	return out
}

func (kc *vlKeyComputer) walk(ns []vlTnode) []vlTnode {
	out := make([]vlTnode, 0, len(ns))
	for _, n := range ns {
		switch n.kind {
		case 'p':
			n = kc.rewrite(n)
		case 'e':
			n.inner = kc.walk(n.inner)
		}
		out = append(out, n)
	}
	return out
}

// vlGenComputedKeyCase: an expression case or a value x constraint pair (any of the generators above) whose
// placeholders name their keys in two steps — `#{${rate_${tier}} * 100}`, `${limit-${env}},validate=min=3`,
// `${${zone}_quota:5}`, `${k:${fallback}}` — with a sibling key under another selector value holding a different value.
// Placeholders are substituted inside-out; the expression must see, and validation must judge, the selected value.
func vlGenComputedKeyCase(r *hx.Rng) *vlVcase {
	for try := 0; ; try++ {
		var c *vlVcase
		switch k := r.Intn(12); {
		case k < 5:
			c = vlGenExprCaseWith(r, false)
		case k < 7:
			c = vlGenExprCaseWith(r, true)
		case k < 10:
			c = vlGenValidateCase(r)
		case k < 11:
			c = vlGenPtrZeroValidateCase(r)
		default:
			c = vlGenNestedValidateCase(r)
		}
		cfg := map[string]*vlCval{}
		for i, k := range c.cfg.mk {
			cfg[k] = c.cfg.mv[i]
		}
		kc := &vlKeyComputer{r: r, cfg: cfg, done: map[string]vlTnode{}}
		if c.kind == "Q" {
			// by prefix: the prefix tag names the key in two steps, `prefix:"k_${sel}"`
			key := vlTagText(c.tags[0])
			if v, ok := cfg[key]; ok {
				word := vlGenSelWord(r)
				delete(cfg, key)
				cfg[key+"_"+vlSelText(word)] = v
				c.tags = [][]vlTnode{{vlTLit(key + "_"), kc.selector(word, 0)}}
				kc.count++
			}
		} else {
			c.tags = [][]vlTnode{kc.walk(c.tags[0])}
		}
		if kc.count == 0 && try < 8 {
			continue // nothing but literals: draw again
		}
		c.cfg = vlCMap(cfg)
		c.labels = append(c.labels, "computed-key")
		return c
	}
}

// ---- C18: literal text with quote characters (apostrophes, double quotes) in the value part of a tag
//
// A quote character is an ordinary byte of a tag: `#{${n:2}*3} o'clock,validate=startswith=6` has the value part
// `#{${n:2}*3} o'clock` and the argument validate=startswith=6.  The cases below put single apostrophes / double quotes
// (odd and even counts) around an expression, inside a placeholder's default, inside a string literal of the expression
// (`"it's"`, an escaped `\"`) and into a plain literal, always in front of a `,validate=…` argument that the bound text
// satisfies or violates; they are judged by the ordinary oracles (validate-iff, expr-result, bind-direct).

var vlQuoteBits = []string{"o'clock", "it's", "don't panic", "5\"", "rock'n'roll", "'q'", "say \"hi\"", "a\"b", "''", "'\"", "d'Artagnan's", "\"\"\"", "x '", "\" y", "'em"}

// vlQuoteText: a short text without commas, braces, `$`, `#`: plain words and one or two quote-bearing pieces.
func vlQuoteText(r *hx.Rng) string {
	var parts []string
	if r.Bool() {
		parts = append(parts, vlGenPlainWord(r))
	}
	parts = append(parts, vlQuoteBits[r.Intn(len(vlQuoteBits))])
	if r.P(1, 3) {
		parts = append(parts, vlQuoteBits[r.Intn(len(vlQuoteBits))])
	}
	if r.Bool() {
		parts = append(parts, vlGenPlainWord(r))
	}
	return strings.Join(parts, " ")
}

func vlIsAlnum(b byte) bool {
	return b >= '0' && b <= '9' || b >= 'a' && b <= 'z' || b >= 'A' && b <= 'Z'
}

// vlStringConstraint: a validator constraint for the text s that s satisfies (sat) or violates.
func vlStringConstraint(r *hx.Rng, s string, sat bool) string {
	n := utf8.RuneCountInString(s)
	pre, suf := 0, len(s)
	for pre < len(s) && pre < 3 && vlIsAlnum(s[pre]) {
		pre++
	}
	for suf > 0 && len(s)-suf < 3 && vlIsAlnum(s[suf-1]) {
		suf--
	}
	for try := 0; try < 8; try++ {
		switch r.Intn(6) {
		case 0:
			if pre > 0 {
				if sat {
					return "startswith=" + s[:pre]
				}
				return "startswith=" + s[:pre] + "Zq"
			}
		case 1:
			if suf < len(s) {
				if sat {
					return "endswith=" + s[suf:]
				}
				return "endswith=Zq" + s[suf:]
			}
		case 2:
			if sat {
				return "len=" + strconv.Itoa(n)
			}
			return "len=" + strconv.Itoa(n+1+r.Intn(3))
		case 3:
			if sat {
				return "min=" + strconv.Itoa(n-r.Intn(2))
			}
			return "min=" + strconv.Itoa(n+1+r.Intn(3))
		case 4:
			if sat {
				return "max=" + strconv.Itoa(n+r.Intn(2))
			}
			if n > 0 {
				return "max=" + strconv.Itoa(n-1)
			}
		default:
			if sat {
				return "excludes=Zq"
			}
			return "contains=Zq"
		}
	}
	if sat {
		return "required"
	}
	return "len=" + strconv.Itoa(n+1)
}

func vlGenQuoteTextCase(r *hx.Rng) *vlVcase {
	g := &vlExprGen{r: r, cfg: map[string]*vlCval{"kz": vlCStr("zz")}}
	labels := []string{"quote-text"}
	t := []*vlFty{vlTS, vlTS, vlTS, vlTA, vlTPS}[r.Intn(5)]
	var tree []vlTnode
	sp := func() string { return []string{" ", " ", "", "-"}[r.Intn(4)] }
	switch k := r.Intn(10); {
	case k < 4: // text with quote characters around an expression
		var body []vlTnode
		if r.P(2, 3) {
			body = g.arith(1 + r.Intn(2))
		} else {
			body = g.str()
		}
		tree = []vlTnode{vlTExpr(body...)}
		if r.P(1, 3) {
			tree = vlCat(vlLit(vlQuoteText(r)+sp()), tree)
		}
		if len(tree) == 1 || r.P(2, 3) {
			tree = vlCat(tree, vlLit(sp()+vlQuoteText(r)))
		}
		labels = append(labels, "expr", "embedded")
	case k < 7: // a placeholder whose default carries quote characters (the key absent or configured), text around it
		key := g.freshKey()
		if r.P(1, 3) {
			g.cfg[key] = vlCStr(vlGenPlainWord(r) + " " + vlGenPlainWord(r))
			labels = append(labels, "configured")
		}
		tree = []vlTnode{vlTPHD(key, vlQuoteText(r))}
		if r.P(1, 3) {
			tree = vlCat(vlLit(vlGenPlainWord(r)+" "), tree)
		}
		if r.P(1, 3) {
			tree = vlCat(tree, vlLit(" "+vlGenPlainWord(r)))
		}
		labels = append(labels, "default")
	case k < 8: // no placeholder, no expression: a literal
		tree = vlLit(vlGenPlainWord(r) + " " + vlQuoteText(r))
		labels = append(labels, "literal")
	default: // quote characters inside a string literal of the expression: "it's", an escaped \" — on an int or a string field
		lit := []string{`"it's"`, `"a\"b"`, `'say "hi'`, `"o'clock" + 'x'`, `"\""`, `'d\'A'`}[r.Intn(6)]
		if r.Bool() {
			t = []*vlFty{vlTI, vlTJ, vlTPI}[r.Intn(3)]
			tree = []vlTnode{vlTExpr(vlCat(vlLit("len("+lit+") + "), g.intOperand())...)}
		} else {
			tree = []vlTnode{vlTExpr(vlCat(vlLit(lit+" + "), g.strOperand())...)}
			if r.Bool() {
				tree = vlCat(tree, vlLit(" "+vlGenPlainWord(r)))
			}
		}
		labels = append(labels, "expr", "quoted-literal")
	}
	c := &vlVcase{kind: "E", t: t, cfg: vlCMap(g.cfg), tags: [][]vlTnode{tree}}
	// the constraint is chosen against the text the direct substitution gives (satisfied / violated, half and half)
	native, _ := c.cfg.native().(map[string]any)
	sat := r.Bool()
	cons := "required"
	if s, err := vlDirectSubst(tree, native, nil); err == nil {
		if s == "'" || s == "\"" {
			// the whole text came down to ONE quote character (a default `"""` loses its outer pair): binding that panics in
			// strconv2.ParseAny — the known finding KF-C17-8 / KF-C16-1, not this generator's subject
			return vlGenQuoteTextCase(r)
		}
		if t.k == 'I' || t.k == 'J' || (t.k == 'P' && t.elem.k == 'I') {
			n, _ := strconv.Atoi(s)
			if sat {
				cons = []string{"min=" + strconv.Itoa(n), "max=" + strconv.Itoa(n), "eq=" + strconv.Itoa(n)}[r.Intn(3)]
			} else {
				cons = []string{"min=" + strconv.Itoa(n+1), "max=" + strconv.Itoa(n-1), "ne=" + strconv.Itoa(n)}[r.Intn(3)]
			}
		} else {
			hx.Guard(func() {
				if pv, perr := strconv2.ParseAny(s); perr == nil {
					if ps, ok := pv.(string); ok {
						s = ps
					}
				}
			})
			cons = vlStringConstraint(r, s, sat)
		}
	}
	if r.P(1, 8) {
		labels = append(labels, "no-validate") // control: no argument at all
	} else {
		c.args = ",validate=" + cons
		if sat {
			labels = append(labels, "satisfied")
		} else {
			labels = append(labels, "violated")
		}
		if r.P(1, 6) {
			c.args += ",required=false"
		}
	}
	c.labels = labels
	c.dep = r.P(1, 10) // drawn last
	return c
}

// ---- two-step histories: generators

// vlGenSafeFor: a document value that matches the type and is in none of the lossy classes of the value path (for such
// a value V = P = X is demanded outright).
func vlGenSafeFor(r *hx.Rng, t *vlFty) (*vlCval, bool) {
	for try := 0; try < 8; try++ {
		v := vlGenForType(r, t)
		if v.k == 'z' || len(vlRiskClasses(v)) != 0 || vlHasUnmodelledForModel(t, v) {
			continue
		}
		if _, ok := vlExpectRender(v, t); !ok {
			continue
		}
		return v, true
	}
	return nil, false
}

// vlGenSafePair: a field type and two document values for it that bind DIFFERENT field contents.
func vlGenSafePair(r *hx.Rng) (*vlFty, *vlCval, *vlCval) {
	for try := 0; try < 40; try++ {
		t := vlGenType(r)
		if r.P(1, 8) {
			t = &vlFty{k: 'P', elem: vlGenStructType(r, 0)} // the second population finds an allocated pointer
		}
		v1, ok1 := vlGenSafeFor(r, t)
		v2, ok2 := vlGenSafeFor(r, t)
		if !ok1 || !ok2 {
			continue
		}
		r1, _ := vlExpectRender(v1, t)
		r2, _ := vlExpectRender(v2, t)
		if r1 != r2 {
			return t, v1, v2
		}
	}
	return vlTS, vlCStr("first"), vlCStr("second")
}

func vlGenGate(r *hx.Rng, withN bool) string {
	if withN && r.P(1, 6) {
		return "n"
	}
	return []string{"a0", "a0", "a1", "a1", "w", "w", "w"}[r.Intn(7)]
}

// vlGenC17Retry: holder struct{ V T `value:"${k}"`; P T `prop:"k"`; X T `prefix:"k"` } populated twice: k is configured
// with v1 (or not at all) when the first creation fails, then set to v2; one case in five names the key through another
// placeholder (`value:"${${kenv}}"`, `prop:"${kenv}"`, `prefix:"${kenv}"`) and repoints kenv instead.
func vlGenC17Retry(r *hx.Rng) *vlVcase {
	t, v1, v2 := vlGenSafePair(r)
	key := vlGenKey(r)
	labels := []string{"retry", "type-" + string(t.k)}
	kv := map[string]*vlCval{"kz": vlCStr("zz")}
	set := map[string]*vlCval{}
	c := &vlVcase{kind: "R3", t: t, subject: v2}
	if r.P(1, 5) {
		k1, k2 := key+"a", key+"b"
		kv[k1], kv[k2], kv["kenv"] = v1, v2, vlCStr(k1)
		set["kenv"] = vlCStr(k2)
		c.tags = [][]vlTnode{{vlTLit("${"), vlTPH("kenv"), vlTLit("}")}, {vlTLit("${kenv}")}, {vlTLit("${kenv}")}}
		c.gate = vlGenGate(r, false)
		labels = append(labels, "indirect")
	} else {
		c.tags = [][]vlTnode{{vlTPH(key)}, {vlTLit(key)}, {vlTLit(key)}}
		c.gate = vlGenGate(r, true)
		if c.gate != "n" {
			kv[key] = v1 // gate n: the key is not configured at all when the first creation fails
		}
		set[key] = v2
	}
	if c.gate == "a0" || c.gate == "a1" {
		set[vlGateKey] = vlCInt(1)
	}
	c.cfg, c.set = vlCMap(kv), vlCMap(set)
	c.labels = append(labels, "gate-"+c.gate)
	return c
}

var vlExprOps = []string{"+", "-", "*", "/"}

// vlVaryValue: another value of the same kind (sign and quoting kept, so that it fits wherever the first one did);
// t (may be nil) tells the element kind of an empty list.
func vlVaryValue(r *hx.Rng, v *vlCval, t *vlFty) *vlCval {
	switch v.k {
	case 'i':
		n := int64(r.Intn(14))
		if r.P(1, 4) {
			n = int64(r.Intn(200))
		}
		if v.i < 0 {
			n = -int64(1 + r.Intn(60))
		}
		if n == v.i {
			n++
		}
		return vlCInt(n)
	case 'F':
		return &vlCval{k: 'F', i: v.i + 1 + int64(r.Intn(5))}
	case 'f':
		for {
			d := strings.TrimPrefix(vlGenDec(r), "-")
			if d != v.s {
				return vlCDec(d)
			}
		}
	case 'b':
		return vlCBool(!v.b)
	case 's':
		for _, op := range vlExprOps {
			if v.s == op {
				o := vlExprOps[r.Intn(len(vlExprOps))]
				if o == op {
					o = vlExprOps[(r.Intn(3)+1+indexOf(vlExprOps, op))%len(vlExprOps)]
				}
				return vlCStr(o)
			}
		}
		w := vlGenPlainWord(r)
		if len(v.s) >= 2 && v.s[0] == '"' && v.s[len(v.s)-1] == '"' {
			if `"`+w+`"` == v.s {
				w += "q"
			}
			return vlCStr(`"` + w + `"`)
		}
		if v.s != "" && strings.Trim(v.s, "0123456789") == "" {
			w = vlGenDigits(r, 1+r.Intn(4), true)
		}
		if w == v.s {
			w += "7"
		}
		return vlCStr(w)
	case 'l':
		out := &vlCval{k: 'l'}
		if len(v.l) == 0 {
			if t != nil && t.k == 'L' && t.elem.k == 'S' {
				out.l = append(out.l, vlCStr(vlGenPlainWord(r)))
			} else if t != nil && t.k == 'L' {
				out.l = append(out.l, vlCInt(int64(r.Intn(9))))
			}
			return out
		}
		if r.Bool() && len(v.l) > 1 {
			out.l = append(out.l, v.l[:len(v.l)-1]...)
			return out
		}
		out.l = append(append(out.l, v.l...), vlVaryValue(r, v.l[0], nil))
		return out
	case 'm':
		kv := map[string]*vlCval{}
		for i, k := range v.mk {
			kv[k] = v.mv[i]
		}
		if len(v.mk) > 0 {
			i := r.Intn(len(v.mk))
			kv[v.mk[i]] = vlVaryValue(r, v.mv[i], nil)
		}
		return vlCMap(kv)
	}
	return v
}

func indexOf(l []string, s string) int {
	for i, x := range l {
		if x == s {
			return i
		}
	}
	return 0
}

var vlExprValidates = []string{"min=0", "max=100", "gte=10 lte=1000", "ne=0", "required", "min=10", "lt=50"}

// vlGenExprRetry: a `#{…}` value tag over placeholders, populated twice; at least one configured operand (a number, a
// boolean, a string, the operator itself) changes between the two creations.  One case in four has no gate: the tagged
// field itself fails first (its constraint is violated by the first result, or an operand is not configured yet).
func vlGenExprRetry(r *hx.Rng) *vlVcase {
	if r.P(1, 4) {
		return vlGenExprRetrySelf(r)
	}
	var c *vlVcase
	for try := 0; try < 20; try++ {
		c = vlGenExprCaseWith(r, r.P(1, 4))
		if len(c.cfg.mk) > 0 && !vlHasLabel(c.labels, "broken") {
			break
		}
		c = nil
	}
	if c == nil {
		c = vlExprCase(vlTI, map[string]*vlCval{"ke1": vlCInt(int64(r.Intn(30)))}, "", vlTExpr(vlTPH("ke1"), vlTLit("*2")))
		c.labels = []string{"expr", "arith"}
	}
	if c.args == "" && r.Bool() && (c.t.k == 'I' || c.t.k == 'D' || c.t.k == 'J') {
		c.args = ",validate=" + vlExprValidates[r.Intn(len(vlExprValidates))]
		c.labels = append(c.labels, "validated")
	}
	set := map[string]*vlCval{}
	forced := r.Intn(len(c.cfg.mk))
	for i, k := range c.cfg.mk {
		if i == forced || r.P(1, 2) {
			set[k] = vlVaryValue(r, c.cfg.mv[i], nil)
		}
	}
	c.kind, c.dep, c.prefill = "RE", false, false
	c.gate = vlGenGate(r, false)
	if c.gate == "a0" || c.gate == "a1" {
		set[vlGateKey] = vlCInt(1)
	}
	c.set = vlCMap(set)
	c.labels = append(append([]string{"retry"}, c.labels...), "gate-"+c.gate)
	return c
}

func vlHasLabel(ls []string, l string) bool {
	for _, x := range ls {
		if x == l {
			return true
		}
	}
	return false
}

// vlGenExprRetrySelf: no gate.  Either `#{${ke1} op n},validate=min=M` whose first result violates min=M (the second
// satisfies it in three cases of four), or `#{${ke1} op n}` with ke1 not configured when the first creation runs.
func vlGenExprRetrySelf(r *hx.Rng) *vlVcase {
	t := []*vlFty{vlTI, vlTJ, vlTD, vlTPI, vlTS}[r.Intn(5)]
	a1, a2 := int64(r.Intn(6)), int64(20+r.Intn(40))
	lit := int64(r.Intn(6))
	op := "+"
	f := func(a int64) int64 { return a + lit }
	if r.Bool() {
		op, lit = "*", int64(1+r.Intn(3))
		f = func(a int64) int64 { return a * lit }
	}
	body := []vlTnode{vlTPH("ke1"), vlTLit(op + strconv.FormatInt(lit, 10))}
	if r.P(1, 3) {
		body = []vlTnode{vlTPH("ke1"), vlTLit(op), vlTPHD("ke2", strconv.FormatInt(lit, 10))} // the second operand is a default
	}
	c := &vlVcase{kind: "RE", t: t, gate: "n", tags: [][]vlTnode{{vlTExpr(body...)}}}
	labels := []string{"retry", "expr", "arith", "gate-n"}
	if r.P(2, 3) && t.k != 'S' {
		m := f(a1) + 1 + int64(r.Intn(int(f(a2)-f(a1))))
		if r.P(1, 4) {
			m = f(a2) + 1 + int64(r.Intn(5)) // the second result violates the constraint as well
		}
		c.args = ",validate=min=" + strconv.FormatInt(m, 10)
		c.cfg = vlCMap(map[string]*vlCval{"ke1": vlCInt(a1)})
		labels = append(labels, "validated")
	} else {
		// ke1 is not configured yet: `#{*n}` does not compile (`#{+n}` would: a unary plus)
		op, lit = "*", int64(1+r.Intn(3))
		c.tags = [][]vlTnode{{vlTExpr(vlTPH("ke1"), vlTLit(op+strconv.FormatInt(lit, 10)))}}
		c.cfg = vlCMap(map[string]*vlCval{"kz": vlCStr("zz")})
		labels = append(labels, "operand-absent-first")
	}
	c.set = vlCMap(map[string]*vlCval{"ke1": vlCInt(a2)})
	c.labels = labels
	return c
}

// vlGenValidateRetry: a value x constraint pair (vlGenValidateCase / vlGenNestedValidateCase) populated twice: the
// configured value changes between the two creations; validation must judge the value bound by the SECOND one.
func vlGenValidateRetry(r *hx.Rng) *vlVcase {
	var c *vlVcase
	for try := 0; try < 30; try++ {
		if r.P(1, 6) {
			c = vlGenNestedValidateCase(r)
		} else {
			c = vlGenValidateCase(r)
		}
		if !strings.Contains(c.args, "required=false") && len(c.cfg.mk) == 1 && c.cfg.mk[0] != "kother" {
			break
		}
		c = nil
	}
	if c == nil {
		c = vlExprCase(vlTI, map[string]*vlCval{"k": vlCInt(2)}, ",validate=min=3", vlTPH("k"))
		c.labels = []string{"validate", "int"}
	}
	set := map[string]*vlCval{c.cfg.mk[0]: vlVaryValue(r, c.cfg.mv[0], c.t)}
	if c.kind == "Q" {
		c.kind = "RQ"
	} else {
		c.kind = "RE"
	}
	c.dep, c.prefill = false, false
	c.gate = vlGenGate(r, false)
	if c.gate == "a0" || c.gate == "a1" {
		set[vlGateKey] = vlCInt(1)
	}
	c.set = vlCMap(set)
	c.labels = append(append([]string{"retry"}, c.labels...), "gate-"+c.gate)
	return c
}

// vlReseed decorrelates consecutive seeds: hx.NewRng(s+1) is hx.NewRng(s) advanced by one draw, so without this
// the seeds s, s+1, s+2 of the thorough tier would generate the same cases shifted by one.
func vlReseed(rng *hx.Rng) *hx.Rng { return hx.NewRng(rng.U64() ^ 0x5bd1e9955bd1e995) }

func vlValueGen(rng *hx.Rng, n int, tier string, w *hx.Writer) {
	rng = vlReseed(rng)
	for i := 0; i < n; i++ {
		r := rng.Fork()
		switch {
		case i%10 == 7: // every tenth case populates the same holder twice, the configuration changed in between
			vlRunCase(vlGenC17Retry(r), w)
		case i%6 == 4: // every sixth case declares a default in the placeholder and in the shorthand
			vlRunCase(vlGenC17Default(r), w)
		case r.P(1, 8):
			vlRunCase(vlGenC17Literal(r), w)
		default:
			vlRunCase(vlGenC17(r), w)
		}
	}
	// after the n cases above (their streams are untouched): one history in ten with app.Set between two populations
	for i := 0; i < n/10; i++ {
		r := rng.Fork()
		if i%3 == 2 {
			vlRunHS(vlGenHSLazy(r), w)
		} else {
			vlRunHS(vlGenHS(r), w)
		}
	}
	// … one further case in ten writes its document in another YAML style (block scalars at the end of the document, a byte
	// order mark, an indented document, no final line break), now and then through a file
	for i := 0; i < n/10; i++ {
		vlRunCase(vlGenC17Doc(rng.Fork()), w)
	}
	// … and one history in twenty-five in which a component edits the untyped map / list it was given (kind HM)
	for i := 0; i < n/25; i++ {
		vlRunHM(vlGenHM(rng.Fork()), w)
	}
	// … and as many in which the edits go below the top level of the bound value / through a field of type any
	for i := 0; i < n/25; i++ {
		vlRunHM(vlGenHMDeep(rng.Fork()), w)
	}
	// (seventh round) … and as many whose keys and member names differ in letter case: map literals and defaults of value tags
	// next to the same data bound from the document, into struct / *struct / []struct / map-of-struct targets
	for i := 0; i < n/25; i++ {
		vlRunCase(vlGenC17KeyCase(rng.Fork()), w)
	}
	// … and as many whose sections have sibling keys that differ from a member's key by `-` / `_` only, started several times
	for i := 0; i < n/25; i++ {
		vlRunCase(vlGenC17Decoy(rng.Fork()), w)
	}
	// (eighth round) … and as many holders whose tag-less fields name their own prefix (definition.ConfigurationProperties), each
	// instance pre-populated with the state that says which subtree it is bound to, next to twins with an explicit prefix tag
	for i := 0; i < n/25; i++ {
		vlRunCP(vlGenCP(rng.Fork()), w)
	}
	// (ninth round) … and as many two-step histories (kind R3) whose value tag holds its placeholder INSIDE an expression that is the
	// identity on it (`#{${k}*${ku}}` with ku = 1, `#{'${k}'}`): the second population of the same tag text must show the CURRENT value
	for i := 0; i < n/25; i++ {
		vlRunCase(vlGenC17ExprRetry(rng.Fork()), w)
	}
}

func init() {
	register(&Sub{Name: "valueexpr", Gen: func(rng *hx.Rng, n int, tier string, w *hx.Writer) {
		rng = vlReseed(rng)
		for i := 0; i < n; i++ {
			r := rng.Fork()
			switch {
			case i%12 == 7: // an expression populated twice, operands changed in between
				vlRunCase(vlGenExprRetry(r), w)
			case i%12 == 9: // a value x constraint pair populated twice
				vlRunCase(vlGenValidateRetry(r), w)
			case i%12 == 11 || i%12 == 3: // pointer fields bound to the zero value of their pointee
				vlRunCase(vlGenPtrZeroValidateCase(r), w)
			case i%12 == 5: // structs with a nested section that carries its own constraint
				vlRunCase(vlGenNestedValidateCase(r), w)
			case i%12 == 4: // expressions whose configured operands declare defaults
				vlRunCase(vlGenExprCaseWith(r, true), w)
			case i%2 == 0:
				vlRunCase(vlGenExprCase(r), w)
			default:
				vlRunCase(vlGenValidateCase(r), w)
			}
		}
		// after the n cases above (their streams are untouched): one more case in twelve spells its keys in two steps
		for i := 0; i < n/12; i++ {
			vlRunCase(vlGenComputedKeyCase(rng.Fork()), w)
		}
		// … and one more in twelve carries quote characters in the value part of its tag, in front of a validate argument
		for i := 0; i < n/12; i++ {
			vlRunCase(vlGenQuoteTextCase(rng.Fork()), w)
		}
		// … and one more in twelve has its tagged field in an anonymous embedded struct of the holder (one or two levels deep)
		for i := 0; i < n/12; i++ {
			vlRunCase(vlGenEmbeddedCase(rng.Fork()), w)
		}
		// (seventh round) … and one more in twelve binds a point in time (time.Time, *time.Time, a named type over time.Time), with and
		// without a validate argument
		for i := 0; i < n/12; i++ {
			vlRunCase(vlGenTimeCase(rng.Fork()), w)
		}
		// (eighth round) … and one more in twelve whose tagged fields are all HIDDEN by a name collision among embedded structs
		// (two mix-ins with a same-named field, an embedded field shadowed by a field of the holder): expressions first
		for i := 0; i < n/12; i++ {
			vlRunCase(vlGenHiddenCase(rng.Fork()), w)
		}
		// (ninth round) … and one more in twelve whose holder is itself a USER POST-PROCESSOR (Go-declared, flag g9-g16; the
		// configuration is generated): created while the registered processors are resolved, its fields are processed like anybody's
		for i := 0; i < n/12; i++ {
			vlRunCase(vlGenPPHolderCase(rng.Fork()), w)
		}
	}, Replay: vlValueReplay, Corpus: vlValueExprCorpus})
}

// ---------------------------------------------------------------- corpora

func vlC17case(t *vlFty, v *vlCval, args string, labels ...string) *vlVcase {
	kv := map[string]*vlCval{"kz": vlCStr("zz")}
	if v.k != 'z' {
		kv["k"] = v
	}
	return &vlVcase{kind: "V3", t: t, cfg: vlCMap(kv), subject: v, args: args,
		tags: [][]vlTnode{{vlTPH("k")}, {vlTLit("k")}, {vlTLit("k")}}, labels: append([]string{"corpus"}, labels...)}
}

func vlValueCorpus(w *hx.Writer) {
	// the representatives of the known lossy value path (one per class) and their neighbours
	for _, s := range []string{"1.10", "007", "TRUE", "false", "'q'", `"q"`, "[a,b]", `{"a":1}`, "map[a:b]", "9007199254740993",
		"", "#{1+2}", "a${kz}b", "${kz:d}", "plain", "a b", "a,b", "a:b", "{a}", "a{b}c", "x=y", "日本", "1e5", ".5", "0x10", "-0", "12", "-7", "3.25", "'", "[", "[]", "{}"} {
		vlRunCase(vlC17case(vlTS, vlCStr(s), ""), w)
	}
	for _, i := range []int64{0, 7, -7, 1<<53 - 1, 1 << 53, 1<<53 + 1, -(1<<53 + 1), 1<<63 - 1, -(1 << 62)} {
		for _, t := range []*vlFty{vlTI, vlTJ, vlTS, vlTD, vlTA, vlTLI} {
			vlRunCase(vlC17case(t, vlCInt(i), ""), w)
		}
		if i >= 0 {
			vlRunCase(vlC17case(vlTU, vlCInt(i), ""), w)
		}
	}
	vlRunCase(vlC17case(vlTD, vlCDec("3.25"), ""), w)
	vlRunCase(vlC17case(vlTD, vlCDec("1234.56789"), ""), w) // nine significant digits: more than a float32 carries
	vlRunCase(vlC17case(vlTS, vlCDec("0.123456789"), ""), w)
	vlRunCase(vlC17case(vlTS, vlCDec("-0.5"), ""), w)
	vlRunCase(vlC17case(vlTI, vlCDec("3.75"), ""), w)
	vlRunCase(vlC17case(vlTB, vlCBool(true), ""), w)
	vlRunCase(vlC17case(vlTS, vlCBool(false), ""), w)
	vlRunCase(vlC17case(vlTPS, vlCStr("p"), ""), w)
	vlRunCase(vlC17case(vlTPI, vlCNull(), ",required=false"), w)
	vlRunCase(vlC17case(vlTS, vlCNull(), ""), w)
	vlRunCase(vlC17case(vlTS, vlCNull(), ",required=false"), w)
	vlRunCase(vlC17case(vlTS, vlCStr(""), ",required=false"), w)
	vlRunCase(vlC17case(vlTLS, vlCList(vlCStr("a"), vlCStr("1.10"), vlCStr("TRUE"), vlCStr("'q'"), vlCStr("[x]"), vlCStr("<&>")), ""), w)
	vlRunCase(vlC17case(vlTLS, vlCList(), ""), w)
	vlRunCase(vlC17case(vlTLS, vlCStr("solo"), ""), w)
	vlRunCase(vlC17case(vlTLI, vlCList(vlCInt(1), vlCInt(1<<53+1)), ""), w)
	vlRunCase(vlC17case(vlTMA, vlCMap(map[string]*vlCval{"a": vlCInt(1), "b": vlCStr("x y"), "c": vlCList(vlCInt(1), vlCStr("2")), "d": vlCMap(map[string]*vlCval{"e": vlCBool(true), "f": vlCNull()})}), ""), w)
	vlRunCase(vlC17case(vlTMS, vlCMap(map[string]*vlCval{"a": vlCStr("1.10"), "b": vlCStr("x")}), ""), w)
	vlRunCase(vlC17case(vlTMA, vlCMap(map[string]*vlCval{"a": vlCStr("a${b")}), ""), w)
	st := &vlFty{k: 'T', fields: []vlFfield{{"name", vlTS, ""}, {"port", vlTI, ""}, {"tags", vlTLS, ""}, {"inner", &vlFty{k: 'T', fields: []vlFfield{{"on", vlTB, ""}, {"ratio", vlTD, ""}}}, ""}, {"opt", vlTPI, ""}}}
	vlRunCase(vlC17case(st, vlCMap(map[string]*vlCval{"name": vlCStr("007"), "port": vlCInt(8080), "tags": vlCList(vlCStr("a"), vlCStr("b")), "inner": vlCMap(map[string]*vlCval{"on": vlCBool(true), "ratio": vlCDec("0.25")})}), ""), w)
	vlRunCase(vlC17case(st, vlCMap(map[string]*vlCval{"port": vlCStr("80"), "extra": vlCInt(1)}), ""), w)
	// fields that hold defaults before Run: the configured value replaces them (shorter list, other keys, fewer fields)
	for _, dep := range []bool{false, true} {
		vlRunCase(vlWith(vlC17case(vlTLI, vlCList(vlCInt(9000)), ""), true, dep), w)
		vlRunCase(vlWith(vlC17case(vlTLS, vlCList(vlCStr("a"), vlCStr("b")), ""), true, dep), w)
		vlRunCase(vlWith(vlC17case(vlTMS, vlCMap(map[string]*vlCval{"tier": vlCStr("gold")}), ""), true, dep), w)
		vlRunCase(vlWith(vlC17case(vlTMA, vlCMap(map[string]*vlCval{"a": vlCInt(1), "d": vlCMap(map[string]*vlCval{"e": vlCBool(true)})}), ""), true, dep), w)
		vlRunCase(vlWith(vlC17case(st, vlCMap(map[string]*vlCval{"port": vlCInt(8080), "inner": vlCMap(map[string]*vlCval{"on": vlCBool(false)})}), ""), true, dep), w)
		vlRunCase(vlWith(vlC17case(&vlFty{k: 'P', elem: st}, vlCMap(map[string]*vlCval{"name": vlCStr("n")}), ""), true, dep), w)
		vlRunCase(vlWith(vlC17case(vlTPI, vlCInt(5), ""), true, dep), w)
		vlRunCase(vlWith(vlC17case(vlTA, vlCInt(5), ""), true, dep), w)
		vlRunCase(vlWith(vlC17case(vlTS, vlCStr("plain"), ""), true, dep), w)
		vlRunCase(vlWith(vlC17case(vlTI, vlCInt(7), ""), true, dep), w)
		vlRunCase(vlWith(vlC17case(vlTLS, vlCList(), ""), true, dep), w)
		vlRunCase(vlWith(vlC17case(vlTLS, vlCStr("solo"), ""), true, dep), w)
	}
	// a declared default (`${k:d}`, `prop:"k:d"`) stands in for an absent key only: a configured value wins, also when it
	// is the zero value of its kind
	for _, d := range []struct {
		t    *vlFty
		v    *vlCval
		dflt string
		args string
	}{{vlTB, vlCBool(false), "true", ""}, {vlTI, vlCInt(0), "3", ""}, {vlTD, &vlCval{k: 'F', i: 0}, "0.5", ""}, {vlTS, vlCInt(0), "3", ""},
		{vlTA, vlCBool(false), "true", ""}, {vlTPI, vlCInt(0), "3", ",required=false"}, {vlTI, vlCInt(7), "3", ""}, {vlTS, vlCStr("plain"), "other", ""},
		{vlTB, vlCBool(true), "false", ""}, {vlTD, &vlCval{k: 'F', i: 12}, "0.5", ""}, {vlTLS, vlCList(vlCStr("a")), "[x,y]", ""},
		{vlTS, vlCNull(), "other", ""}, {vlTI, vlCNull(), "3", ",required=false"}, {vlTLI, vlCNull(), "[1,2]", ""}} {
		c := vlC17case(d.t, d.v, d.args, "defaulted")
		c.tags = [][]vlTnode{{vlTPHD("k", d.dflt)}, {vlTLit("k:" + d.dflt)}, {vlTLit("k")}}
		vlRunCase(c, w)
	}
	// literals
	for _, l := range []struct {
		t   *vlFty
		lit string
		v   *vlCval
	}{{vlTS, "hello", vlCStr("hello")}, {vlTS, "a b", vlCStr("a b")}, {vlTS, "007", vlCStr("007")}, {vlTS, "TRUE", vlCStr("TRUE")}, {vlTI, "42", vlCInt(42)}, {vlTD, "2.5", vlCDec("2.5")},
		{vlTB, "true", vlCBool(true)}, {vlTLS, "[a,b]", vlCList(vlCStr("a"), vlCStr("b"))}, {vlTLI, "[1,2,3]", vlCList(vlCInt(1), vlCInt(2), vlCInt(3))},
		{vlTMA, "map[a:1 b:[x,y] c:map[d:e]]", vlCMap(map[string]*vlCval{"a": vlCInt(1), "b": vlCList(vlCStr("x"), vlCStr("y")), "c": vlCMap(map[string]*vlCval{"d": vlCStr("e")})})},
		{vlTS, "'q'", vlCStr("'q'")},
		// (tenth round) blanks at the edges of a literal belong to it: the tag text is bound as written
		{vlTS, " padded ", vlCStr(" padded ")}, {vlTS, "trail ", vlCStr("trail ")}, {vlTS, " lead", vlCStr(" lead")}, {vlTS, " two  words ", vlCStr(" two  words ")}} {
		c := &vlVcase{kind: "V3", t: l.t, cfg: vlCMap(map[string]*vlCval{"k": l.v}), subject: l.v, literal: true,
			tags: [][]vlTnode{{vlTLit(l.lit)}, {vlTLit("k")}, {vlTLit("k")}}, labels: []string{"corpus", "literal"}}
		vlRunCase(c, w)
		c2 := *c
		vlRunCase(vlWith(&c2, true, l.t.k == 'L'), w)
	}
	vlValueRetryCorpus(w)
	vlValueExprRetryCorpus(w)
	vlValueHSCorpus(w)
	vlValueDocCorpus(w)
	vlValueHMCorpus(w)
	vlValueHMDeepCorpus(w)
	vlValueKeyCorpus(w)
	vlValueCPCorpus(w)
}

// vlValueHSCorpus: a start, app.Set, a later population (kind HS): the later holder shows the CURRENT configuration.
func vlValueHSCorpus(w *hx.Writer) {
	db := &vlFty{k: 'T', fields: []vlFfield{{"host", vlTS, ""}, {"port", vlTI, ""}}}
	dbHost := &vlFty{k: 'T', fields: []vlFfield{{"host", vlTS, ""}}}
	pool := &vlFty{k: 'T', fields: []vlFfield{{"size", vlTI, ""}}}
	dbPool := &vlFty{k: 'T', fields: []vlFfield{{"host", vlTS, ""}, {"pool", pool, ""}}}
	doc := vlCMap(map[string]*vlCval{"db": vlCMap(map[string]*vlCval{"host": vlCStr("primary.internal"), "port": vlCInt(5432),
		"pool": vlCMap(map[string]*vlCval{"size": vlCInt(3), "idle": vlCInt(1)})}),
		"svc": vlCMap(map[string]*vlCval{"url": vlCStr("http://old.example"), "name": vlCStr("billing")})})
	replica := vlCStr("replica.internal")
	lateDb := []vlHField{{"prefix", dbHost, "db"}, {"value", vlTS, "${db.host}"}, {"prop", vlTS, "db.host"}, {"prop", vlTI, "db.port"}}
	for _, mode := range []string{"s", "w"} {
		mk := func(eager []vlHField, ops []vlSetOp, late []vlHField) {
			vlRunHS(&vlHSCase{mode: mode, cfg: doc, eager: eager, ops: ops, late: late, labels: []string{"corpus"}}, w)
		}
		// the start binds the section `db`, a key below it is set, a later holder binds the section and the key
		mk([]vlHField{{"prefix", db, "db"}}, []vlSetOp{{"db.host", replica}}, lateDb)
		mk([]vlHField{{"prefix", db, "db"}}, []vlSetOp{{"DB.Host", replica}}, lateDb)
		mk([]vlHField{{"prefix", vlTMA, "DB"}, {"prop", vlTI, "db.port"}}, []vlSetOp{{"db.host", replica}}, lateDb)
		mk([]vlHField{{"prefix", db, "db"}}, []vlSetOp{{"db.pool.size", vlCInt(9)}},
			[]vlHField{{"prefix", &vlFty{k: 'T', fields: []vlFfield{{"pool", pool, ""}}}, "db"}, {"prefix", pool, "db.pool"}, {"value", vlTI, "${db.pool.size}"}})
		mk([]vlHField{{"prefix", db, "db"}}, []vlSetOp{{"db.pool", vlCMap(map[string]*vlCval{"Size": vlCInt(11), "max": vlCInt(5)})}},
			[]vlHField{{"prefix", &vlFty{k: 'T', fields: []vlFfield{{"pool", pool, ""}}}, "db"}, {"prefix", vlTMA, "db.pool"}, {"prop", vlTI, "db.pool.max"}})
		mk([]vlHField{{"prefix", db, "db"}, {"value", vlTS, "${db.host}"}},
			[]vlSetOp{{"db", vlCMap(map[string]*vlCval{"host": replica, "pool": vlCMap(map[string]*vlCval{"size": vlCInt(7)})})}, {"db.pool.size", vlCInt(8)}},
			[]vlHField{{"prefix", dbPool, "db"}, {"value", vlTS, "jdbc://${db.host}/${db.pool.size}"}})
		// the start resolves a key (or finds it absent), its section is replaced (or appears), the key is resolved again
		svc := vlCMap(map[string]*vlCval{"url": vlCStr("http://new.example"), "name": vlCStr("billing")})
		early := []vlHField{{"value", vlTS, "${svc.url}"}, {"value", vlTS, "${svc.name}"}, {"value", vlTI, "${cache.ttl:30}"}}
		lateSvc := append(append([]vlHField{}, early...), vlHField{"value", vlTS, "${svc.url}/${svc.name}?ttl=${cache.ttl:30}"}, vlHField{"prop", vlTI, "cache.ttl:30"})
		mk(early, []vlSetOp{{"svc", svc}, {"cache", vlCMap(map[string]*vlCval{"ttl": vlCInt(60)})}}, lateSvc)
		mk(early, []vlSetOp{{"SVC.URL", vlCStr("http://new.example")}, {"cache.ttl", vlCInt(60)}}, lateSvc)
		mk(early, nil, lateSvc) // nothing is set: the later holder shows the document
		// KF-C17-9 (oracle setget-sibling-lost): Set("db.host") and a later binding of the WHOLE section: the struct gets port 0,
		// the map has neither port nor pool, while the shorthand / placeholder / prefix on `db.port` itself give 5432
		mk([]vlHField{{"prefix", db, "db"}}, []vlSetOp{{"db.host", replica}},
			[]vlHField{{"prefix", db, "db"}, {"prefix", vlTMA, "db"}, {"prop", vlTI, "db.port"}, {"value", vlTI, "${db.port}"}, {"prefix", vlTI, "db.port"}, {"value", vlTS, "${db.host}"}})
	}
	for n := range vlLazyTable {
		mk := func(eager []vlHField, ops ...vlSetOp) {
			vlRunHS(&vlHSCase{mode: "z" + strconv.Itoa(n), cfg: vlCMap(map[string]*vlCval{"sa": vlCMap(map[string]*vlCval{"ka": vlCStr("primary.internal"), "kb": vlCInt(5432), "kc": vlCBool(false),
				"sb": vlCMap(map[string]*vlCval{"kd": vlCStr("blue"), "ke": vlCInt(3)})})}), eager: eager, ops: ops, late: vlLazyTable[n].fields, labels: []string{"corpus", "lazy"}}, w)
		}
		mk([]vlHField{{"prefix", vlTSecA, "sa"}}, vlSetOp{"sa.ka", replica})
		mk([]vlHField{{"prefix", vlTMA, "sa"}, {"value", vlTI, "${sa.kx:30}"}}, vlSetOp{"sa.sb.ke", vlCInt(9)}, vlSetOp{"sa.kx", vlCInt(60)}, vlSetOp{"SA.KB", vlCInt(6543)})
		mk([]vlHField{{"value", vlTS, "${sa.ka}"}, {"prop", vlTI, "sa.sb.ke"}}, vlSetOp{"sa", vlCMap(map[string]*vlCval{"ka": replica, "kb": vlCInt(1), "kc": vlCBool(true),
			"sb": vlCMap(map[string]*vlCval{"kd": vlCStr("green"), "ke": vlCInt(4)})})})
		mk([]vlHField{{"prefix", vlTSecB, "sa.sb"}}, vlSetOp{"sa.sb", vlCMap(map[string]*vlCval{"Kd": vlCStr("green"), "KE": vlCInt(4)})}, vlSetOp{"sa.sb.kd", vlCStr("red")})
	}
}

// vlValueRetryCorpus: the same holder populated twice (the first creation fails, the configuration is changed with
// app.Set, the holder is fetched again): value placeholder, shorthand and prefix twin must all show the CURRENT value.
func vlValueRetryCorpus(w *hx.Writer) {
	mk := func(t *vlFty, v1, v2 *vlCval, gate string) *vlVcase {
		kv := map[string]*vlCval{"kz": vlCStr("zz")}
		if v1 != nil {
			kv["k"] = v1
		}
		set := map[string]*vlCval{"k": v2}
		if gate == "a0" || gate == "a1" {
			set[vlGateKey] = vlCInt(1)
		}
		return &vlVcase{kind: "R3", t: t, cfg: vlCMap(kv), set: vlCMap(set), gate: gate, subject: v2,
			tags: [][]vlTnode{{vlTPH("k")}, {vlTLit("k")}, {vlTLit("k")}}, labels: []string{"corpus", "retry", "gate-" + gate}}
	}
	for _, gate := range []string{"a0", "a1", "w"} {
		vlRunCase(mk(vlTS, vlCStr("a.example.org"), vlCStr("b.example.org"), gate), w)
		vlRunCase(mk(vlTI, vlCInt(5), vlCInt(7), gate), w)
	}
	vlRunCase(mk(vlTS, nil, vlCStr("b.example.org"), "n"), w) // not configured at all when the first creation runs
	vlRunCase(mk(vlTB, vlCBool(true), vlCBool(false), "w"), w)
	vlRunCase(mk(vlTD, vlCDec("0.25"), vlCDec("1.5"), "a1"), w)
	vlRunCase(mk(vlTLS, vlCList(vlCStr("a"), vlCStr("b")), vlCList(vlCStr("c")), "w"), w)
	vlRunCase(mk(vlTMA, vlCMap(map[string]*vlCval{"a": vlCInt(1)}), vlCMap(map[string]*vlCval{"b": vlCStr("x y")}), "a0"), w)
	vlRunCase(mk(vlTPI, vlCInt(5), vlCInt(0), "w"), w)
	st := &vlFty{k: 'T', fields: []vlFfield{{"host", vlTS, ""}, {"port", vlTI, ""}}}
	vlRunCase(mk(st, vlCMap(map[string]*vlCval{"host": vlCStr("a"), "port": vlCInt(80)}), vlCMap(map[string]*vlCval{"host": vlCStr("b")}), "w"), w)
	// the key itself comes from the configuration: hosts by environment
	for _, gate := range []string{"a0", "w"} {
		vlRunCase(&vlVcase{kind: "R3", t: vlTS, gate: gate, subject: vlCStr("http://localhost:8080"),
			cfg: vlCMap(map[string]*vlCval{"kenv": vlCStr("kdev"), "kdev": vlCStr("https://api.dev.example.org"), "klocal": vlCStr("http://localhost:8080")}),
			set: vlCMap(map[string]*vlCval{"kenv": vlCStr("klocal"), vlGateKey: vlCInt(1)}),
			tags: [][]vlTnode{{vlTLit("${"), vlTPH("kenv"), vlTLit("}")}, {vlTLit("${kenv}")}, {vlTLit("${kenv}")}}, labels: []string{"corpus", "retry", "indirect", "gate-" + gate}}, w)
	}
}

// vlWith sets the flags of a hand-written case.
func vlWith(c *vlVcase, prefill, dep bool) *vlVcase {
	c.prefill, c.dep = prefill, dep
	return c
}

func vlExprCase(t *vlFty, cfg map[string]*vlCval, args string, tree ...vlTnode) *vlVcase {
	return &vlVcase{kind: "E", t: t, cfg: vlCMap(cfg), args: args, tags: [][]vlTnode{tree}, labels: []string{"corpus"}}
}

func vlValueExprCorpus(w *hx.Writer) {
	two, three := vlCInt(2), vlCInt(3)
	cfg := map[string]*vlCval{"a": two, "b": three, "op": vlCStr("*"), "s": vlCStr("hi"), "q": vlCStr(`"quoted"`), "t": vlCBool(true)}
	vlRunCase(vlExprCase(vlTI, cfg, "", vlTExpr(vlTLit("1+2"))), w)
	vlRunCase(vlExprCase(vlTI, cfg, "", vlTExpr(vlTPH("a"), vlTLit("+"), vlTPH("b"))), w)
	vlRunCase(vlExprCase(vlTI, cfg, "", vlTExpr(vlTPH("a"), vlTLit(" "), vlTPH("op"), vlTLit(" "), vlTPH("b"))), w) // operator from the configuration
	vlRunCase(vlExprCase(vlTS, cfg, "", vlTExpr(vlTPH("q"), vlTLit(` + "!"`))), w)                                  // placeholder expands to a quoted literal
	vlRunCase(vlExprCase(vlTS, cfg, "", vlTExpr(vlTLit(`"`), vlTPH("s"), vlTLit(`" + "!"`))), w)                    // placeholder inside quotes
	vlRunCase(vlExprCase(vlTI, cfg, "", vlTExpr(vlTPHD("missing", "7"), vlTLit("*2"))), w)                          // #{…} containing ${…:default}
	vlRunCase(vlExprCase(vlTI, cfg, "", vlTExpr(vlTPHD("a", "7"), vlTLit("*2"))), w)
	vlRunCase(vlExprCase(vlTD, cfg, "", vlTExpr(vlTLit("10/4"))), w)
	vlRunCase(vlExprCase(vlTS, cfg, "", vlTExpr(vlTLit("10/4"))), w)
	vlRunCase(vlExprCase(vlTB, cfg, "", vlTExpr(vlTPH("t"), vlTLit(" && 1 < 2"))), w)
	vlRunCase(vlExprCase(vlTS, cfg, "", vlTExpr(vlTPH("a"), vlTLit(" > 1 ? \"big\" : \"small\""))), w)
	vlRunCase(vlExprCase(vlTB, cfg, "", vlTExpr(vlTPH("a"), vlTLit(" in [1,2,3]"))), w)
	vlRunCase(vlExprCase(vlTLI, cfg, "", vlTExpr(vlTLit("[1,"), vlTPH("a"), vlTLit(",3]"))), w)
	vlRunCase(vlExprCase(vlTS, cfg, "", vlTLit("v"), vlTExpr(vlTLit("1+1")), vlTLit(".x")), w)
	vlRunCase(vlExprCase(vlTS, cfg, "", vlTExpr(vlTLit("1+")), vlTLit("")), w) // compile error
	vlRunCase(vlExprCase(vlTS, cfg, "", vlTExpr(vlTLit("nil"))), w)
	vlRunCase(vlExprCase(vlTI, cfg, ",validate=min=4", vlTExpr(vlTPH("a"), vlTLit("+"), vlTPH("b"))), w) // validate on an expression's value
	vlRunCase(vlExprCase(vlTI, cfg, ",validate=max=4", vlTExpr(vlTPH("a"), vlTLit("+"), vlTPH("b"))), w)
	vlRunCase(vlExprCase(vlTI, cfg, ",validate=min=3", vlTPH("a")), w)
	vlRunCase(vlExprCase(vlTI, cfg, ",validate=min=1 max=3", vlTPH("a")), w)
	vlRunCase(vlExprCase(vlTS, cfg, ",validate=required", vlTPH("nothing")), w)
	vlRunCase(vlExprCase(vlTS, cfg, ",validate=required,required=false", vlTPH("nothing")), w) // optional & absent: validator sees ""
	vlRunCase(vlExprCase(vlTPI, cfg, ",validate=min=5,required=false", vlTPH("nothing")), w)   // optional nil pointer: skipped
	vlRunCase(vlExprCase(vlTPI, cfg, ",validate=min=5", vlTPH("a")), w)
	st := &vlFty{k: 'T', fields: []vlFfield{{"name", vlTS, "required,min=2"}, {"port", vlTI, "min=1,max=65535"}}}
	m := func(name string, port int64) map[string]*vlCval {
		return map[string]*vlCval{"k": vlCMap(map[string]*vlCval{"name": vlCStr(name), "port": vlCInt(port)})}
	}
	vlRunCase(vlExprCase(st, m("ab", 80), ",validate", vlTPH("k")), w)
	vlRunCase(vlExprCase(st, m("a", 80), ",validate", vlTPH("k")), w)
	vlRunCase(vlExprCase(st, m("ab", 0), ",validate", vlTPH("k")), w)
	vlRunCase(vlExprCase(st, m("a", 0), "", vlTPH("k")), w) // no validate argument: the field tags are not consulted
	vlRunCase(vlExprCase(&vlFty{k: 'P', elem: st}, m("a", 80), ",validate", vlTPH("k")), w)
	q := &vlVcase{kind: "Q", t: st, cfg: vlCMap(m("a", 80)), args: ",validate", tags: [][]vlTnode{{vlTLit("k")}}, labels: []string{"corpus"}}
	vlRunCase(q, w)
	// a nested section with its own constraint: `required` on a struct member is violated by an absent / all-zero section
	ep := &vlFty{k: 'T', fields: []vlFfield{{"host", vlTS, ""}, {"port", vlTI, ""}}}
	cl := &vlFty{k: 'T', fields: []vlFfield{{"name", vlTS, "required"}, {"endpoint", ep, "required"}}}
	clOpt := &vlFty{k: 'T', fields: []vlFfield{{"name", vlTS, "required"}, {"endpoint", ep, ""}}}
	clPtr := &vlFty{k: 'T', fields: []vlFfield{{"name", vlTS, "required"}, {"endpoint", &vlFty{k: 'P', elem: ep}, "required"}}}
	full := map[string]*vlCval{"k": vlCMap(map[string]*vlCval{"name": vlCStr("svc"), "endpoint": vlCMap(map[string]*vlCval{"host": vlCStr("h"), "port": vlCInt(80)})})}
	noEp := map[string]*vlCval{"k": vlCMap(map[string]*vlCval{"name": vlCStr("svc")})}
	zeroEp := map[string]*vlCval{"k": vlCMap(map[string]*vlCval{"name": vlCStr("svc"), "endpoint": vlCMap(map[string]*vlCval{"host": vlCStr(""), "port": vlCInt(0)})})}
	for _, ty := range []*vlFty{cl, {k: 'P', elem: cl}, clOpt, clPtr} {
		for _, cf := range []map[string]*vlCval{full, noEp, zeroEp} {
			vlRunCase(vlExprCase(ty, cf, ",validate", vlTPH("k")), w)
			vlRunCase(&vlVcase{kind: "Q", t: ty, cfg: vlCMap(cf), args: ",validate", tags: [][]vlTnode{{vlTLit("k")}}, labels: []string{"corpus"}}, w)
		}
	}
	vlRunCase(vlExprCase(cl, noEp, "", vlTPH("k")), w) // no validate argument
	// a placeholder that declares a default inside an expression: the configured value is substituted, also 0 and false
	zcfg := map[string]*vlCval{"n0": vlCInt(0), "f0": vlCBool(false), "d0": {k: 'F', i: 0}, "a": two}
	vlRunCase(vlExprCase(vlTI, zcfg, "", vlTExpr(vlTPHD("n0", "7"), vlTLit("*2+"), vlTPHD("a", "9"))), w)
	vlRunCase(vlExprCase(vlTB, zcfg, "", vlTExpr(vlTPHD("f0", "true"), vlTLit(" || 1 > 2"))), w)
	vlRunCase(vlExprCase(vlTD, zcfg, "", vlTExpr(vlTPHD("d0", "0.5"), vlTLit(" + 1.5"))), w)
	vlRunCase(vlExprCase(vlTS, zcfg, "", vlTLit("retry/"), vlTPHD("n0", "3"), vlTLit("/x")), w)
	// a placeholder whose key (or default) is built from another placeholder: substituted inside-out, BEFORE the
	// expression is evaluated / the value is bound and validated — rates by tier, greetings by region
	rates := map[string]*vlCval{"tier": vlCStr("gold"), "region": vlCStr("eu"), "rate_gold": vlCInt(3), "rate_silver": vlCInt(2),
		"greeting-eu": vlCStr("hello"), "greeting-us": vlCStr("howdy"), "level": vlCInt(2), "limit2": vlCInt(40), "limit3": vlCInt(4), "fallback": vlCInt(7)}
	byTier := vlTPHN(vlTLit("rate_"), vlTPH("tier"))
	vlRunCase(vlExprCase(vlTI, rates, "", vlTExpr(byTier, vlTLit("*100"))), w)
	vlRunCase(vlExprCase(vlTS, rates, "", vlTExpr(vlTLit("'"), vlTPHN(vlTLit("greeting-"), vlTPH("region")), vlTLit("'+' '+'world'"))), w)
	vlRunCase(vlExprCase(vlTI, rates, ",validate=eq=5", vlTExpr(vlTPH("rate_silver"), vlTLit("+"), byTier)), w) // after another placeholder
	vlRunCase(vlExprCase(vlTI, rates, ",validate=eq=6", vlTExpr(vlTPH("rate_silver"), vlTLit("+"), byTier)), w)
	vlRunCase(vlExprCase(vlTI, rates, "", vlTExpr(byTier, vlTLit("+"), vlTPH("rate_silver"))), w) // before another placeholder
	vlRunCase(vlExprCase(vlTI, rates, ",validate=min=3", byTier), w)                              // value x constraint through a computed key
	vlRunCase(vlExprCase(vlTI, rates, ",validate=min=4", byTier), w)
	vlRunCase(vlExprCase(vlTI, rates, ",validate=max=10", vlTPHN(vlTLit("limit"), vlTPH("level"))), w) // the selector is a number
	vlRunCase(vlExprCase(vlTI, rates, ",validate=max=10", vlTPHN(vlTLit("limit"), vlTPHD("nolevel", "3"))), w)
	vlRunCase(vlExprCase(vlTI, rates, "", vlTExpr(vlTPHND([]vlTnode{vlTLit("rate_"), vlTPH("region")}, []vlTnode{vlTLit("9")}), vlTLit("*2"))), w) // rate_eu is not configured: the default
	vlRunCase(vlExprCase(vlTI, rates, "", vlTExpr(vlTPHND([]vlTnode{vlTLit("rate_"), vlTPH("tier")}, []vlTnode{vlTLit("9")}), vlTLit("*2"))), w)   // configured: not the default
	vlRunCase(vlExprCase(vlTI, rates, "", vlTExpr(vlTPHND([]vlTnode{vlTLit("missing")}, []vlTnode{vlTPH("fallback")}), vlTLit("+1"))), w)          // the default comes from the configuration
	vlRunCase(vlExprCase(vlTI, map[string]*vlCval{"env": vlCStr("prod"), "tier_prod": vlCStr("silver"), "rate_gold": vlCInt(3), "rate_silver": vlCInt(2)}, "",
		vlTExpr(vlTPHN(vlTLit("rate_"), vlTPHN(vlTLit("tier_"), vlTPH("env"))), vlTLit("*100"))), w) // two levels
	vlRunCase(vlExprCase(vlTS, rates, "", vlTLit("say "), vlTPHN(vlTLit("greeting-"), vlTPH("region")), vlTLit("!")), w) // no expression at all
	vlRunCase(&vlVcase{kind: "Q", t: vlTI, cfg: vlCMap(rates), args: ",validate=min=3", tags: [][]vlTnode{{vlTLit("rate_"), vlTPH("tier")}}, labels: []string{"corpus"}}, w)
	// holders that also have a component field: both property groups reach the processors, in either order
	vlRunCase(vlWith(vlExprCase(vlTI, cfg, "", vlTExpr(vlTPH("a"), vlTLit("+"), vlTPH("b"), vlTLit("*2"))), false, true), w)
	vlRunCase(vlWith(vlExprCase(vlTB, cfg, "", vlTExpr(vlTPH("a"), vlTLit("+"), vlTPH("b"), vlTLit(">2"))), false, true), w)
	vlRunCase(vlWith(vlExprCase(vlTS, cfg, "", vlTExpr(vlTLit(`"`), vlTPH("s"), vlTLit(`" + "-" + `), vlTPH("q"))), false, true), w)
	vlRunCase(vlWith(vlExprCase(vlTS, cfg, "", vlTExpr(vlTLit("1+")), vlTLit("")), false, true), w)
	vlRunCase(vlWith(vlExprCase(vlTI, cfg, ",validate=min=6", vlTExpr(vlTPH("a"), vlTLit("+"), vlTPH("b"))), false, true), w)
	vlRunCase(vlWith(vlExprCase(vlTI, cfg, ",validate=min=3", vlTPH("a")), false, true), w)
	vlRunCase(vlWith(vlExprCase(st, m("a", 80), ",validate", vlTPH("k")), false, true), w)
	q2 := *q
	vlRunCase(vlWith(&q2, false, true), w)
	// pointer fields bound to the zero value of their pointee: the validator is handed the pointer — `required` holds,
	// `omitempty` does not skip
	zc := map[string]*vlCval{"retries": vlCInt(0), "verbosity": vlCInt(1), "burst": vlCInt(0), "ratio": {k: 'F', i: 0}, "debug": vlCBool(false), "name": vlCStr(""), "n": vlCInt(4)}
	vlRunCase(vlExprCase(vlTPI, zc, ",validate=required", vlTPH("retries")), w)
	vlRunCase(vlExprCase(vlTPB, zc, ",validate=required", vlTExpr(vlTPH("verbosity"), vlTLit(">3"))), w)
	vlRunCase(vlExprCase(vlTPI, zc, ",validate=omitempty min=1", vlTExpr(vlTPH("burst"), vlTLit("*2"))), w)
	vlRunCase(vlExprCase(vlTPI, zc, ",validate=omitempty min=1", vlTPH("burst")), w)
	vlRunCase(vlExprCase(vlTPB, zc, ",validate=omitempty eq=true", vlTPH("debug")), w)
	vlRunCase(vlExprCase(vlTPD, zc, ",validate=required", vlTPH("ratio")), w)
	vlRunCase(vlExprCase(vlTPD, zc, ",validate=omitempty gt=0", vlTPH("ratio")), w)
	vlRunCase(vlExprCase(vlTPU, zc, ",validate=required", vlTPH("retries")), w)
	vlRunCase(vlExprCase(vlTPJ, zc, ",validate=required min=0", vlTPH("retries")), w)
	vlRunCase(vlExprCase(vlTPI, zc, ",validate=required min=5", vlTExpr(vlTPH("verbosity"), vlTLit("+4"))), w) // controls: non-zero pointees
	vlRunCase(vlExprCase(vlTPI, zc, ",validate=required min=5", vlTExpr(vlTPH("verbosity"), vlTLit("+3"))), w)
	vlRunCase(vlExprCase(vlTPI, zc, ",validate=omitempty min=5", vlTPH("n")), w)
	for _, cons := range []string{"required", "omitempty min=2"} {
		vlRunCase(&vlVcase{kind: "Q", t: vlTPS, cfg: vlCMap(zc), args: ",validate=" + cons, tags: [][]vlTnode{{vlTLit("name")}}, labels: []string{"corpus"}}, w)
		vlRunCase(&vlVcase{kind: "Q", t: vlTPI, cfg: vlCMap(zc), args: ",validate=" + cons, tags: [][]vlTnode{{vlTLit("retries")}}, labels: []string{"corpus"}}, w)
	}
	// quote characters are ordinary bytes of a tag: an apostrophe (an odd number of quotes) in the text around an expression,
	// in a default, in a literal, in a string of the expression does not hide the validate argument behind it
	qc := map[string]*vlCval{"n": three, "greeting": vlCStr("hello there")}
	clock := []vlTnode{vlTExpr(vlTPHD("n", "2"), vlTLit("*3")), vlTLit(" o'clock")}
	vlRunCase(vlExprCase(vlTS, qc, ",validate=startswith=6", clock...), w) // 9 o'clock: violated
	vlRunCase(vlExprCase(vlTS, qc, ",validate=startswith=9", clock...), w)
	vlRunCase(vlExprCase(vlTS, map[string]*vlCval{"kz": vlCStr("zz")}, ",validate=startswith=6", clock...), w) // n absent: 6 o'clock
	vlRunCase(vlExprCase(vlTS, qc, ",validate=max=8", vlTPHD("motd", "don't panic")), w)                          // 11 characters: violated
	vlRunCase(vlExprCase(vlTS, qc, ",validate=max=11", vlTPHD("motd", "don't panic")), w)
	vlRunCase(vlExprCase(vlTS, qc, ",validate=max=8", vlTPHD("greeting", "don't panic")), w) // configured: 11 characters as well
	vlRunCase(vlExprCase(vlTS, qc, ",validate=len=3", vlTLit(`5" pipe`)), w)
	vlRunCase(vlExprCase(vlTS, qc, ",validate=len=7", vlTLit(`5" pipe`)), w)
	vlRunCase(vlExprCase(vlTS, qc, ",validate=endswith=x", vlTLit(`say "hi" `), vlTPH("greeting")), w) // balanced quotes
	vlRunCase(vlExprCase(vlTI, qc, ",validate=min=7", vlTExpr(vlTLit(`len("a\"b") + `), vlTPH("n"))), w) // an escaped quote inside the expression: 6
	vlRunCase(vlExprCase(vlTI, qc, ",validate=min=6", vlTExpr(vlTLit(`len("a\"b") + `), vlTPH("n"))), w)
	vlRunCase(vlExprCase(vlTS, qc, ",validate=contains=Zq,required=false", vlTExpr(vlTLit(`"it's " + "`), vlTPH("greeting"), vlTLit(`"`)), vlTLit(" rock'n'roll '")), w)
	// the same holder populated twice: the expression is evaluated on the CURRENT values, validation judges what is bound
	hist := func(t *vlFty, cfg, set map[string]*vlCval, gate, args string, tree ...vlTnode) *vlVcase {
		c := vlExprCase(t, cfg, args, tree...)
		if gate == "a0" || gate == "a1" {
			set[vlGateKey] = vlCInt(1)
		}
		c.kind, c.set, c.gate = "RE", vlCMap(set), gate
		c.labels = []string{"corpus", "retry", "gate-" + gate}
		return c
	}
	pool := func(n int64) map[string]*vlCval { return map[string]*vlCval{"size": vlCInt(n)} }
	for _, gate := range []string{"a0", "a1", "w"} {
		vlRunCase(hist(vlTI, pool(2), pool(21), gate, "", vlTExpr(vlTPH("size"), vlTLit("*2"))), w)
		vlRunCase(hist(vlTI, pool(21), pool(2), gate, ",validate=min=10", vlTExpr(vlTPH("size"), vlTLit("+"), vlTPHD("extra", "0"))), w)
		vlRunCase(hist(vlTI, pool(3), pool(30), gate, ",validate=max=10", vlTPH("size")), w)
	}
	vlRunCase(hist(vlTI, pool(2), pool(21), "n", ",validate=min=10", vlTExpr(vlTPH("size"), vlTLit("+"), vlTPHD("extra", "0"))), w)
	vlRunCase(hist(vlTI, pool(2), pool(4), "n", ",validate=min=10", vlTExpr(vlTPH("size"), vlTLit("*2"))), w) // fails both times
	vlRunCase(hist(vlTI, map[string]*vlCval{"kz": vlCStr("zz")}, pool(21), "n", "", vlTExpr(vlTPH("size"), vlTLit("*2"))), w)
	vlRunCase(hist(vlTS, map[string]*vlCval{"a": two, "b": three, "op": vlCStr("+")}, map[string]*vlCval{"op": vlCStr("*")}, "w", "", vlTExpr(vlTPH("a"), vlTLit(" "), vlTPH("op"), vlTLit(" "), vlTPH("b"))), w)
	vlRunCase(hist(vlTB, map[string]*vlCval{"t": vlCBool(true)}, map[string]*vlCval{"t": vlCBool(false)}, "a1", "", vlTExpr(vlTPH("t"), vlTLit(" && 1 < 2"))), w)
	vlRunCase(hist(vlTS, map[string]*vlCval{"kz": vlCStr("zz")}, map[string]*vlCval{"kz": vlCStr("yy")}, "w", "", vlTExpr(vlTLit("1+2"))), w) // no placeholder at all
	rq := &vlVcase{kind: "RQ", t: st, cfg: vlCMap(m("ab", 80)), set: vlCMap(m("a", 80)), gate: "w", args: ",validate", tags: [][]vlTnode{{vlTLit("k")}}, labels: []string{"corpus", "retry", "gate-w"}}
	vlRunCase(rq, w)
	vlValueEmbeddedCorpus(w)
	vlValueTimeCorpus(w)
	vlValueHiddenCorpus(w)
	vlValuePPCorpus(w)
}

// ---------------------------------------------------------------- histories with app.Set between two populations (kind HS)
//
//	HS <mode> <cfg> <ops> <eager> <late>
//
//	mode   s    two Apps that share one Configure: the first App starts (SUCCESSFULLY) with the eager holder, the
//	            configuration is changed with app.Set, then a second App — app.SetConfigure(first.Configure), no loaders —
//	            starts with the late holder
//	       w    one App: the start creates the eager holder and then fails while the late holder is created (the late
//	            holder's properties are populated, then its required, lazily created dependency cannot be initialised: its
//	            upstream is down); app.Set; the upstream comes up; GetComponentByName(late) creates the late holder again
//	       z<n> one App: the start succeeds (the eager holder is created; the late holder is the LazyInit component number n
//	            of vlLazyTable and is left alone); app.Set; GetComponentByName(late) creates it
//	cfg    m(hexkey=val,…)       the YAML document: nested maps, lower-case keys without dots
//	ops    o(hexpath=val,…)      app.Set(path, val) in this order; a path is dotted and may be written in any letter case
//	eager, late   h(<name>:<ty>:<hextag>,…)   the tagged fields of a holder: name = value | prop | prefix, every field with
//	            its own type; the eager holder's fields are called E0…, the late holder's L0…
//
// Observation: `<start: ok|err> <eager field>… <second: ok|err> <late field>…` (the eager fields after the start; nothing
// behind a failed start except in mode w, where the start is meant to fail; the late fields only after a second
// population that succeeded).
//
// Oracles (C17, on the real run only).  The harness keeps its own account of the configuration: the document, and the
// values handed to Set composed in order (a later Set at or above a path replaces what was set there, a Set below it
// changes that part).  What the library answers for a path that was never handed to Set but lies beside one that was
// (`db.port` read through `prefix:"db"` after Set("db.host", …)) depends on how the binder layers its sources — the
// oracle claims nothing there.  It claims:
//
//	a path no Set is at, above or below          → the document's value
//	a path with a Set at or above it that gave it a value → that value (with everything set below it later)
//
// and judges every late field whose path is of one of these two kinds — a struct bound by prefix member by member, a
// placeholder text placeholder by placeholder: the field must hold the CURRENT value converted to its type.  A field that
// shows what the document said before Set: setget-stale; any other difference: setget-current; an eager field that does
// not hold the document's value: setget-first.
//
// Sixth round — the first kind of path also when it is reached THROUGH a binding of an ancestor: a member of a struct (a key
// of a map[string]…) bound by `prefix:"db"` whose own path no Set is at, above or below, while some Set went below `db`
// beside it.  Its configured value is the document's (nothing changed it; `prop:"db.port"` says so too).  The library loses
// it — finding KF-C17-9, kept in the model (`Binder.get`), pinned by C17_set_sibling_lost_counterexample: reported as
// setget-sibling-lost exactly when the member is LOST (struct member zero, map key missing); a member that holds some other
// wrong value is setget-current like every other difference.  Both verdicts of one history are reported (" ;; ").

type vlSetOp struct {
	path string
	val  *vlCval
}

type vlHField struct {
	name string // value | prop | prefix
	t    *vlFty
	tag  string // the whole tag text
}

type vlHSCase struct {
	mode   string
	cfg    *vlCval
	ops    []vlSetOp
	eager  []vlHField
	late   []vlHField
	labels []string
}

func vlOpsTok(ops []vlSetOp) string {
	var p []string
	for _, o := range ops {
		p = append(p, hx.Hex(o.path)+"="+o.val.tok())
	}
	return "o(" + strings.Join(p, ",") + ")"
}

func vlParseOps(s string) ([]vlSetOp, bool) {
	if !strings.HasPrefix(s, "o(") {
		return nil, false
	}
	rest := s[2:]
	var ops []vlSetOp
	for {
		if rest == ")" {
			return ops, true
		}
		i := strings.IndexByte(rest, '=')
		if i < 0 {
			return nil, false
		}
		p, err := hx.UnHex(rest[:i])
		if err != nil {
			return nil, false
		}
		v, r2, ok := vlParseCval(rest[i+1:])
		if !ok {
			return nil, false
		}
		ops = append(ops, vlSetOp{p, v})
		rest = strings.TrimPrefix(r2, ",")
	}
}

func vlHolderTok(fs []vlHField) string {
	var p []string
	for _, f := range fs {
		p = append(p, f.name+":"+f.t.code()+":"+hx.Hex(f.tag))
	}
	return "h(" + strings.Join(p, ",") + ")"
}

func vlParseHolder(s string) ([]vlHField, bool) {
	if !strings.HasPrefix(s, "h(") {
		return nil, false
	}
	rest := s[2:]
	var fs []vlHField
	for {
		if rest == ")" {
			return fs, true
		}
		i := strings.IndexByte(rest, ':')
		if i < 0 {
			return nil, false
		}
		name := rest[:i]
		if name != "value" && name != "prop" && name != "prefix" {
			return nil, false
		}
		t, r2, ok := vlParseFty(rest[i+1:])
		if !ok || !strings.HasPrefix(r2, ":") {
			return nil, false
		}
		r2 = r2[1:]
		j := strings.IndexAny(r2, ",)")
		if j < 0 {
			return nil, false
		}
		tag, err := hx.UnHex(r2[:j])
		if err != nil {
			return nil, false
		}
		fs = append(fs, vlHField{name, t, tag})
		rest = strings.TrimPrefix(r2[j:], ",")
	}
}

// ---- LazyInit holders (mode z): Go-declared types — a struct type made with reflect.StructOf cannot carry the LazyInit
// method — over a fixed vocabulary: section `sa` with the leaves ka (string), kb (int), kc (bool) and the sub-section
// `sb` with the leaves kd (string), ke (int).

type vlSecB struct {
	Kd string `yaml:"kd"`
	Ke int    `yaml:"ke"`
}

type vlSecA struct {
	Ka string `yaml:"ka"`
	Kb int    `yaml:"kb"`
	Sb vlSecB `yaml:"sb"`
}

type vlSecHost struct {
	Ka string `yaml:"ka"`
}

type vlLazy1 struct {
	definition.LazyInitComponent
	L0 vlSecA `prefix:"sa"`
	L1 string `value:"${sa.ka}"`
	L2 string `prop:"sa.ka"`
	L3 int    `prop:"sa.kb"`
}

type vlLazy2 struct {
	definition.LazyInitComponent
	L0 map[string]any `prefix:"sa.sb"`
	L1 string         `value:"${sa.sb.kd}"`
	L2 int            `prop:"SA.SB.KE"`
	L3 vlSecB         `prefix:"sa.sb"`
	L4 string         `value:"${sa.ka}:${sa.sb.ke}"`
}

type vlLazy3 struct {
	definition.LazyInitComponent
	L0 vlSecHost `prefix:"sa"`
	L1 string    `prefix:"sa.ka"`
	L2 string    `value:"${sa.ka:none}"`
	L3 int       `prop:"sa.kx:30"`
	L4 bool      `value:"${sa.kc}"`
}

type vlLazy4 struct {
	definition.LazyInitComponent
	L0 map[string]any `prefix:"sa"`
	L1 int            `value:"${SA.KB}"`
	L2 int            `prop:"sa.sb.ke"`
	L3 *vlSecB        `prefix:"sa.sb"`
}

var (
	vlTSecB    = &vlFty{k: 'T', fields: []vlFfield{{"kd", vlTS, ""}, {"ke", vlTI, ""}}}
	vlTSecA    = &vlFty{k: 'T', fields: []vlFfield{{"ka", vlTS, ""}, {"kb", vlTI, ""}, {"sb", vlTSecB, ""}}}
	vlTSecHost = &vlFty{k: 'T', fields: []vlFfield{{"ka", vlTS, ""}}}
)

type vlLazyKind struct {
	mk     func() any
	fields []vlHField
}

var vlLazyTable = []vlLazyKind{
	{func() any { return &vlLazy1{} }, []vlHField{{"prefix", vlTSecA, "sa"}, {"value", vlTS, "${sa.ka}"}, {"prop", vlTS, "sa.ka"}, {"prop", vlTI, "sa.kb"}}},
	{func() any { return &vlLazy2{} }, []vlHField{{"prefix", vlTMA, "sa.sb"}, {"value", vlTS, "${sa.sb.kd}"}, {"prop", vlTI, "SA.SB.KE"}, {"prefix", vlTSecB, "sa.sb"}, {"value", vlTS, "${sa.ka}:${sa.sb.ke}"}}},
	{func() any { return &vlLazy3{} }, []vlHField{{"prefix", vlTSecHost, "sa"}, {"prefix", vlTS, "sa.ka"}, {"value", vlTS, "${sa.ka:none}"}, {"prop", vlTI, "sa.kx:30"}, {"value", vlTB, "${sa.kc}"}}},
	{func() any { return &vlLazy4{} }, []vlHField{{"prefix", vlTMA, "sa"}, {"value", vlTI, "${SA.KB}"}, {"prop", vlTI, "sa.sb.ke"}, {"prefix", &vlFty{k: 'P', elem: vlTSecB}, "sa.sb"}}},
}

func vlLazyIndex(mode string) int {
	if len(mode) < 2 || mode[0] != 'z' {
		return -1
	}
	n, err := strconv.Atoi(mode[1:])
	if err != nil || n < 0 || n >= len(vlLazyTable) {
		return -1
	}
	return n
}

func vlHSStructFields(prefix string, fs []vlHField) []reflect.StructField {
	var out []reflect.StructField
	for i, f := range fs {
		out = append(out, reflect.StructField{Name: fmt.Sprintf("%s%d", prefix, i), Type: f.t.rtype(), Tag: reflect.StructTag(vlStructTag(f.name, f.tag))})
	}
	return out
}

// vlRunHSReal: the history on the real container.
func vlRunHSReal(c *vlHSCase) (start string, eager []reflect.Value, second string, late []reflect.Value) {
	doc := vlYamlDoc(c.cfg)
	eh := reflect.New(reflect.StructOf(vlHSStructFields("E", c.eager)))
	var lh reflect.Value
	lateOff := 0
	upstream := &vlFailOnce{down: true}
	switch {
	case c.mode == "w":
		fs := append(vlHSStructFields("L", c.late), reflect.StructField{Name: "Dep", Type: reflect.TypeOf((*vlFailOnce)(nil)), Tag: `wire:""`})
		lh = reflect.New(reflect.StructOf(fs))
	case c.mode == "s":
		lh = reflect.New(reflect.StructOf(vlHSStructFields("L", c.late)))
	default:
		lh = reflect.ValueOf(vlLazyTable[vlLazyIndex(c.mode)].mk())
		lateOff = 1 // behind the embedded LazyInitComponent
	}
	set := func(a *app.App) {
		for _, o := range c.ops {
			a.Set(o.path, o.val.native())
		}
	}
	var err1, err2 error
	ran2 := false
	pan := hx.Guard(func() {
		a := app.NewApp()
		defer a.Close()
		switch {
		case c.mode == "s":
			err1 = a.Run(app.LogLevel(syslog.LvPanic), app.SetConfigLoader(loader.NewRawLoader([]byte(doc))), app.SetComponents(eh.Interface()))
			if err1 != nil {
				return
			}
			set(a)
			b := app.NewApp()
			defer b.Close()
			ran2 = true
			err2 = b.Run(app.LogLevel(syslog.LvPanic), app.SetConfigure(a.Configure), app.SetConfigLoader(), app.SetComponents(lh.Interface()))
		case c.mode == "w":
			err1 = a.Run(app.LogLevel(syslog.LvPanic), app.SetConfigLoader(loader.NewRawLoader([]byte(doc))), app.SetComponents(eh.Interface(), lh.Interface(), upstream))
			set(a)
			upstream.down = false
			ran2 = true
			_, err2 = a.GetComponentByName(framework_helper.GetComponentName(lh.Interface()))
		default:
			err1 = a.Run(app.LogLevel(syslog.LvPanic), app.SetConfigLoader(loader.NewRawLoader([]byte(doc))), app.SetComponents(eh.Interface(), lh.Interface()))
			if err1 != nil {
				return
			}
			set(a)
			ran2 = true
			_, err2 = a.GetComponentByName(framework_helper.GetComponentName(lh.Interface()))
		}
	})
	if pan != nil {
		return "panic", nil, "", nil
	}
	start = "ok"
	if err1 != nil {
		start = "err"
	}
	if err1 == nil || c.mode == "w" {
		for i := range c.eager {
			eager = append(eager, eh.Elem().Field(i))
		}
	}
	if ran2 {
		second = "ok"
		if err2 != nil {
			second = "err"
		} else {
			for i := range c.late {
				late = append(late, lh.Elem().Field(lateOff+i))
			}
		}
	}
	return
}

// ---- the harness's own account of the configuration

func vlMapGet(c *vlCval, k string) *vlCval {
	if c == nil || c.k != 'm' {
		return nil
	}
	for i, x := range c.mk {
		if x == k {
			return c.mv[i]
		}
	}
	return nil
}

func vlMapPut(c *vlCval, k string, v *vlCval) {
	for i, x := range c.mk {
		if x == k {
			c.mv[i] = v
			return
		}
	}
	c.mk = append(c.mk, k)
	c.mv = append(c.mv, v)
}

// vlLowerKeys: a copy with the keys of maps (and of maps inside maps) in lower case — keys are not case sensitive.
func vlLowerKeys(c *vlCval) *vlCval {
	if c.k != 'm' {
		return c
	}
	out := &vlCval{k: 'm'}
	for i, k := range c.mk {
		vlMapPut(out, strings.ToLower(k), vlLowerKeys(c.mv[i]))
	}
	return out
}

func vlPathOf(s string) []string { return strings.Split(strings.ToLower(s), ".") }

func vlGetPath(root *vlCval, path []string) *vlCval {
	cur := root
	for _, seg := range path {
		cur = vlMapGet(cur, seg)
		if cur == nil {
			return nil
		}
	}
	return cur
}

func vlIsPrefix(p, q []string) bool {
	if len(p) > len(q) {
		return false
	}
	for i := range p {
		if p[i] != q[i] {
			return false
		}
	}
	return true
}

// vlCurView: the document, and what was handed to Set, composed in order.
type vlCurView struct {
	doc  *vlCval
	set  *vlCval    // the values handed to Set, composed
	ops  [][]string // their paths
	note string
	lost []string // members of prefix-bound structs / maps that no Set touched and that were LOST (finding KF-C17-9)
}

// untouched: no Set is at, above or below the path.
func (cv *vlCurView) untouched(path []string) bool {
	for _, op := range cv.ops {
		if vlIsPrefix(op, path) || vlIsPrefix(path, op) {
			return false
		}
	}
	return true
}

// judgeSibling: a member reached through a prefix binding of an ancestor — a member of a struct, a key of a map — that no
// Set is at, above or below, while some Set went below that ancestor (beside the member): its configured value is still the
// document's value.  The known defect KF-C17-9 LOSES such a member (the ancestor is answered from what was handed to Set
// alone: the struct member stays zero, the map key is missing); that — and only that — is recorded in cv.lost.  A member
// that holds anything else than the document's value or nothing is an ordinary difference.
func (cv *vlCurView) judgeSibling(path []string, t *vlFty, got reflect.Value, present bool) (diff string, claimed int) {
	docv := vlGetPath(cv.doc, path)
	if docv == nil || docv.k == 'z' {
		return "", 0
	}
	want, err := vlDirectDecode(docv.native(), t.rtype())
	if err != nil {
		return "", 0
	}
	switch {
	case present && vlRender(want) == vlRender(got):
		return "", 1
	case !present || vlRender(got) == vlZeroRender(t):
		cv.lost = append(cv.lost, fmt.Sprintf("%s is lost (configured %s)", strings.Join(path, "."), vlRender(want)))
		return "", 1
	}
	return fmt.Sprintf("prefix member %s holds %s, configured %s", strings.Join(path, "."), vlRender(got), vlRender(want)), 1
}

func vlNewCurView(doc *vlCval, ops []vlSetOp) *vlCurView {
	cv := &vlCurView{doc: vlLowerKeys(doc), set: &vlCval{k: 'm'}}
	for _, o := range ops {
		path := vlPathOf(o.path)
		cv.ops = append(cv.ops, path)
		cur := cv.set
		for _, seg := range path[:len(path)-1] {
			next := vlMapGet(cur, seg)
			if next == nil || next.k != 'm' {
				next = &vlCval{k: 'm'}
				vlMapPut(cur, seg, next)
			}
			cur = next
		}
		vlMapPut(cur, path[len(path)-1], vlLowerKeys(o.val))
	}
	return cv
}

// at: the current value of a path and whether the harness's account is sure of it.  root: the path is looked up itself
// (not reached through a binding of one of its ancestors).
func (cv *vlCurView) at(path []string, root bool) (val *vlCval, sure bool) {
	comparable, above := false, false
	for _, op := range cv.ops {
		if vlIsPrefix(op, path) {
			comparable, above = true, true
		} else if vlIsPrefix(path, op) {
			comparable = true
		}
	}
	if !comparable {
		if root {
			return vlGetPath(cv.doc, path), true
		}
		return nil, false
	}
	if above {
		if v := vlGetPath(cv.set, path); v != nil && v.k != 'z' {
			return v, true
		}
	}
	return nil, false
}

func vlScalarSafe(v *vlCval) bool {
	switch v.k {
	case 's', 'i', 'b', 'f', 'F':
		return len(vlRiskClasses(v)) == 0
	}
	return false
}

// valueText: the text of a value tag's value part under the current view; ok=false: some placeholder is not claimed.
func (cv *vlCurView) valueText(tree []vlTnode) (string, bool) {
	var sb strings.Builder
	for _, n := range tree {
		switch n.kind {
		case 'l':
			if strings.ContainsAny(n.lit, "${}#") {
				return "", false
			}
			sb.WriteString(n.lit)
		case 'p':
			if n.keyT != nil || n.dfltT != nil || n.key == "" {
				return "", false
			}
			v, sure := cv.at(vlPathOf(n.key), true)
			if !sure {
				return "", false
			}
			if v == nil || v.k == 'z' {
				if n.dflt == nil || *n.dflt == "" {
					continue
				}
				var d any
				var err error
				if hx.Guard(func() { d, err = strconv2.ParseAny(*n.dflt) }) != nil || err != nil {
					return "", false
				}
				s, err := strconv2.FormatAny(d)
				if err != nil {
					return "", false
				}
				sb.WriteString(s)
				continue
			}
			if !vlScalarSafe(v) || (v.k == 's' && v.s == "") {
				return "", false
			}
			s, err := strconv2.FormatAny(v.native())
			if err != nil {
				return "", false
			}
			sb.WriteString(s)
		default:
			return "", false
		}
	}
	return sb.String(), true
}

// vlHSJudge: one field against a view; diff = "" when everything claimed holds; claimed = number of values judged;
// whole = the field as a whole had a sure, present value.
func (cv *vlCurView) judge(f vlHField, got reflect.Value) (diff string, claimed int, whole bool) {
	val, _ := vlSplitTagArgs(f.tag)
	switch f.name {
	case "prefix":
		if strings.ContainsAny(val, "${}#") || val == "" {
			return "", 0, false
		}
		return cv.judgePrefix(vlPathOf(val), f.t, got, true)
	case "prop", "value":
		tree := vlParseTagTree(val, true)
		if f.name == "prop" {
			tree = vlParseTagTree("${"+val+"}", true)
		}
		s, ok := cv.valueText(tree)
		if !ok || s == "" {
			return "", 0, false
		}
		var pv any
		var perr error
		if hx.Guard(func() { pv, perr = strconv2.ParseAny(s) }) != nil || perr != nil {
			return "", 0, false
		}
		want, err := vlDirectDecode(pv, f.t.rtype())
		if err != nil {
			return "", 0, false
		}
		if vlRender(want) != vlRender(got) {
			return fmt.Sprintf("%s:%q holds %s, configured %s", f.name, f.tag, vlRender(got), vlRender(want)), 1, true
		}
		return "", 1, true
	}
	return "", 0, false
}

func (cv *vlCurView) judgePrefix(path []string, t *vlFty, got reflect.Value, root bool) (diff string, claimed int, whole bool) {
	v, sure := cv.at(path, root)
	if sure {
		if v == nil || v.k == 'z' {
			return "", 0, false
		}
		want, err := vlDirectDecode(v.native(), t.rtype())
		if err != nil {
			return "", 0, false
		}
		if vlRender(want) != vlRender(got) {
			return fmt.Sprintf("prefix %s holds %s, configured %s", strings.Join(path, "."), vlRender(got), vlRender(want)), 1, true
		}
		return "", 1, true
	}
	if !root && cv.untouched(path) {
		// a member beside the paths that were set
		d, n := cv.judgeSibling(path, t, got, true)
		return d, n, false
	}
	// not sure of the subtree as a whole: a struct is judged member by member
	st := t
	if st.k == 'P' && st.elem.k == 'T' {
		if got.IsNil() {
			return "", 0, false
		}
		st, got = st.elem, got.Elem()
	}
	if st.k == 'M' && got.Kind() == reflect.Map {
		// … a map key by key, over the keys the document has: the keys that no Set is near
		if docv := vlGetPath(cv.doc, path); docv != nil && docv.k == 'm' {
			for _, k := range docv.mk {
				kp := append(append([]string{}, path...), k)
				if !cv.untouched(kp) {
					continue
				}
				e := got.MapIndex(reflect.ValueOf(k))
				present := e.IsValid()
				if !present {
					e = reflect.Zero(st.elem.rtype())
				}
				d, n := cv.judgeSibling(kp, st.elem, e, present)
				claimed += n
				if d != "" && diff == "" {
					diff = d
				}
			}
		}
		return diff, claimed, false
	}
	if st.k != 'T' {
		return "", 0, false
	}
	for i, f := range st.fields {
		d, n, _ := cv.judgePrefix(append(append([]string{}, path...), strings.ToLower(f.name)), f.t, got.Field(i), false)
		claimed += n
		if d != "" && diff == "" {
			diff = d
		}
	}
	return diff, claimed, false
}

func vlRunHS(c *vlHSCase, w *hx.Writer) {
	start, eager, second, late := vlRunHSReal(c)
	obs := []string{start}
	for _, v := range eager {
		obs = append(obs, vlRender(v))
	}
	if second != "" {
		obs = append(obs, second)
	}
	for _, v := range late {
		obs = append(obs, vlRender(v))
	}
	scn := strings.Join([]string{"HS", c.mode, c.cfg.tok(), vlOpsTok(c.ops), vlHolderTok(c.eager), vlHolderTok(c.late)}, " ")
	out := hx.Case{Scn: scn, Obs: strings.Join(obs, " "), Tags: append([]string{"setget", "mode-" + c.mode[:1]}, c.labels...)}
	first := vlNewCurView(c.cfg, nil)
	cur := vlNewCurView(c.cfg, c.ops)
	switch {
	case start == "panic":
		out.Oracle = "FAIL valuepath-panic the container panicked"
	default:
		for i, v := range eager {
			if d, _, _ := first.judge(c.eager[i], v); d != "" && out.Oracle == "" && (start == "ok" || c.mode == "w") {
				out.Oracle = "FAIL setget-first eager field " + d
			}
		}
		claimed, allWhole := 0, len(c.late) > 0
		for i, f := range c.late {
			var got reflect.Value
			if late != nil {
				got = late[i]
			} else {
				got = reflect.Zero(f.t.rtype())
			}
			d, n, whole := cur.judge(f, got)
			claimed += n
			allWhole = allWhole && whole
			if late == nil || d == "" || out.Oracle != "" {
				continue
			}
			sig := "setget-current"
			if d0, n0, _ := first.judge(f, got); n0 > 0 && d0 == "" {
				sig = "setget-stale" // the field holds what the document said before Set
			}
			out.Oracle = fmt.Sprintf("FAIL %s after %s: late field %s", sig, vlOpsTok(c.ops), d)
		}
		if second == "err" && allWhole && out.Oracle == "" {
			out.Oracle = fmt.Sprintf("FAIL setget-current after %s: the second population failed although every key of the late holder is configured", vlOpsTok(c.ops))
		}
		if claimed > 0 {
			out.Tags = append(out.Tags, "judged")
		}
		// the known defect is reported NEXT TO whatever else the history shows, under its own signature
		if late != nil && len(cur.lost) > 0 {
			lost := fmt.Sprintf("FAIL setget-sibling-lost after %s: bound by prefix through an ancestor, %s — no Set touched it, a Set touched a sibling below the same ancestor",
				vlOpsTok(c.ops), strings.Join(cur.lost, "; "))
			if out.Oracle == "" {
				out.Oracle = lost
			} else {
				out.Oracle += " ;; " + lost
			}
			out.Tags = append(out.Tags, "sibling-lost")
		}
	}
	w.Put(out)
}

func vlHSReplay(f []string, w *hx.Writer) {
	if len(f) != 6 {
		return
	}
	mode := f[1]
	if mode != "s" && mode != "w" && vlLazyIndex(mode) < 0 {
		return
	}
	cfg, rest, ok := vlParseCval(f[2])
	if !ok || rest != "" || cfg.k != 'm' {
		return
	}
	ops, ok := vlParseOps(f[3])
	if !ok {
		return
	}
	eager, ok1 := vlParseHolder(f[4])
	late, ok2 := vlParseHolder(f[5])
	if !ok1 || !ok2 {
		return
	}
	if n := vlLazyIndex(mode); n >= 0 && vlHolderTok(late) != vlHolderTok(vlLazyTable[n].fields) {
		return // the LazyInit holders are Go types: their fields are what the table says
	}
	vlRunHS(&vlHSCase{mode: mode, cfg: cfg, ops: ops, eager: eager, late: late, labels: []string{"replay"}}, w)
}

// ---- generators of histories

type vlHLeaf struct {
	path string // dotted, lower case
	name string // last segment
	t    *vlFty
	v    *vlCval
}

type vlHSGen struct {
	r      *hx.Rng
	sec    string
	sub    string // "" = no sub-section
	leaves []vlHLeaf
	subs   []vlHLeaf
	used   map[string]bool
}

func (g *vlHSGen) freshName() string {
	for {
		k := vlGenKey(g.r)
		if !g.used[k] {
			g.used[k] = true
			return k
		}
	}
}

func (g *vlHSGen) safe(t *vlFty) *vlCval {
	if v, ok := vlGenSafeFor(g.r, t); ok && !(v.k == 's' && v.s == "") {
		return v
	}
	switch t.k {
	case 'I':
		return vlCInt(int64(g.r.Intn(9000)))
	case 'B':
		return vlCBool(g.r.Bool())
	}
	return vlCStr(vlGenPlainWord(g.r) + ".internal")
}

func (g *vlHSGen) leaf(prefix string) vlHLeaf {
	name := g.freshName()
	t := []*vlFty{vlTS, vlTS, vlTI, vlTB}[g.r.Intn(4)]
	return vlHLeaf{path: prefix + "." + name, name: name, t: t, v: g.safe(t)}
}

// vary: another safe value of the leaf's type
func (g *vlHSGen) vary(l vlHLeaf) *vlCval {
	for try := 0; try < 8; try++ {
		v := g.safe(l.t)
		a, _ := vlExpectRender(v, l.t)
		b, _ := vlExpectRender(l.v, l.t)
		if a != b {
			return v
		}
	}
	return vlVaryValue(g.r, l.v, l.t)
}

func vlMapOfLeaves(ls []vlHLeaf, upper bool) map[string]*vlCval {
	kv := map[string]*vlCval{}
	for _, l := range ls {
		k := l.name
		if upper {
			k = strings.ToUpper(k[:1]) + k[1:]
		}
		kv[k] = l.v
	}
	return kv
}

func (g *vlHSGen) doc() *vlCval {
	sec := vlMapOfLeaves(g.leaves, false)
	if g.sub != "" {
		sec[g.sub] = vlCMap(vlMapOfLeaves(g.subs, false))
	}
	return vlCMap(map[string]*vlCval{"kz": vlCStr("zz"), g.sec: vlCMap(sec)})
}

// casing: the path as written in a tag or handed to Set — keys are not case sensitive
func (g *vlHSGen) casing(path string) string {
	switch g.r.Intn(6) {
	case 0:
		return strings.ToUpper(path)
	case 1:
		segs := strings.Split(path, ".")
		for i, s := range segs {
			if g.r.Bool() {
				segs[i] = strings.ToUpper(s[:1]) + s[1:]
			}
		}
		return strings.Join(segs, ".")
	}
	return path
}

func (g *vlHSGen) subStruct(all bool) *vlFty {
	t := &vlFty{k: 'T'}
	for _, l := range g.subs {
		if all || g.r.P(2, 3) {
			t.fields = append(t.fields, vlFfield{l.name, l.t, ""})
		}
	}
	if len(t.fields) == 0 {
		t.fields = append(t.fields, vlFfield{g.subs[0].name, g.subs[0].t, ""})
	}
	return t
}

// secStruct: a struct over members of the section; must = a leaf (of the section or of the sub-section) it has to read
func (g *vlHSGen) secStruct(must string) *vlFty {
	t := &vlFty{k: 'T'}
	for _, l := range g.leaves {
		if l.path == must || g.r.P(1, 2) {
			t.fields = append(t.fields, vlFfield{l.name, l.t, ""})
		}
	}
	if g.sub != "" {
		mustSub := strings.HasPrefix(must, g.sec+"."+g.sub+".")
		if mustSub || g.r.P(1, 2) {
			st := g.subStruct(mustSub)
			if g.r.P(1, 4) {
				st = &vlFty{k: 'P', elem: st}
			}
			t.fields = append(t.fields, vlFfield{g.sub, st, ""})
		}
	}
	if len(t.fields) == 0 {
		t.fields = append(t.fields, vlFfield{g.leaves[0].name, g.leaves[0].t, ""})
	}
	return t
}

func (g *vlHSGen) byValue(l vlHLeaf) vlHField {
	p := g.casing(l.path)
	switch g.r.Intn(5) {
	case 0:
		return vlHField{"prop", l.t, p}
	case 1:
		return vlHField{"prefix", l.t, p}
	case 2:
		if l.t.k == 'S' {
			return vlHField{"value", l.t, vlGenPlainWord(g.r) + "-${" + p + "}/" + vlGenPlainWord(g.r)}
		}
	}
	return vlHField{"value", l.t, "${" + p + "}"}
}

// ancestorField: the section (or the sub-section) bound by prefix as a struct that reads `must`, or as a map
func (g *vlHSGen) ancestorField(onSub bool, must string) vlHField {
	path := g.sec
	if onSub {
		path += "." + g.sub
	}
	path = g.casing(path)
	if g.r.P(1, 4) {
		return vlHField{"prefix", vlTMA, path}
	}
	if onSub {
		return vlHField{"prefix", g.subStruct(must != ""), path}
	}
	return vlHField{"prefix", g.secStruct(must), path}
}

func vlGenHS(r *hx.Rng) *vlHSCase {
	g := &vlHSGen{r: r, used: map[string]bool{"kz": true}}
	g.sec = "s" + string(vlSelAlpha[r.Intn(len(vlSelAlpha))]) + vlGenDigits(r, 1, false)
	for i, n := 0, 2+r.Intn(3); i < n; i++ {
		g.leaves = append(g.leaves, g.leaf(g.sec))
	}
	if r.P(2, 3) {
		g.sub = "g" + string(vlSelAlpha[r.Intn(len(vlSelAlpha))])
		for i, n := 0, 1+r.Intn(3); i < n; i++ {
			g.subs = append(g.subs, g.leaf(g.sec+"."+g.sub))
		}
	}
	c := &vlHSCase{mode: []string{"s", "s", "w"}[r.Intn(3)], cfg: g.doc()}
	all := append(append([]vlHLeaf{}, g.leaves...), g.subs...)
	target := all[r.Intn(len(all))] // the leaf the history turns on
	inSub := strings.HasPrefix(target.path, g.sec+"."+g.sub+".") && g.sub != ""
	changed := target
	changed.v = g.vary(target)
	shape := r.Intn(8)
	labels := []string{fmt.Sprintf("shape%d", shape)}
	setLeaf := vlSetOp{g.casing(target.path), changed.v}
	// the map handed to Set when the parent of the target is replaced: the target's new value, the siblings as they were
	parentMap := func(upper bool) (string, *vlCval) {
		ls := g.leaves
		parent := g.sec
		if inSub {
			ls, parent = g.subs, g.sec+"."+g.sub
		}
		var out []vlHLeaf
		for _, l := range ls {
			if l.path == target.path {
				l = changed
			} else if r.P(1, 4) {
				continue // a sibling that the new map does not mention
			}
			out = append(out, l)
		}
		kv := vlMapOfLeaves(out, upper)
		if !inSub && g.sub != "" && r.P(1, 2) {
			kv[g.sub] = vlCMap(vlMapOfLeaves(g.subs, false))
		}
		return parent, vlCMap(kv)
	}
	switch shape {
	case 0, 1, 2: // an ancestor is looked up first, a path below it is set, the ancestor is bound again
		onSub := inSub && r.Bool()
		c.eager = append(c.eager, g.ancestorField(onSub, ""))
		if r.Bool() {
			c.eager = append(c.eager, g.byValue(all[r.Intn(len(all))]))
		}
		c.ops = append(c.ops, setLeaf)
		c.late = append(c.late, g.ancestorField(onSub, target.path), g.byValue(changed), vlHField{"prop", target.t, g.casing(target.path)})
		labels = append(labels, "ancestor-then-leaf")
	case 3: // … the path below is a map: the sub-section is replaced while the section was looked up
		if g.sub == "" {
			c.eager = append(c.eager, g.ancestorField(false, ""))
			c.ops = append(c.ops, setLeaf)
		} else {
			c.eager = append(c.eager, g.ancestorField(false, ""))
			if !inSub {
				target = g.subs[r.Intn(len(g.subs))]
				changed = target
				changed.v = g.vary(target)
				inSub = true
			}
			p, m := parentMap(r.P(1, 3))
			c.ops = append(c.ops, vlSetOp{g.casing(p), m})
		}
		c.late = append(c.late, g.ancestorField(false, target.path), g.byValue(changed))
		labels = append(labels, "ancestor-then-submap")
	case 4, 5: // a leaf is looked up first, its parent (or the path in another letter case) is set, the leaf is read again
		c.eager = append(c.eager, g.byValue(target))
		if r.Bool() {
			c.eager = append(c.eager, g.ancestorField(inSub && r.Bool(), ""))
		}
		if r.P(2, 3) {
			p, m := parentMap(r.P(1, 3))
			c.ops = append(c.ops, vlSetOp{g.casing(p), m})
			labels = append(labels, "leaf-then-ancestor")
		} else {
			c.ops = append(c.ops, vlSetOp{strings.ToUpper(target.path), changed.v})
			labels = append(labels, "leaf-then-other-case")
		}
		c.late = append(c.late, g.byValue(changed), vlHField{"prop", target.t, g.casing(target.path)}, g.ancestorField(inSub && r.Bool(), target.path))
	case 6: // a key that is absent at first (its default is used), configured later by Set — on its own or with its section
		name := g.freshName()
		path := g.sec + "." + name
		t := []*vlFty{vlTS, vlTI}[r.Intn(2)]
		dflt, v := vlGenPlainWord(r), vlCStr(vlGenPlainWord(r)+"q")
		if t.k == 'I' {
			dflt, v = strconv.Itoa(r.Intn(50)), vlCInt(int64(60+r.Intn(900)))
		}
		if r.Bool() {
			path = "x" + g.sec + "." + name // the whole section is absent at first
		}
		c.eager = append(c.eager, vlHField{"value", t, "${" + path + ":" + dflt + "}"})
		if r.Bool() {
			c.eager = append(c.eager, g.ancestorField(false, ""))
		}
		if i := strings.LastIndexByte(path, '.'); r.Bool() && strings.HasPrefix(path, "x") {
			c.ops = append(c.ops, vlSetOp{g.casing(path[:i]), vlCMap(map[string]*vlCval{name: v})})
		} else {
			c.ops = append(c.ops, vlSetOp{g.casing(path), v})
		}
		c.late = append(c.late, vlHField{"value", t, "${" + path + ":" + dflt + "}"}, vlHField{"prop", t, g.casing(path) + ":" + dflt}, vlHField{"prefix", t, path + ",required=false"})
		if !strings.HasPrefix(path, "x") {
			st := &vlFty{k: 'T', fields: []vlFfield{{name, t, ""}, {g.leaves[0].name, g.leaves[0].t, ""}}}
			c.late = append(c.late, vlHField{"prefix", st, g.sec})
		}
		labels = append(labels, "absent-then-set")
	default: // several Set calls: the ancestor map replaced, then a leaf below it set again (or the other way round)
		c.eager = append(c.eager, g.ancestorField(inSub && r.Bool(), ""), g.byValue(target))
		p, m := parentMap(false)
		again := changed
		again.v = g.vary(changed)
		if r.Bool() {
			c.ops = append(c.ops, vlSetOp{g.casing(p), m}, vlSetOp{g.casing(target.path), again.v})
			changed = again
		} else {
			c.ops = append(c.ops, vlSetOp{g.casing(target.path), again.v}, vlSetOp{g.casing(p), m})
		}
		c.late = append(c.late, g.ancestorField(inSub && r.Bool(), target.path), g.byValue(changed), vlHField{"prop", target.t, target.path})
		labels = append(labels, "several-sets")
	}
	// bystanders: a key no Set comes near
	if r.P(1, 2) {
		c.late = append(c.late, vlHField{"value", vlTS, "${kz}"})
	}
	c.labels = labels
	return c
}

// vlGenHSLazy: the same histories on one App with a LazyInit holder (mode z<n>), over the fixed vocabulary of vlLazyTable.
func vlGenHSLazy(r *hx.Rng) *vlHSCase {
	n := r.Intn(len(vlLazyTable))
	word := func() string { return vlGenPlainWord(r) + ".internal" }
	num := func() int64 { return int64(1 + r.Intn(9000)) }
	sb := map[string]*vlCval{"kd": vlCStr(word()), "ke": vlCInt(num())}
	sa := map[string]*vlCval{"ka": vlCStr(word()), "kb": vlCInt(num()), "kc": vlCBool(r.Bool()), "sb": vlCMap(sb)}
	c := &vlHSCase{mode: "z" + strconv.Itoa(n), late: vlLazyTable[n].fields,
		cfg: vlCMap(map[string]*vlCval{"kz": vlCStr("zz"), "sa": vlCMap(sa)})}
	secA := &vlFty{k: 'T', fields: []vlFfield{{"ka", vlTS, ""}, {"kb", vlTI, ""}}}
	eagerPool := []vlHField{{"prefix", secA, "sa"}, {"prefix", vlTMA, "sa"}, {"prefix", vlTSecB, "sa.sb"}, {"prefix", vlTMA, "SA.SB"}, {"value", vlTS, "${sa.ka}"},
		{"prop", vlTI, "sa.kb"}, {"value", vlTI, "${sa.sb.ke}"}, {"prop", vlTS, "sa.sb.kd"}, {"value", vlTI, "${sa.kx:30}"}, {"prop", vlTS, "SA.KA"}, {"value", vlTB, "${sa.kc}"}}
	for _, i := range r.Perm(len(eagerPool))[:1+r.Intn(3)] {
		c.eager = append(c.eager, eagerPool[i])
	}
	if r.P(2, 3) { // most of the time the start looks an ancestor up
		c.eager = append(c.eager, eagerPool[r.Intn(4)])
	}
	opPool := []func() vlSetOp{
		func() vlSetOp { return vlSetOp{"sa.ka", vlCStr(word())} },
		func() vlSetOp { return vlSetOp{"SA.KA", vlCStr(word())} },
		func() vlSetOp { return vlSetOp{"sa.kb", vlCInt(num())} },
		func() vlSetOp { return vlSetOp{"sa.sb.kd", vlCStr(word())} },
		func() vlSetOp { return vlSetOp{"sa.sb.ke", vlCInt(num())} },
		func() vlSetOp { return vlSetOp{"Sa.Sb.Ke", vlCInt(num())} },
		func() vlSetOp { return vlSetOp{"sa.kc", vlCBool(r.Bool())} },
		func() vlSetOp { return vlSetOp{"sa.kx", vlCInt(60 + num())} },
		func() vlSetOp {
			return vlSetOp{"sa.sb", vlCMap(map[string]*vlCval{"kd": vlCStr(word()), "ke": vlCInt(num())})}
		},
		func() vlSetOp { return vlSetOp{"sa.sb", vlCMap(map[string]*vlCval{"Kd": vlCStr(word())})} },
		func() vlSetOp {
			return vlSetOp{"sa", vlCMap(map[string]*vlCval{"ka": vlCStr(word()), "kb": vlCInt(num()), "kc": vlCBool(r.Bool()),
				"sb": vlCMap(map[string]*vlCval{"kd": vlCStr(word()), "ke": vlCInt(num())})})}
		},
		func() vlSetOp { return vlSetOp{"sa", vlCMap(map[string]*vlCval{"ka": vlCStr(word()), "kx": vlCInt(60 + num())})} },
	}
	for i, k := 0, 1+r.Intn(3); i < k; i++ {
		c.ops = append(c.ops, opPool[r.Intn(len(opPool))]())
	}
	c.labels = []string{"lazy"}
	return c
}

// ================================================================ sixth round
//
// (1) how the document is WRITTEN (flags y<n>, f of the kind token): the value unit feeds every configuration through the
//     real loading path — a loader, configure.loadConfigure, the binder's SetConfig — but wrote every document in one way
//     (one `"key": <flow value>` line per key, a line break at the end).  vlYamlDocStyled writes the same configuration in
//     other YAML shapes — the harness's own emitter, from the intended value — so that what surrounds the LAST value of a
//     document matters: a block scalar (`|` `|-` `|+`, `>`), whose trailing line breaks are part of the value, as the last
//     thing of the document; a document behind a byte order mark, blank lines and a comment; a document indented as a
//     whole; a document that ends right behind a closing quote.  The oracle is the C17 oracle, against the string the
//     harness put into the document.
// (2) where the tagged field SITS (flags e<n>, g<n>): in an anonymous embedded struct of the holder, one or two levels deep —
//     the container flattens embedded structs into the holder's own properties, so the expression and validation stages
//     must treat such a field like a field of the holder itself (C18: start-up fails iff the constraint is violated).
// (3) kind HM: a component edits the value it was given.

// ---------------------------------------------------------------- (1) document styles

const vlDocStyles = 6

const vlBOM = "\xef\xbb\xbf"

// vlBlockOK: the string can be written as a literal block scalar by vlBlockScalar (printable text, line breaks, tabs; at
// least one character that is not a line break).
func vlBlockOK(s string) bool {
	if !utf8.ValidString(s) {
		return false
	}
	body := strings.TrimRight(s, "\n")
	if strings.TrimLeft(body, "\n") == "" {
		return false
	}
	for _, r := range body {
		if r == '\n' || r == '\t' {
			continue
		}
		if r < 0x20 || r == 0x7f || r == 0x85 || r == 0xa0 || r == 0x2028 || r == 0x2029 || r == 0xfeff || r == 0xfffd {
			return false
		}
	}
	return true
}

// vlFoldOK: … as a folded block scalar: one line of text (nothing to fold), not starting with a blank.
func vlFoldOK(s string) bool {
	body := strings.TrimRight(s, "\n")
	return vlBlockOK(s) && !strings.Contains(body, "\n") && body[0] != ' ' && body[0] != '\t'
}

// vlBlockScalar: header and lines of a block scalar (ind = '|' literal or '>' folded) below a node at column col.  The
// indentation is declared (`|2`), so leading blanks and leading empty lines belong to the text; the chomping indicator says
// what happens to the line breaks at the end: `-` none is kept, none = exactly one, `+` all of them.
func vlBlockScalar(s string, col int, ind byte) string {
	body := strings.TrimRight(s, "\n")
	trail := len(s) - len(body)
	chomp := ""
	switch {
	case trail == 0:
		chomp = "-"
	case trail >= 2:
		chomp = "+"
	}
	var sb strings.Builder
	sb.WriteString(string(ind) + "2" + chomp + "\n")
	pad := strings.Repeat(" ", col+2)
	for _, ln := range strings.Split(body, "\n") {
		if ln != "" {
			sb.WriteString(pad + ln)
		}
		sb.WriteByte('\n')
	}
	for i := 1; i < trail; i++ {
		sb.WriteByte('\n')
	}
	return sb.String()
}

// vlYamlBlockValue writes ` <value>\n` behind `key:` (the key at column col) in block style: maps and lists one member per
// line, strings as block scalars where the text allows it (double-quoted otherwise), members of lists that are not strings
// in flow style.
func vlYamlBlockValue(sb *strings.Builder, c *vlCval, col int, ind byte) {
	str := func(s string, col int) {
		switch {
		case ind == '>' && vlFoldOK(s):
			sb.WriteString(" " + vlBlockScalar(s, col, '>'))
		case vlBlockOK(s):
			sb.WriteString(" " + vlBlockScalar(s, col, '|'))
		default:
			sb.WriteString(" " + vlYamlStr(s) + "\n")
		}
	}
	switch {
	case c.k == 's':
		str(c.s, col)
	case c.k == 'l' && len(c.l) > 0:
		sb.WriteByte('\n')
		for _, e := range c.l {
			sb.WriteString(strings.Repeat(" ", col+2) + "-")
			if e.k == 's' {
				str(e.s, col+2)
			} else {
				sb.WriteString(" " + e.yaml() + "\n")
			}
		}
	case c.k == 'm' && len(c.mk) > 0:
		sb.WriteByte('\n')
		for i, k := range c.mk {
			sb.WriteString(strings.Repeat(" ", col+2) + vlYamlStr(k) + ":")
			vlYamlBlockValue(sb, c.mv[i], col+2, ind)
		}
	default:
		sb.WriteString(" " + c.yaml() + "\n")
	}
}

// vlYamlDocStyled: the configuration as a YAML document of the given style; the key `last` (when the configuration has
// it) is written as the last one.
//
//	1  block style, strings as literal block scalars (`|`)
//	2  block style, one-line strings as folded block scalars (`>`), the others literal
//	3  flow style behind a byte order mark, blank lines and a comment; blank lines and blanks behind the last line
//	4  style 1, the whole document indented by two columns
//	5  flow style, the document ends right behind its last value (no final line break)
//	6  style 1 behind a byte order mark and blank lines
func vlYamlDocStyled(cfg *vlCval, style int, last string) string {
	if len(cfg.mk) == 0 || style <= 0 {
		return vlYamlDoc(cfg)
	}
	var order []int
	lastIdx := -1
	for i, k := range cfg.mk {
		if k == last {
			lastIdx = i
		} else {
			order = append(order, i)
		}
	}
	if lastIdx >= 0 {
		order = append(order, lastIdx)
	}
	var sb strings.Builder
	switch style {
	case 3, 5:
		for _, i := range order {
			sb.WriteString(vlYamlStr(cfg.mk[i]) + ": " + cfg.mv[i].yaml() + "\n")
		}
		if style == 3 {
			return vlBOM + "\n\n# generated\n" + sb.String() + "\n  \n\n"
		}
		return strings.TrimSuffix(sb.String(), "\n")
	}
	col, ind := 0, byte('|')
	if style == 2 {
		ind = '>'
	}
	if style == 4 {
		col = 2
	}
	for _, i := range order {
		sb.WriteString(strings.Repeat(" ", col) + vlYamlStr(cfg.mk[i]) + ":")
		vlYamlBlockValue(&sb, cfg.mv[i], col, ind)
	}
	if style == 6 {
		return vlBOM + "\n\n" + sb.String()
	}
	return sb.String()
}

// vlGenWsString: a text whose white space matters: one to three lines of words, blanks in front of / behind a line, zero to
// three line breaks at the end, now and then an empty line in front.
func vlGenWsString(r *hx.Rng) string {
	var sb strings.Builder
	if r.P(1, 8) {
		sb.WriteString("\n")
	}
	for i, n := 0, 1+r.Intn(3); i < n; i++ {
		if i > 0 {
			sb.WriteString("\n")
			if r.P(1, 6) {
				sb.WriteString("\n")
			}
		}
		if r.P(1, 4) {
			sb.WriteString(strings.Repeat(" ", 1+r.Intn(3)))
		}
		sb.WriteString(vlGenPlainWord(r))
		for j, m := 0, r.Intn(3); j < m; j++ {
			sb.WriteString([]string{" ", " ", "  ", ": ", " - ", " # ", "\t"}[r.Intn(7)] + vlGenPlainWord(r))
		}
		if r.P(1, 5) {
			sb.WriteString([]string{" ", "  ", "\t"}[r.Intn(3)])
		}
	}
	sb.WriteString(strings.Repeat("\n", []int{0, 1, 1, 1, 2, 2, 3}[r.Intn(7)]))
	return sb.String()
}

// vlGenC17Doc: a C17 case whose document is written in one of the styles of vlYamlDocStyled, one in three through a file.
// Three in five bind texts with significant white space (to string, *string, any, []string, map[string]string,
// map[string]any, a struct of strings); the others are ordinary cases of the other generators, written differently.
func vlGenC17Doc(r *hx.Rng) *vlVcase {
	var c *vlVcase
	switch r.Intn(5) {
	case 0:
		c = vlGenC17(r)
	case 1:
		c = vlGenC17Default(r)
	default:
		ws := func() *vlCval { return vlCStr(vlGenWsString(r)) }
		strs := func(n int) map[string]*vlCval {
			kv := map[string]*vlCval{}
			for len(kv) < n {
				kv[vlGenKey(r)] = ws()
			}
			return kv
		}
		var t *vlFty
		var v *vlCval
		switch r.Intn(9) {
		case 0, 1, 2:
			t, v = vlTS, ws()
		case 3:
			t, v = vlTPS, ws()
		case 4:
			t, v = vlTA, ws()
		case 5:
			t = vlTLS
			v = vlCList()
			for i, n := 0, 1+r.Intn(3); i < n; i++ {
				v.l = append(v.l, ws())
			}
		case 6:
			t, v = vlTMS, vlCMap(strs(1+r.Intn(3)))
		case 7:
			kv := strs(1 + r.Intn(2))
			kv[vlGenKey(r)] = vlCInt(vlGenInt(r) % 100000)
			t, v = vlTMA, vlCMap(kv)
		default:
			kv := strs(1 + r.Intn(3))
			v = vlCMap(kv)
			t = &vlFty{k: 'T'}
			for _, k := range v.mk {
				t.fields = append(t.fields, vlFfield{k, vlTS, ""})
			}
		}
		key := vlGenKey(r)
		c = &vlVcase{kind: "V3", t: t, subject: v, cfg: vlCMap(map[string]*vlCval{"kz": vlCStr("zz"), key: v}),
			tags: [][]vlTnode{{vlTPH(key)}, {vlTLit(key)}, {vlTLit(key)}}, labels: []string{"ws-text"}}
		vlGenFlagsC17(r, c)
	}
	c.ystyle = 1 + r.Intn(vlDocStyles)
	c.file = r.P(1, 3)
	c.labels = append(c.labels, "doc-styled")
	return c
}

// ---------------------------------------------------------------- (2) Go-declared holders with embedded structs

type vlGoEmbA struct {
	H0 int `value:"${k},validate=min=1 max=100"`
}

type vlGoHolder1 struct {
	vlGoEmbA
	Name string
}

type vlGoEmbB struct {
	H0 string `value:"${k},validate=required alpha"`
}

type vlGoEmbMid struct {
	vlGoEmbB
	Note string
}

type vlGoHolder2 struct {
	vlGoEmbMid
	Name string `value:"${name:none}"`
}

type vlGoEmbC struct {
	H0 int `value:"#{${k}*2},validate=max=100"`
}

type vlGoHolder3 struct {
	vlGoEmbC
	Own int `prop:"k"`
}

type vlGoSect struct {
	Port int    `yaml:"port" validate:"min=1,max=65535"`
	Name string `yaml:"name" validate:"required"`
}

type vlGoEmbD struct {
	H0 vlGoSect `prefix:"k,validate"`
}

type vlGoHolder4 struct {
	vlGoEmbD
	Label string
}

type vlGoHolderKind struct {
	kind string
	t    *vlFty
	tag  string // the whole tag text (value part and arguments)
	mk   func() (holder, inner reflect.Value)
}

var vlGoHolders = []vlGoHolderKind{
	{"E", vlTI, "${k},validate=min=1 max=100", func() (reflect.Value, reflect.Value) {
		h := reflect.ValueOf(&vlGoHolder1{})
		return h, h.Elem().Field(0)
	}},
	{"E", vlTS, "${k},validate=required alpha", func() (reflect.Value, reflect.Value) {
		h := reflect.ValueOf(&vlGoHolder2{})
		return h, h.Elem().Field(0).Field(0)
	}},
	{"E", vlTI, "#{${k}*2},validate=max=100", func() (reflect.Value, reflect.Value) {
		h := reflect.ValueOf(&vlGoHolder3{})
		return h, h.Elem().Field(0)
	}},
	{"Q", &vlFty{k: 'T', fields: []vlFfield{{"port", vlTI, "min=1,max=65535"}, {"name", vlTS, "required"}}}, "k,validate", func() (reflect.Value, reflect.Value) {
		h := reflect.ValueOf(&vlGoHolder4{})
		return h, h.Elem().Field(0)
	}},
	// (eighth round) holders whose only tagged fields are hidden by a name collision; read through the embedded struct
	{"E", vlTI, "#{${k}+80},validate=max=9000", func() (reflect.Value, reflect.Value) {
		h := reflect.ValueOf(&vlGoHolder5{})
		return h, h.Elem().Field(0)
	}},
	{"E", vlTS, "#{${k}*2}s", func() (reflect.Value, reflect.Value) {
		h := reflect.ValueOf(&vlGoHolder6{})
		return h, h.Elem().Field(0)
	}},
	{"E", vlTI, "#{${k}/1000},validate=lte=5", func() (reflect.Value, reflect.Value) {
		h := reflect.ValueOf(&vlGoHolder7{})
		return h, h.Elem().Field(0).Field(0)
	}},
	{"E", vlTS, "#{${k}+90}-${k},validate=required", func() (reflect.Value, reflect.Value) {
		h := reflect.ValueOf(&vlGoHolder8{})
		return h, h.Elem().Field(1)
	}},
	// (ninth round) holders 9-16 are themselves USER POST-PROCESSORS (container.ComponentPostProcessor, not LazyInit, no
	// Ordered marker): see the section "ninth round" at the end of the file
	{"E", vlTI, "#{${kb}*${kf}},validate=min=10", func() (reflect.Value, reflect.Value) {
		h := reflect.ValueOf(&vlGoPP1{})
		return h, h.Elem()
	}},
	{"E", vlTS, "#{'${kn}'+'${kz}'},validate=required min=4", func() (reflect.Value, reflect.Value) {
		h := reflect.ValueOf(&vlGoPP2{})
		return h, h.Elem()
	}},
	{"E", vlTI, "${k},validate=min=1 max=100", func() (reflect.Value, reflect.Value) {
		h := reflect.ValueOf(&vlGoPP3{})
		return h, h.Elem()
	}},
	{"E", vlTS, "${k:none},validate=alpha ne=blue", func() (reflect.Value, reflect.Value) {
		h := reflect.ValueOf(&vlGoPP4{})
		return h, h.Elem()
	}},
	{"Q", &vlFty{k: 'T', fields: []vlFfield{{"port", vlTI, "min=1,max=65535"}, {"name", vlTS, "required"}}}, "k,validate", func() (reflect.Value, reflect.Value) {
		h := reflect.ValueOf(&vlGoPP5{})
		return h, h.Elem()
	}},
	{"E", vlTD, "#{${k}/4},validate=lte=2.5", func() (reflect.Value, reflect.Value) {
		h := reflect.ValueOf(&vlGoPP6{})
		return h, h.Elem()
	}},
	{"E", vlTB, "#{${ka} > ${kb} && ${kt}}", func() (reflect.Value, reflect.Value) {
		h := reflect.ValueOf(&vlGoPP7{})
		return h, h.Elem()
	}},
	{"E", vlTI, "#{${k}*2},validate=max=100", func() (reflect.Value, reflect.Value) {
		h := reflect.ValueOf(&vlGoPP8{})
		return h, h.Elem().Field(0)
	}},
}

// ---- (eighth round) tagged fields hidden by a name collision among embedded structs
//
// Meta.scanFields descends into every anonymous embedded struct and makes a property of every settable tagged field, whether
// or not Go's selector rules let the holder name it: two embedded mix-ins with a same-named field (the promoted selector is
// ambiguous) and an embedded field shadowed by a shallower field of the same name are legal Go, and their tagged fields are
// configuration properties like any other.  A holder of flag h<n> has NO other tagged field: every stage must still run.
// The field is read through the embedded struct explicitly (`holder.MixA.H0`).

type vlGoMixA struct {
	H0 int `value:"#{${k}+80},validate=max=9000"`
}

type vlGoMixB struct {
	H0   int `value:"#{${k}+80},validate=max=9000"`
	Note string
}

// vlGoHolder5: two mix-ins, H0 is ambiguous.
type vlGoHolder5 struct {
	vlGoMixA
	vlGoMixB
}

type vlGoDefaults struct {
	H0 string `value:"#{${k}*2}s"`
}

// vlGoHolder6: the embedded H0 is shadowed by the holder's own (untagged) H0.
type vlGoHolder6 struct {
	vlGoDefaults
	H0 string
}

type vlGoLimits struct {
	H0 int `value:"#{${k}/1000},validate=lte=5"`
}

type vlGoQuotaMid struct {
	vlGoLimits
	Own string
}

// vlGoHolder7: shadowed from two levels up.
type vlGoHolder7 struct {
	vlGoQuotaMid
	H0 int
}

type vlGoGrpc struct {
	H0 string `value:"#{${k}+90}-${k},validate=required"`
}

type vlGoHttp struct {
	H0 string `value:"#{${k}+90}-${k},validate=required"`
}

// vlGoHolder8: ambiguous, next to an optional component field (the holder has both property groups); the SECOND mix-in is read.
type vlGoHolder8 struct {
	vlGoHttp
	vlGoGrpc
	Dep *vlValueDep `wire:",required=false"`
}

const vlHideShapes = 4

// vlHiddenFields wraps the tagged fields fs of a holder so that every one of them is hidden by a name collision; path = how
// many times Field(0) leads from the holder to the struct that contains the observed fields.
//
//	1  struct{ MixA{fs}; MixB{fs; Note string} }                      two mix-ins at the same depth: ambiguous
//	2  struct{ MixA{fs}; <the names of fs, untagged> }                shadowed by fields of the holder itself
//	3  struct{ Outer{ MixA{fs}; Own string }; <names, untagged> }     shadowed from two levels up
//	4  struct{ OuterA{ MixA{fs} }; OuterB{ MixB{fs}; Note string } }  ambiguous at depth two
func vlHiddenFields(fs []reflect.StructField, shape int) (out []reflect.StructField, path int) {
	anon := func(name string, fields []reflect.StructField) reflect.StructField {
		return reflect.StructField{Name: name, Type: reflect.StructOf(fields), Anonymous: true}
	}
	untagged := func() []reflect.StructField {
		var u []reflect.StructField
		for _, f := range fs {
			u = append(u, reflect.StructField{Name: f.Name, Type: f.Type})
		}
		return u
	}
	note := reflect.StructField{Name: "Note", Type: reflect.TypeOf("")}
	withNote := append(append([]reflect.StructField{}, fs...), note)
	switch shape {
	case 1:
		return []reflect.StructField{anon("MixA", fs), anon("MixB", withNote)}, 1
	case 2:
		return append([]reflect.StructField{anon("MixA", fs)}, untagged()...), 1
	case 3:
		outer := anon("Outer", []reflect.StructField{anon("MixA", fs), {Name: "Own", Type: reflect.TypeOf("")}})
		return append([]reflect.StructField{outer}, untagged()...), 2
	default:
		return []reflect.StructField{anon("OuterA", []reflect.StructField{anon("MixA", fs)}),
			anon("OuterB", []reflect.StructField{anon("MixB", withNote)})}, 2
	}
}

// vlGenHiddenCase: a case of the expression generators (plain, with defaulted operands, with keys named in two steps, with
// quote characters; up to four draws until the tag carries a `#{…}`) or, one time in six, a value x constraint pair, whose
// tagged field is hidden by a name collision (flag h<n>).
func vlGenHiddenCase(r *hx.Rng) *vlVcase {
	var c *vlVcase
	for try := 0; try < 4; try++ {
		switch r.Intn(6) {
		case 0, 1:
			c = vlGenExprCaseWith(r, false)
		case 2:
			c = vlGenExprCaseWith(r, true)
		case 3:
			c = vlGenComputedKeyCase(r)
		case 4:
			c = vlGenQuoteTextCase(r)
		default:
			if r.P(1, 2) {
				c = vlGenValidateCase(r)
			} else {
				c = vlGenPtrZeroValidateCase(r)
			}
			try = 4 // a control without an expression: validation alone must work as well
		}
		if strings.Contains(vlTagText(c.tags[0]), "#{") {
			break
		}
	}
	c.hide = 1 + r.Intn(vlHideShapes)
	c.embed = 0
	c.labels = append(c.labels, "hidden-field")
	return c
}

// vlValueHiddenCorpus: expressions (with and without placeholders inside, with and without a constraint on the result) in
// holders whose only tagged field is hidden, every shape; the Go-declared holders 5-8.
func vlValueHiddenCorpus(w *hx.Writer) {
	for shape := 1; shape <= vlHideShapes; shape++ {
		for _, dep := range []bool{false, true} {
			mk := func(c *vlVcase) {
				c.hide, c.dep = shape, dep
				c.labels = append(c.labels, "hidden-field")
				vlRunCase(c, w)
			}
			mk(vlExprCase(vlTI, map[string]*vlCval{"base": vlCInt(8000)}, "", vlTExpr(vlTPH("base"), vlTLit("+80"))))
			mk(vlExprCase(vlTS, map[string]*vlCval{"secs": vlCInt(15)}, "", vlTExpr(vlTPH("secs"), vlTLit("*2")), vlTLit("s")))
			mk(vlExprCase(vlTS, map[string]*vlCval{"kz": vlCStr("zz")}, "", vlTExpr(vlTLit("15*2")), vlTLit("s")))
			mk(vlExprCase(vlTI, map[string]*vlCval{"base": vlCInt(8000)}, ",validate=lte=5", vlTExpr(vlTPH("base"), vlTLit("/1000"))))
			mk(vlExprCase(vlTI, map[string]*vlCval{"base": vlCInt(8000)}, ",validate=lte=5", vlTExpr(vlTPH("base"), vlTLit("/2000"))))
			mk(vlExprCase(vlTB, map[string]*vlCval{"lim": vlCInt(3)}, "", vlTExpr(vlTPHD("nolim", "7"), vlTLit(" > "), vlTPH("lim"))))
			mk(vlExprCase(vlTS, map[string]*vlCval{"owner": vlCStr("ops42")}, ",validate=required alpha", vlTPH("owner")))
			mk(vlExprCase(vlTS, map[string]*vlCval{"owner": vlCStr("ops")}, ",validate=required alpha", vlTPH("owner")))
		}
	}
	vlRunCase(vlGoCase(5, map[string]*vlCval{"k": vlCInt(8000)}), w)
	vlRunCase(vlGoCase(5, map[string]*vlCval{"k": vlCInt(9000)}), w)
	vlRunCase(vlGoCase(6, map[string]*vlCval{"k": vlCInt(15)}), w)
	vlRunCase(vlGoCase(7, map[string]*vlCval{"k": vlCInt(8000)}), w)
	vlRunCase(vlGoCase(7, map[string]*vlCval{"k": vlCInt(4000)}), w)
	vlRunCase(vlGoCase(8, map[string]*vlCval{"k": vlCInt(8000)}), w)
}

// vlGoHolderFits: the case is what the Go-declared holder number c.gotype declares.
func vlGoHolderFits(c *vlVcase) bool {
	if c.gotype <= 0 {
		return true
	}
	if c.gotype > len(vlGoHolders) || len(c.tags) != 1 || c.set != nil {
		return false
	}
	g := vlGoHolders[c.gotype-1]
	return g.kind == c.kind && g.t.code() == c.t.code() && g.tag == vlTagText(c.tags[0])+c.args
}

// vlGoCase: a case on the Go-declared holder number n (1-based) under the given configuration.
func vlGoCase(n int, cfg map[string]*vlCval) *vlVcase {
	g := vlGoHolders[n-1]
	val, args := vlSplitTagArgs(g.tag)
	c := &vlVcase{kind: g.kind, t: g.t, cfg: vlCMap(cfg), args: args, gotype: n, labels: []string{"corpus", "embedded", "go-declared"}}
	if g.kind == "Q" {
		c.tags = [][]vlTnode{{vlTLit(val)}}
	} else {
		c.tags = [][]vlTnode{vlParseTagTree(val, false)}
	}
	return c
}

// vlGenEmbeddedCase: a case of the validation / expression generators whose tagged field lives in an anonymous embedded
// struct, one or two levels deep; cases that carry a validate argument are preferred (up to four draws).
func vlGenEmbeddedCase(r *hx.Rng) *vlVcase {
	var c *vlVcase
	for try := 0; try < 4; try++ {
		switch r.Intn(6) {
		case 0, 1:
			c = vlGenValidateCase(r)
		case 2:
			c = vlGenExprCase(r)
		case 3:
			c = vlGenPtrZeroValidateCase(r)
		case 4:
			c = vlGenNestedValidateCase(r)
		default:
			c = vlGenQuoteTextCase(r)
		}
		if _, has := vlValidateArg(c.args); has {
			break
		}
	}
	c.embed = 1 + r.Intn(2)
	c.labels = append(c.labels, "embedded")
	return c
}

// vlValueEmbeddedCorpus: constrained fields inside embedded structs, violated and satisfied.
func vlValueEmbeddedCorpus(w *hx.Writer) {
	for depth := 1; depth <= 2; depth++ {
		for _, dep := range []bool{false, true} {
			mk := func(c *vlVcase) {
				c.embed, c.dep = depth, dep
				c.labels = append(c.labels, "embedded")
				vlRunCase(c, w)
			}
			mk(vlExprCase(vlTI, map[string]*vlCval{"k": vlCInt(5)}, ",validate=min=1 max=100", vlTPH("k")))
			mk(vlExprCase(vlTI, map[string]*vlCval{"k": vlCInt(500)}, ",validate=min=1 max=100", vlTPH("k")))
			mk(vlExprCase(vlTI, map[string]*vlCval{"base": vlCInt(50), "factor": vlCInt(10)}, ",validate=min=1 max=100", vlTExpr(vlTPH("base"), vlTLit("*"), vlTPH("factor"))))
			mk(vlExprCase(vlTI, map[string]*vlCval{"base": vlCInt(5), "factor": vlCInt(10)}, ",validate=min=1 max=100", vlTExpr(vlTPH("base"), vlTLit("*"), vlTPH("factor"))))
			mk(vlExprCase(vlTS, map[string]*vlCval{"owner": vlCStr("ops42")}, ",validate=required alpha", vlTPH("owner")))
			mk(vlExprCase(vlTS, map[string]*vlCval{"owner": vlCStr("ops")}, ",validate=required alpha", vlTPH("owner")))
			st := &vlFty{k: 'T', fields: []vlFfield{{"port", vlTI, "min=1,max=65535"}, {"name", vlTS, "required"}}}
			for _, port := range []int64{8080, 0} {
				mk(&vlVcase{kind: "Q", t: st, cfg: vlCMap(map[string]*vlCval{"k": vlCMap(map[string]*vlCval{"port": vlCInt(port), "name": vlCStr("db")})}),
					args: ",validate", tags: [][]vlTnode{{vlTLit("k")}}, labels: []string{"corpus"}})
			}
		}
	}
	vlRunCase(vlGoCase(1, map[string]*vlCval{"k": vlCInt(5)}), w)
	vlRunCase(vlGoCase(1, map[string]*vlCval{"k": vlCInt(500)}), w)
	vlRunCase(vlGoCase(2, map[string]*vlCval{"k": vlCStr("ops")}), w)
	vlRunCase(vlGoCase(2, map[string]*vlCval{"k": vlCStr("ops42")}), w)
	vlRunCase(vlGoCase(3, map[string]*vlCval{"k": vlCInt(21)}), w)
	vlRunCase(vlGoCase(3, map[string]*vlCval{"k": vlCInt(70)}), w)
	vlRunCase(vlGoCase(4, map[string]*vlCval{"k": vlCMap(map[string]*vlCval{"port": vlCInt(5432), "name": vlCStr("db")})}), w)
	vlRunCase(vlGoCase(4, map[string]*vlCval{"k": vlCMap(map[string]*vlCval{"port": vlCInt(70000), "name": vlCStr("db")})}), w)
}

// vlValueDocCorpus: documents that end in a block scalar / start behind a byte order mark / are indented as a whole.
func vlValueDocCorpus(w *hx.Writer) {
	texts := []string{"Welcome to demo.\nAuthorised use only.\n", "--\nThe demo team\n\n", "one line", "one line\n", "  indented first line\nsecond\n",
		"trailing blanks  ", "a: b # c\n\n\n", "\nstarts with an empty line\n", "tab\there\t\n"}
	for i, s := range texts {
		for style := 1; style <= vlDocStyles; style++ {
			c := vlC17case(vlTS, vlCStr(s), "", "doc-styled")
			c.ystyle, c.file = style, (i+style)%3 == 0
			vlRunCase(c, w)
		}
	}
	st := &vlFty{k: 'T', fields: []vlFfield{{"name", vlTS, ""}, {"port", vlTI, ""}, {"zmotd", vlTS, ""}}}
	for style := 1; style <= vlDocStyles; style++ {
		for _, c := range []*vlVcase{
			vlC17case(st, vlCMap(map[string]*vlCval{"name": vlCStr("demo"), "port": vlCInt(8080), "zmotd": vlCStr(texts[0])}), "", "doc-styled"),
			vlC17case(vlTLS, vlCList(vlCStr("first\n"), vlCStr(texts[1])), "", "doc-styled"),
			vlC17case(vlTMA, vlCMap(map[string]*vlCval{"a": vlCInt(1), "sig": vlCStr(texts[1])}), "", "doc-styled"),
			vlC17case(vlTMS, vlCMap(map[string]*vlCval{"a": vlCStr("x"), "sig": vlCStr(texts[0])}), "", "doc-styled"),
			vlC17case(vlTA, vlCStr(texts[1]), "", "doc-styled"),
			vlC17case(vlTI, vlCInt(7), "", "doc-styled"),
		} {
			c.ystyle = style
			vlRunCase(c, w)
		}
	}
}

// ---------------------------------------------------------------- (3) kind HM: a component edits the value it was given
//
//	HM <mode> <cfg> <muts> <eager> <late>
//
// A field of type map[string]any or []any bound by prefix is the COMPONENT'S value: what the component does to it — fill in
// a default, drop a sentinel, rewrite an element; the classic Init pattern — is not a change of the configuration
// (Configure.Set is).  A history: holder A binds sections / lists by prefix into untyped maps and lists; the top level of
// those values is edited in place; holder B binds the same subtrees (or keys inside them) by prefix, through a placeholder,
// through the shorthand — B must get the CONFIGURED value, whichever of the two was populated first.
//
//	mode   s     two Apps that share one Configure: the first starts with A, the harness edits A's fields, the second
//	             (app.SetConfigure, no loaders) starts with B
//	       b     one App starts with A and B (both populated by the start), the harness edits A's fields, B's fields are read
//	             afterwards
//	       z<n>  one App starts with A (and the LazyInit holder number n of vlLazyTable), the harness edits A's fields,
//	             GetComponentByName creates B
//	       i<n>  A is the Go-declared vlMutInit whose Init() edits its own fields; B = the LazyInit holder number n, fetched
//	             after the start
//	       ia iz A = vlMutInit, B = the Go-declared vlAaObs / vlZzObs of the same start, created before / after A (singletons
//	             are created in the order of their names)
//	muts   u(<field>:<op>,…)   op = s<hexkey>=<val> set a key | d<hexkey> delete a key | e<index>=<val> overwrite an element |
//	             a=<val> append;  <field> = index of the eager field (a map[string]any or []any bound by prefix): its top level;
//	             <field>:/<step>/…:<op> the same operations further down (seventh round, see the end of the file): step =
//	             k<hexkey> into a map | i<index> into a list, `/` alone = the field itself; values of type any are type-asserted
//	       j<n> ja jz   as i<n> ia iz with the Go-declared vlMutInitAny (fields of type any)
//	eager, late   as in kind HS (in the i modes and for the Go-declared holders the table says what they are)
//
// Observation: `<start> <eager field>… <second> <late field>…` — the eager fields BEFORE the edits (in the i modes: as Init
// found them), the late fields after B's population (mode b, ia, iz: at the end).
// Oracle (C17): every late field holds the document's value converted to its type: bound-aliased; the eager fields held
// the document's value before they were edited: setget-first.

type vlMut struct {
	field int
	op    byte // s d e a
	key   string
	idx   int
	val   *vlCval
	// seventh round: where inside the bound value the edit happens.  deep = the edit names a way down (possibly of no step
	// at all): every value on the way — the field itself included, when it is of type any — is type-asserted to
	// map[string]any / []any as a component would do; steps = k<hexkey> into a map, i<index> into a list.
	deep  bool
	steps []vlStep
}

type vlStep struct {
	key   string
	idx   int
	index bool // a list index (else a map key)
}

func vlStepsTok(steps []vlStep) string {
	var p []string
	for _, st := range steps {
		if st.index {
			p = append(p, "i"+strconv.Itoa(st.idx))
		} else {
			p = append(p, "k"+hx.Hex(st.key))
		}
	}
	return "/" + strings.Join(p, "/")
}

func vlParseSteps(s string) ([]vlStep, bool) {
	if !strings.HasPrefix(s, "/") {
		return nil, false
	}
	if s == "/" {
		return nil, true
	}
	var out []vlStep
	for _, part := range strings.Split(s[1:], "/") {
		if len(part) < 2 {
			return nil, false
		}
		switch part[0] {
		case 'i':
			n, err := strconv.Atoi(part[1:])
			if err != nil || n < 0 {
				return nil, false
			}
			out = append(out, vlStep{idx: n, index: true})
		case 'k':
			k, err := hx.UnHex(part[1:])
			if err != nil {
				return nil, false
			}
			out = append(out, vlStep{key: k})
		default:
			return nil, false
		}
	}
	return out, true
}

func vlMutsTok(ms []vlMut) string {
	var p []string
	for _, m := range ms {
		s := strconv.Itoa(m.field) + ":"
		if m.deep {
			s += vlStepsTok(m.steps) + ":"
		}
		s += string(m.op)
		switch m.op {
		case 's':
			s += hx.Hex(m.key) + "=" + m.val.tok()
		case 'd':
			s += hx.Hex(m.key)
		case 'e':
			s += strconv.Itoa(m.idx) + "=" + m.val.tok()
		case 'a':
			s += "=" + m.val.tok()
		}
		p = append(p, s)
	}
	return "u(" + strings.Join(p, ",") + ")"
}

func vlParseMuts(s string) ([]vlMut, bool) {
	if !strings.HasPrefix(s, "u(") {
		return nil, false
	}
	rest := s[2:]
	var ms []vlMut
	for {
		if rest == ")" {
			return ms, true
		}
		i := strings.IndexByte(rest, ':')
		if i < 0 || i+1 >= len(rest) {
			return nil, false
		}
		f, err := strconv.Atoi(rest[:i])
		if err != nil || f < 0 {
			return nil, false
		}
		m := vlMut{field: f}
		if rest[i+1] == '/' {
			// `<field>:/<step>/…:<op>` — the edit happens below the top level (or through a field of type any)
			j := strings.IndexByte(rest[i+1:], ':')
			if j < 0 || i+1+j+1 >= len(rest) {
				return nil, false
			}
			steps, ok := vlParseSteps(rest[i+1 : i+1+j])
			if !ok {
				return nil, false
			}
			m.deep, m.steps = true, steps
			i += j + 1
		}
		m.op = rest[i+1]
		rest = rest[i+2:]
		head := func(stop string) (string, bool) {
			j := strings.IndexAny(rest, stop)
			if j < 0 {
				return "", false
			}
			h := rest[:j]
			rest = rest[j:]
			return h, true
		}
		val := func() bool {
			if !strings.HasPrefix(rest, "=") {
				return false
			}
			v, r2, ok := vlParseCval(rest[1:])
			if !ok || v.k == 'z' {
				return false
			}
			m.val, rest = v, r2
			return true
		}
		switch m.op {
		case 's', 'd':
			h, ok := head("=,)")
			if !ok {
				return nil, false
			}
			if m.key, err = hx.UnHex(h); err != nil {
				return nil, false
			}
			if m.op == 's' && !val() {
				return nil, false
			}
		case 'e':
			h, ok := head("=")
			if !ok {
				return nil, false
			}
			if m.idx, err = strconv.Atoi(h); err != nil || m.idx < 0 || !val() {
				return nil, false
			}
		case 'a':
			if !val() {
				return nil, false
			}
		default:
			return nil, false
		}
		ms = append(ms, m)
		rest = strings.TrimPrefix(rest, ",")
		if rest == "" {
			return nil, false
		}
	}
}

// vlApplyMut edits a bound value in place, as the component that owns the field would: the top level of a map[string]any /
// []any field, or (m.deep) a map / list further down — every value on the way, the field itself included, is type-asserted
// from any to map[string]any / []any.  An edit whose way does not exist in the value does nothing.
func vlApplyMut(f reflect.Value, m vlMut) {
	if !f.IsValid() || !f.CanSet() {
		return
	}
	var nv reflect.Value
	if m.val != nil {
		nv = reflect.ValueOf(m.val.native())
	}
	cur := f
	store := func(v reflect.Value) { f.Set(v) } // puts a new value where cur came from
	if m.deep {
		unwrap := func() bool {
			for cur.IsValid() && cur.Kind() == reflect.Interface {
				if cur.IsNil() {
					return false
				}
				cur = cur.Elem()
			}
			return cur.IsValid()
		}
		if !unwrap() {
			return
		}
		for _, st := range m.steps {
			parent := cur
			switch {
			case !st.index && parent.Kind() == reflect.Map && parent.Type().Key().Kind() == reflect.String && !parent.IsNil():
				k := reflect.ValueOf(st.key)
				cur = parent.MapIndex(k)
				store = func(v reflect.Value) { parent.SetMapIndex(k, v) }
			case st.index && parent.Kind() == reflect.Slice && st.idx < parent.Len():
				slot := parent.Index(st.idx)
				cur = slot
				store = func(v reflect.Value) { slot.Set(v) }
			default:
				return
			}
			if !unwrap() {
				return
			}
		}
	}
	switch {
	case cur.Kind() == reflect.Map && !cur.IsNil() && cur.Type().Key().Kind() == reflect.String && cur.Type().Elem().Kind() == reflect.Interface:
		switch m.op {
		case 's':
			cur.SetMapIndex(reflect.ValueOf(m.key), nv)
		case 'd':
			cur.SetMapIndex(reflect.ValueOf(m.key), reflect.Value{})
		}
	case cur.Kind() == reflect.Slice && cur.Type().Elem().Kind() == reflect.Interface:
		switch m.op {
		case 'e':
			if m.idx < cur.Len() {
				cur.Index(m.idx).Set(nv)
			}
		case 'a':
			store(reflect.Append(cur, nv))
		}
	}
}

// vlMutInit: a component that completes ITS OWN copy of the configuration once its properties are set.
type vlMutInit struct {
	E0     map[string]any `prefix:"sa"`
	E1     []any          `prefix:"sl"`
	E2     map[string]any `prefix:"sa.sb"`
	muts   []vlMut
	before []string
}

func (h *vlMutInit) Init() error {
	v := reflect.ValueOf(h).Elem()
	h.before = nil
	for i := range vlMutInitFields {
		h.before = append(h.before, vlRender(v.Field(i)))
	}
	for _, m := range h.muts {
		if m.field < len(vlMutInitFields) {
			vlApplyMut(v.Field(m.field), m)
		}
	}
	return nil
}

var vlMutInitFields = []vlHField{{"prefix", vlTMA, "sa"}, {"prefix", vlTLA, "sl"}, {"prefix", vlTMA, "sa.sb"}}

// vlMutOwner: a Go-declared component whose Init edits its own fields (modes i…, j…)
type vlMutOwner interface{ observed() []string }

func (h *vlMutInit) observed() []string { return h.before }

// vlMutInitAny (modes j<n>, ja, jz): the same component with fields of type any — it type-asserts what it was given and
// edits it, at the top and further down — next to an untyped map and a list of maps.
type vlMutInitAny struct {
	E0     any            `prefix:"sa"`
	E1     any            `prefix:"sm"`
	E2     map[string]any `prefix:"sa"`
	E3     []any          `prefix:"sm"`
	E4     any            `prefix:"sl"`
	muts   []vlMut
	before []string
}

func (h *vlMutInitAny) Init() error {
	v := reflect.ValueOf(h).Elem()
	h.before = nil
	for i := range vlMutInitAnyFields {
		h.before = append(h.before, vlRender(v.Field(i)))
	}
	for _, m := range h.muts {
		if m.field < len(vlMutInitAnyFields) {
			vlApplyMut(v.Field(m.field), m)
		}
	}
	return nil
}

func (h *vlMutInitAny) observed() []string { return h.before }

var vlMutInitAnyFields = []vlHField{{"prefix", vlTA, "sa"}, {"prefix", vlTA, "sm"}, {"prefix", vlTMA, "sa"}, {"prefix", vlTLA, "sm"}, {"prefix", vlTA, "sl"}}

// the observers of the modes ia / iz: the same fields under a name in front of / behind vlMutInit's
type vlObsFields struct {
	L0 map[string]any `prefix:"sa"`
	L1 []any          `prefix:"sl"`
	L2 vlSecA         `prefix:"sa"`
	L3 string         `value:"${sa.ka}"`
	L4 []string       `prefix:"sl"`
	L5 map[string]any `prefix:"sa.sb"`
	L6 int            `prop:"sa.sb.ke"`
	L7 vlSecB         `prefix:"SA.SB"`
}

type vlAaObs struct{ vlObsFields }

type vlZzObs struct{ vlObsFields }

var vlObsFieldList = []vlHField{{"prefix", vlTMA, "sa"}, {"prefix", vlTLA, "sl"}, {"prefix", vlTSecA, "sa"}, {"value", vlTS, "${sa.ka}"},
	{"prefix", vlTLS, "sl"}, {"prefix", vlTMA, "sa.sb"}, {"prop", vlTI, "sa.sb.ke"}, {"prefix", vlTSecB, "SA.SB"}}

// vlLazy5: a LazyInit holder that binds the list (the holders 1-4 of vlLazyTable bind the section only)
type vlLazy5 struct {
	definition.LazyInitComponent
	L0 []any          `prefix:"sl"`
	L1 []string       `prefix:"sl"`
	L2 map[string]any `prefix:"sa"`
	L3 string         `prop:"sa.ka"`
	L4 vlSecB         `prefix:"sa.sb"`
}

// the LazyInit holders of kind HM: the four of vlLazyTable and vlLazy5 (vlLazyTable itself stays as it is: the generator
// of kind HS draws from it)
var vlLazyTableM = append(append([]vlLazyKind{}, vlLazyTable...),
	vlLazyKind{func() any { return &vlLazy5{} }, []vlHField{{"prefix", vlTLA, "sl"}, {"prefix", vlTLS, "sl"}, {"prefix", vlTMA, "sa"}, {"prop", vlTS, "sa.ka"}, {"prefix", vlTSecB, "sa.sb"}}})

type vlHMCase struct {
	mode   string
	cfg    *vlCval
	muts   []vlMut
	eager  []vlHField
	late   []vlHField
	labels []string
}

// vlHMLazy: the index of the LazyInit holder a mode z<n> / i<n> names (-1: none)
func vlHMLazy(mode string) int {
	if len(mode) < 2 || (mode[0] != 'z' && mode[0] != 'i' && mode[0] != 'j') {
		return -1
	}
	n, err := strconv.Atoi(mode[1:])
	if err != nil || n < 0 || n >= len(vlLazyTableM) {
		return -1
	}
	return n
}

func vlHMModeOK(mode string) bool {
	return mode == "s" || mode == "b" || mode == "ia" || mode == "iz" || mode == "ja" || mode == "jz" || vlHMLazy(mode) >= 0
}

// vlHMFixed: the holders a mode fixes (nil = the line says)
func vlHMFixed(mode string) (eager, late []vlHField) {
	if mode[0] == 'i' {
		eager = vlMutInitFields
	}
	if mode[0] == 'j' {
		eager = vlMutInitAnyFields
	}
	switch {
	case mode == "ia" || mode == "iz" || mode == "ja" || mode == "jz":
		late = vlObsFieldList
	case vlHMLazy(mode) >= 0:
		late = vlLazyTableM[vlHMLazy(mode)].fields
	}
	return
}

// vlRunHMReal: the history on the real container.  eagerObs = the eager fields before they were edited.
func vlRunHMReal(c *vlHMCase) (start string, eagerObs []string, second string, late []reflect.Value) {
	doc := vlYamlDoc(c.cfg)
	var eh, lh reflect.Value
	lateOff := 0
	var mi vlMutOwner
	if c.mode[0] == 'i' {
		mi = &vlMutInit{muts: c.muts}
		eh = reflect.ValueOf(mi)
	} else if c.mode[0] == 'j' {
		mi = &vlMutInitAny{muts: c.muts}
		eh = reflect.ValueOf(mi)
	} else {
		eh = reflect.New(reflect.StructOf(vlHSStructFields("E", c.eager)))
	}
	lateFields := func() reflect.Value { return lh.Elem() }
	switch {
	case c.mode == "ia" || c.mode == "ja":
		o := &vlAaObs{}
		lh = reflect.ValueOf(o)
		lateFields = func() reflect.Value { return lh.Elem().Field(0) }
	case c.mode == "iz" || c.mode == "jz":
		o := &vlZzObs{}
		lh = reflect.ValueOf(o)
		lateFields = func() reflect.Value { return lh.Elem().Field(0) }
	case vlHMLazy(c.mode) >= 0:
		lh = reflect.ValueOf(vlLazyTableM[vlHMLazy(c.mode)].mk())
		lateOff = 1 // behind the embedded LazyInitComponent
	default:
		lh = reflect.New(reflect.StructOf(vlHSStructFields("L", c.late)))
	}
	// the harness edits A's fields (modes s b z): what was bound is observed first
	edit := func() {
		if mi != nil {
			eagerObs = mi.observed()
			return
		}
		for i := range c.eager {
			eagerObs = append(eagerObs, vlRender(eh.Elem().Field(i)))
		}
		for _, m := range c.muts {
			if m.field < len(c.eager) {
				vlApplyMut(eh.Elem().Field(m.field), m)
			}
		}
	}
	var err1, err2 error
	ran2 := false
	pan := hx.Guard(func() {
		a := app.NewApp()
		defer a.Close()
		run := func(comps ...any) error {
			return a.Run(app.LogLevel(syslog.LvPanic), app.SetConfigLoader(loader.NewRawLoader([]byte(doc))), app.SetComponents(comps...))
		}
		switch {
		case c.mode == "s":
			if err1 = run(eh.Interface()); err1 != nil {
				return
			}
			edit()
			b := app.NewApp()
			defer b.Close()
			ran2 = true
			err2 = b.Run(app.LogLevel(syslog.LvPanic), app.SetConfigure(a.Configure), app.SetConfigLoader(), app.SetComponents(lh.Interface()))
		case c.mode == "b" || c.mode == "ia" || c.mode == "iz" || c.mode == "ja" || c.mode == "jz":
			if err1 = run(eh.Interface(), lh.Interface()); err1 != nil {
				return
			}
			edit()
			ran2 = true
		default:
			if err1 = run(eh.Interface(), lh.Interface()); err1 != nil {
				return
			}
			edit()
			ran2 = true
			_, err2 = a.GetComponentByName(framework_helper.GetComponentName(lh.Interface()))
		}
	})
	if pan != nil {
		return "panic", nil, "", nil
	}
	start = "ok"
	if err1 != nil {
		return "err", nil, "", nil
	}
	if ran2 {
		second = "ok"
		if err2 != nil {
			second = "err"
		} else {
			for i := range c.late {
				late = append(late, lateFields().Field(lateOff+i))
			}
		}
	}
	return
}

func vlRunHM(c *vlHMCase, w *hx.Writer) {
	if fe, fl := vlHMFixed(c.mode); fe != nil || fl != nil {
		if fe != nil {
			c.eager = fe
		}
		if fl != nil {
			c.late = fl
		}
	}
	start, eagerObs, second, late := vlRunHMReal(c)
	obs := append([]string{start}, eagerObs...)
	if second != "" {
		obs = append(obs, second)
	}
	for _, v := range late {
		obs = append(obs, vlRender(v))
	}
	scn := strings.Join([]string{"HM", c.mode, c.cfg.tok(), vlMutsTok(c.muts), vlHolderTok(c.eager), vlHolderTok(c.late)}, " ")
	out := hx.Case{Scn: scn, Obs: strings.Join(obs, " "), Tags: append([]string{"edit", "edit-mode-" + c.mode[:1]}, c.labels...)}
	view := vlNewCurView(c.cfg, nil)
	switch {
	case start == "panic":
		out.Oracle = "FAIL valuepath-panic the container panicked"
	case start == "ok":
		// the eager fields before the edits: rendered already; judged through their rendering
		for i, f := range c.eager {
			if i >= len(eagerObs) {
				break
			}
			if want, ok := view.wantRender(f); ok && want != eagerObs[i] && out.Oracle == "" {
				out.Oracle = fmt.Sprintf("FAIL setget-first eager field %s:%q holds %s, configured %s", f.name, f.tag, eagerObs[i], want)
			}
		}
		claimed, allWhole := 0, len(c.late) > 0
		for i, f := range c.late {
			var got reflect.Value
			if late != nil {
				got = late[i]
			} else {
				got = reflect.Zero(f.t.rtype())
			}
			d, n, whole := view.judge(f, got)
			claimed += n
			allWhole = allWhole && whole
			if late != nil && d != "" && out.Oracle == "" {
				out.Oracle = fmt.Sprintf("FAIL bound-aliased after the owner of another field edited its own value (%s): late field %s", vlMutsTok(c.muts), d)
			}
		}
		if second == "err" && allWhole && out.Oracle == "" {
			out.Oracle = fmt.Sprintf("FAIL bound-aliased after %s: the later population failed although every key of the late holder is configured", vlMutsTok(c.muts))
		}
		if claimed > 0 {
			out.Tags = append(out.Tags, "judged")
		}
	}
	w.Put(out)
}

// wantRender: the rendering of the document's value for a prefix-bound field (ok=false: no claim).
func (cv *vlCurView) wantRender(f vlHField) (string, bool) {
	val, _ := vlSplitTagArgs(f.tag)
	if f.name != "prefix" || strings.ContainsAny(val, "${}#") || val == "" {
		return "", false
	}
	v, sure := cv.at(vlPathOf(val), true)
	if !sure || v == nil || v.k == 'z' {
		return "", false
	}
	want, err := vlDirectDecode(v.native(), f.t.rtype())
	if err != nil {
		return "", false
	}
	return vlRender(want), true
}

func vlHMReplay(f []string, w *hx.Writer) {
	if len(f) != 6 || f[1] == "" || !vlHMModeOK(f[1]) {
		return
	}
	cfg, rest, ok := vlParseCval(f[2])
	if !ok || rest != "" || cfg.k != 'm' {
		return
	}
	muts, ok := vlParseMuts(f[3])
	if !ok {
		return
	}
	eager, ok1 := vlParseHolder(f[4])
	late, ok2 := vlParseHolder(f[5])
	if !ok1 || !ok2 {
		return
	}
	fe, fl := vlHMFixed(f[1])
	if (fe != nil && vlHolderTok(fe) != vlHolderTok(eager)) || (fl != nil && vlHolderTok(fl) != vlHolderTok(late)) {
		return // Go-declared holders: their fields are what the tables say
	}
	vlRunHM(&vlHMCase{mode: f[1], cfg: cfg, muts: muts, eager: eager, late: late, labels: []string{"replay"}}, w)
}

// vlHMDoc: the fixed vocabulary of the Go-declared holders: section sa (ka kb kc, sub-section sb: kd ke) and the list sl.
func vlHMDoc(word func() string, num func() int64, flag bool, n int) *vlCval {
	sl := vlCList()
	for i := 0; i < n; i++ {
		sl.l = append(sl.l, vlCStr(word()))
	}
	return vlCMap(map[string]*vlCval{"kz": vlCStr("zz"), "sl": sl,
		"sa": vlCMap(map[string]*vlCval{"ka": vlCStr(word()), "kb": vlCInt(num()), "kc": vlCBool(flag),
			"sb": vlCMap(map[string]*vlCval{"kd": vlCStr(word()), "ke": vlCInt(num())})})})
}

// vlGenMutsFor: one to three edits of the top level of the eager fields that are untyped maps / lists bound by prefix.
func vlGenMutsFor(r *hx.Rng, doc *vlCval, eager []vlHField, word func() string, num func() int64) []vlMut {
	var ms []vlMut
	var cand []int
	for i, f := range eager {
		if f.name == "prefix" && (f.t.code() == "MA" || f.t.code() == "LA") {
			cand = append(cand, i)
		}
	}
	if len(cand) == 0 {
		return nil
	}
	scalar := func() *vlCval {
		if r.Bool() {
			return vlCStr(word())
		}
		return vlCInt(num())
	}
	for i, n := 0, 1+r.Intn(3); i < n; i++ {
		fi := cand[r.Intn(len(cand))]
		val, _ := vlSplitTagArgs(eager[fi].tag)
		at := vlGetPath(vlLowerKeys(doc), vlPathOf(val))
		if at == nil {
			continue
		}
		switch {
		case at.k == 'm' && len(at.mk) > 0:
			k := at.mk[r.Intn(len(at.mk))]
			switch r.Intn(4) {
			case 0:
				ms = append(ms, vlMut{field: fi, op: 's', key: "timeout" + vlGenDigits(r, 1, false), val: scalar()})
			case 1:
				ms = append(ms, vlMut{field: fi, op: 'd', key: k})
			case 2:
				ms = append(ms, vlMut{field: fi, op: 's', key: k, val: vlCMap(map[string]*vlCval{"edited": vlCBool(true)})})
			default:
				ms = append(ms, vlMut{field: fi, op: 's', key: k, val: scalar()})
			}
		case at.k == 'l' && len(at.l) > 0:
			if r.P(1, 4) {
				ms = append(ms, vlMut{field: fi, op: 'a', val: scalar()})
			} else {
				ms = append(ms, vlMut{field: fi, op: 'e', idx: r.Intn(len(at.l)), val: vlCStr("primary:" + word())})
			}
		}
	}
	return ms
}

// vlGenHM: a history of kind HM.
func vlGenHM(r *hx.Rng) *vlHMCase {
	word := func() string { return vlGenPlainWord(r) + ".internal" }
	num := func() int64 { return int64(1 + r.Intn(9000)) }
	c := &vlHMCase{cfg: vlHMDoc(word, num, r.Bool(), 1+r.Intn(3))}
	modes := []string{"s", "b", "b", "ia", "iz"}
	for n := range vlLazyTableM {
		modes = append(modes, "z"+strconv.Itoa(n), "i"+strconv.Itoa(n))
	}
	c.mode = modes[r.Intn(len(modes))]
	if c.mode[0] == 'i' {
		c.eager = vlMutInitFields
	} else {
		pool := []vlHField{{"prefix", vlTMA, "sa"}, {"prefix", vlTLA, "sl"}, {"prefix", vlTMA, "sa.sb"}, {"prefix", vlTMA, "SA"}, {"prefix", vlTLA, "SL"},
			{"prefix", vlTSecA, "sa"}, {"value", vlTS, "${sa.ka}"}, {"prefix", vlTLS, "sl"}}
		c.eager = append(c.eager, pool[r.Intn(5)])
		for _, i := range r.Perm(len(pool))[:1+r.Intn(2)] {
			c.eager = append(c.eager, pool[i])
		}
	}
	_, fl := vlHMFixed(c.mode)
	if fl != nil {
		c.late = fl
	} else {
		secKa := &vlFty{k: 'T', fields: []vlFfield{{"ka", vlTS, ""}, {"kc", vlTB, ""}}}
		pool := []vlHField{{"prefix", vlTMA, "sa"}, {"prefix", vlTLA, "sl"}, {"prefix", vlTMA, "sa.sb"}, {"prefix", vlTSecA, "sa"}, {"prefix", vlTLS, "sl"},
			{"prefix", vlTSecB, "sa.sb"}, {"prefix", secKa, "SA"}, {"value", vlTS, "${sa.ka}"}, {"prop", vlTI, "sa.kb"}, {"prop", vlTI, "sa.sb.ke"},
			{"value", vlTS, "${sa.sb.kd}/${sa.kb}"}, {"prefix", vlTS, "sa.ka"}, {"prefix", vlTA, "sl"}, {"prefix", vlTMS, "sa.sb"}}
		for _, i := range r.Perm(len(pool))[:3+r.Intn(3)] {
			c.late = append(c.late, pool[i])
		}
	}
	c.muts = vlGenMutsFor(r, c.cfg, c.eager, word, num)
	c.labels = []string{"gen"}
	return c
}

// vlValueHMCorpus: the owner of an untyped map / list completes its own copy; every other binding shows the configuration.
func vlValueHMCorpus(w *hx.Writer) {
	word := func() string { return "a.example.org" }
	doc := vlHMDoc(word, func() int64 { return 3 }, false, 2)
	muts := []vlMut{{field: 0, op: 's', key: "timeout", val: vlCStr("30s")}, {field: 0, op: 'd', key: "ka"}, {field: 0, op: 's', key: "kb", val: vlCInt(99)},
		{field: 1, op: 'e', idx: 0, val: vlCStr("primary:a.example.org")}, {field: 1, op: 'a', val: vlCStr("c.example.org")}, {field: 2, op: 'd', key: "kd"}}
	modes := []string{"s", "b", "ia", "iz"}
	for n := range vlLazyTableM {
		modes = append(modes, "z"+strconv.Itoa(n), "i"+strconv.Itoa(n))
	}
	for _, mode := range modes {
		c := &vlHMCase{mode: mode, cfg: doc, muts: muts, eager: vlMutInitFields, late: vlObsFieldList, labels: []string{"corpus"}}
		vlRunHM(c, w)
	}
	vlRunHM(&vlHMCase{mode: "b", cfg: doc, eager: vlMutInitFields, late: vlObsFieldList, labels: []string{"corpus"}}, w) // nothing is edited
}

// ================================================================ seventh round: edits BELOW the top level (kind HM)
//
// Since the repair d95d431 (the binder hands out copies of configuration maps and lists; defect D23) a bound value is the
// field's own value all the way down: a key set / deleted inside a NESTED map, an element of a nested list (or of a map
// inside a list) overwritten, an edit through a field of type `any` (type-asserted to map[string]any / []any) — none of them
// is a change of the configuration.  The edit syntax is extended additively: `<field>:/<step>/…:<op>` names the way down
// from the field (k<hexkey> into a map, i<index> into a list; `/` alone = no step: the field itself, type-asserted).
// Documents: vlHMDocDeep — the vocabulary of vlHMDoc (section sa with sub-section sb, list sl) with a third level
// (sa.sb.sc), a list inside the sub-section (sa.sb.sl) and a list of maps (sm).

func vlHMDocDeep(word func() string, num func() int64, flag bool, n int) *vlCval {
	c := vlHMDoc(word, num, flag, n)
	sb := vlMapGet(vlMapGet(c, "sa"), "sb")
	vlMapPut(sb, "sc", vlCMap(map[string]*vlCval{"kf": vlCStr(word()), "kg": vlCInt(num())}))
	vlMapPut(sb, "sl", vlCList(vlCStr(word()), vlCStr(word())))
	sm := vlCList()
	for i := 0; i < 1+n%2+1; i++ {
		sm.l = append(sm.l, vlCMap(map[string]*vlCval{"kn": vlCStr(word()), "kp": vlCInt(num())}))
	}
	kv := map[string]*vlCval{"sm": sm}
	for i, k := range c.mk {
		kv[k] = c.mv[i]
	}
	// sorted keys everywhere (tokens are canonical)
	var sortKeys func(v *vlCval) *vlCval
	sortKeys = func(v *vlCval) *vlCval {
		switch v.k {
		case 'm':
			m := map[string]*vlCval{}
			for i, k := range v.mk {
				m[k] = sortKeys(v.mv[i])
			}
			return vlCMap(m)
		case 'l':
			out := vlCList()
			for _, e := range v.l {
				out.l = append(out.l, sortKeys(e))
			}
			return out
		}
		return v
	}
	return sortKeys(vlCMap(kv))
}

// vlGenDeepMutsFor: one to three edits below the top level of the eager fields bound by prefix to a map / a list — fields
// of type map[string]any, []any and any; through a field of type any the top level counts as "below" too.
func vlGenDeepMutsFor(r *hx.Rng, doc *vlCval, eager []vlHField, word func() string, num func() int64) []vlMut {
	var cand []int
	for i, f := range eager {
		if f.name == "prefix" && (f.t.code() == "MA" || f.t.code() == "LA" || f.t.code() == "A") {
			cand = append(cand, i)
		}
	}
	if len(cand) == 0 {
		return nil
	}
	scalar := func() *vlCval {
		if r.Bool() {
			return vlCStr("edited:" + word())
		}
		return vlCInt(num())
	}
	containers := func(v *vlCval) (keys []string, idxs []int) {
		switch v.k {
		case 'm':
			for i, k := range v.mk {
				if v.mv[i].k == 'm' || v.mv[i].k == 'l' {
					keys = append(keys, k)
				}
			}
		case 'l':
			for i, e := range v.l {
				if e.k == 'm' || e.k == 'l' {
					idxs = append(idxs, i)
				}
			}
		}
		return
	}
	var ms []vlMut
	for i, n := 0, 1+r.Intn(3); i < n; i++ {
		fi := cand[r.Intn(len(cand))]
		val, _ := vlSplitTagArgs(eager[fi].tag)
		at := vlGetPath(vlLowerKeys(doc), vlPathOf(val))
		if at == nil || (at.k != 'm' && at.k != 'l') {
			continue
		}
		m := vlMut{field: fi, deep: true}
		minSteps := 1
		if eager[fi].t.code() == "A" {
			minSteps = 0
		}
		for {
			keys, idxs := containers(at)
			if len(keys)+len(idxs) == 0 || (len(m.steps) >= minSteps && r.P(1, 3)) {
				break
			}
			if len(keys) > 0 {
				k := keys[r.Intn(len(keys))]
				m.steps = append(m.steps, vlStep{key: k})
				at = vlMapGet(at, k)
			} else {
				ix := idxs[r.Intn(len(idxs))]
				m.steps = append(m.steps, vlStep{idx: ix, index: true})
				at = at.l[ix]
			}
		}
		if len(m.steps) < minSteps {
			continue
		}
		switch {
		case at.k == 'm' && len(at.mk) > 0:
			k := at.mk[r.Intn(len(at.mk))]
			switch r.Intn(4) {
			case 0:
				m.op, m.key, m.val = 's', "timeout"+vlGenDigits(r, 1, false), scalar()
			case 1:
				m.op, m.key = 'd', k
			case 2:
				m.op, m.key, m.val = 's', k, vlCMap(map[string]*vlCval{"edited": vlCBool(true)})
			default:
				m.op, m.key, m.val = 's', k, scalar()
			}
		case at.k == 'l' && len(at.l) > 0:
			if r.P(1, 4) {
				m.op, m.val = 'a', scalar()
			} else {
				m.op, m.idx, m.val = 'e', r.Intn(len(at.l)), scalar()
			}
		default:
			continue
		}
		ms = append(ms, m)
	}
	return ms
}

var (
	vlTSecC  = &vlFty{k: 'T', fields: []vlFfield{{"kf", vlTS, ""}, {"kg", vlTI, ""}}}
	vlTSecN  = &vlFty{k: 'T', fields: []vlFfield{{"kn", vlTS, ""}, {"kp", vlTI, ""}}}
	vlTSecBC = &vlFty{k: 'T', fields: []vlFfield{{"kd", vlTS, ""}, {"sc", vlTSecC, ""}, {"sl", vlTLS, ""}}}
)

// vlGenHMDeep: a history of kind HM whose edits go below the top level / through fields of type any.
func vlGenHMDeep(r *hx.Rng) *vlHMCase {
	word := func() string { return vlGenPlainWord(r) + ".internal" }
	num := func() int64 { return int64(1 + r.Intn(9000)) }
	c := &vlHMCase{cfg: vlHMDocDeep(word, num, r.Bool(), 1+r.Intn(3))}
	modes := []string{"s", "s", "b", "b", "ia", "iz", "ja", "jz"}
	for n := range vlLazyTableM {
		modes = append(modes, "z"+strconv.Itoa(n), "i"+strconv.Itoa(n), "j"+strconv.Itoa(n))
	}
	c.mode = modes[r.Intn(len(modes))]
	fe, fl := vlHMFixed(c.mode)
	if fe != nil {
		c.eager = fe
	} else {
		pool := []vlHField{{"prefix", vlTMA, "sa"}, {"prefix", vlTA, "sa"}, {"prefix", vlTLA, "sm"}, {"prefix", vlTA, "sm"}, {"prefix", vlTMA, "sa.sb"}, {"prefix", vlTA, "SA.SB"},
			{"prefix", vlTA, "sl"}, {"prefix", vlTMA, "sa.sb.sc"}, {"prefix", vlTLA, "sa.sb.sl"}, {"prefix", vlTA, "sa.sb.sl"}}
		for _, i := range r.Perm(len(pool))[:2+r.Intn(2)] {
			c.eager = append(c.eager, pool[i])
		}
	}
	if fl != nil {
		c.late = fl
	} else {
		pool := []vlHField{{"prefix", vlTMA, "sa"}, {"prefix", vlTMA, "sa.sb"}, {"prefix", vlTMA, "sa.sb.sc"}, {"prefix", vlTSecC, "sa.sb.sc"}, {"prefix", vlTSecBC, "sa.sb"},
			{"prop", vlTS, "sa.sb.sc.kf"}, {"value", vlTI, "${sa.sb.sc.kg}"}, {"prefix", vlTS, "sa.sb.sc.kf"}, {"prefix", vlTLS, "sa.sb.sl"}, {"prefix", vlTLA, "sa.sb.sl"},
			{"prefix", vlTLA, "sm"}, {"prefix", &vlFty{k: 'L', elem: vlTSecN}, "sm"}, {"prefix", vlTA, "sm"}, {"prefix", vlTA, "sa"}, {"prefix", vlTSecA, "sa"},
			{"prop", vlTS, "sa.sb.kd"}, {"value", vlTS, "${sa.ka}/${sa.sb.ke}"}, {"prefix", vlTLS, "sl"}, {"prefix", vlTA, "sl"}, {"prefix", &vlFty{k: 'P', elem: vlTSecC}, "SA.SB.SC"}}
		for _, i := range r.Perm(len(pool))[:4+r.Intn(3)] {
			c.late = append(c.late, pool[i])
		}
	}
	c.muts = vlGenDeepMutsFor(r, c.cfg, c.eager, word, num)
	if r.P(1, 3) { // a top-level edit next to the nested ones
		c.muts = append(c.muts, vlGenMutsFor(r, c.cfg, c.eager, word, num)...)
	}
	c.labels = []string{"gen", "deep"}
	return c
}

// vlValueHMDeepCorpus: nested edits and edits through fields of type any, in every mode.
func vlValueHMDeepCorpus(w *hx.Writer) {
	word := func() string { return "a.example.org" }
	doc := vlHMDocDeep(word, func() int64 { return 3 }, false, 2)
	k := func(keys ...string) []vlStep {
		var st []vlStep
		for _, x := range keys {
			st = append(st, vlStep{key: x})
		}
		return st
	}
	late := []vlHField{{"prefix", vlTMA, "sa"}, {"prefix", vlTSecBC, "sa.sb"}, {"prop", vlTI, "sa.sb.ke"}, {"value", vlTS, "${sa.sb.sc.kf}"}, {"prefix", vlTSecC, "sa.sb.sc"},
		{"prefix", vlTLS, "sa.sb.sl"}, {"prefix", &vlFty{k: 'L', elem: vlTSecN}, "sm"}, {"prefix", vlTLA, "sm"}, {"prop", vlTS, "sa.ka"}, {"prefix", vlTA, "sl"}}
	// the harness edits (modes s, b, z<n>): eager = map, any, list of maps, any
	eager := []vlHField{{"prefix", vlTMA, "sa"}, {"prefix", vlTA, "sa"}, {"prefix", vlTLA, "sm"}, {"prefix", vlTA, "sl"}}
	mutsH := []vlMut{
		{field: 0, deep: true, steps: k("sb"), op: 's', key: "ke", val: vlCInt(99)},
		{field: 0, deep: true, steps: k("sb", "sc"), op: 'd', key: "kf"},
		{field: 0, deep: true, steps: k("sb", "sl"), op: 'e', idx: 0, val: vlCStr("primary:a.example.org")},
		{field: 1, deep: true, op: 's', key: "ka", val: vlCStr("edited")},
		{field: 2, deep: true, steps: []vlStep{{idx: 0, index: true}}, op: 's', key: "kn", val: vlCStr("edited")},
		{field: 3, deep: true, op: 'e', idx: 1, val: vlCStr("edited")},
	}
	for _, mode := range []string{"s", "b", "z1", "z3", "z4"} {
		c := &vlHMCase{mode: mode, cfg: doc, muts: mutsH, eager: eager, late: late, labels: []string{"corpus", "deep"}}
		vlRunHM(c, w)
		for i := range mutsH { // each edit on its own
			vlRunHM(&vlHMCase{mode: mode, cfg: doc, muts: mutsH[i : i+1], eager: eager, late: late, labels: []string{"corpus", "deep"}}, w)
		}
	}
	// the component's own Init edits: vlMutInit (typed fields, nested edits) and vlMutInitAny (fields of type any)
	mutsI := []vlMut{
		{field: 0, deep: true, steps: k("sb"), op: 's', key: "kd", val: vlCStr("edited")},
		{field: 0, deep: true, steps: k("sb", "sc"), op: 's', key: "kg", val: vlCInt(77)},
		{field: 2, deep: true, steps: k("sl"), op: 'e', idx: 1, val: vlCStr("edited")},
		{field: 2, deep: true, steps: k("sc"), op: 'd', key: "kf"},
	}
	mutsJ := []vlMut{
		{field: 0, deep: true, op: 'd', key: "ka"},
		{field: 0, deep: true, steps: k("sb"), op: 's', key: "ke", val: vlCInt(99)},
		{field: 1, deep: true, steps: []vlStep{{idx: 1, index: true}}, op: 's', key: "kp", val: vlCInt(0)},
		{field: 3, deep: true, steps: []vlStep{{idx: 0, index: true}}, op: 'd', key: "kn"},
		{field: 4, deep: true, op: 'e', idx: 0, val: vlCStr("edited")},
		{field: 2, deep: true, steps: k("sb", "sl"), op: 'a', val: vlCStr("more")},
	}
	for _, tail := range []string{"a", "z", "0", "1", "3", "4"} {
		vlRunHM(&vlHMCase{mode: "i" + tail, cfg: doc, muts: mutsI, labels: []string{"corpus", "deep"}}, w)
		vlRunHM(&vlHMCase{mode: "j" + tail, cfg: doc, muts: mutsJ, labels: []string{"corpus", "deep"}}, w)
	}
}

// ---------------------------------------------------------------- seventh round
//
// (1) keys and member names in different letter case (label keycase).  A struct member is found under the key spelled exactly
//     like its (yaml) name, else under the key equal to it up to letter case.  Keys that come out of the loaded document are in
//     lower case whatever the document spelled; the keys of a MAP LITERAL in a value tag (`map[Host:a Port:1]`, the JSON form)
//     and of a DEFAULT (`${k:map[Host:a]}`, `prop:"k:map[Host:a]"`) stay as written.  Targets: struct, *struct, []struct,
//     map[string]struct, a nested struct member; member names and keys spelled host / Host / HOST / hOst independently.
//     The literal is bound as written (valuepath-keycase), the prefix twin holds the same data from the document
//     (prefix-mismatch), the shorthand twin of a placeholder with a default binds what the placeholder binds (prop-differs),
//     `${k}` and `prop:"k"` equal `prefix:"k"` (valuepath-other).
// (2) sibling keys that differ from a member's key by `-` / `_` only (label decoy): `a` next to `_a`, `a-`; `a_b` next to
//     `ab`.  They are different keys; the member named A / aB holds the value under the key equal to its name up to letter case,
//     on every one of vlDepStarts fresh starts (flag r; start-unstable / prefix-mismatch / valuepath-other).
// (3) points in time (sub-harness valueexpr, label time): fields of type time.Time / *time.Time / vlStamp / *vlStamp bound by prefix
//     from a YAML timestamp or from a text with a `timeLayout` argument, through `${k}`, from a literal; with and without a
//     validate argument.  The validator applied directly to such a value as a VARIABLE gives the verdict on the stated
//     constraints; Run fails exactly then (validate-iff; before the repair of D25 every such start failed); a panic is validate-panic.

const vlKeyCases = 3

// vlRecase: the key in letter case 1 Capitalised | 2 UPPER | 3 aLTERNATING (for keys in lower case: ToLower gives the key back).
func vlRecase(k string, style int) string {
	b := []byte(k)
	for i := range b {
		up := style == 2 || (style == 1 && i == 0) || (style == 3 && i%2 == 1)
		if up && b[i] >= 'a' && b[i] <= 'z' {
			b[i] -= 32
		}
	}
	return string(b)
}

func vlRecaseKeys(c *vlCval, style int) *vlCval {
	switch c.k {
	case 'l':
		out := &vlCval{k: 'l'}
		for _, e := range c.l {
			out.l = append(out.l, vlRecaseKeys(e, style))
		}
		return out
	case 'm':
		out := &vlCval{k: 'm'} // the order of the keys is kept (it only decides the order of the lines of the document)
		for i, k := range c.mk {
			out.mk = append(out.mk, vlRecase(k, style))
			out.mv = append(out.mv, vlRecaseKeys(c.mv[i], style))
		}
		return out
	}
	return c
}

// vlKeysLower: no key of the value contains an upper-case letter (ASCII keys only).
func vlKeysLower(c *vlCval) bool {
	switch c.k {
	case 'l':
		for _, e := range c.l {
			if !vlKeysLower(e) {
				return false
			}
		}
	case 'm':
		for i, k := range c.mk {
			for j := 0; j < len(k); j++ {
				if k[j] >= 0x80 || (k[j] >= 'A' && k[j] <= 'Z') {
					return false
				}
			}
			if !vlKeysLower(c.mv[i]) {
				return false
			}
		}
	}
	return true
}

// vlSpell: the word in one of the letter cases people write keys in; style 0 = as it is (lower case).
func vlSpell(r *hx.Rng, w string, style int) string {
	b := []byte(w)
	up := func(i int) {
		if i < len(b) && b[i] >= 'a' && b[i] <= 'z' {
			b[i] -= 32
		}
	}
	switch style {
	case 1: // Host
		up(0)
	case 2: // HOST
		for i := range b {
			up(i)
		}
	case 3: // hOst
		up(1)
		if len(b) < 2 {
			up(0)
		}
	case 4: // a capital somewhere
		up(r.Intn(len(b)))
	}
	return string(b)
}

// vlLitText: the value as a literal of a value tag — the bracket notation `map[k:v k:v]` `[a,b]`, or JSON.  Only for
// plain words, small integers, booleans, lists and maps of those.
func vlLitText(c *vlCval, json bool) string {
	switch c.k {
	case 's':
		if json {
			return strconv.Quote(c.s)
		}
		return c.s
	case 'i':
		return strconv.FormatInt(c.i, 10)
	case 'b':
		return strconv.FormatBool(c.b)
	case 'l':
		var p []string
		for _, e := range c.l {
			p = append(p, vlLitText(e, json))
		}
		return "[" + strings.Join(p, ",") + "]"
	case 'm':
		var p []string
		for i, k := range c.mk {
			if json {
				p = append(p, strconv.Quote(k)+":"+vlLitText(c.mv[i], json))
			} else {
				p = append(p, k+":"+vlLitText(c.mv[i], json))
			}
		}
		if json {
			return "{" + strings.Join(p, ",") + "}"
		}
		return "map[" + strings.Join(p, " ") + "]"
	}
	panic("vlLitText: value outside the literal class")
}

var vlMemberWords = []string{"host", "port", "usetls", "name", "ttl", "maxconn", "mode", "zone", "tags", "owner", "limit", "path"}

// vlKeyedStruct: a struct type over 1-4 member words and one map of data for it.  spellName / spellKey decide how the
// member's (yaml) name and its key are written.  A member may be missing from the data; now and then the data has a key no
// member is named after.  Member types: string, int, bool, []string, (depth 0) a nested struct.
type vlKeyedGen struct {
	r         *hx.Rng
	spellName func(w string) string
	spellKey  func(w string) string
}

func (g *vlKeyedGen) structType(depth int) (*vlFty, []string) {
	r := g.r
	t := &vlFty{k: 'T'}
	var words []string
	for _, i := range r.Perm(len(vlMemberWords))[:1+r.Intn(4)] {
		w := vlMemberWords[i]
		var ft *vlFty
		switch r.Intn(8) {
		case 0, 1, 2:
			ft = vlTS
		case 3, 4:
			ft = vlTI
		case 5:
			ft = vlTB
		case 6:
			ft = vlTLS
		default:
			if depth < 1 {
				ft, _ = g.structType(depth + 1)
			} else {
				ft = vlTPI
			}
		}
		words = append(words, w)
		t.fields = append(t.fields, vlFfield{name: g.spellName(w), t: ft})
	}
	return t, words
}

func (g *vlKeyedGen) leaf(t *vlFty) *vlCval {
	r := g.r
	switch t.k {
	case 'S':
		return vlCStr(vlGenPlainWord(r))
	case 'I':
		return vlCInt(int64(1 + r.Intn(9999)))
	case 'B':
		return vlCBool(r.Bool())
	case 'P':
		return g.leaf(t.elem)
	case 'L':
		c := &vlCval{k: 'l'}
		for i, n := 0, 1+r.Intn(3); i < n; i++ {
			c.l = append(c.l, g.leaf(t.elem))
		}
		return c
	case 'T':
		return g.data(t)
	}
	panic("vlKeyedGen.leaf")
}

// data: one map for the struct type; the key of a member is the member's word as spellKey writes it.
func (g *vlKeyedGen) data(t *vlFty) *vlCval {
	r := g.r
	kv := map[string]*vlCval{}
	for i, f := range t.fields {
		if i > 0 && r.P(1, 6) {
			continue // a member the data does not mention keeps its zero value
		}
		kv[g.spellKey(strings.ToLower(f.name))] = g.leaf(f.t)
	}
	if r.P(1, 4) {
		kv[g.spellKey("extra")] = vlCStr(vlGenPlainWord(r))
	}
	return vlCMap(kv)
}

// wrap: the struct itself, a pointer to it, a slice of it, a map of it (outer keys in lower case).
func (g *vlKeyedGen) wrap(t *vlFty) (*vlFty, *vlCval) {
	r := g.r
	switch r.Intn(10) {
	case 0, 1, 2, 3:
		return t, g.data(t)
	case 4, 5:
		return &vlFty{k: 'P', elem: t}, g.data(t)
	case 6, 7:
		c := &vlCval{k: 'l'}
		for i, n := 0, 1+r.Intn(3); i < n; i++ {
			c.l = append(c.l, g.data(t))
		}
		return &vlFty{k: 'L', elem: t}, c
	default:
		kv := map[string]*vlCval{}
		for i, n := 0, 1+r.Intn(3); i < n; i++ {
			kv[vlGenKey(r)] = g.data(t)
		}
		return &vlFty{k: 'M', elem: t}, vlCMap(kv)
	}
}

// vlKeyedCase: the V3 case over (type, data) in one of the forms
//
//	lit    value:"map[Host:a Port:1]"      prop:"k"          prefix:"k"    the document has the same data under k
//	json   value:"{\"Host\":\"a\",…}"      prop:"k"          prefix:"k"
//	dflt   value:"${kabsent:map[Host:a]}"  prop:"kabsent:…"  prefix:"k"    kabsent is not configured
//	route  value:"${k}"                    prop:"k"          prefix:"k"
func vlKeyedCase(r *hx.Rng, t *vlFty, data *vlCval, form string) *vlVcase {
	key := vlGenKey(r)
	c := &vlVcase{kind: "V3", t: t, subject: data, cfg: vlCMap(map[string]*vlCval{"kz": vlCStr("zz"), key: data})}
	switch form {
	case "lit", "json":
		c.literal = true
		c.tags = [][]vlTnode{{vlTLit(vlLitText(data, form == "json"))}, {vlTLit(key)}, {vlTLit(key)}}
	case "dflt":
		c.literal = true
		absent := key + "x"
		d := vlLitText(data, false)
		c.tags = [][]vlTnode{{vlTPHD(absent, d)}, {vlTLit(absent + ":" + d)}, {vlTLit(key)}}
	default:
		c.tags = [][]vlTnode{{vlTPH(key)}, {vlTLit(key)}, {vlTLit(key)}}
	}
	c.labels = []string{"form-" + form, "type-" + string(t.k)}
	return c
}

// vlGenC17KeyCase: family (1).
func vlGenC17KeyCase(r *hx.Rng) *vlVcase {
	// the first member's key is spelled with a capital and differently from the member's name; the others as they come
	first := true
	var firstKeyStyle int
	g := &vlKeyedGen{r: r}
	nameStyle := map[string]int{}
	g.spellName = func(w string) string {
		st := r.Intn(5)
		if first {
			firstKeyStyle = 1 + r.Intn(3)
			st = []int{0, 1, 2, 3}[r.Intn(4)]
			if st == firstKeyStyle {
				st = 0
			}
			first = false
			nameStyle[w] = -1
		}
		return vlSpell(r, w, st)
	}
	g.spellKey = func(w string) string {
		if nameStyle[w] == -1 {
			return vlSpell(r, w, firstKeyStyle)
		}
		return vlSpell(r, w, r.Intn(5))
	}
	st, _ := g.structType(0)
	t, data := g.wrap(st)
	form := []string{"lit", "lit", "lit", "json", "json", "dflt", "dflt", "dflt", "route", "route"}[r.Intn(10)]
	c := vlKeyedCase(r, t, data, form)
	if r.P(1, 8) {
		c.args = ",required=false"
		c.labels = append(c.labels, "optional")
	}
	c.labels = append([]string{"keycase"}, c.labels...)
	vlGenFlagsC17(r, c)
	return c
}

// vlDecoysOf: one or two keys that differ from the key by `-` / `_` only and are not in `taken`.
func vlDecoysOf(r *hx.Rng, k string, taken map[string]bool) []string {
	var out []string
	for try := 0; try < 8 && len(out) < 1+r.Intn(2); try++ {
		sep := []string{"_", "-"}[r.Intn(2)]
		var d string
		switch r.Intn(5) {
		case 0:
			d = sep + k
		case 1:
			d = k + sep
		case 2:
			i := 1 + r.Intn(len(k))
			d = k[:i] + sep + k[i:]
		case 3:
			d = strings.NewReplacer("_", "", "-", "").Replace(k) // `ab` next to `a_b`
		default:
			d = strings.NewReplacer("_", "-").Replace(k)
			if d == k {
				d = sep + k + sep
			}
		}
		if d == "" || taken[strings.ToLower(d)] {
			continue
		}
		taken[strings.ToLower(d)] = true
		out = append(out, d)
	}
	return out
}

// vlGenC17Decoy: family (2).  Members are named after words that may contain a separator (`max_conn`, `a-b`); the name has a
// capital three times in four (then no key is spelled exactly like it).  The data has, next to a member's key, one or two decoys
// with another value of the same type.
func vlGenC17Decoy(r *hx.Rng) *vlVcase {
	words := []string{"a", "ab", "a_b", "maxconn", "max_conn", "max-conn", "host", "ttl", "use-tls", "b", "rate_limit", "zone"}
	t := &vlFty{k: 'T'}
	taken := map[string]bool{}
	var keys []string
	for _, i := range r.Perm(len(words))[:1+r.Intn(3)] {
		w := words[i]
		if taken[w] {
			continue
		}
		taken[w] = true
		keys = append(keys, w)
		style := 0
		if r.P(3, 4) {
			style = 1 + r.Intn(4)
		}
		ft := []*vlFty{vlTS, vlTI, vlTI, vlTB}[r.Intn(4)]
		t.fields = append(t.fields, vlFfield{name: vlSpell(r, w, style), t: ft})
	}
	g := &vlKeyedGen{r: r}
	one := func() *vlCval {
		kv := map[string]*vlCval{}
		mine := map[string]bool{}
		for k := range taken {
			mine[k] = true
		}
		for i, k := range keys {
			ft := t.fields[i].t
			v := g.leaf(ft)
			kv[k] = v
			for _, d := range vlDecoysOf(r, k, mine) {
				w := g.leaf(ft)
				switch ft.k { // another value
				case 'S':
					w = vlCStr(v.s + "x")
				case 'I':
					w = vlCInt(v.i + 1 + int64(r.Intn(50)))
				case 'B':
					w = vlCBool(!v.b)
				}
				kv[d] = w
			}
		}
		return vlCMap(kv)
	}
	var data *vlCval
	switch r.Intn(8) {
	case 0, 1, 2, 3:
		data = one()
	case 4:
		t, data = &vlFty{k: 'P', elem: t}, one()
	case 5, 6:
		l := &vlCval{k: 'l'}
		for i, n := 0, 1+r.Intn(2); i < n; i++ {
			l.l = append(l.l, one())
		}
		t, data = &vlFty{k: 'L', elem: t}, l
	default:
		kv := map[string]*vlCval{}
		for i, n := 0, 1+r.Intn(2); i < n; i++ {
			kv[vlGenKey(r)] = one()
		}
		t, data = &vlFty{k: 'M', elem: t}, vlCMap(kv)
	}
	form := []string{"route", "route", "route", "route", "route", "route", "lit", "lit", "json", "dflt"}[r.Intn(10)]
	c := vlKeyedCase(r, t, data, form)
	c.labels = append([]string{"decoy"}, c.labels...)
	c.repeat = true
	if r.P(1, 3) {
		c.kcase = 1 + r.Intn(vlKeyCases)
	}
	vlGenFlagsC17(r, c)
	return c
}

// vlValueKeyCorpus: families (1) and (2) by hand.
func vlValueKeyCorpus(w *hx.Writer) {
	ep := &vlFty{k: 'T', fields: []vlFfield{{"host", vlTS, ""}, {"port", vlTI, ""}, {"useTLS", vlTB, ""}}}
	data := vlCMap(map[string]*vlCval{"Host": vlCStr("example.org"), "Port": vlCInt(8443), "UseTLS": vlCBool(true)})
	lower := vlCMap(map[string]*vlCval{"host": vlCStr("example.org"), "port": vlCInt(8443), "usetls": vlCBool(true)})
	r := hx.NewRng(7)
	for _, form := range []string{"lit", "json", "dflt", "route"} {
		for _, t := range []*vlFty{ep, {k: 'P', elem: ep}} {
			c := vlKeyedCase(r, t, data, form)
			c.labels = append([]string{"corpus", "keycase"}, c.labels...)
			vlRunCase(c, w)
		}
		c := vlKeyedCase(r, &vlFty{k: 'L', elem: ep}, vlCList(data, vlCMap(map[string]*vlCval{"HOST": vlCStr("b.example.org"), "port": vlCInt(1)})), form)
		c.labels = append([]string{"corpus", "keycase"}, c.labels...)
		vlRunCase(c, w)
		c = vlKeyedCase(r, &vlFty{k: 'M', elem: ep}, vlCMap(map[string]*vlCval{"ea": data, "eb": vlCMap(map[string]*vlCval{"hOST": vlCStr("b.example.org")})}), form)
		c.labels = append([]string{"corpus", "keycase"}, c.labels...)
		vlRunCase(c, w)
	}
	// the document spells its keys with capitals (flag c), the member names have capitals of their own
	for style := 1; style <= vlKeyCases; style++ {
		c := vlKeyedCase(r, &vlFty{k: 'T', fields: []vlFfield{{"HOST", vlTS, ""}, {"Port", vlTI, ""}, {"useTLS", vlTB, ""}}}, lower, "route")
		c.kcase = style
		c.labels = append([]string{"corpus", "keycase"}, c.labels...)
		vlRunCase(c, w)
	}
	// decoys: `max-conn` and `max_conn` next to `maxconn`; `a` next to `_a`, `a-`; `a_b` next to `ab`
	pool := &vlFty{k: 'T', fields: []vlFfield{{"maxConn", vlTI, ""}, {"A", vlTI, ""}, {"a_B", vlTS, ""}}}
	sec := vlCMap(map[string]*vlCval{"maxconn": vlCInt(16), "max-conn": vlCInt(8), "max_conn": vlCInt(64), "a": vlCInt(1), "_a": vlCInt(2), "a-": vlCInt(3),
		"a_b": vlCStr("right"), "ab": vlCStr("decoy")})
	for _, form := range []string{"route", "lit", "json", "dflt"} {
		for _, t := range []*vlFty{pool, {k: 'P', elem: pool}, {k: 'L', elem: pool}} {
			d := sec
			if t.k == 'L' {
				d = vlCList(sec, sec)
			}
			c := vlKeyedCase(r, t, d, form)
			c.repeat = true
			c.labels = append([]string{"corpus", "decoy"}, c.labels...)
			vlRunCase(c, w)
		}
	}
}

// ---- (3) points in time

var (
	vlTZ  = &vlFty{k: 'Z'}
	vlTY  = &vlFty{k: 'Y'}
	vlTPZ = &vlFty{k: 'P', elem: vlTZ}
	vlTPY = &vlFty{k: 'P', elem: vlTY}
)

var vlTimeLayouts = []string{"2006-01-02", time.RFC3339, "20060102", "02/01/2006", "2006-01-02T15:04:05"}

// vlGenTimeCase: family (3).
func vlGenTimeCase(r *hx.Rng) *vlVcase {
	labels := []string{"time"}
	t := []*vlFty{vlTZ, vlTZ, vlTZ, vlTPZ, vlTPZ, vlTPZ, vlTY, vlTY, vlTPY}[r.Intn(9)]
	tm := time.Date(2000+r.Intn(38), time.Month(1+r.Intn(12)), 1+r.Intn(28), 0, 0, 0, 0, time.UTC)
	dateOnly := r.Bool()
	if !dateOnly {
		tm = tm.Add(time.Duration(r.Intn(86400)) * time.Second)
	}
	stamp := func() *vlCval {
		if dateOnly {
			return vlCStamp(tm.Format("2006-01-02"))
		}
		return vlCStamp(tm.Format("2006-01-02T15:04:05Z"))
	}
	layout := vlTimeLayouts[r.Intn(len(vlTimeLayouts))]
	key := vlGenKey(r)
	c := &vlVcase{kind: "Q", t: t, tags: [][]vlTnode{{vlTLit(key)}}}
	cfg := map[string]*vlCval{"kz": vlCStr("zz")}
	layoutArg := ""
	switch k := r.Intn(10); {
	case k < 3: // a YAML timestamp bound by prefix: yaml hands over a time.Time, no layout is involved
		cfg[key] = stamp()
		labels = append(labels, "stamp", "by-prefix")
	case k < 5: // a text in the layout the tag names, bound by prefix
		cfg[key] = vlCStr(tm.Format(layout))
		layoutArg = ",timeLayout=" + layout
		labels = append(labels, "text-layout", "by-prefix")
	case k < 6: // the same through a placeholder
		c.kind, c.tags = "E", [][]vlTnode{{vlTPH(key)}}
		cfg[key] = vlCStr(tm.Format(layout))
		layoutArg = ",timeLayout=" + layout
		labels = append(labels, "text-layout", "by-value")
	case k < 7: // a YAML timestamp through a placeholder: formatted as a JSON text, read back with the RFC 3339 layout
		c.kind, c.tags = "E", [][]vlTnode{{vlTPH(key)}}
		cfg[key] = stamp()
		layoutArg = ",timeLayout=" + time.RFC3339
		labels = append(labels, "stamp", "by-value")
	case k < 8: // a literal in the tag
		c.kind, c.tags = "E", [][]vlTnode{{vlTLit(tm.Format(layout))}}
		layoutArg = ",timeLayout=" + layout
		labels = append(labels, "text-layout", "literal")
	case k < 9: // nothing configured, the point is optional
		if r.Bool() {
			c.kind, c.tags = "E", [][]vlTnode{{vlTPH(key)}}
		}
		layoutArg = []string{"", ",timeLayout=" + layout}[r.Intn(2)] + ",required=false"
		labels = append(labels, "absent-optional")
	default: // a text and no layout / a text that is not of the layout
		if r.Bool() {
			cfg[key] = vlCStr(tm.Format(layout))
		} else {
			cfg[key] = vlCStr(vlGenPlainWord(r))
			layoutArg = ",timeLayout=" + layout
		}
		labels = append(labels, "unreadable")
	}
	val := ""
	switch r.Intn(6) {
	case 0, 1:
	case 2, 3:
		val = ",validate=required"
	case 4:
		val = ",validate"
	default:
		val = ",validate=" + []string{"omitempty", "gt", "required lt", "omitempty gt"}[r.Intn(4)]
	}
	if val != "" {
		labels = append(labels, "validate")
	}
	if r.Bool() {
		c.args = layoutArg + val
	} else {
		c.args = val + layoutArg
	}
	c.cfg = vlCMap(cfg)
	c.labels = append(labels, "type-"+t.code())
	c.dep = r.P(1, 10) // drawn last
	return c
}

// vlValueTimeCorpus: family (3) by hand.
func vlValueTimeCorpus(w *hx.Writer) {
	cfg := func() *vlCval {
		return vlCMap(map[string]*vlCval{"start": vlCStamp("2024-05-01"), "at": vlCStamp("2024-05-01T10:20:30Z"), "txt": vlCStr("2024-05-01"), "rfc": vlCStr("2024-05-01T10:20:30+02:00")})
	}
	mk := func(kind string, t *vlFty, tag vlTnode, args string) {
		vlRunCase(&vlVcase{kind: kind, t: t, cfg: cfg(), args: args, tags: [][]vlTnode{{tag}}, labels: []string{"corpus", "time"}}, w)
	}
	for _, t := range []*vlFty{vlTZ, vlTPZ, vlTY, vlTPY} {
		for _, val := range []string{"", ",validate=required", ",validate"} {
			mk("Q", t, vlTLit("start"), val)
			mk("Q", t, vlTLit("at"), val)
			mk("Q", t, vlTLit("txt"), ",timeLayout=2006-01-02"+val)
			mk("Q", t, vlTLit("txt"), val) // a text and no layout
			mk("E", t, vlTPH("rfc"), val+",timeLayout="+time.RFC3339)
			mk("E", t, vlTPH("at"), ",timeLayout="+time.RFC3339+val)
			mk("E", t, vlTLit("2024-05-01"), ",timeLayout=2006-01-02"+val)
			mk("Q", t, vlTLit("nope"), ",required=false"+val)
		}
	}
}

// ---------------------------------------------------------------- (eighth round) kind CP: fields that name their own prefix
//
// A field WITHOUT a prefix tag whose own value implements definition.ConfigurationProperties is bound to the subtree that
// its own Prefix() names (properties_aware_post_processors.go, ExtractHandler).  Prefix() is a method of the INSTANCE: one
// configuration type may serve several subtrees, the instance says which (`&dataSource{Name: "primary"}` → `cp.primary`).
//
//	CP g<n>[+p] <ty> <cfg> c(<shape>:<hexname>:<hexown>,…)
//
// g<n>   the Go-declared holder number n of vlCpHolders (methods cannot be attached to reflect.StructOf types); `+p` = the
//        members of every non-nil field hold non-zero defaults before Run
// ty     the members every field binds: T(host:S,port:I,opts:MS)
// per field of the holder, in order:
//   shape   pp  a non-nil pointer, Prefix has a pointer receiver     np  a nil pointer, pointer receiver
//           pv  a non-nil pointer, Prefix has a value receiver       vv  a value field, value receiver
//           vp  a value field, pointer receiver: the field's own value does not carry the method - the library does not
//               see it (observed on the unchanged library), the field must stay as it is: `unbound`
//           (nv, a nil pointer with a value receiver, kills the process on the unchanged library - DESIGN section 10 - and is
//           refused)
//   name    the state the instance holds before Run (its Name member)
//   own     what the field's OWN Prefix() answers before Run - the harness calls the method on the pre-populated value itself
//
// Next to the holder a second component (reflect.StructOf) has one TWIN per seen field: the same Go type, tagged
// `prefix:"<own>"`.  Observation: `ok <field>… | <twin>…`, `err`, `panic`.
//
// Oracles (C17: binding a subtree by prefix gives exactly its configured value; the same subtree bound through a prefix tag):
//   cprops-subtree  a seen field does not hold the configured value of the subtree its own Prefix() names (converted directly
//                   by the harness), start-up fails although every named subtree is configured, or a field whose subtree is
//                   NOT configured was bound all the same
//   cprops-twin     a seen field differs from its prefix-tagged twin
//   cprops-panic    the container panicked;  prefill-merged as for the other kinds

type vlCpDyn struct {
	Name string            `yaml:"-"`
	Host string            `yaml:"host"`
	Port int               `yaml:"port"`
	Opts map[string]string `yaml:"opts"`
}

// Prefix: the instance says which subtree it is bound to (pointer receiver; a nil pointer answers the default).
func (d *vlCpDyn) Prefix() string {
	if d == nil || d.Name == "" {
		return "cp.default"
	}
	return "cp." + d.Name
}

type vlCpDynV struct {
	Name string            `yaml:"-"`
	Host string            `yaml:"host"`
	Port int               `yaml:"port"`
	Opts map[string]string `yaml:"opts"`
}

// Prefix: the same with a value receiver.
func (d vlCpDynV) Prefix() string {
	if d.Name == "" {
		return "cp.default"
	}
	return "cp." + d.Name
}

// vlCpFix / vlCpFixV: the controls - a constant prefix, whatever the instance holds.
type vlCpFix struct {
	Name string            `yaml:"-"`
	Host string            `yaml:"host"`
	Port int               `yaml:"port"`
	Opts map[string]string `yaml:"opts"`
}

func (*vlCpFix) Prefix() string { return "cp.fixed" }

type vlCpFixV struct {
	Name string            `yaml:"-"`
	Host string            `yaml:"host"`
	Port int               `yaml:"port"`
	Opts map[string]string `yaml:"opts"`
}

func (vlCpFixV) Prefix() string { return "cp.fixedv" }

// vlCpHolder1: pointers to types whose Prefix has a pointer receiver.
type vlCpHolder1 struct {
	H0   *vlCpDyn
	H1   *vlCpDyn
	H2   *vlCpFix
	Note string
}

// vlCpHolder2: types whose Prefix has a value receiver, by value and by pointer.
type vlCpHolder2 struct {
	H0 vlCpDynV
	H1 *vlCpDynV
	H2 vlCpFixV
	H3 *vlCpFixV
}

// vlCpHolder3: mixed; H1 is a VALUE of a type whose Prefix has a pointer receiver.
type vlCpHolder3 struct {
	H0 *vlCpDynV
	H1 vlCpDyn
	H2 vlCpDynV
	H3 *vlCpDyn
}

// vlCpHolder4: one configuration type for four subtrees.
type vlCpHolder4 struct {
	H0 *vlCpDyn
	H1 *vlCpDyn
	H2 vlCpDynV
	H3 vlCpDynV
}

type vlCpSlot struct {
	ptr, ptrRecv, dyn bool
}

type vlCpKind struct {
	mk    func() any
	slots []vlCpSlot
}

var vlCpHolders = []vlCpKind{
	{func() any { return &vlCpHolder1{} }, []vlCpSlot{{true, true, true}, {true, true, true}, {true, true, false}}},
	{func() any { return &vlCpHolder2{} }, []vlCpSlot{{false, false, true}, {true, false, true}, {false, false, false}, {true, false, false}}},
	{func() any { return &vlCpHolder3{} }, []vlCpSlot{{true, false, true}, {false, true, true}, {false, false, true}, {true, true, true}}},
	{func() any { return &vlCpHolder4{} }, []vlCpSlot{{true, true, true}, {true, true, true}, {false, false, true}, {false, false, true}}},
}

var vlCpType = &vlFty{k: 'T', fields: []vlFfield{{"host", vlTS, ""}, {"port", vlTI, ""}, {"opts", vlTMS, ""}}}

type vlCpField struct {
	shape string // pp np pv vv vp
	name  string // the state of the instance before Run
	own   string // what its own Prefix() answers before Run
}

type vlCpCase struct {
	holder  int // 1-based index into vlCpHolders
	prefill bool
	cfg     *vlCval
	fields  []vlCpField
	labels  []string
}

// vlCpShapeOK: the shape is one the slot can have (and not the one that kills the process).
func vlCpShapeOK(s vlCpSlot, shape string) bool {
	switch shape {
	case "pp", "np":
		return s.ptr && s.ptrRecv
	case "pv":
		return s.ptr && !s.ptrRecv
	case "vv":
		return !s.ptr && !s.ptrRecv
	case "vp":
		return !s.ptr && s.ptrRecv
	}
	return false
}

func vlCpSeen(shape string) bool { return shape != "vp" }

func vlCpFieldsTok(fs []vlCpField) string {
	var p []string
	for _, f := range fs {
		p = append(p, f.shape+":"+hx.Hex(f.name)+":"+hx.Hex(f.own))
	}
	return "c(" + strings.Join(p, ",") + ")"
}

func vlParseCpFields(s string) ([]vlCpField, bool) {
	if !strings.HasPrefix(s, "c(") || !strings.HasSuffix(s, ")") {
		return nil, false
	}
	body := s[2 : len(s)-1]
	if body == "" {
		return nil, false
	}
	var fs []vlCpField
	for _, part := range strings.Split(body, ",") {
		q := strings.Split(part, ":")
		if len(q) != 3 {
			return nil, false
		}
		name, err1 := hx.UnHex(q[1])
		own, err2 := hx.UnHex(q[2])
		if err1 != nil || err2 != nil {
			return nil, false
		}
		fs = append(fs, vlCpField{q[0], name, own})
	}
	return fs, true
}

// vlCpMembers: the struct behind a field (nil pointer: invalid).
func vlCpMembers(f reflect.Value) reflect.Value {
	if f.Kind() == reflect.Pointer {
		if f.IsNil() {
			return reflect.Value{}
		}
		return f.Elem()
	}
	return f
}

// vlRenderCp: a field of one of the four types rendered as vlCpType (the state member is not a bound member).
func vlRenderCp(f reflect.Value) string {
	m := vlCpMembers(f)
	if !m.IsValid() {
		return "nil"
	}
	var p []string
	for _, mf := range vlCpType.fields {
		for i := 0; i < m.NumField(); i++ {
			if vlYamlName(m.Type().Field(i)) == mf.name {
				p = append(p, hx.Hex(mf.name)+":"+vlRender(m.Field(i)))
			}
		}
	}
	r := "(" + strings.Join(p, ",") + ")"
	if f.Kind() == reflect.Pointer {
		return "&" + r
	}
	return r
}

// vlCpOwnPrefix: what the field's own value answers - the method is called on the value the field holds, as Go's method
// sets allow it ("" when the value does not carry the method).
func vlCpOwnPrefix(f reflect.Value) (own string, seen bool) {
	if f.Kind() == reflect.Pointer && f.IsNil() && f.Type().Elem().Kind() == reflect.Struct {
		if _, has := f.Type().Elem().MethodByName("Prefix"); has {
			return "", false // a value receiver behind a nil pointer: cannot be asked
		}
	}
	if p, ok := f.Interface().(interface{ Prefix() string }); ok {
		return p.Prefix(), true
	}
	return "", false
}

// vlCpBuild: the holder with its fields in the states of the case; ok=false when the case does not fit the Go type.
func vlCpBuild(c *vlCpCase) (holder reflect.Value, ok bool) {
	if c.holder < 1 || c.holder > len(vlCpHolders) {
		return holder, false
	}
	kind := vlCpHolders[c.holder-1]
	if len(c.fields) != len(kind.slots) {
		return holder, false
	}
	holder = reflect.ValueOf(kind.mk())
	for i, f := range c.fields {
		if !vlCpShapeOK(kind.slots[i], f.shape) {
			return holder, false
		}
		fv := holder.Elem().Field(i)
		if f.shape == "np" {
			if f.name != "" {
				return holder, false
			}
		} else {
			if fv.Kind() == reflect.Pointer {
				fv.Set(reflect.New(fv.Type().Elem()))
			}
			m := vlCpMembers(fv)
			if c.prefill {
				vlPrefill(m)
			}
			m.FieldByName("Name").SetString(f.name)
		}
		own, seen := vlCpOwnPrefix(fv)
		if seen != vlCpSeen(f.shape) || own != f.own {
			return holder, false
		}
	}
	return holder, true
}

func vlCpTwinType(c *vlCpCase, holder reflect.Value) (reflect.Type, []int) {
	var fs []reflect.StructField
	var idx []int
	for i, f := range c.fields {
		if vlCpSeen(f.shape) {
			fs = append(fs, reflect.StructField{Name: fmt.Sprintf("X%d", i), Type: holder.Elem().Field(i).Type(), Tag: reflect.StructTag(vlStructTag("prefix", f.own))})
			idx = append(idx, i)
		}
	}
	return reflect.StructOf(fs), idx
}

func vlRunCP(c *vlCpCase, w *hx.Writer) {
	holder, ok := vlCpBuild(c)
	if !ok {
		return
	}
	doc := vlYamlDoc(c.cfg)
	prefill := c.prefill && vlPrefillSafe(doc, nil)
	if prefill != c.prefill {
		c.prefill = false
		holder, _ = vlCpBuild(c)
	}
	twinT, twinIdx := vlCpTwinType(c, holder)
	twin := reflect.New(twinT)
	before := make([]any, len(c.fields))
	for i, f := range c.fields {
		if !vlCpSeen(f.shape) {
			before[i] = holder.Elem().Field(i).Interface()
		}
	}
	var err error
	pan := hx.Guard(func() {
		a := app.NewApp()
		err = a.Run(app.LogLevel(syslog.LvPanic), app.SetConfigLoader(loader.NewRawLoader([]byte(doc))), app.SetComponents(holder.Interface(), twin.Interface()))
		a.Close()
	})
	outcome := "ok"
	switch {
	case pan != nil:
		outcome = "panic"
	case err != nil:
		outcome = "err"
	}
	obs := []string{outcome}
	fieldObs := make([]string, len(c.fields))
	twinObs := map[int]string{}
	remnant := false
	if outcome == "ok" {
		for i, f := range c.fields {
			fv := holder.Elem().Field(i)
			if !vlCpSeen(f.shape) && reflect.DeepEqual(before[i], fv.Interface()) {
				fieldObs[i] = "unbound"
			} else {
				fieldObs[i] = vlRenderCp(fv)
				remnant = remnant || (c.prefill && vlCpSeen(f.shape) && vlHasRemnant(fv))
			}
			obs = append(obs, fieldObs[i])
		}
		obs = append(obs, "|")
		for j, i := range twinIdx {
			twinObs[i] = vlRenderCp(twin.Elem().Field(j))
			obs = append(obs, twinObs[i])
		}
	}
	tok := fmt.Sprintf("g%d", c.holder)
	if c.prefill {
		tok += "+p"
	}
	scn := strings.Join([]string{"CP", tok, vlCpType.code(), c.cfg.tok(), vlCpFieldsTok(c.fields)}, " ")
	out := hx.Case{Scn: scn, Obs: strings.Join(obs, " "), Tags: append([]string{"cprops", fmt.Sprintf("cp-holder%d", c.holder)}, c.labels...)}
	if c.prefill {
		out.Tags = append(out.Tags, "prefill")
	}
	// ---- oracles: the harness's own reading of the document
	allConfigured := true
	wants := make([]string, len(c.fields))
	sure := make([]bool, len(c.fields))
	shapeSeen := map[string]bool{}
	for i, f := range c.fields {
		if !shapeSeen[f.shape] {
			shapeSeen[f.shape] = true
			out.Tags = append(out.Tags, "shape-"+f.shape)
		}
		if !vlCpSeen(f.shape) {
			continue
		}
		sub := vlGetPath(c.cfg, vlPathOf(f.own))
		if sub == nil || sub.k == 'z' {
			allConfigured = false
			continue
		}
		t := vlCpType
		if f.shape != "vv" {
			t = &vlFty{k: 'P', elem: vlCpType}
		}
		wants[i], sure[i] = vlExpectRender(sub, t)
	}
	switch {
	case outcome == "panic":
		out.Oracle = "FAIL cprops-panic the container panicked"
	case outcome == "err":
		if allConfigured {
			allSure := true
			for i, f := range c.fields {
				allSure = allSure && (sure[i] || !vlCpSeen(f.shape))
			}
			if allSure {
				out.Oracle = "FAIL cprops-subtree start-up failed although every subtree named by a field's own Prefix() is configured: " + vlCpFieldsTok(c.fields)
			}
		}
	default:
		for i, f := range c.fields {
			if !vlCpSeen(f.shape) || out.Oracle != "" {
				continue
			}
			sub := vlGetPath(c.cfg, vlPathOf(f.own))
			switch {
			case sub == nil || sub.k == 'z':
				out.Oracle = fmt.Sprintf("FAIL cprops-subtree field %d was bound (%s) although the subtree %q its own Prefix() names is not configured", i, fieldObs[i], f.own)
			case sure[i] && fieldObs[i] != wants[i]:
				out.Oracle = fmt.Sprintf("FAIL cprops-subtree field %d (%s, state %q) holds %s, the subtree %q its own Prefix() names is configured as %s", i, f.shape, f.name, fieldObs[i], f.own, wants[i])
			case fieldObs[i] != twinObs[i]:
				out.Oracle = fmt.Sprintf("FAIL cprops-twin field %d (%s, state %q) holds %s, its twin tagged prefix:%q holds %s", i, f.shape, f.name, fieldObs[i], f.own, twinObs[i])
			}
		}
		if remnant && out.Oracle == "" {
			out.Oracle = "FAIL prefill-merged a bound field still contains a piece of its default: " + strings.Join(obs, " ")
		}
	}
	w.Put(out)
}

func vlCPReplay(f []string, w *hx.Writer) {
	if len(f) != 5 {
		return
	}
	tok, flags, _ := strings.Cut(f[1], "+")
	if !strings.HasPrefix(tok, "g") || (flags != "" && flags != "p") {
		return
	}
	n, err := strconv.Atoi(tok[1:])
	if err != nil || f[2] != vlCpType.code() {
		return
	}
	cfg, rest, ok := vlParseCval(f[3])
	if !ok || rest != "" || cfg.k != 'm' {
		return
	}
	fields, ok := vlParseCpFields(f[4])
	if !ok {
		return
	}
	vlRunCP(&vlCpCase{holder: n, prefill: flags == "p", cfg: cfg, fields: fields, labels: []string{"replay"}}, w)
}

// vlCpCaseOf: the case whose fields are in the given states (shape + name); `own` is asked of the instances themselves.
func vlCpCaseOf(holder int, cfg *vlCval, prefill bool, states ...[2]string) *vlCpCase {
	c := &vlCpCase{holder: holder, cfg: cfg, prefill: prefill}
	kind := vlCpHolders[holder-1]
	h := reflect.ValueOf(kind.mk())
	for i, st := range states {
		fv := h.Elem().Field(i)
		if st[0] != "np" {
			if fv.Kind() == reflect.Pointer {
				fv.Set(reflect.New(fv.Type().Elem()))
			}
			vlCpMembers(fv).FieldByName("Name").SetString(st[1])
		}
		own, _ := vlCpOwnPrefix(fv)
		c.fields = append(c.fields, vlCpField{st[0], st[1], own})
	}
	return c
}

func vlCpSection(host string, port int64, opts map[string]*vlCval) *vlCval {
	kv := map[string]*vlCval{"host": vlCStr(host), "port": vlCInt(port)}
	if opts != nil {
		kv["opts"] = vlCMap(opts)
	}
	return vlCMap(kv)
}

// vlValueCPCorpus: the demo of the round-8 change and its neighbours.
func vlValueCPCorpus(w *hx.Writer) {
	cp := map[string]*vlCval{
		"default": vlCpSection("localhost", 5432, nil),
		"primary": vlCpSection("db1.internal", 6432, map[string]*vlCval{"sslmode": vlCStr("require"), "application_name": vlCStr("007")}),
		"replica": vlCpSection("db2.internal", 6433, map[string]*vlCval{"sslmode": vlCStr("disable")}),
		"fixed":   vlCpSection("fixed.internal", 1, nil),
		"fixedv":  vlCpSection("fixedv.internal", 2, map[string]*vlCval{"mode": vlCStr("TRUE")}),
		"eu":      vlCMap(map[string]*vlCval{"west": vlCpSection("1.10", 7000, nil)}),
	}
	cfg := vlCMap(map[string]*vlCval{"cp": vlCMap(cp), "kz": vlCStr("zz")})
	for _, pf := range []bool{false, true} {
		c := func(holder int, states ...[2]string) {
			cs := vlCpCaseOf(holder, cfg, pf, states...)
			cs.labels = []string{"corpus"}
			vlRunCP(cs, w)
		}
		c(1, [2]string{"pp", "primary"}, [2]string{"pp", "replica"}, [2]string{"np", ""})
		c(1, [2]string{"np", ""}, [2]string{"pp", ""}, [2]string{"pp", "primary"})
		c(1, [2]string{"pp", "eu.west"}, [2]string{"np", ""}, [2]string{"pp", ""})
		c(2, [2]string{"vv", "replica"}, [2]string{"pv", "primary"}, [2]string{"vv", "primary"}, [2]string{"pv", ""})
		c(2, [2]string{"vv", ""}, [2]string{"pv", ""}, [2]string{"vv", ""}, [2]string{"pv", "replica"})
		c(3, [2]string{"pv", "replica"}, [2]string{"vp", "primary"}, [2]string{"vv", "eu.west"}, [2]string{"pp", "primary"})
		c(3, [2]string{"pv", "primary"}, [2]string{"vp", ""}, [2]string{"vv", "primary"}, [2]string{"np", ""})
		c(4, [2]string{"pp", "primary"}, [2]string{"pp", "replica"}, [2]string{"vv", "eu.west"}, [2]string{"vv", ""})
		// a subtree that is not configured: start-up fails (the field is required)
		c(4, [2]string{"pp", "primary"}, [2]string{"pp", "nowhere"}, [2]string{"vv", "replica"}, [2]string{"vv", ""})
	}
}

// vlGenCP: a document with the sections cp.default, cp.fixed, cp.fixedv and two to four named ones (one of them one level
// deeper), all different; the fields of one of the Go-declared holders pre-populated with states that name them.
func vlGenCP(r *hx.Rng) *vlCpCase {
	used := map[string]bool{}
	word := func() string {
		for {
			w := strings.ToLower(vlGenPlainWord(r))
			if !used[w] && w != "default" && w != "fixed" && w != "fixedv" {
				used[w] = true
				return w
			}
		}
	}
	section := func() *vlCval {
		kv := map[string]*vlCval{}
		if !r.P(1, 10) {
			kv["host"] = vlCStr(vlGenStringClass(r, []string{"plain", "plain", "numberlike", "boollike", "quoted", "punct", "unicode"}[r.Intn(7)]))
		}
		if !r.P(1, 10) {
			kv["port"] = vlCInt(int64(1 + r.Intn(65535)))
		}
		if r.P(2, 3) {
			opts := map[string]*vlCval{}
			for i, n := 0, 1+r.Intn(3); i < n; i++ {
				opts[word()] = vlCStr(vlGenStringClass(r, []string{"plain", "numberlike", "boollike", "punct"}[r.Intn(4)]))
			}
			kv["opts"] = vlCMap(opts)
		}
		if r.P(1, 8) {
			kv[word()] = vlCInt(int64(r.Intn(100))) // a key no member reads
		}
		if len(kv) == 0 {
			kv["host"] = vlCStr(vlGenPlainWord(r))
		}
		return vlCMap(kv)
	}
	cp := map[string]*vlCval{"default": section(), "fixed": section(), "fixedv": section()}
	var names []string
	for i, n := 0, 2+r.Intn(3); i < n; i++ {
		nm := word()
		names = append(names, nm)
		cp[nm] = section()
	}
	if r.P(1, 2) { // a subtree one level deeper: the state is `region.zone`
		a, b := word(), word()
		cp[a] = vlCMap(map[string]*vlCval{b: section()})
		names = append(names, a+"."+b)
	}
	cfg := vlCMap(map[string]*vlCval{"cp": vlCMap(cp), "kz": vlCStr("zz")})
	holder := 1 + r.Intn(len(vlCpHolders))
	kind := vlCpHolders[holder-1]
	var states [][2]string
	pick := r.Perm(len(names))
	for i, s := range kind.slots {
		name := names[pick[i%len(pick)]]
		switch {
		case r.P(1, 8):
			name = "" // the instance names the default subtree
		case r.P(1, 14) && s.dyn:
			name = word() // a subtree that is not configured
		}
		shape := "vv"
		switch {
		case s.ptr && s.ptrRecv:
			shape = "pp"
			if r.P(1, 4) {
				shape, name = "np", ""
			}
		case s.ptr:
			shape = "pv"
		case s.ptrRecv:
			shape = "vp"
		}
		states = append(states, [2]string{shape, name})
	}
	c := vlCpCaseOf(holder, cfg, r.P(1, 4), states...)
	c.labels = []string{"cprops-gen"}
	return c
}

// ---------------------------------------------------------------- ninth round: the holder is itself a user post-processor
//
// A component that implements container.ComponentPostProcessor (by embedding processors.DefaultComponentPostProcessor or with
// methods of its own), is not LazyInit and carries no Ordered / PriorityOrdered marker is created by
// PostProcessorRegistrationDelegate.InvokeBeanFactoryPostProcessors, BEFORE Refresh creates the ordinary components, inside the
// loop that resolves the registered processors.  Its own `value` / `prefix` fields are configuration properties like anybody's:
// the expression must be evaluated after the placeholders inside it were substituted, the field receives the result, and a
// validate argument makes start-up fail exactly when the bound value violates it (C18 does not except post-processors).
// reflect.StructOf cannot give a type methods, so these holders are Go-declared (flag g<n>, numbers 9-16 of vlGoHolders: type and
// tag fixed by the table, the CONFIGURATION is generated); they are judged by the oracles of every other E / Q case
// (expr-result / validate-iff / bind-direct) and the model treats them like any holder (the flag is ignored).

// vlGoPP1: the quota processor of the demonstration (expression over two placeholders, constraint on the result).
type vlGoPP1 struct {
	H0 int `value:"#{${kb}*${kf}},validate=min=10"`
	processors.DefaultComponentPostProcessor
}

// vlGoPP2: methods of its own.
type vlGoPP2 struct {
	H0    string `value:"#{'${kn}'+'${kz}'},validate=required min=4"`
	calls int
}

func (p *vlGoPP2) PostProcessBeforeInitialization(component any, componentName string) (any, error) {
	p.calls++
	return component, nil
}

func (p *vlGoPP2) PostProcessAfterInitialization(component any, componentName string) (any, error) {
	return component, nil
}

// vlGoPP3: no expression: binding and validation alone.
type vlGoPP3 struct {
	H0 int `value:"${k},validate=min=1 max=100"`
	processors.DefaultComponentPostProcessor
	Seen []string
}

// vlGoPP4: a declared default.
type vlGoPP4 struct {
	H0 string `value:"${k:none},validate=alpha ne=blue"`
	processors.DefaultComponentPostProcessor
}

// vlGoPP5: a section bound by prefix and validated as a struct.
type vlGoPP5 struct {
	H0 vlGoSect `prefix:"k,validate"`
	processors.DefaultComponentPostProcessor
}

type vlGoPP6 struct {
	H0   float64 `value:"#{${k}/4},validate=lte=2.5"`
	Note string
}

func (p *vlGoPP6) PostProcessBeforeInitialization(component any, componentName string) (any, error) {
	return component, nil
}

func (p *vlGoPP6) PostProcessAfterInitialization(component any, componentName string) (any, error) {
	return component, nil
}

// vlGoPP7: no constraint: the expression's result alone.
type vlGoPP7 struct {
	H0 bool `value:"#{${ka} > ${kb} && ${kt}}"`
	processors.DefaultComponentPostProcessor
}

// vlGoPP8: the tagged field comes from an embedded mix-in (vlGoEmbC of holder 3).
type vlGoPP8 struct {
	vlGoEmbC
	processors.DefaultComponentPostProcessor
	Own string
}

const vlGoPPFirst, vlGoPPLast = 9, 16

// vlGenPPConfig: a configuration for the post-processor holder number n (1-based index of vlGoHolders): values on both sides
// of the constraint's boundary; now and then an operand is not configured at all.
func vlGenPPConfig(r *hx.Rng, n int) map[string]*vlCval {
	kv := map[string]*vlCval{"kz9": vlCStr("zz")}
	put := func(k string, v *vlCval) {
		if !r.P(1, 14) {
			kv[k] = v
		}
	}
	switch n {
	case 9:
		put("kb", vlCInt(int64(r.Intn(8))))
		put("kf", vlCInt(int64(r.Intn(7))))
	case 10:
		pick := func(short string) *vlCval {
			switch r.Intn(4) {
			case 0:
				return vlCStr("")
			case 1:
				return vlCStr(short)
			}
			return vlCStr(vlGenPlainWord(r))
		}
		kv["kn"], kv["kz"] = pick("a"), pick("bc")
	case 11:
		put("k", vlCInt([]int64{0, 1, 5, 50, 100, 101, 500, -3}[r.Intn(8)]))
	case 12:
		put("k", vlCStr([]string{"red", "green", "blue", "none", "Blue", "amber7"}[r.Intn(6)]))
	case 13:
		sec := map[string]*vlCval{}
		if !r.P(1, 6) {
			sec["port"] = vlCInt([]int64{0, 1, 80, 5432, 65535, 65536, 70000}[r.Intn(7)])
		}
		if !r.P(1, 4) {
			sec["name"] = vlCStr(vlGenPlainWord(r))
		}
		put("k", vlCMap(sec))
	case 14:
		put("k", vlCInt(int64(r.Intn(21))))
	case 15:
		put("ka", vlCInt(int64(r.Intn(6))))
		put("kb", vlCInt(int64(r.Intn(6))))
		put("kt", vlCBool(!r.P(1, 3)))
	default:
		put("k", vlCInt([]int64{0, 7, 21, 49, 50, 51, 70, 400}[r.Intn(8)]))
	}
	return kv
}

// vlGenPPHolderCase: a generated configuration on one of the post-processor holders.
func vlGenPPHolderCase(r *hx.Rng) *vlVcase {
	n := vlGoPPFirst + r.Intn(vlGoPPLast-vlGoPPFirst+1)
	c := vlGoCase(n, vlGenPPConfig(r, n))
	c.labels = []string{"pp-holder", fmt.Sprintf("pp-holder%d", n)}
	return c
}

// vlValuePPCorpus: the demonstration's two starts and one satisfied / one violated configuration per holder.
func vlValuePPCorpus(w *hx.Writer) {
	mk := func(n int, cfg map[string]*vlCval) {
		c := vlGoCase(n, cfg)
		c.labels = []string{"corpus", "pp-holder"}
		vlRunCase(c, w)
	}
	mk(9, map[string]*vlCval{"kb": vlCInt(4), "kf": vlCInt(5)})
	mk(9, map[string]*vlCval{"kb": vlCInt(2), "kf": vlCInt(3)})
	mk(10, map[string]*vlCval{"kn": vlCStr("gold"), "kz": vlCStr("eu")})
	mk(11, map[string]*vlCval{"k": vlCInt(5)})
	mk(11, map[string]*vlCval{"k": vlCInt(500)})
	mk(12, map[string]*vlCval{"k": vlCStr("green")})
	mk(12, map[string]*vlCval{"k": vlCStr("blue")})
	mk(12, map[string]*vlCval{"kz9": vlCStr("zz")})
	mk(13, map[string]*vlCval{"k": vlCMap(map[string]*vlCval{"port": vlCInt(5432), "name": vlCStr("db")})})
	mk(13, map[string]*vlCval{"k": vlCMap(map[string]*vlCval{"port": vlCInt(70000), "name": vlCStr("db")})})
	mk(14, map[string]*vlCval{"k": vlCInt(9)})
	mk(14, map[string]*vlCval{"k": vlCInt(12)})
	mk(15, map[string]*vlCval{"ka": vlCInt(3), "kb": vlCInt(2), "kt": vlCBool(true)})
	mk(16, map[string]*vlCval{"k": vlCInt(21)})
	mk(16, map[string]*vlCval{"k": vlCInt(70)})
}

// ---------------------------------------------------------------- ninth round: a placeholder INSIDE an expression, populated twice (kind R3)
//
// holder struct{ V T `value:"#{…${k}…}"`; P T `prop:"k"`; X T `prefix:"k"` } where the expression is the IDENTITY on what the
// placeholder delivers (`#{${k}}`, `#{${k}+0}`, `#{${k}*${ku}}` with ku = 1, `#{'${k}'}` for a plain word, `#{${k} && true}`):
// the key bound through the value placeholder gives the same result as binding it by prefix (C17) — the expression adds nothing —,
// also on the SECOND population of the same tag text after app.Set(k, v2): the text that is evaluated is the tag after
// substitution under the CURRENT configuration, not the tag as written.  Values: integers |i| < 2^31, booleans, plain words
// (letters and digits starting with a letter: outside every lossy class of the value path and of the expression's own
// formatting).  Oracles of every R3 history: V = P = X = the current document value (repopulate-stale when V still shows the
// first configuration's value).

// vlIdentityExpr: an expression tag over ${key} whose result is the placeholder's value; more = further keys it needs.
func vlIdentityExpr(r *hx.Rng, key string, kind byte) (tree []vlTnode, more map[string]*vlCval) {
	ph := vlTPH(key)
	switch kind {
	case 'i':
		switch r.Intn(6) {
		case 0:
			return []vlTnode{vlTExpr(ph, vlTLit("+0"))}, nil
		case 1:
			return []vlTnode{vlTExpr(ph, vlTLit("*"), vlTPH("ku"))}, map[string]*vlCval{"ku": vlCInt(1)}
		case 2:
			return []vlTnode{vlTExpr(vlTLit("("), ph, vlTLit(")"))}, nil
		case 3:
			return []vlTnode{vlTExpr(ph, vlTLit(" - "), vlTPHD("koff", "0"))}, nil
		}
	case 'b':
		if r.Bool() {
			return []vlTnode{vlTExpr(ph, vlTLit(" && true"))}, nil
		}
	case 's':
		if r.Bool() {
			return []vlTnode{vlTExpr(vlTLit("'"), ph, vlTLit("' + ''"))}, nil
		}
		return []vlTnode{vlTExpr(vlTLit("'"), ph, vlTLit("'"))}, nil
	}
	return []vlTnode{vlTExpr(ph)}, nil
}

// vlGenC17ExprRetry: see above.
func vlGenC17ExprRetry(r *hx.Rng) *vlVcase {
	var t *vlFty
	var v1, v2 *vlCval
	kind := byte('i')
	switch r.Intn(8) {
	case 0, 1, 2:
		t = []*vlFty{vlTI, vlTJ, vlTPI, vlTA, vlTD, vlTS}[r.Intn(6)]
		a, b := int64(r.Intn(200)), int64(r.Intn(100000))
		if r.P(1, 4) {
			a = -a - 1
		}
		if a == b {
			b++
		}
		v1, v2 = vlCInt(a), vlCInt(b)
	case 3, 4:
		t = vlTI
		if r.Bool() {
			t = vlTJ
		}
		a := int64(1 + r.Intn(40))
		v1, v2 = vlCInt(a), vlCInt(a*int64(2+r.Intn(5))) // cluster sizes: the second a multiple of the first
	case 5:
		kind, t = 'b', vlTB
		b := r.Bool()
		v1, v2 = vlCBool(b), vlCBool(!b)
	default:
		kind, t = 's', vlTS
		if r.P(1, 4) {
			t = vlTPS
		}
		w1, w2 := "g"+vlGenPlainWord(r), "h"+vlGenPlainWord(r)
		v1, v2 = vlCStr(w1), vlCStr(w2)
	}
	key := vlGenKey(r)
	tree, more := vlIdentityExpr(r, key, kind)
	kv := map[string]*vlCval{"kz": vlCStr("zz"), key: v1}
	for k, v := range more {
		kv[k] = v
	}
	set := map[string]*vlCval{key: v2}
	c := &vlVcase{kind: "R3", t: t, subject: v2, tags: [][]vlTnode{tree, {vlTLit(key)}, {vlTLit(key)}}}
	c.gate = vlGenGate(r, false)
	if c.gate == "a0" || c.gate == "a1" {
		set[vlGateKey] = vlCInt(1)
	}
	c.cfg, c.set = vlCMap(kv), vlCMap(set)
	c.labels = []string{"retry", "expr-identity", "type-" + string(t.k), "gate-" + c.gate}
	return c
}

// vlValueExprRetryCorpus: the cluster of the demonstration — `#{${size}*${unit}}` with unit 1 next to the size bound by the
// shorthand and by prefix, the size changed from 2 to 5 between the two populations; a pool name inside quotes.
func vlValueExprRetryCorpus(w *hx.Writer) {
	for _, gate := range []string{"a0", "a1", "w"} {
		set := map[string]*vlCval{"size": vlCInt(5)}
		setN := map[string]*vlCval{"name": vlCStr("green")}
		if gate != "w" {
			set[vlGateKey], setN[vlGateKey] = vlCInt(1), vlCInt(1)
		}
		vlRunCase(&vlVcase{kind: "R3", t: vlTI, gate: gate, subject: vlCInt(5),
			cfg: vlCMap(map[string]*vlCval{"size": vlCInt(2), "unit": vlCInt(1)}), set: vlCMap(set),
			tags:   [][]vlTnode{{vlTExpr(vlTPH("size"), vlTLit("*"), vlTPH("unit"))}, {vlTLit("size")}, {vlTLit("size")}},
			labels: []string{"corpus", "retry", "expr-identity", "gate-" + gate}}, w)
		vlRunCase(&vlVcase{kind: "R3", t: vlTS, gate: gate, subject: vlCStr("green"),
			cfg: vlCMap(map[string]*vlCval{"name": vlCStr("blue")}), set: vlCMap(setN),
			tags:   [][]vlTnode{{vlTExpr(vlTLit("'"), vlTPH("name"), vlTLit("'"))}, {vlTLit("name")}, {vlTLit("name")}},
			labels: []string{"corpus", "retry", "expr-identity", "gate-" + gate}}, w)
	}
}
